#!/bin/sh
# every stored seeded change against the quick check of its property (run from a snapshot: vp run -- ./tools_recheck_seeds.sh)
here=$(pwd)
(cd lean && lake build Treepath tpdriver >/dev/null 2>&1)
# SHARD=k/N: only every N-th entry, starting at k (several shards can run side by side)
n=0; sk=${SHARD%%/*}; sn=${SHARD##*/}
for d in seeded/C*-* seeded/reverts/*.diff; do
  n=$((n+1)); [ -n "$SHARD" ] && [ $((n % sn)) -ne $((sk % sn)) ] && continue
  if [ -d "$d" ]; then id=$(basename $d); p=${id%%-*}; patch="$here/$d/patch.diff"
  else id=$(basename $d .diff); patch="$here/$d"
    case "$id" in F1-*) p=C07;; F2-*) p=C13;; F3-*) p=C08;; F4-*) p=C14;; F5-*) p=C18;; F6-*) p=C16;; *) continue;; esac; fi
  wt=$(mktemp -d /tmp/seedwt.XXXXXX); rmdir "$wt"
  git -C /repo worktree add -q "$wt" HEAD || exit 3
  if git -C "$wt" apply "$patch"; then
    out=$(VERIF_REPO="$wt" ./check "$p" --tier quick 2>&1); rc=$?
    if [ $rc -eq 1 ] && echo "$out" | grep -q "^VIOLATION"; then
      if echo "$out" | grep "^VIOLATION" | grep -qv "no-failing-input-found"; then echo "$id detected"; else echo "$id detected (no failing input)"; fi
    else echo "$id MISSED (exit $rc): $(echo "$out" | tail -1)"; fi
  else echo "$id APPLY FAILED"; fi
  git -C /repo worktree remove --force "$wt"
done
