#!/bin/sh
# usage: tools_verify_seed.sh <seed-dir> <worktree>   : confirm tests pass + demo fails with patch, demo passes without
d="$1"; wt="$2"
git -C "$wt" checkout -q -- . ; git -C "$wt" clean -fdq
git -C "$wt" apply "$d/patch.diff" || { echo "$d APPLY-FAILED"; exit 3; }
t=$(cd "$wt" && /venv/bin/python -m pytest -q -p no:cacheprovider 2>&1 | tail -1)
PYTHONPATH="$wt/src" timeout 300 /venv/bin/python "$d/demo.py" >/dev/null 2>&1; with=$?
git -C "$wt" checkout -q -- . ; git -C "$wt" clean -fdq
PYTHONPATH="$wt/src" timeout 300 /venv/bin/python "$d/demo.py" >/dev/null 2>&1; without=$?
echo "$(basename $d): tests[$t] demo-with-patch=$with demo-clean=$without"
