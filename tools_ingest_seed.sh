#!/bin/sh
# usage: tools_ingest_seed.sh <outdir> <worktree-prefix> <id> [k...] : verify <outdir>/<id>-k in <worktree-prefix><id>, copy into seeded/, try the check
out="$1"; wtp="$2"; id="$3"; shift 3
ks="${@:-3 4}"
for k in $ks; do
  d=$out/$id-$k
  [ -f "$d/patch.diff" ] || { echo "$id-$k missing"; continue; }
  ./tools_verify_seed.sh "$d" $wtp$id
  mkdir -p seeded/$id-$k
  cp "$d/patch.diff" "$d/demo.py" seeded/$id-$k/
  [ -f "$d/notes.md" ] && cp "$d/notes.md" seeded/$id-$k/
  ./tools_try_seed.sh /verif/seeded/$id-$k/patch.diff $id
done
