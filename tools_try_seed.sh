#!/bin/sh
# usage: tools_try_seed.sh <patch.diff> <property>...
# applies a seeded change to a scratch worktree of /repo (so that /repo itself and any
# background sweep reading it stay clean), runs the quick checks against it, removes it.
patch="$1"; shift
wt=$(mktemp -d /tmp/seedwt.XXXXXX)
rmdir "$wt"
git -C /repo worktree add -q "$wt" HEAD || exit 3
git -C "$wt" apply "$patch" || { echo "APPLY FAILED"; git -C /repo worktree remove --force "$wt"; exit 3; }
for p in "$@"; do
  out=$(cd /verif && VERIF_REPO="$wt" ./check "$p" --tier quick 2>&1)
  echo "$out" | grep -E "^(VIOLATION|INFRA)" | head -3
  echo "$out" | tail -1
done
git -C /repo worktree remove --force "$wt"
# the generated facts are rewritten from /repo by the next ordinary run
