#!/bin/sh
# usage: tools_try_seed.sh <patch.diff> <property>...   : apply a seeded change to /repo, run quick checks, undo
patch="$1"; shift
git -C /repo apply "$patch" || { echo "APPLY FAILED"; exit 3; }
for p in "$@"; do
  out=$(cd /verif && ./check "$p" --tier quick 2>&1)
  echo "$out" | grep -E "^(VIOLATION|KNOWN-FINDING|INFRA)" | head -3
  echo "$out" | tail -1
done
git -C /repo checkout -- .
