#!/bin/sh
# usage: tools_ingest_seed3.sh <id> : verify /tmp/seedout3/<id>-{3,4} in /tmp/wt3-<id>, try the check, copy into seeded/
id="$1"
for k in 3 4; do
  d=/tmp/seedout3/$id-$k
  [ -f "$d/patch.diff" ] || { echo "$id-$k missing"; continue; }
  ./tools_verify_seed.sh "$d" /tmp/wt3-$id
  mkdir -p seeded/$id-$k
  cp "$d/patch.diff" "$d/demo.py" seeded/$id-$k/
  [ -f "$d/notes.md" ] && cp "$d/notes.md" seeded/$id-$k/
  ./tools_try_seed.sh /verif/seeded/$id-$k/patch.diff $id
done
