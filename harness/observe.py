"""Runs scenarios against the real library (imported from /repo/src of the working tree) and
renders what it observes in the canonical form the Lean driver prints."""
import itertools

from treepath import (find, find_matches, get, get_match, TreepathException)
from codec import Builder, dec, enc, exc_chain, node_full


def vertex_index(vertex):
    return len(vertex.path_as_list) - 1


def make_trace(log):
    def trace(t):
        nm = t.next_match
        pm = t.predicate_match
        log.append(["T", t.last_match.path_as_str, vertex_index(t.next_vertex),
                    [nm.path_as_str, nm.data_name] if nm is not None else None,
                    pm.path_as_str if pm is not None else None])

    return trace


def observe_query(sc, traced=True):
    """returns the list of per-call records [{e: events, s: signal}]"""
    doc = dec(sc["doc"])
    log = []
    b = Builder(log)
    expr = b.steps(sc["path"])
    src = doc
    if sc.get("src"):
        sb = Builder([])
        sexpr = sb.steps(sc["src"]["path"])
        k = sc["src"]["k"]
        ms = list(itertools.islice(find_matches(sexpr, doc), k + 1))
        if len(ms) <= k:
            return "nosrc"
        src = ms[k]
    traced = traced and sc.get("traced", True)
    trace = make_trace(log) if traced else None
    b.tracer = trace
    api = sc["api"]
    out = []
    if api in ("find_matches", "find"):
        fn = find_matches if api == "find_matches" else find
        del log[:]
        it = fn(expr, src, trace=trace)
        if log:
            # something observable happened before the first next(): not lazy
            out.append({"e": list(log), "s": ["C"]})
        for _ in range(sc.get("nexts", 1)):
            del log[:]
            try:
                r = next(it)
                sig = ["R", node_full(r)] if api == "find_matches" else ["V", enc(r)]
            except StopIteration:
                sig = ["S"]
            except Exception as e:  # noqa
                sig = ["X", exc_chain(e)]
            out.append({"e": list(log), "s": sig})
        return out
    del log[:]
    try:
        if api == "get_match":
            r = get_match(expr, src, must_match=sc.get("must_match", True), trace=trace)
            sig = ["N"] if r is None else ["R", node_full(r)]
        else:
            d = sc.get("default")
            if d is None:
                r = get(expr, src, trace=trace)
            elif d[0] == "const":
                r = get(expr, src, default=dec(d[1]), trace=trace)
            else:
                val = dec(d[1])

                def dflt():
                    log.append(["DC"])
                    return val

                r = get(expr, src, default=dflt, trace=trace)
            sig = ["V", enc(r)]
    except Exception as e:  # noqa
        sig = ["X", exc_chain(e)]
    return [{"e": list(log), "s": sig}]
