"""Runs scenarios against the real library (imported from /repo/src of the working tree) and
renders what it observes in the canonical form the Lean driver prints."""
import itertools
import json

from treepath import (find, find_matches, get, get_match, TreepathException)
from codec import Builder, dec, enc, exc_chain, node_full


def vertex_index(vertex):
    return len(vertex.path_as_list) - 1


def make_trace(log):
    def trace(t):
        nm = t.next_match
        pm = t.predicate_match
        log.append(["T", t.last_match.path_as_str, vertex_index(t.next_vertex),
                    [nm.path_as_str, nm.data_name] if nm is not None else None,
                    pm.path_as_str if pm is not None else None])

    return trace


def observe_query(sc, traced=True):
    """returns the list of per-call records [{e: events, s: signal}]"""
    doc = dec(sc["doc"])
    log = []
    b = Builder(log)
    expr = b.steps(sc["path"])
    src = doc
    if sc.get("src"):
        sb = Builder([])
        sexpr = sb.steps(sc["src"]["path"])
        k = sc["src"]["k"]
        ms = list(itertools.islice(find_matches(sexpr, doc), k + 1))
        if len(ms) <= k:
            return "nosrc"
        src = ms[k]
    traced = traced and sc.get("traced", True)
    trace = make_trace(log) if traced else None
    b.tracer = trace
    api = sc["api"]
    out = []
    if api in ("find_matches", "find"):
        fn = find_matches if api == "find_matches" else find
        del log[:]
        it = fn(expr, src, trace=trace)
        if log:
            # something observable happened before the first next(): not lazy
            out.append({"e": list(log), "s": ["C"]})
        for _ in range(sc.get("nexts", 1)):
            del log[:]
            try:
                r = next(it)
                sig = ["R", node_full(r)] if api == "find_matches" else ["V", enc(r)]
            except StopIteration:
                sig = ["S"]
            except Exception as e:  # noqa
                sig = ["X", exc_chain(e)]
            out.append({"e": list(log), "s": sig})
        return out
    del log[:]
    try:
        if api == "get_match":
            r = get_match(expr, src, must_match=sc.get("must_match", True), trace=trace)
            sig = ["N"] if r is None else ["R", node_full(r)]
        else:
            d = sc.get("default")
            if d is None:
                r = get(expr, src, trace=trace)
            elif d[0] == "const":
                r = get(expr, src, default=dec(d[1]), trace=trace)
            else:
                val = dec(d[1])

                def dflt():
                    log.append(["DC"])
                    return val

                r = get(expr, src, default=dflt, trace=trace)
            sig = ["V", enc(r)]
    except Exception as e:  # noqa
        sig = ["X", exc_chain(e)]
    return [{"e": list(log), "s": sig}]


# ---------------------------------------------------------------- mutate family

class Numbering:
    """canonical object numbers: first-visit order over the whole history"""

    def __init__(self):
        self.reg = {}
        self.keep = []

    def dump(self, v, seen=None):
        """`seen`: objects already printed in this dump (printed once, then referenced)"""
        if seen is None:
            seen = set()
        if isinstance(v, (dict, list)):
            if id(v) not in self.reg:
                self.reg[id(v)] = len(self.reg)
                self.keep.append(v)
            n = self.reg[id(v)]
            if id(v) in seen:
                return ["r", n]
            seen.add(id(v))
            if isinstance(v, dict):
                return ["o", n, [[k, self.dump(x, seen)] for k, x in list(v.items())]]
            return ["a", n, [self.dump(x, seen) for x in list(v)]]
        return enc(v)


def _lookup(doc, names):
    cur = doc
    for nm in names:
        try:
            if isinstance(cur, dict) and isinstance(nm, str):
                cur = cur[nm]
            elif isinstance(cur, list) and isinstance(nm, int) and not isinstance(nm, bool):
                cur = cur[nm]
            else:
                return None
        except (KeyError, IndexError):
            return None
    return cur


def observe_mutate(sc):
    from treepath import set_, set_match, pop, pop_match
    doc = dec(sc["doc"])
    num = Numbering()
    handles = {}
    out = [{"r": ["init"], "g": num.dump(doc)}]

    def val(vs):
        if vs[0] == "new":
            return dec(vs[1])
        return _lookup(doc, vs[1])

    def fin(tag, pre, v, has_v=True):
        seen = set()
        g = num.dump(doc, seen)
        r = [tag] + pre + ([num.dump(v, seen)] if has_v else [])
        out.append({"r": r, "g": g})

    def err(e):
        g = num.dump(doc)
        out.append({"r": ["err", exc_chain(e)], "g": g})

    b = Builder([])
    built = {}
    _steps = b.steps

    def cached_steps(steps, p=None, depth=0):
        if p is not None or depth != 0:
            return _steps(steps, p, depth)
        key = json.dumps(steps)
        if key not in built:
            built[key] = _steps(steps)
        return built[key]

    b.steps = cached_steps
    for op in sc["ops"]:
        k = op[0]
        try:
            if k == "set":
                r = set_(b.steps(op[1]), val(op[2]), doc, cascade=op[3])
                fin("ok", [], r)
            elif k == "set_match":
                m = set_match(b.steps(op[1]), val(op[2]), doc, cascade=op[3])
                fin("match", [m.path_as_str, m.data_name], m.data)
            elif k == "pop":
                if op[2][0] == "none":
                    r = pop(b.steps(op[1]), doc)
                else:
                    r = pop(b.steps(op[1]), doc, default=val(op[2][1]))
                fin("ok", [], r)
            elif k == "pop_match":
                m = pop_match(b.steps(op[1]), doc, must_match=op[2])
                if m is None:
                    fin("none", [], None, False)
                else:
                    fin("match", [m.path_as_str, m.data_name], m.data)
            elif k == "get_sd":
                r = get(b.steps(op[1]), doc, default=val(op[2]), store_default=True)
                fin("ok", [], r)
            elif k == "h.new":
                ms = list(itertools.islice(find_matches(b.steps(op[2]), doc), op[3] + 1))
                m = ms[op[3]] if len(ms) > op[3] else None
                if m is not None and m.parent is not None:
                    handles[op[1]] = m
                    fin("h", [m.path_as_str], None, False)
                else:
                    handles.pop(op[1], None)
                    fin("none", [], None, False)
            elif k.startswith("h."):
                m = handles.get(op[1])
                if m is None:
                    fin("nohandle", [], None, False)
                elif k == "h.assign":
                    m.data = val(op[2])
                    fin("ok", [], None, False)
                elif k == "h.del":
                    del m.data
                    fin("ok", [], None, False)
                elif k == "h.pop":
                    if op[2][0] == "none":
                        r = m.pop()
                    else:
                        r = m.pop(val(op[2][1]))
                    fin("ok", [], r)
                elif k == "h.data":
                    fin("ok", [], m.data)
            else:
                raise ValueError(f"bad op {op!r}")
        except Exception as e:  # noqa
            err(e)
    return out
