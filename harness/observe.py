"""Runs scenarios against the real library (imported from /repo/src of the working tree) and
renders what it observes in the canonical form the Lean driver prints."""
import copy
import itertools
import json

from treepath import (find, find_matches, get, get_match, TreepathException)
from codec import Builder, dec, enc, exc_chain, node_full


class HarnessTimeout(BaseException):
    """the library did not answer one scenario within the wall-clock limit"""


def deadline(seconds_env, default, on_timeout):
    """run the observer under a CPU-time limit (ITIMER_VIRTUAL / SIGVTALRM in the process's main
    thread; the library is pure Python, so the handler runs between two byte codes and a hang
    burns CPU).  Scenarios are tiny: the unchanged library answers each in milliseconds."""
    import functools
    import os
    import signal
    import threading

    def deco(fn):
        @functools.wraps(fn)
        def w(*a, **kw):
            secs = float(os.environ.get(seconds_env, default))
            if secs <= 0 or threading.current_thread() is not threading.main_thread():
                return fn(*a, **kw)

            def onalarm(signum, frame):
                raise HarnessTimeout()

            # CPU time of this process, not wall time: a busy machine must not turn into an alarm
            old = signal.signal(signal.SIGVTALRM, onalarm)
            signal.setitimer(signal.ITIMER_VIRTUAL, secs)
            try:
                return fn(*a, **kw)
            except HarnessTimeout:
                return on_timeout(*a, **kw)
            finally:
                signal.setitimer(signal.ITIMER_VIRTUAL, 0)
                signal.signal(signal.SIGVTALRM, old)

        return w

    return deco


def vertex_index(vertex):
    return len(vertex.path_as_list) - 1


def _render_trace(t):
    nm = t.next_match
    pm = t.predicate_match
    return ["T", t.last_match.path_as_str, vertex_index(t.next_vertex),
            [nm.path_as_str, nm.data_name] if nm is not None else None,
            pm.path_as_str if pm is not None else None]


def make_trace(log):
    """the callback logs every event as delivered and also *keeps* the event object, as an
    observer collecting events would; `flush()` (called when a next() returns) re-reads the kept
    objects: an event that no longer says what it said when it was delivered is logged as the
    collector sees it"""
    kept = []

    filed = {}

    def trace(t):
        entry = _render_trace(t)
        log.append(entry)
        kept.append((entry, t))
        # an observer may file the events it is given (an event is hashable, like any plain object), and what a
        # trace callable returns (a count, the result of stream.write) is of no concern to the search
        filed[t] = len(filed)
        return len(kept)

    def flush():
        for entry, t in kept:
            try:
                now = _render_trace(t)
            except Exception as e:  # noqa
                now = ["T", "unreadable:" + type(e).__name__, -1, None, None]
            if now != entry:
                entry[:] = now
        del kept[:]

    trace.flush = flush
    return trace


def _flush(trace):
    if trace is not None:
        trace.flush()


def apply_share(doc, share):
    """make the container at share[1] the very object at share[0] (equal sub-trees by construction)"""
    if not share:
        return doc
    try:
        a, b = share
        src = doc
        for nm in a:
            src = src[nm]
        host = doc
        for nm in b[:-1]:
            host = host[nm]
        if enc(host[b[-1]]) == enc(src):        # (a shrunk scenario may have lost the twin)
            host[b[-1]] = src
    except (KeyError, IndexError, TypeError):
        pass
    return doc


@deadline("VERIF_OBS_TIMEOUT", 10, lambda sc, traced=True: [{"e": [], "s": ["X", ["HarnessTimeout"]]}])
def observe_query(sc, traced=True):
    """returns the list of per-call records [{e: events, s: signal}]"""
    doc = apply_share(dec(sc["doc"]), sc.get("share"))
    log = []
    b = Builder(log)
    expr = b.steps(sc["path"])
    src = doc
    if sc.get("src"):
        sb = Builder([])
        sexpr = sb.steps(sc["src"]["path"])
        k = sc["src"]["k"]
        outer = find_matches(sexpr, doc)          # kept alive: the outer search stays suspended
        ms = list(itertools.islice(outer, k + 1))
        if len(ms) <= k:
            return "nosrc"
        src = ms[k]
        for _ in range(sc["src"].get("up", 0)):
            src = src.parent
            if src is None:
                return "nosrc"
    use_log_to = traced == "log_to"
    traced = traced and sc.get("traced", True)
    trace = make_trace(log) if traced else None
    if use_log_to:
        from treepath import log_to
        sink = []
        trace = log_to(sink.append)
        trace.flush = lambda: None
    b.tracer = trace
    api = sc["api"]
    out = []
    direct = src is not doc and (len(json.dumps(sc["path"])) + len(sc["doc"] if isinstance(sc["doc"], str) else json.dumps(sc["doc"]))) % 3 == 0
    if api in ("find_matches", "find"):
        fn = find_matches if api == "find_matches" else find
        if direct and api == "find_matches":
            from treepath import nested_find_matches as fn      # the exported nested variant, called directly
        del log[:]
        it = fn(expr, src, trace=trace)
        if log:
            # something observable happened before the first next(): not lazy
            out.append({"e": list(log), "s": ["C"]})
        for i in range(sc.get("nexts", 1)):
            del log[:]
            if sc.get("reiter_at") == i:
                it = iter(it)       # MatchTraverser.__iter__: starts the search over
            try:
                r = next(it)
                sig = ["R", node_full(r)] if api == "find_matches" else ["V", enc(r)]
            except StopIteration:
                sig = ["S"]
            except Exception as e:  # noqa
                sig = ["X", exc_chain(e)]
            _flush(trace)
            out.append({"e": list(log), "s": sig})
        return out
    del log[:]
    try:
        if api == "get_match":
            gm = get_match
            if direct:
                from treepath import nested_get_match as gm      # the exported nested variant, called directly
            r = gm(expr, src, must_match=sc.get("must_match", True), trace=trace)
            sig = ["N"] if r is None else ["R", node_full(r)]
        else:
            d = sc.get("default")
            if d is None:
                r = get(expr, src, trace=trace)
            elif d[0] == "const":
                r = get(expr, src, default=dec(d[1]), trace=trace)
            else:
                val = dec(d[1])

                def dflt():
                    log.append(["DC"])
                    return val

                r = get(expr, src, default=dflt, trace=trace)
            sig = ["V", enc(r)]
    except Exception as e:  # noqa
        sig = ["X", exc_chain(e)]
    _flush(trace)
    return [{"e": list(log), "s": sig}]


# ---------------------------------------------------------------- mutate family

class Numbering:
    """canonical object numbers: first-visit order over the whole history"""

    def __init__(self):
        self.reg = {}
        self.keep = []

    def dump(self, v, seen=None):
        """`seen`: objects already printed in this dump (printed once, then referenced)"""
        if seen is None:
            seen = set()
        if isinstance(v, (dict, list)):
            if id(v) not in self.reg:
                self.reg[id(v)] = len(self.reg)
                self.keep.append(v)
            n = self.reg[id(v)]
            if id(v) in seen:
                return ["r", n]
            seen.add(id(v))
            if isinstance(v, dict):
                return ["o", n, [[k, self.dump(x, seen)] for k, x in list(v.items())]]
            return ["a", n, [self.dump(x, seen) for x in list(v)]]
        return enc(v)


def _lookup(doc, names):
    cur = doc
    for nm in names:
        try:
            if isinstance(cur, dict) and isinstance(nm, str):
                cur = cur[nm]
            elif isinstance(cur, list) and isinstance(nm, int) and not isinstance(nm, bool):
                cur = cur[nm]
            else:
                return None
        except (KeyError, IndexError):
            return None
    return cur


def _default_fn():
    return "called"


def final_doc(sc):
    """the document after the history (used by the generators to keep aiming at what exists)"""
    box = {}
    observe_mutate(sc, box)
    return box.get("doc")


@deadline("VERIF_OBS_TIMEOUT", 10, lambda sc, _box=None: [{"r": ["err", ["HarnessTimeout"]], "g": None}])
class _ODict(dict):
    """a dict subclass, as json.loads(..., object_pairs_hook=OrderedDict) or a user's own loader produce"""
    __slots__ = ()


class _OList(list):
    __slots__ = ()


def _subclassed(v):
    if isinstance(v, dict):
        return _ODict((k, _subclassed(x)) for k, x in v.items())
    if isinstance(v, list):
        return _OList(_subclassed(x) for x in v)
    return v


def observe_mutate(sc, _box=None):
    from treepath import set_, set_match, pop, pop_match
    doc = dec(sc["doc"])
    if len(json.dumps(sc["doc"])) % 7 == 0:
        doc = _subclassed(doc)       # containers of subclasses of dict / list are JSON containers all the same
    if _box is not None:
        _box["doc"] = doc
    num = Numbering()
    handles = {}
    out = [{"r": ["init"], "g": num.dump(doc)}]

    def val(vs):
        if vs[0] == "new":
            return dec(vs[1])
        return _lookup(doc, vs[1])

    def fin(tag, pre, v, has_v=True, many=False):
        seen = set()
        g = num.dump(doc, seen)
        if many:
            r = [tag] + pre + [num.dump(x, seen) for x in v]
        else:
            r = [tag] + pre + ([num.dump(v, seen)] if has_v else [])
        out.append({"r": r, "g": g})

    fin.val = val
    views, iters = {}, {}

    def err(e):
        g = num.dump(doc)
        out.append({"r": ["err", exc_chain(e)], "g": g})

    b = Builder([])
    built = {}
    _steps = b.steps

    def cached_steps(steps, p=None, depth=0):
        if p is not None or depth != 0:
            return _steps(steps, p, depth)
        # expressions are derived step by step from shared prefixes, as a user's `p = path.a[wc]; p.x; p.y` does:
        # calls on `p.x` and `p.y` go through the very same parent expression object
        cur, key = b.root, ""
        for st in steps:
            key += "|" + json.dumps(st)
            if key not in built:
                built[key] = b.step(cur, st, 0)
            cur = built[key]
        return cur

    b.steps = cached_steps
    env = DescrEnv(b)
    seen_events = []
    for opno, op in enumerate(sc["ops"]):
        k = op[0]
        # every other writer call is given a trace callable: tracing observes, it does not change what is written
        tkw = dict(trace=seen_events.append) if (opno + len(json.dumps(op))) % 2 else {}
        try:
            if k == "set":
                r = set_(b.steps(op[1]), val(op[2]), doc, cascade=op[3], **tkw)
                fin("ok", [], r)
            elif k == "set_match":
                m = set_match(b.steps(op[1]), val(op[2]), doc, cascade=op[3], **tkw)
                fin("match", [m.path_as_str, m.data_name], m.data)
            elif k == "mset":
                # set_match with a Match as data source: the k-th match of a source path
                ms = list(itertools.islice(find_matches(b.steps(op[1]), doc), op[2] + 1))
                if len(ms) <= op[2]:
                    fin("nosrc", [], None, False)
                else:
                    m = set_match(b.steps(op[3]), val(op[4]), ms[op[2]], cascade=op[5])
                    fin("match", [m.path_as_str, m.data_name], m.data)
            elif k == "mget_sd":
                ms = list(itertools.islice(find_matches(b.steps(op[1]), doc), op[2] + 1))
                if len(ms) <= op[2]:
                    fin("nosrc", [], None, False)
                else:
                    fin("ok", [], get(b.steps(op[3]), ms[op[2]], default=val(op[4]), store_default=True))
            elif k == "pop":
                if op[2][0] == "none":
                    r = pop(b.steps(op[1]), doc, **tkw)
                elif op[2][0] == "fn":
                    r = pop(b.steps(op[1]), doc, default=_default_fn)    # a callable default is a value like any other
                    r = "<fn>" if r is _default_fn else r
                else:
                    r = pop(b.steps(op[1]), doc, default=val(op[2][1]))
                fin("ok", [], r)
            elif k == "mpop":
                # pop / pop_match with a Match as data source (the target may climb above it)
                ms = list(itertools.islice(find_matches(b.steps(op[1]), doc), op[2] + 1))
                if len(ms) <= op[2]:
                    fin("nosrc", [], None, False)
                elif op[4] == "match":
                    m = pop_match(b.steps(op[3]), ms[op[2]], must_match=op[5])
                    if m is None:
                        fin("none", [], None, False)
                    else:
                        fin("match", [m.path_as_str, m.data_name], m.data)
                else:
                    if op[5]:
                        r = pop(b.steps(op[3]), ms[op[2]])
                    else:
                        r = pop(b.steps(op[3]), ms[op[2]], default="dflt")
                    fin("ok", [], r)
            elif k == "pop_match":
                m = pop_match(b.steps(op[1]), doc, must_match=op[2], **tkw)
                if m is None:
                    fin("none", [], None, False)
                else:
                    fin("match", [m.path_as_str, m.data_name], m.data)
            elif k == "get_sd":
                r = get(b.steps(op[1]), doc, default=val(op[2]), store_default=True, **tkw)
                fin("ok", [], r)
            elif k == "get_sdc":
                # get(..., default=<callable>, store_default=True): the callable is asked once, and what it returned
                # is both stored and handed back
                calls = [0]
                dv = val(op[2])

                def dflt():
                    calls[0] += 1
                    return dv
                r = get(b.steps(op[1]), doc, default=dflt, store_default=True, **tkw)
                fin("ok", [calls[0]], r)
            elif k == "h.new":
                ms = list(itertools.islice(find_matches(b.steps(op[2]), doc), op[3] + 1))
                m = ms[op[3]] if len(ms) > op[3] else None
                if m is not None and m.parent is not None:
                    handles[op[1]] = m
                    fin("h", [m.path_as_str], None, False)
                else:
                    handles.pop(op[1], None)
                    fin("none", [], None, False)
            elif k == "h.nested":
                m0 = handles.get(op[2])
                if m0 is None:
                    fin("nohandle", [], None, False)
                else:
                    ms = list(itertools.islice(find_matches(b.steps(op[3]), m0), op[4] + 1))
                    m = ms[op[4]] if len(ms) > op[4] else None
                    if m is not None and m.parent is not None:
                        handles[op[1]] = m
                        fin("h", [m.path_as_str], None, False)
                    else:
                        handles.pop(op[1], None)
                        fin("none", [], None, False)
            elif k == "h.mpop":
                m0 = handles.get(op[1])
                if m0 is None:
                    fin("nohandle", [], None, False)
                else:
                    fin("ok", [], pop(b.steps(op[2]), m0, default="dflt"))
            elif k == "h.parent":
                m = handles.get(op[2])
                if m is None:
                    fin("nohandle", [], None, False)
                else:
                    mp = m.parent            # a Match around the same TraverserMatch object every time
                    if mp is not None and mp.parent is not None:
                        handles[op[1]] = mp
                        fin("h", [mp.path_as_str], None, False)
                    else:
                        handles.pop(op[1], None)
                        fin("none", [], None, False)
            elif k.startswith("h."):
                m = handles.get(op[1])
                if m is None:
                    fin("nohandle", [], None, False)
                elif k in ("h.assign", "h.del", "h.pop") and isinstance(m.data_name, int) and isinstance(m.parent.data, dict):
                    # the container was replaced (through the parent Match) by a dict while this match names a list
                    # index: Python would create / look up an int key, which no JSON document has
                    fin("skip", [], None, False)
                elif k == "h.assign":
                    v = val(op[2])
                    m.data = v
                    want = f"{m.path_as_str}={v}"       # "m.data / repr(m) reflect it" (the documented rendering)
                    if repr(m) != want or str(m) != want:
                        fin("repr", [repr(m)[:120], want[:120]], None, False)
                    else:
                        fin("ok", [], None, False)
                elif k == "h.del":
                    del m.data
                    fin("ok", [], None, False)
                elif k == "h.pop":
                    if op[2][0] == "none":
                        r = m.pop()
                    else:
                        r = m.pop(val(op[2][1]))
                    fin("ok", [], r)
                elif k == "h.data":
                    if repr(m) != f"{m.path_as_str}={m.data}":
                        fin("repr", [repr(m)[:120]], None, False)
                    else:
                        fin("ok", [], m.data)
            elif not observe_descr_op(env, doc, op, fin, views, iters):
                raise ValueError(f"bad op {op!r}")
        except Exception as e:  # noqa
            err(e)
    return out


# ---------------------------------------------------------------- descriptors and list views

class Box:
    """a custom wrapped type"""
    __slots__ = ("v",)

    def __init__(self, v):
        self.v = v


def _unbox(x):
    from treepath import Document
    if isinstance(x, Box):
        return x.v
    if isinstance(x, Document):
        return x.data
    return x


def _neg(j):
    if isinstance(j, (int, float)) and not isinstance(j, bool):
        return -j
    return j


PREDS = {
    "truthy": lambda x: bool(x),
    "none": lambda x: False,
    "all": lambda x: True,
    "is_num": lambda x: isinstance(x, (int, float)) and not isinstance(x, bool),
    "small": lambda x: isinstance(x, (int, float)) and not isinstance(x, bool) and x < 2,
    "is_bool": lambda x: isinstance(x, bool),
    "is_int": lambda x: isinstance(x, int) and not isinstance(x, bool),
    "is_float": lambda x: isinstance(x, float),
}


def make_pred(name):
    """a fresh predicate object per call; "first2" / "alt" remember how often they were asked"""
    if name in PREDS:
        return PREDS[name]
    calls = [0]

    def first2(x):
        calls[0] += 1
        return calls[0] <= 2

    def alt(x):
        calls[0] += 1
        return calls[0] % 2 == 1
    return {"first2": first2, "alt": alt}[name]


def _boom_w(j):
    from codec import Boom
    if isinstance(j, str):
        raise Boom()
    return j


def _conv_kwargs(conv):
    if conv == "boom":
        return dict(to_wrapped_value=_boom_w)
    if conv == "neg":
        return dict(to_wrapped_value=_neg, to_json_value=_neg)
    if conv == "box":
        return dict(to_wrapped_value=Box, to_json_value=lambda b: b.v)
    return {}


def _wrap_for(conv, v):
    return Box(v) if conv == "box" else v


class DescrEnv:
    """builds Document subclasses for declaration chains and performs the op"""

    def __init__(self, builder):
        self.b = builder

    def expr(self, p):
        return None if p is None else self.b.steps(p)

    def build(self, chain, final):
        """final(expression_or_None) -> descriptor for the last declaration"""
        from treepath import Document, attr_typed, attr_iter_typed
        name, p = chain[-1][0], chain[-1][1]
        extra = {}
        if len(json.dumps(chain)) % 2:
            # a user's Document subclass may define __len__ (an instance over an empty document is then falsy)
            extra["__len__"] = lambda self: len(self.data) if isinstance(self.data, (dict, list, str)) else 0
        cls = type("Leaf", (Document,), dict({name: final(self.expr(p))}, **extra))
        for ent in reversed(chain[:-1]):
            name, p = ent[0], ent[1]
            if len(ent) > 2 and ent[2] == "iter":
                d = attr_iter_typed(cls, self.expr(p)) if p is not None else attr_iter_typed(cls)
            elif len(ent) > 2 and ent[2] == "gm":
                # typed through getter=get_match: the nested document wraps the Match itself
                d = attr_typed(cls, self.expr(p), getter=get_match) if p is not None else attr_typed(cls, getter=get_match)
            else:
                d = attr_typed(cls, self.expr(p)) if p is not None else attr_typed(cls)
            cls = type("Outer", (Document,), dict({name: d}, **extra))
        return cls

    def holder(self, cls, doc, chain):
        """the instance holding the last declaration.  First the same declarations are read on
        a *twin* instance over an equal but separate document: descriptors live on the class, so
        any state they keep between instances (a cached view, a remembered node) would make the
        operation that follows act on the twin's nodes instead of this document's."""
        try:
            import copy
            twin = cls(copy.deepcopy(doc))
            for ent in chain[:-1]:
                v = getattr(twin, ent[0])
                if len(ent) > 2 and ent[2] == "iter":
                    v = list(v)[ent[3]]
                twin = v
            getattr(twin, chain[-1][0])
        except Exception:
            pass
        inst = cls(doc)
        for ent in chain[:-1]:
            # a typed object handed out earlier may have been re-pointed by its user (Document.data is a public
            # setter): the next read of the attribute wraps the node the path selects, not that object's new data
            try:
                tmp = getattr(inst, ent[0])
                if len(ent) > 2 and ent[2] == "iter":
                    tmp = list(tmp)[ent[3]]
                tmp.data = copy.deepcopy(tmp.data)
            except Exception:  # noqa
                pass
            v = getattr(inst, ent[0])
            if len(ent) > 2 and ent[2] == "iter":
                v = list(v)[ent[3]]
            inst = v
        return inst


def observe_descr_op(env, doc, op, fin, views, iters):
    """returns True if the op was handled"""
    from treepath import attr, attr_list_typed, attr_iter_typed, get, find, get_match, set_, set_match, Document
    from treepath import pprop, mprop
    k = op[0]
    if k == "d.get":
        chain, getter, conv = op[1], op[2], op[3]
        if getter in ("itc", "itx"):
            # iterator-typed attribute of a custom (non-Document) element type, without / with a converter
            kw = dict(to_wrapped_value=Box) if getter == "itx" else {}
            cls = env.build(chain, lambda e: attr_iter_typed(int, e, **kw) if e is not None else attr_iter_typed(int, **kw))
            holder = env.holder(cls, doc, chain)
            v = getattr(holder, chain[-1][0])
            fin("vals", [], [_unbox(x) for x in v], many=True)
            return True
        g = {"get": get, "find": find, "get_match": get_match, "find_matches": find_matches}[getter]
        cls = env.build(chain, lambda e: attr(e, getter=g, **_conv_kwargs(conv)) if e is not None else attr(getter=g, **_conv_kwargs(conv)))
        holder = env.holder(cls, doc, chain)
        v = getattr(holder, chain[-1][0])
        if getter != "get":
            v = _unbox(v)       # the converter was applied to the iterator / Match as a whole
        if getter == "find_matches":
            fin("vals", [], [m.data for m in v], many=True)
        elif getter == "find":
            fin("vals", [], list(v), many=True)
        elif getter == "get_match":
            if v is None:
                fin("none", [], None, False)
            else:
                fin("match", [v.path_as_str, v.data_name], v.data)
        else:
            fin("ok", [], _unbox(v))
        return True
    if k == "d.set":
        chain, kind, setter, conv, vs = op[1], op[2], op[3], op[4], op[5]
        s = {"set_": set_, "set_match": set_match}[setter]
        if kind == "iter":
            inner = type("El", (Document,), {})
            cls = env.build(chain, lambda e: attr_iter_typed(inner, e) if e is not None else attr_iter_typed(inner))
        elif kind in ("iterc", "iterx"):
            kw = dict(to_wrapped_value=Box) if kind == "iterx" else {}
            cls = env.build(chain, lambda e: attr_iter_typed(int, e, **kw) if e is not None else attr_iter_typed(int, **kw))
        else:
            cls = env.build(chain, lambda e: attr(e, setter=s, **_conv_kwargs(conv)) if e is not None else attr(setter=s, **_conv_kwargs(conv)))
        value = fin.val(vs)
        holder = env.holder(cls, doc, chain)
        setattr(holder, chain[-1][0], _wrap_for(conv, value))
        fin("ok", [], None, False)
        return True
    if k == "d.del":
        chain = op[1]
        cls = env.build(chain, lambda e: attr(e) if e is not None else attr())
        holder = env.holder(cls, doc, chain)
        delattr(holder, chain[-1][0])
        fin("ok", [], None, False)
        return True
    if k in ("pp.get", "mp.get", "pp.set"):
        e = env.b.steps(op[1])

        class Holder:
            def __init__(self, d):
                self._d = d

            def data(self):
                return self._d

            pp = pprop(e, data)
            mp = mprop(e, data)

        hobj = Holder(doc)
        if k == "pp.get":
            fin("ok", [], hobj.pp)
        elif k == "mp.get":
            m = hobj.mp
            if m is None:
                fin("none", [], None, False)
            else:
                fin("match", [m.path_as_str, m.data_name], m.data)
        else:
            hobj.pp = fin.val(op[2])
            fin("ok", [], None, False)
        return True
    if k == "l.new":
        lid, chain, conv = op[1], op[2], op[3]
        views.pop(lid, None)
        if conv == "box":
            el = type("El", (Document,), {})
            cls = env.build(chain, lambda e: attr_list_typed(el, e) if e is not None else attr_list_typed(el))
        else:
            cls = env.build(chain, lambda e: attr_list_typed(int, e, **_conv_kwargs(conv)) if e is not None else attr_list_typed(int, **_conv_kwargs(conv)))
        holder = env.holder(cls, doc, chain)
        view = getattr(holder, chain[-1][0])
        if not isinstance(view.data, list):
            fin("notlist", [], None, False)
        else:
            views[lid] = (view, conv)
            fin("view", [], None, False)
        return True
    if k == "l.assign":
        # assign a list view (taken from a list-typed attribute) to a list-typed attribute: the document holds the
        # very list the view wraps afterwards
        chain, lid = op[1], op[2]
        ent = views.get(lid)
        if ent is None:
            fin("noview", [], None, False)
            return True
        cls = env.build(chain, lambda e: attr_list_typed(int, e) if e is not None else attr_list_typed(int))
        holder = env.holder(cls, doc, chain)
        setattr(holder, chain[-1][0], ent[0])
        fin("ok", [], None, False)
        return True
    if k == "l.it.new":
        ent = views.get(op[2])
        if ent is None:
            fin("noview", [], None, False)
        else:
            iters[op[1]] = iter(ent[0])
            fin("ok", [], None, False)
        return True
    if k == "l.it.next":
        it = iters.get(op[1])
        if it is None:
            fin("noiter", [], None, False)
        else:
            fin("ok", [], _unbox(next(it)))
        return True
    if k.startswith("l."):
        ent = views.get(op[1])
        if ent is None:
            fin("noview", [], None, False)
            return True
        view, conv = ent

        def wrapv(v):
            if conv == "box":
                d = type("El", (Document,), {})
                return d(v)
            return v
        if k == "l.len":
            fin("ok", [len(view)], None, False)
        elif k == "l.get":
            fin("ok", [], _unbox(view[op[2]]))
        elif k == "l.set":
            view[op[2]] = wrapv(fin.val(op[3]))
            fin("ok", [], None, False)
        elif k == "l.del":
            del view[op[2]]
            fin("ok", [], None, False)
        elif k == "l.in":
            fin("ok", [wrapv(fin.val(op[2])) in view], None, False)
        elif k == "l.append":
            view.append(wrapv(fin.val(op[2])))
            fin("ok", [], None, False)
        elif k == "l.pop":
            fin("ok", [], _unbox(view.pop(op[2])))
        elif k == "l.iter":
            fin("vals", [], [_unbox(x) for x in view], many=True)
        elif k == "l.keep":
            pk = make_pred(op[2])
            view.keep_all(lambda w: pk(_unbox(w)))
            fin("ok", [], None, False)
        elif k == "l.remove":
            pr = make_pred(op[2])
            view.remove_all(lambda w: pr(_unbox(w)))
            fin("ok", [], None, False)
        else:
            raise ValueError(f"bad list op {op!r}")
        return True
    return False


# ---------------------------------------------------------------- builder family

class NamedPred:
    def __init__(self, label):
        self.label = label

    def __call__(self, m):
        if self.label == "T":
            return True
        if self.label == "F":
            return False
        if self.label == "D":
            return isinstance(m.data, dict)
        return True

    def __repr__(self):
        return self.label

    __str__ = __repr__


def _key_obj(ks):
    from treepath import wc as _wc, gwc as _gwc, rec as _rec
    k = ks[0]
    if k == "int":
        return ks[1]
    if k == "slice":
        return slice(ks[1], ks[2], ks[3])
    if k == "wc":
        return _wc
    if k == "gwc":
        return _gwc
    if k == "str":
        return ks[1]
    if k == "tuple":
        return tuple(1.5 if isinstance(x, dict) else x for x in ks[1])
    if k == "call":
        return NamedPred(ks[1])
    if k == "other":
        from treepath import path as _p
        return {"float": 1.5, "none": None, "bytes": b"x", "rec": _rec, "list": [1], "pathexpr": _p.a,
                "pathpred": _p.a == 1}[ks[1]]
    raise ValueError(ks)


@deadline("VERIF_OBS_TIMEOUT", 10, lambda sc: [["err", "HarnessTimeout"]])
def observe_builder(sc):
    from treepath import path as _path, pathd as _pathd, PathSyntaxError
    from treepath.path.builder.path_builder import PathBuilder
    regs = {}
    out = []
    for op in sc["ops"]:
        k = op[0]
        try:
            if k == "root":
                regs[op[1]] = _path if op[2] == "path" else _pathd
                out.append(["ok"])
            elif k in ("attr", "item"):
                src = regs.get(op[2])
                if src is None:
                    out.append(["noreg"])
                    continue
                v = getattr(src, op[3]) if k == "attr" else src[_key_obj(op[3])]
                if isinstance(v, PathBuilder):
                    regs[op[1]] = v
                    out.append(["ok"])
                else:
                    out.append(["notexpr"])
            elif k == "str":
                src = regs.get(op[1])
                if src is None:
                    out.append(["noreg"])
                    continue
                s = str(src)
                if repr(src) != s:
                    out.append(["str-repr-differ", s, repr(src)])
                else:
                    out.append(["str", s])
            elif k == "eval":
                src = regs.get(op[1])
                if src is None:
                    out.append(["noreg"])
                    continue
                res, exc = [], None
                try:
                    for m in itertools.islice(find_matches(src, dec(op[2])), 2000):
                        res.append([m.path_as_str, m.data_name])
                except Exception as e:  # noqa
                    exc = exc_chain(e)
                out.append(["res", res, exc])
            elif k in ("setattr", "setitem"):
                src = regs.get(op[1])
                if src is None:
                    out.append(["noreg"])
                    continue
                if k == "setattr":
                    src.foo = 1
                else:
                    src["foo"] = 1
                out.append(["ok"])
            else:
                out.append(["badop"])
        except PathSyntaxError:
            out.append(["err", "PathSyntaxError"])
        except AttributeError:
            out.append(["err", "AttributeError"])
        except Exception as e:  # noqa
            out.append(["err", type(e).__name__])
    return out


# ---------------------------------------------------------------- graph family (cyclic structures)

def build_graph(nodes):
    objs = []
    for nd in nodes:
        if nd[0] == "d":
            objs.append({})
        elif nd[0] == "l":
            objs.append([])
        else:
            objs.append(dec(nd[1]))
    for nd, o in zip(nodes, objs):
        if nd[0] == "d":
            for k, v in nd[1]:
                o[k] = objs[v]
        elif nd[0] == "l":
            for v in nd[1]:
                o.append(objs[v])
    return objs


@deadline("VERIF_GRAPH_TIMEOUT", 60, lambda sc: [{"n": -1, "s": ["X", ["HarnessTimeout"]]}])
def observe_graph(sc):
    objs = build_graph(sc["nodes"])
    root = objs[sc["root"]]
    log = []
    b = Builder(log)
    expr = b.steps(sc["path"])
    count = [0]

    def trace(t):
        count[0] += 1
        return count[0]

    b.tracer = trace
    src = root
    if sc.get("src"):
        sexpr = Builder([]).steps(sc["src"]["path"])
        k = sc["src"].get("k", 0)
        ms = list(itertools.islice(find_matches(sexpr, root), k + 1))
        if len(ms) <= k:
            return "nosrc"
        src = ms[k]
    it = find_matches(expr, src, trace=trace)
    out = []
    for _ in range(sc.get("nexts", 1)):
        count[0] = 0
        try:
            m = next(it)
            sig = ["R", m.path_as_str]
        except StopIteration:
            sig = ["S"]
        except RecursionError:
            sig = ["X", ["RecursionError"]]
        except Exception as e:  # noqa
            sig = ["X", exc_chain(e)]
        out.append({"n": count[0], "s": sig})
    return out
