"""Correspondence engine: finalise scenarios against the real code, run the Lean driver,
compare python / mach / spec records on named observables."""
import json
import os
import subprocess
import sys
from concurrent.futures import ThreadPoolExecutor

HERE = os.path.dirname(os.path.abspath(__file__))
VERIF = os.path.dirname(HERE)
DRIVER = os.path.join(VERIF, "lean", ".lake", "build", "bin", "tpdriver")

from observe import observe_query  # noqa: E402

DRAIN_CAP = 400


def finalize_query(sc):
    """make `nexts` and `src.k` concrete using the implementation; returns the python record"""
    if sc.get("src"):
        import itertools
        from codec import Builder, dec
        from treepath import find_matches
        try:
            ms = list(itertools.islice(find_matches(Builder([]).steps(sc["src"]["path"]), dec(sc["doc"])), 50))
        except Exception:
            ms = []
        if not ms:
            del sc["src"]
        else:
            sc["src"]["k"] = sc["src"]["k"] % len(ms)
    if sc["api"] in ("find", "find_matches") and not isinstance(sc.get("nexts"), int):
        probe = dict(sc)
        probe["nexts"] = DRAIN_CAP
        rec = observe_query(probe)
        if rec == "nosrc":
            rec = []
        n = 0
        for seg in rec:
            n += 1
            if seg["s"][0] in ("S", "X"):
                break
        sc["nexts"] = n + sc.pop("extra", 0)
    sc.pop("extra", None)
    return sc


def run_driver(scenarios, procs=16):
    """scenarios: list of dicts with unique 'id'.  returns {id: out|{'error':..}}"""
    if not scenarios:
        return {}
    chunks = [scenarios[i::procs] for i in range(procs)]
    chunks = [c for c in chunks if c]

    def run(chunk, limit):
        inp = "\n".join(json.dumps(s) for s in chunk) + "\n"
        try:
            r = subprocess.run([DRIVER], input=inp, capture_output=True, text=True, timeout=limit)
        except subprocess.TimeoutExpired:
            return None, f"no answer within {limit:.0f} s"
        if r.returncode != 0:
            return None, f"driver exit {r.returncode}: {r.stderr[:300]}"
        return [json.loads(line) for line in r.stdout.splitlines() if line.strip()], None

    def work(chunk):
        res, err = run(chunk, float(os.environ.get("VERIF_DRIVER_TIMEOUT", 1200)))
        if res is not None:
            return res
        if len(chunk) == 1:
            return [{"id": chunk[0]["id"], "error": err}]
        # the model died on some scenario of the batch (a broken implementation under test can lead the generators
        # to inputs the unchanged one never produces): isolate it, answer the others
        out = []
        for s in chunk:
            res, err = run([s], 90.0)
            out.extend(res if res is not None else [{"id": s["id"], "error": err}])
        return out

    out = {}
    with ThreadPoolExecutor(max_workers=len(chunks)) as ex:
        for res in ex.map(work, chunks):
            for o in res:
                out[o["id"]] = o
    return out


# ---------------- projections ----------------

def strip_depth(rec):
    """drop the python-only nesting tag of P / F events (for comparison with the machine)"""
    if rec == "nosrc":
        return rec
    out = []
    for seg in rec:
        ev = []
        for e in seg["e"]:
            if e[0] == "PX":
                continue
            if e[0] in ("P", "F"):
                e = e[:-1]
            ev.append(e)
        out.append({"e": ev, "s": seg["s"]})
    return out


def flat_py(rec, api):
    """flatten per-call records into one stream comparable with spec 'top' (+S): only what
    happens outside filter evaluation (depth 0) is visible to the specification"""
    out = []
    drained = False
    for seg in rec:
        for e in seg["e"]:
            if e[0] == "T" and e[4] is not None:
                continue
            if e[0] in ("DC", "PX"):
                continue
            if e[0] in ("P", "F"):
                if e[-1] != 0:
                    continue
                e = e[:-1]
            out.append(e)
        s = seg["s"]
        if s[0] in ("R", "V"):
            out.append(s)
        elif s[0] == "S":
            out.append(["S"])
            drained = True
            break
        elif s[0] == "X":
            out.append(s)
            drained = True
            break
        else:
            out.append(s)
    return out, drained


def flat_spec(spec, api):
    out = []
    for e in spec["top"]:
        if e[0] == "R" and api in ("find", "get"):
            out.append(["V", e[1]["d"]])
        else:
            out.append(e)
    if spec["sx"] is None:
        out.append(["S"])
    return out


def results_of(stream):
    return [e for e in stream if e[0] in ("R", "V")]


def loc_results(stream):
    """(path, name, data) of results only"""
    out = []
    for e in stream:
        if e[0] == "R":
            out.append([e[1]["p"], e[1]["n"], e[1]["d"]])
        elif e[0] == "V":
            out.append(["V", e[1]])
    return out


def project(stream, what):
    if what == "results":
        return loc_results(stream) + [e for e in stream if e[0] in ("S",)]
    if what == "results_exc":
        return loc_results(stream) + [e for e in stream if e[0] in ("S", "X")]
    if what == "full_results":
        return [e for e in stream if e[0] in ("R", "V", "S", "X")]
    if what == "calls":
        return [e for e in stream if e[0] in ("P", "R", "V", "S", "X")]
    if what == "fncalls":
        return [e for e in stream if e[0] in ("F", "P", "R", "V", "S", "X")]
    if what == "trace":
        return list(stream)
    if what == "attempts":
        return [sum(1 for e in stream if e[0] == "T")]
    raise ValueError(what)


def compare_query(sc, py, lean, observables):
    """returns list of (level, observable, detail) ; level 'spec' = property-level failing
    input, 'mach' = model tie broken"""
    diffs = []
    if "error" in lean:
        return [("infra", "driver", lean["error"])]
    mach, spec = lean["out"]["mach"], lean["out"]["spec"]
    if py == "nosrc" or mach == "nosrc":
        if py != mach:
            diffs.append(("spec", "source", f"py={py if py == 'nosrc' else 'ok'} model={mach if mach == 'nosrc' else 'ok'}"))
        return diffs
    api = sc["api"]
    if py and isinstance(py, list) and py[0]["s"] == ["C"]:
        if "segments" in observables:
            return [("spec", "laziness", "user-visible calls happen when the iterator is created, before the first next(): "
                     + json.dumps(py[0]["e"])[:300])]
        py = [{"e": py[0]["e"] + py[1]["e"], "s": py[1]["s"]}] + py[2:] if len(py) > 1 else py
    if not sc.get("traced", True):
        mach = untrace(mach)
        spec = dict(spec, top=[e for e in spec["top"] if e[0] != "T"])
    ra = sc.get("reiter_at")
    if ra is not None and api in ("find", "find_matches"):
        # iter() again before call `ra`: both halves are runs from the start (the model's reading
        # of MatchTraverser.__iter__); the rest of the comparison is python vs machine, call by call
        if "segments" in observables:
            # no property says what iter() does to a live iterator.  Property level: what follows
            # must be a run from the start (the library's reading) or the continuation (the
            # iterator protocol's); only something else is a failing input.  Which of the two
            # it is, is part of the model tie below.
            d_restart = segments_diff(py[:ra], spec, api) or segments_diff(py[ra:], spec, api)
            d_continue = segments_diff(py, spec, api)
            if d_restart and d_continue:
                return [("spec", "segments", "with iter() called again before call %d, neither a restart (%s) nor a continuation (%s)"
                         % (ra, d_restart, d_continue))]
        pyd = strip_depth(py)
        if pyd != mach:
            pm, mm = prune(pyd, observables), prune(mach, observables)
            if pm != mm:
                return [("mach", "segments", first_diff(pm, mm))]
        return []
    if "segments" in observables and api in ("find", "find_matches"):
        d = segments_diff(py, spec, api)
        if d:
            return [("spec", "segments", d)]
    fpy, drained = flat_py(py, api)
    fsp = flat_spec(spec, api)
    if api in ("get", "get_match"):
        # one call: the events up to the first result / end / exception; the outcome itself is
        # compared through the `first` projection below
        fpy = [e for e in fpy if e[0] not in ("R", "V", "S", "X", "N")]
        cut = []
        for e in fsp:
            if e[0] in ("R", "V", "S", "X"):
                break
            cut.append(e)
        fsp = cut
        drained = True
    for ob in observables:
        if ob == "segments" or ob.startswith("tie:"):
            continue
        if ob == "attempts_bound":
            if drained and spec["sx"] is None:
                n = sum(1 for e in fpy if e[0] == "T")
                if n > 2 * spec["exams"] + 2:
                    diffs.append(("spec", ob, f"{n} match attempts of the search itself, the definition needs {spec['exams']} examinations (bound 2x)"))
            continue
        if ob == "documented":
            # whatever call of the history it is raised by (also a next() after an earlier error was caught):
            # an exception that is not one of the library's own classes is a failing input
            import treepath
            for k, seg in enumerate(py):
                if seg["s"][0] == "X":
                    cls = getattr(treepath, seg["s"][1][0], None)
                    if not (isinstance(cls, type) and issubclass(cls, treepath.TreepathException)):
                        diffs.append(("spec", ob, f"call {k} raised {seg['s'][1]}: not an exception of the library"))
                        break
            continue
        if ob == "leaf_events":
            d = leaf_events_diff(py, sc)
            if d:
                diffs.append(("spec", ob, d))
            continue
        if ob == "stamps":
            d = stamps_diff(py)
            if d:
                diffs.append(("spec", ob, d))
            continue
        if ob == "attempts" and not drained:
            continue   # a count is only comparable for a drained search
        a, b = project(fpy, ob), project(fsp, ob)
        ok = (a == b) if drained else (b[:len(a)] == a)
        if not ok:
            diffs.append(("spec", ob, first_diff(a, b)))
    if api in ("get", "get_match"):
        s = py[0]["s"]
        f = spec["first"]
        if f[0] == "R" and s[0] == "R":
            okf = f == s
        else:
            okf = f == s
        if not okf:
            diffs.append(("spec", "first", f"py={json.dumps(s)[:200]} spec={json.dumps(f)[:200]}"))
        dc_py = sum(1 for e in py[0]["e"] if e[0] == "DC")
        dc_sp = len(spec["firstExtra"])
        if dc_py != dc_sp:
            diffs.append(("spec", "default_calls", f"py={dc_py} spec={dc_sp}"))
    if not diffs:
        # model tie: python vs machine, call by call
        py = strip_depth(py)
        if py != mach:
            pm = prune(py, observables)
            mm = prune(mach, observables)
            if pm != mm:
                diffs.append(("mach", "segments", first_diff(pm, mm)))
    return diffs


def untrace(rec):
    if rec == "nosrc":
        return rec
    return [{"e": [e for e in seg["e"] if e[0] != "T"], "s": seg["s"]} for seg in rec]


def segments_diff(py, spec, api):
    """call-by-call laziness and exhaustion at specification level: the i-th next() performs
    exactly the part of the specification's stream between result i-1 and result i; after
    StopIteration every call raises StopIteration again and does nothing else."""
    want = []
    cur = []
    ended = None
    for e in flat_spec(spec, api):
        if e[0] in ("R", "V", "S", "X"):
            want.append((cur, e))
            cur = []
            if e[0] in ("S", "X"):
                ended = e
                break
        elif e[0] != "T":
            cur.append(e)
    for i, seg in enumerate(py):
        ev = []
        for e in seg["e"]:
            if e[0] in ("T", "PX", "DC"):
                continue        # laziness is about user-visible calls, not about trace events
            if e[0] in ("P", "F"):
                if e[-1] != 0:
                    continue
                e = e[:-1]
            ev.append(e)
        s = seg["s"]
        if i < len(want):
            wev, ws = want[i]
            if ws[0] == "R" and s[0] == "R":
                same_sig = [s[1]["p"], s[1]["n"], s[1]["d"]] == [ws[1]["p"], ws[1]["n"], ws[1]["d"]]
            else:
                same_sig = s == ws
            if not same_sig:
                return f"call {i}: python signals {json.dumps(s)[:200]}, specification {json.dumps(ws)[:200]}"
            if ev != wev:
                return f"call {i}: python performs {json.dumps(ev)[:300]} before answering, specification {json.dumps(wev)[:300]}"
        elif ended is not None and ended[0] == "S":
            if s != ["S"] or ev:
                return f"call {i} after StopIteration: python signals {json.dumps(s)[:200]} with events {json.dumps(ev)[:200]}; an exhausted iterator must stay exhausted"
        # after an exception the iterator's behaviour is compared with the machine model only
    return None


def leaf_events_diff(py, sc):
    """C17: the events delivered outside filter evaluation that attempted the path's last step
    and succeeded correspond one-to-one, in order, to the results yielded"""
    if not sc.get("traced", True) or sc["api"] not in ("find", "find_matches"):
        return None
    L = len(sc["path"])
    leaf, res = [], []
    for seg in py:
        for e in seg["e"]:
            if e[0] == "T" and e[4] is None and e[2] == L and e[3] is not None:
                leaf.append(e[3][0])
        s = seg["s"]
        if s[0] == "R":
            res.append(s[1]["p"])
        elif s[0] == "V":
            res.append(None)
        elif s[0] in ("S", "X"):
            break
    if L == 0:
        return None if not leaf else "events for a path without steps"
    if len(leaf) != len(res):
        return f"{len(leaf)} successful last-step events outside filters, {len(res)} results"
    for a, b in zip(leaf, res):
        if b is not None and a != b:
            return f"last-step event reaches {a}, the result yielded is {b}"
    return None


def stamps_diff(py):
    """C17: events produced while a filter is being evaluated carry the (innermost) candidate
    under test as predicate_match; events of the search itself carry none"""
    for seg in py:
        stack = []
        for e in seg["e"]:
            if e[0] == "P":
                stack.append(e[1])
            elif e[0] == "PX":
                if stack:
                    stack.pop()
            elif e[0] == "T":
                want = stack[-1] if stack else None
                if e[4] != want:
                    return f"event at {e[1]} carries predicate_match {e[4]!r}, candidate under test is {want!r}"
    return None


def prune(rec, observables):
    """restrict per-call records to what the property's proof chain depends on"""
    if "trace" in observables or "tie:trace" in observables or "segments_full" in observables:
        return rec
    keep = {"P", "F", "DC"} if ("calls" in observables or "fncalls" in observables or "segments" in observables) else set()
    if "attempts" in observables or "tie:attempts" in observables:
        keep = keep | {"T"}
    out = []
    for seg in rec:
        ev = [e for e in seg["e"] if e[0] in keep]
        if ("attempts" in observables or "tie:attempts" in observables) and "trace" not in observables:
            ev = [e if e[0] != "T" else ["T"] for e in ev]
        s = seg["s"]
        if s[0] == "R" and "full_results" not in observables:
            s = ["R", [s[1]["p"], s[1]["n"], s[1]["d"]]]
        out.append({"e": ev, "s": s})
    return out


def first_diff(a, b):
    n = min(len(a), len(b))
    for i in range(n):
        if a[i] != b[i]:
            return f"at {i}: py={json.dumps(a[i])[:300]} model={json.dumps(b[i])[:300]}"
    return f"length py={len(a)} model={len(b)}; extra={json.dumps((a[n:] or b[n:])[:2])[:300]}"
