"""Source-generated Lean facts (DESIGN.md §4.3): small Lean files rewritten from /repo's
working tree before every build, with `decide` theorems over them."""
import ast
import os

HERE = os.path.dirname(os.path.abspath(__file__))
VERIF = os.path.dirname(HERE)
GEN = os.path.join(VERIF, "lean", "Treepath", "Generated")
SRC = os.path.join(os.environ.get("VERIF_REPO", "/repo"), "src", "treepath")


def write_if_changed(path, text):
    if os.path.exists(path) and open(path).read() == text:
        return
    os.makedirs(os.path.dirname(path), exist_ok=True)
    with open(path, "w") as f:
        f.write(text)


def budget():
    """the action budget of one MatchTraverser.__next__ call: the only large integer constant the
    method uses, written inline or through a module-level name it refers to"""
    tree = ast.parse(open(os.path.join(SRC, "path/traverser/match_traverser.py")).read())
    consts = {}
    # integer constants bound to a name at module level or in a class body (self.NAME / cls.NAME / Class.NAME)
    for node in ast.walk(tree):
        if isinstance(node, (ast.Module, ast.ClassDef)):
            for st in node.body:
                if isinstance(st, ast.Assign) and len(st.targets) == 1 and isinstance(st.targets[0], ast.Name) \
                        and isinstance(st.value, ast.Constant) and isinstance(st.value.value, int) \
                        and not isinstance(st.value.value, bool):
                    consts[st.targets[0].id] = int(st.value.value)
                if isinstance(st, ast.AnnAssign) and isinstance(st.target, ast.Name) and isinstance(st.value, ast.Constant) \
                        and isinstance(st.value.value, int) and not isinstance(st.value.value, bool):
                    consts[st.target.id] = int(st.value.value)
    cands = set()
    for node in ast.walk(tree):
        if isinstance(node, ast.FunctionDef) and node.name == "__next__":
            for st in ast.walk(node):
                if isinstance(st, ast.Constant) and isinstance(st.value, int) and not isinstance(st.value, bool) \
                        and st.value >= 1000:
                    cands.add(int(st.value))
                if isinstance(st, ast.Name) and consts.get(st.id, 0) >= 1000:
                    cands.add(consts[st.id])
                if isinstance(st, ast.Attribute) and consts.get(st.attr, 0) >= 1000:
                    cands.add(consts[st.attr])
    if len(cands) != 1:
        raise RuntimeError(f"loop budget of MatchTraverser.__next__ not identified (candidates: {sorted(cands)})")
    return cands.pop()


MUTATORS = {"append", "pop", "clear", "update", "insert", "remove", "setdefault", "extend", "sort", "reverse",
            "popitem", "__setitem__", "__delitem__"}


def _rooted_in_data(node, aliases):
    """is the expression rooted in `<something>.data` (or a local alias of it)?"""
    while True:
        if isinstance(node, ast.Attribute):
            if node.attr in ("data", "_data", "root_data"):
                return True
            node = node.value
        elif isinstance(node, ast.Subscript):
            node = node.value
        elif isinstance(node, ast.Call):
            node = node.func
        elif isinstance(node, ast.Name):
            return node.id in aliases
        else:
            return False


def document_stores():
    """every store into / mutating call on a document container, per function, over the
    whole package: (module, qualified function, kind)"""
    out = []
    for root, _, files in os.walk(SRC):
        for f in sorted(files):
            if not f.endswith(".py"):
                continue
            p = os.path.join(root, f)
            mod = os.path.relpath(p, SRC)[:-3].replace(os.sep, ".")
            tree = ast.parse(open(p).read())

            def visit_fn(fn, qual):
                aliases = set()
                for st in ast.walk(fn):
                    # alias tracking: x = <expr rooted in .data>
                    if isinstance(st, ast.Assign) and len(st.targets) == 1 and isinstance(st.targets[0], ast.Name) \
                            and _rooted_in_data(st.value, aliases) and not isinstance(st.value, ast.Call):
                        aliases.add(st.targets[0].id)
                for st in ast.walk(fn):
                    targets = []
                    if isinstance(st, ast.Assign):
                        targets = st.targets
                    elif isinstance(st, (ast.AugAssign, ast.AnnAssign)):
                        targets = [st.target]
                    elif isinstance(st, ast.Delete):
                        targets = st.targets
                    for t in targets:
                        if isinstance(t, ast.Subscript) and _rooted_in_data(t.value, aliases):
                            out.append((mod, qual, "del" if isinstance(st, ast.Delete) else "store"))
                    if isinstance(st, ast.Call) and isinstance(st.func, ast.Attribute) and st.func.attr in MUTATORS \
                            and _rooted_in_data(st.func.value, aliases):
                        out.append((mod, qual, "call:" + st.func.attr))

            def walk(node, prefix):
                for ch in ast.iter_child_nodes(node):
                    if isinstance(ch, (ast.FunctionDef, ast.AsyncFunctionDef)):
                        visit_fn(ch, prefix + ch.name)
                    elif isinstance(ch, ast.ClassDef):
                        walk(ch, prefix + ch.name + ".")
            walk(tree, "")
    return sorted(set(out))


def store_roles(stores):
    """classify every store site by the *role* of the function it sits in, so that the obligation does not
    depend on which vertex class happens to hold a writer:
      writer  - a method named set / pop of a class in path/vertex/, the Match.data setter / deleter or
                Match.pop, any method of the list view DocumentList;
      helper  - a private function (leading underscore) of such a module that is referred to only from
                writers / helpers of the same kind;
      other   - anything else (a read path that stores into the document)"""
    def base_role(mod, qual):
        name = qual.split(".")[-1]
        if mod.startswith("path.vertex.") and name in ("set", "pop"):
            return "writer"
        if mod == "path.traverser.match" and qual in ("Match.data", "Match.pop"):
            return "writer"
        if mod == "descriptor.document_list" and qual.startswith("DocumentList."):
            return "writer"
        return None
    # where is each private name referred to?
    refs = {}
    for root, _, files in os.walk(SRC):
        for f in sorted(files):
            if not f.endswith(".py"):
                continue
            p_ = os.path.join(root, f)
            mod = os.path.relpath(p_, SRC)[:-3].replace(os.sep, ".")
            tree = ast.parse(open(p_).read())

            def walk(node, prefix):
                for ch in ast.iter_child_nodes(node):
                    if isinstance(ch, (ast.FunctionDef, ast.AsyncFunctionDef)):
                        for n in ast.walk(ch):
                            nm = n.attr if isinstance(n, ast.Attribute) else n.id if isinstance(n, ast.Name) else None
                            if nm and nm.startswith("_") and not nm.startswith("__"):
                                refs.setdefault(nm, set()).add((mod, prefix + ch.name))
                    elif isinstance(ch, ast.ClassDef):
                        walk(ch, prefix + ch.name + ".")
            walk(tree, "")
    out = []
    for mod, qual, kind in stores:
        role = base_role(mod, qual)
        if role is None:
            name = qual.split(".")[-1]
            users = refs.get(name, set()) - {(mod, qual)}
            if name.startswith("_") and not name.startswith("__") and users and \
                    all(base_role(m, q) == "writer" for m, q in users):
                role = "helper"
            else:
                role = "other"
        out.append((mod, qual, kind, role))
    return out


def exc_mro():
    import importlib
    tp = importlib.import_module("treepath")
    names = ["TreepathException", "MatchNotFoundError", "NestedMatchNotFoundError", "SetError", "PopError",
             "TraversingError", "InfiniteLoopDetected", "PathSyntaxError", "StopTraversing"]
    return [(n, [c.__name__ for c in getattr(tp, n).__mro__]) for n in names]


def shared_state():
    """state that outlives one evaluation and is shared by everything that uses the same path
    object: attributes of vertex / builder / predicate objects assigned outside `__init__`, and
    `nonlocal` / `global` variables of any function under path/ (closure caches)"""
    out = set()
    for sub in ("path/vertex", "path/builder"):
        d = os.path.join(SRC, sub)
        for fn in sorted(os.listdir(d)):
            if not fn.endswith(".py"):
                continue
            tree = ast.parse(open(os.path.join(d, fn)).read())
            for cls in [n for n in ast.walk(tree) if isinstance(n, ast.ClassDef)]:
                for f in [n for n in cls.body if isinstance(n, (ast.FunctionDef, ast.AsyncFunctionDef))]:
                    if f.name in ("__init__", "__set_name__"):
                        continue
                    for st in ast.walk(f):
                        targets = []
                        if isinstance(st, ast.Assign):
                            targets = st.targets
                        elif isinstance(st, (ast.AugAssign, ast.AnnAssign)):
                            targets = [st.target]
                        flat = []
                        for t in targets:
                            flat.extend(t.elts if isinstance(t, (ast.Tuple, ast.List)) else [t])
                        for x in flat:
                            while isinstance(x, ast.Subscript):     # self.cache[k] = v mutates self.cache
                                x = x.value
                            if isinstance(x, ast.Attribute) and isinstance(x.value, ast.Name) and x.value.id == "self":
                                out.add(f"{cls.name}.{x.attr}")
    for root, _, files in os.walk(os.path.join(SRC, "path")):
        for fn in sorted(files):
            if not fn.endswith(".py"):
                continue
            tree = ast.parse(open(os.path.join(root, fn)).read())
            for f in [n for n in ast.walk(tree) if isinstance(n, (ast.FunctionDef, ast.AsyncFunctionDef))]:
                for st in ast.walk(f):
                    if isinstance(st, (ast.Nonlocal, ast.Global)):
                        for nm in st.names:
                            out.add(f"{'nonlocal' if isinstance(st, ast.Nonlocal) else 'global'}:{fn[:-3]}.{f.name}:{nm}")
    return sorted(out)


def lean_str_list(xs):
    return "[" + ", ".join('"' + x.replace('"', '\\"') + '"' for x in xs) + "]"


def reserved():
    """attribute names that resolve on a PathBuilder without reaching __getattr__"""
    import importlib
    mod = importlib.import_module("treepath.path.builder.path_builder")
    dash = importlib.import_module("treepath.path.builder.dash_path_builder")
    return sorted(set(dir(mod.PathBuilder))), sorted(set(dir(dash.DashPathBuilder)))


def generate():
    """rewrites the generated files; returns {fact name: error text} for the facts that could
    not be extracted (their previous files are left in place)"""
    errors = {}

    def attempt(name, fn):
        try:
            fn()
        except Exception as e:  # noqa
            errors[name] = f"{type(e).__name__}: {e}"

    def gen_budget():
        b = budget()
        write_if_changed(os.path.join(GEN, "Budget.lean"), f"""/- GENERATED by harness/gen_facts.py from /repo/src/treepath/path/traverser/match_traverser.py — do not edit -/
namespace Treepath.Generated

/-- the action budget of one `__next__` call -/
def loopBudget : Nat := {b}

end Treepath.Generated
""")

    def gen_reserved():
        ra, rb = reserved()
        write_if_changed(os.path.join(GEN, "Reserved.lean"), f"""/- GENERATED by harness/gen_facts.py from dir(PathBuilder) / dir(DashPathBuilder) — do not edit -/
namespace Treepath.Generated

/-- names that are real attributes of `PathBuilder` (never reach `__getattr__`) -/
def reservedAttrs : List String := {lean_str_list(ra)}

/-- the same for `DashPathBuilder` (`pathd`) -/
def reservedAttrsDash : List String := {lean_str_list(rb)}

/-- those of either table that are not Python protocol names (`__x__`) -/
def reservedPlain : List String := {lean_str_list(sorted(n for n in set(ra) | set(rb) if not (n.startswith("__") and n.endswith("__"))))}

end Treepath.Generated
""")

    def gen_stores():
        stores = document_stores()
        rows = ", ".join(f'("{m}", "{q}", "{k}")' for m, q, k in stores)
        roles = ", ".join(f'("{q}", "{r}")' for m, q, k, r in store_roles(stores))
        write_if_changed(os.path.join(GEN, "Stores.lean"), f"""/- GENERATED by harness/gen_facts.py: every store into / mutating call on a document container
found in /repo/src/treepath (syntactic, intra-procedural, alias-tracking) — do not edit -/
namespace Treepath.Generated

/-- (module, function, kind) -/
def documentStores : List (String × String × String) := [{rows}]

/-- the role of the function each of them sits in: "writer" (a `set` / `pop` method of a vertex
class, the `Match.data` setter / deleter / `Match.pop`, a method of the list view), "helper" (a
private function used by writers only), or "other" -/
def storeRoles : List (String × String) := [{roles}]

end Treepath.Generated
""")

    def gen_mro():
        mro = exc_mro()
        mrows = ", ".join('("' + n + '", ' + lean_str_list(m) + ")" for n, m in mro)
        write_if_changed(os.path.join(GEN, "ExcMro.lean"), f"""/- GENERATED by harness/gen_facts.py from the MRO of the library's exception classes — do not edit -/
namespace Treepath.Generated

def excMro : List (String × List String) := [{mrows}]

end Treepath.Generated
""")

    def gen_shared():
        sh = shared_state()
        write_if_changed(os.path.join(GEN, "Shared.lean"), f"""/- GENERATED by harness/gen_facts.py: attributes of vertex / builder / predicate objects
assigned outside __init__, and nonlocal / global variables of functions under path/ — the state
that evaluations sharing a path object share (syntactic) — do not edit -/
namespace Treepath.Generated

def sharedState : List String := {lean_str_list(sh)}

end Treepath.Generated
""")

    attempt("Shared", gen_shared)
    attempt("Budget", gen_budget)
    attempt("Reserved", gen_reserved)
    attempt("Stores", gen_stores)
    attempt("ExcMro", gen_mro)
    return errors


if __name__ == "__main__":
    print(generate())
