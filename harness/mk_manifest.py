"""Regenerates /verif/MANIFEST.json from the property registry (run by hand after edits)."""
import json
import os
import sys

HERE = os.path.dirname(os.path.abspath(__file__))
VERIF = os.path.dirname(HERE)
sys.path.insert(0, HERE)
import props  # noqa: E402

LEVEL_TEXT = {
    "C01": "Lean 4 theorems: each child step of the L3 evaluator characterised (lookup, negative index, wildcard order, comma list order/repeats/skips, wrong kind selects nothing), and end to end (machine_yields_definition): the pointer-faithful traverser model driven to StopIteration yields exactly the definition's answer for every tree and every sequence of child steps (bisimulation heap machine ~ stack machine, stack machine emits the specification stream, results of the stream = evalE); list_find_matches_is_definition: draining the model with the source-generated budget equals the definition's answer, with no error, whenever 6*examinations+3 is below the budget. The hand-written model is tied to /repo by a differential run on every invocation (python = machine model = specification on the result sequence); object identity of reported values is a python-side support oracle.",
    "C02": "Lean 4 theorems: a trailing rec yields the context and all descendants in document pre-order (structural definition of pre-order, containers via bookkeeping nodes), scalar context yields nothing, rec followed by steps evaluates the rest at each container in the same order; end to end machine_descends_in_preorder (the traverser model yields exactly that, for every tree); rec_each_once / rec_nested_once (each location once, on documents with unique dict keys); tie by differential run on result sequences.",
    "C03": "Lean 4 theorems: a filter keeps exactly the truthy candidates unchanged (erase lemmas), raising predicates surface as TraversingError-caused-by with the iterator state unchanged, and end to end (machine_filters, machine_call_log): the traverser model yields the filtered sequence and its event stream holds one predicate call per candidate in order; without any premise on what predicates return (machine_raise_is_definition_raise, machine_filters_any_predicate): the exception leaving next() is exactly the definition's exception, after exactly the definition's results; tie compares results, the per-candidate call log and the exception cause chain with the specification.",
    "C04": "Lean 4 theorems: machine_has_is_definition — the predicate has(path [op v][, f...]) as built by the library (a for-loop over next() of a nested traverser) returns what the specification hasS (first success over the definition's answer in selection order, functions right-to-left) returns, for every document, candidate, quiet path, operator and function chain, budget outcomes aside, and outright (machine_has_is_definition_exact) when 6*examinations+3 of the nested search is below the budget; has-predicates emit only clean, stamped events (so they compose as filters); equations of has_all/has_any/has_not (short-circuit, has_all()=True, has_any()=False, raise propagation). Tie compares results, conversion-call order and exception chains.",
    "C05": "Lean 4 theorems over the API model: get_match is the head of the drained iterator and (getMatch_is_head_of_eval) the head of the definition's answer, not-found iff the answer is empty; get is its data; not-found outcomes per data source; a callable default is called exactly once; found values are never replaced by the default. Tie runs all four functions on the same (path, source).",
    "C07": "Lean 4 theorems on the machine model for every path/document/source: StopIteration only comes from the done action, which leaves the state unchanged, hence an exhausted iterator stays exhausted (needs fix F1); k successful next() calls yield the first k results of the definition and everything done so far is a prefix of the specification's event stream (laziness: first_k_results, first_k_results_any_predicate for raising predicates, work_so_far_is_a_prefix); iterators are values (no interference). Tie: per-next() segments of results and predicate calls python = specification, traced and untraced; interleavings and OS threads are python-side support (partial: thread pre-emption is runtime).",
    "C11": "Lean 4 theorems: for parent-free nodes path_as_str is '$' + segments of the location, path_match_list starts at the root, ends at the match, has one element per level, its names are the location and every link is a child of the previous element; round trip (get_match_of_path_finds_it): evaluating the steps Match.path denotes from the root yields exactly that match on documents with unique dict keys; never_the_same_location_twice: plain steps with at most one rec and no comma list yield pairwise distinct locations. eq_iff_chains: Match.__eq__ (modelled as matchEq, which satisfies the recursive equation the code is written as) is the element-wise comparison of the two path_match_lists. Tie compares every Match observable and the == matrices of the first matches (python vs model); duplicate-freedom and == are re-checked on the python side.",
    "C12": "Lean 4 theorem evalE_append: for p not ending in rec, evaluating p++q equals evaluating q from each result of p in order, exceptions included (sequential monad associativity); nested roots are transparent bookkeeping nodes; nested_machine: the traverser started from a Match yields the definition's answer relative to it; tie runs all four API functions from the k-th match of p.",
    "C13": "Lean 4 theorems: remembered_parent moves to the location with the last name dropped however the node was reached (child/imag/par), is none exactly at the root location, n parent steps climb n levels or select nothing (needs fix F2); machine_climbs end to end; tie compares locations incl. the '<-name' trail.",
    "C17": "Lean 4 theorems: trace_is_stream — the events the traverser model hands to the trace callback, driven to exhaustion, are exactly the specification's stream (one event per match attempt carrying what the vertex returned, results after their attempts); stamping keeps the innermost candidate and never alters the attempt; the machine model has no trace input (transparency by construction, checked on the python side traced vs untraced). Property-level comparison: leaf events and stamps; tie: the full event stream.",
    "C20": "Lean 4 theorems: terminates_with_spec_work (the run of a fresh iterator on a tree ends exhausted having emitted exactly the specification's stream), attempts_at_most_twice_examinations / machine_work_bound (top-level match attempts <= 2 x the (node, step) examinations the definition requires, for every tree and path), closed form of the attempt count, __next__ structurally recursive on the budget generated from the source; pacing (a next() that ends in InfiniteLoopDetected performed at least (limit-3)/3 match attempts, generic document type) and budget_not_hit_on_trees / drain_is_definition (with 6*examinations+3 below the budget no next() raises InfiniteLoopDetected and the iteration yields exactly the definition's answer). Property-level comparison: python's attempt count <= 2*exams; tie: exact counts; cyclic structures: the same generic machine on cyclic graphs under the real budget vs python (family g) and wall-clock oracles (partial: stack depth and wall time are runtime; known finding F7).",
}

LEVEL_TEXT.update({
    "C06": "Lean 4: the read API over the object store has no store among its results (purity by construction, said so in DESIGN), get(store_default) stores nothing when the path is found, failed pops leave the store, using a path only fills caches (SameShape), and a decide-theorem over the store table regenerated from /repo's AST on every run (only the writers store into document containers). Tie: query correspondence plus a python-side deep-snapshot oracle (identities, order, contents) around repeated read-only calls on the same document and path object.",
    "C08": "Lean 4 frame theorems on the heap model: a non-cascading set_ either fails with the store unchanged or writes exactly one object, allocates nothing and returns a match holding v itself; characterisation of key / index / append / out-of-range / wrong-kind / other-step / root cases; histories never change the number of objects. Transport to the definition (set_parent_is_the_definitions_first): by naturality of the traverser in the document type and 'store ~ unfolded tree', the container a successful set_ writes is the first result of the step-by-step definition of the parent path on the JSON tree the document unfolds to. Tie: whole object graph under canonical object numbers after every call of random histories.",
    "C09": "Lean 4 theorem (induction over the cascade recursion): whatever the outcome, at most one pre-existing object is written (the deepest existing container), every other pre-existing object is untouched, nothing is removed, created containers are fresh empty dict/list per step kind, a fresh list only appends, wrong-type levels are never overwritten, store_default = the same cascade. Tie: object graphs of cascading histories with reused expression objects.",
    "C10": "Lean 4 theorems: pop_match either leaves the store unchanged (nothing matched / unsupported last step / error) or returns the first match of get_match and writes exactly one object; dict and list removal are dictErase / eraseIdx; pop returns the found value or the default. popped_match_is_the_definitions_first: the match removed is the definition's first result on the unfolded tree (naturality + exception-faithful refinement). Tie: object graphs of pop / pop_match / set_ histories.",
    "C14": "Lean 4 theorems on Match handles: assignment makes the parent container hold v itself at the name and writes only that object; del / pop remove as dict / list deletion; pop returns the value it removes (needs fix F4; the stale-cache history is a checked example); missing entries give PopError or the default. Tie: histories over 1-4 live handles incl. aliases, shifted list items, matches behind filters.",
    "C15": "Lean 4 theorems over the vertex-store model with explicit caches: extension allocates a fresh vertex and writes no existing field; the WF invariant (caches unset or equal to the function of the vertex's own chain) is preserved by extension, rendering and path_as_list; rendering = pure function of the chain whatever the history; equivalent spellings (attr vs item via the generated reserved-name table, wc/wildcard, gwc/generic_wildcard, rec/recursive, dash rewriting, .gwc vs [gwc]). Tie: renderings and selections of random derivation DAGs.",
    "C16": "Lean 4 theorems: for supported steps next() raises only TraversingError-wrapping-the-cause or InfiniteLoopDetected (induction over the budget, per-vertex abort analysis), get_match adds only (Nested)MatchNotFoundError, vertex.set fails only with SetError, root set/pop give SetError/PopError (fix F3), unsupported indices give PathSyntaxError (fix F6), decide-theorem over the exception MRO table regenerated from the source. Tie: exception class chains in all families; python-side oracle for escaping exceptions and str()/repr() stability.",
    "C18": "Lean 4 (thin: definitional unfoldings of a small descriptor model, stated as such): set = setter after to_json_value without cascade (+ C08 frame), del = pop, typed attributes alias the selected node, iterator-typed assignment = SetError, pprop/mprop. The correspondence (histories over random declarations, typed chains, list views) carries the weight; F5 (iterator-typed attribute without a path) was found by it and repaired (fix: 02ce5db).",
    "C19": "Lean 4 theorem keep_all_is_filter: the in-place compaction loop with a live index iterator over the list it writes computes exactly filter-then-map (loop invariant write <= read, proved for all lists and predicates); remove_all; every operation writes only the document's own list object; reads / writes are the plain-list operations with the converters at the boundary. Tie: histories of view operations incl. live iterators interleaved with mutations.",
})

NOT_YET = {
}


def main():
    checks = []
    for pid in sorted(props.PROPS):
        cfg = props.PROPS[pid]
        checks.append({
            "property_id": pid,
            "quick_cmd": f"./check {pid} --tier quick",
            "thorough_cmd": f"./check {pid} --tier thorough",
            "evidence_file": f"evidence/{pid}.json",
            "replay_cmd_template": f"./check {pid} --replay {{path}}",
            "engine": "lean4-proof+correspondence",
            "level_claimed": {"category": "proof", "text": LEVEL_TEXT.get(pid, cfg.get("level_text", "")),
                              "design_ref": f"DESIGN.md §7 {pid}"},
            "level_note": "Trusted: Lean 4.33 kernel (axioms propext, Classical.choice, Quot.sound only; audited each run), the hand-written model lean/Treepath/Model (modelled, not verified: tied by the correspondence run), CPython primitives asserted in Model/Basic.lean, the harness/driver and the fact extractor. " + cfg.get("note", ""),
            "technique": "Lean 4 theorems over a hand-written executable model + differential correspondence (python vs model vs spec) on every run",
        })
    allp = [json.loads(l)["id"] for l in open(os.path.join(VERIF, "properties.jsonl"))]
    na = [{"property_id": p, "reason": NOT_YET.get(p, "model family not built yet in this round (writers / builder / descriptors / list view); will be claimed once its Lean model, theorems and correspondence exist")}
          for p in allp if p not in props.PROPS]
    man = {
        "version": 1,
        "setup_cmd": "cd lean && lake build Treepath tpdriver",
        "hooks": {"guard": "TREEPATH_VERIF", "enable": "no hooks are needed: every observable used is public API (results, Match properties, trace callback, user predicates, exceptions)",
                  "baseline_off_cmd": "cd /repo && /venv/bin/python -m pytest -q -p no:cacheprovider", "source_commits": [], "add_only": True},
        "engines": [{"name": "lean4-proof+correspondence", "path": "lean/", "serves_properties": sorted(props.PROPS),
                     "kind_free_text": "Lean 4 development (model, specification, theorems) + compiled driver tpdriver + python correspondence harness harness/"}],
        "checks": checks,
        "not_applicable": na,
        "notes": "See DESIGN.md. Fix commits in /repo are listed in known_findings.json.",
    }
    with open(os.path.join(VERIF, "MANIFEST.json"), "w") as f:
        json.dump(man, f, indent=1)
    print("checks:", len(checks), "not_applicable:", len(na))


if __name__ == "__main__":
    main()
