"""Build, proof audit and fact generation for the Lean development."""
import fcntl
import os
import re
import subprocess
import time

HERE = os.path.dirname(os.path.abspath(__file__))
VERIF = os.path.dirname(HERE)
LEAN = os.path.join(VERIF, "lean")
ALLOWED_AXIOMS = {"propext", "Classical.choice", "Quot.sound"}
FORBIDDEN = re.compile(r"\b(sorry|admit|native_decide|bv_decide|implemented_by)\b|^\s*axiom\s|\bunsafe\s|maxHeartbeats\s+0")


class BuildError(Exception):
    def __init__(self, msg, log):
        super().__init__(msg)
        self.log = log


def build(targets=("Treepath", "tpdriver")):
    """lake build under a lock (several checks may run at once). returns (seconds, log)"""
    t = time.time()
    os.makedirs(os.path.join(LEAN, ".lake"), exist_ok=True)
    with open(os.path.join(LEAN, ".lake", "verif.lock"), "w") as lock:
        fcntl.flock(lock, fcntl.LOCK_EX)
        r = subprocess.run(["lake", "build", *targets], cwd=LEAN, capture_output=True, text=True)
    log = r.stdout + r.stderr
    if r.returncode != 0:
        raise BuildError("lake build failed", log)
    return time.time() - t, log


def strip_comments(src):
    # remove block comments (nested) and line comments
    out = []
    i, depth = 0, 0
    while i < len(src):
        if src.startswith("/-", i):
            depth += 1
            i += 2
        elif src.startswith("-/", i) and depth > 0:
            depth -= 1
            i += 2
        elif depth > 0:
            i += 1
        elif src.startswith("--", i):
            j = src.find("\n", i)
            i = len(src) if j < 0 else j
        else:
            out.append(src[i])
            i += 1
    return "".join(out)


def grep_forbidden():
    hits = []
    for root, _, files in os.walk(os.path.join(LEAN, "Treepath")):
        for f in files:
            if f.endswith(".lean"):
                p = os.path.join(root, f)
                src = strip_comments(open(p).read())
                for ln, line in enumerate(src.split("\n"), 1):
                    if FORBIDDEN.search(line):
                        hits.append(f"{os.path.relpath(p, LEAN)}:{ln}: {line.strip()[:120]}")
    return hits


def theorems_of(pid):
    """names of the theorems stated in Props/<pid>.lean (fully qualified)"""
    p = os.path.join(LEAN, "Treepath", "Props", f"{pid}.lean")
    if not os.path.exists(p):
        return []
    src = strip_comments(open(p).read())
    ns = []
    names = []
    for line in src.split("\n"):
        m = re.match(r"\s*namespace\s+(\S+)", line)
        if m:
            ns.append(m.group(1))
            continue
        m = re.match(r"\s*end\s+(\S+)", line)
        if m and ns and ns[-1].split(".")[-1] == m.group(1).split(".")[-1]:
            ns.pop()
            continue
        m = re.match(r"\s*(?:private\s+|protected\s+)?theorem\s+(\S+)", line)
        if m:
            names.append(".".join(ns + [m.group(1)]))
    return names


def audit(pid):
    """returns dict(theorems=[...], clean=[...], dirty={name: axioms}, missing=[...], forbidden=[...], cmd=str)"""
    names = theorems_of(pid)
    res = dict(theorems=names, clean=[], dirty={}, missing=[], forbidden=grep_forbidden(), cmd="")
    if not names:
        return res
    os.makedirs(os.path.join(LEAN, ".lake", "audit"), exist_ok=True)
    f = os.path.join(LEAN, ".lake", "audit", f"Audit_{pid}.lean")
    with open(f, "w") as h:
        h.write(f"import Treepath.Props.{pid}\n")
        for n in names:
            h.write(f"#print axioms {n}\n")
    cmd = ["lake", "env", "lean", f]
    res["cmd"] = f"cd lean && lake env lean .lake/audit/Audit_{pid}.lean   # '#print axioms' of every theorem in Treepath/Props/{pid}.lean"
    r = subprocess.run(cmd, cwd=LEAN, capture_output=True, text=True)
    out = r.stdout + r.stderr
    found = {}
    for m in re.finditer(r"'([^']+)' depends on axioms: \[([^\]]*)\]", out):
        found[m.group(1)] = {a.strip() for a in m.group(2).split(",") if a.strip()}
    for m in re.finditer(r"'([^']+)' does not depend on any axioms", out):
        found[m.group(1)] = set()
    for n in names:
        if n not in found:
            res["missing"].append(n)
        elif found[n] <= ALLOWED_AXIOMS:
            res["clean"].append(n)
        else:
            res["dirty"][n] = sorted(found[n])
    res["raw"] = out[-2000:] if (res["missing"] or res["dirty"]) else ""
    return res


def kernel_recheck(pid):
    """thorough tier: the toolchain's independent re-checker replays the compiled module of the
    property's theorems (and what it imports) in the kernel.  Returns (ok, log tail, seconds)."""
    import time
    t = time.time()
    r = subprocess.run(["lake", "env", "leanchecker", f"Treepath.Props.{pid}"], cwd=LEAN, capture_output=True, text=True)
    return r.returncode == 0, (r.stdout + r.stderr)[-1500:], time.time() - t
