"""Seeded scenario generators (one PRNG per run; every choice derives from it).

Paths are mostly grown by walking the generated document so that they select something
(DESIGN.md §6.1); a minority is free.  `profile` biases the step mix per property.
"""
import random

KEYS = ["a", "b", "c", "d", "x", "y", "z", "k"]
ODD_KEYS = ["", "0", "-1", "a.b", "a[0]", "$", "\u00e9", " ", "x-y", "*", "A", "K", "a ", " a", "True", "None", "50%", "%s", "1", "2"]      # valid JSON member names all the same
RESERVED_KEYS = ["parent", "wc", "rec", "shape", "wildcard", "gwc", "recursive", "generic_wildcard"]
SCALARS = [None, True, False, 0, 1, 2, -1, 3, 0.0, 1.5, -2.5, "", "a", "x", "12", "-3", "abc", 1.0, 2 ** 70, -(2 ** 70), "x" * 120]
FNS = ["int", "len", "truth", "not", "neg", "abs", "first", "boom_if_str", "ident"]
OPS = ["lt", "le", "eq", "ne", "gt", "ge"]
OUT_VALUES = [True, False, 1, 0, "", "x", ["a", [0]], ["a", []], None, ["o", []], ["f", 0], ["f", 3], 2]


def gen_doc(rng, depth=0, maxdepth=4, top=True):
    """JSON value (Python objects).  Empty containers and falsy scalars are frequent."""
    if top:
        kind = rng.choice(["dict", "dict", "dict", "list", "list", "scalar"] if rng.random() < 0.15 else ["dict", "dict", "list"])
    else:
        r = rng.random()
        if depth >= maxdepth:
            kind = "scalar" if r < 0.8 else rng.choice(["dict", "list"])
        else:
            kind = "scalar" if r < 0.45 else ("dict" if r < 0.75 else "list")
    if kind == "scalar":
        return rng.choice(SCALARS)
    if rng.random() < 0.2:
        return {} if kind == "dict" else []
    n = rng.randint(1, 4)
    if kind == "dict":
        keys = rng.sample(KEYS, min(n, len(KEYS)))
        if rng.random() < 0.12:
            # keys that are also attribute names of the path builder
            keys[rng.randrange(len(keys))] = rng.choice(RESERVED_KEYS)
        elif rng.random() < 0.07:
            # empty, index-like, punctuated and non-ASCII member names
            keys[rng.randrange(len(keys))] = "" if rng.random() < 0.3 else rng.choice(ODD_KEYS)
        return {k: gen_doc(rng, depth + 1, maxdepth, False) for k in keys}
    return [gen_doc(rng, depth + 1, maxdepth, False) for _ in range(n)]


def enc(v):
    from codec import enc as e
    return e(v)


def children(v):
    if isinstance(v, dict):
        return list(v.items())
    if isinstance(v, list):
        return list(enumerate(v))
    return []


def descendants(chain):
    """all chains below (and including) chain, pre-order"""
    out = [chain]
    for _, c in children(chain[-1]):
        out.extend(descendants(chain + [c]))
    return out


PROFILES = {
    # weights: key idx slice tuple wc iwc gwc rec par filt
    "child": dict(key=5, idx=4, slice=3, tuple=3, wc=3, iwc=3, gwc=3, rec=0, par=0, filt=0),
    "rec": dict(key=3, idx=2, slice=1, tuple=1, wc=2, iwc=2, gwc=2, rec=6, par=0, filt=1),
    "filter": dict(key=3, idx=2, slice=1, tuple=1, wc=3, iwc=3, gwc=2, rec=2, par=0, filt=6),
    "parent": dict(key=4, idx=3, slice=1, tuple=1, wc=2, iwc=2, gwc=2, rec=2, par=7, filt=2),
    "filterpar": dict(key=4, idx=2, slice=1, tuple=1, wc=2, iwc=2, gwc=1, rec=1, par=5, filt=6),
    "recpar": dict(key=3, idx=2, slice=1, tuple=1, wc=2, iwc=2, gwc=2, rec=5, par=5, filt=1),
    "all": dict(key=4, idx=3, slice=2, tuple=2, wc=3, iwc=3, gwc=2, rec=2, par=2, filt=3),
    "nopar": dict(key=4, idx=3, slice=2, tuple=2, wc=3, iwc=3, gwc=2, rec=2, par=0, filt=3),
    "keyidx": dict(key=6, idx=5, slice=0, tuple=0, wc=0, iwc=0, gwc=0, rec=0, par=0, filt=0),
}


class PathGen:
    def __init__(self, rng, profile="all", pred_profile="mixed", max_pred_depth=3):
        self.rng = rng
        self.w = PROFILES[profile]
        self.pred_profile = pred_profile
        self.max_pred_depth = max_pred_depth

    def rint(self):
        return self.rng.choice([-4, -3, -2, -1, 0, 1, 2, 3, 4])

    def gen_step(self, chain, guided, prev_rec, pdepth):
        """returns (step, list of chains selected by it when applied to chain) ; chain may be None (free)"""
        rng = self.rng
        v = chain[-1] if chain is not None else None
        w = dict(self.w)
        if prev_rec:
            w["rec"] = 0
        if chain is not None and guided:
            if isinstance(v, dict):
                w["idx"] = w["idx"] * 0.04
                w["iwc"] = w["iwc"] * 0.04
                w["slice"] = w["slice"] * 0.04
            elif isinstance(v, list):
                w["key"] = w["key"] * 0.04
                w["wc"] = w["wc"] * 0.04
            elif isinstance(v, str) and v:
                # a string is a sequence to Python and a scalar to JSON: index / slice / comma-list steps aimed at
                # its characters must select nothing
                for k in ("key", "wc", "gwc", "rec"):
                    w[k] = w[k] * 0.05
                for k in ("idx", "slice", "tuple", "iwc"):
                    w[k] = w[k] * 0.5
            else:
                # a scalar: only filters and parent steps can still select something
                for k in ("key", "idx", "slice", "tuple", "wc", "iwc", "gwc", "rec"):
                    w[k] = w[k] * 0.05
            if len(chain) == 1:
                w["par"] = w["par"] * 0.1
        if pdepth >= self.max_pred_depth:
            w["filt"] = 0
        kinds = [k for k in w if w[k] > 0]
        kind = rng.choices(kinds, [w[k] for k in kinds])[0]
        if kind == "key":
            if prev_rec and rng.random() < 0.12:
                # the empty member name directly after a recursive step (both render as "..")
                return ["k", ""], ([chain + [v[""]]] if isinstance(v, dict) and "" in v else [])
            if guided and isinstance(v, dict) and v and rng.random() < 0.8:
                k = rng.choice(list(v.keys()))
            else:
                k = rng.choice(KEYS)
            sel = [chain + [v[k]]] if isinstance(v, dict) and k in v else []
            return ["k", k], sel
        if kind == "idx":
            if guided and isinstance(v, (list, str)) and v and rng.random() < 0.8:
                i = rng.randrange(-len(v), len(v))
            else:
                i = self.rint()
            sel = [chain + [v[i]]] if isinstance(v, list) and -len(v) <= i < len(v) else []
            return ["i", i], sel
        if kind == "slice":
            if rng.random() < 0.25:
                # boundary slices: explicit zeros are not "absent" bounds, empty selections are answers too
                n = len(v) if isinstance(v, list) else rng.randint(0, 3)
                a, b, c = rng.choice([(None, 0, None), (0, 0, None), (0, None, None), (None, 0, -1), (0, 0, -1),
                                      (n, None, None), (None, n, None), (None, -n, None), (-n, None, None),
                                      (n, 0, -1), (None, None, -1), (0, n, 1), (-n, n, None), (1, 1, None)])
            else:
                keep_empty = rng.random() < 0.25
                for _try in range(4):
                    a, b, c = (rng.choice([None, self.rint()]) for _ in range(3))
                    if c == 0:
                        c = rng.choice([None, 1, -1, 2, -2])
                    if keep_empty or not (guided and isinstance(v, list) and v) or v[slice(a, b, c)]:
                        break
            sel = [chain + [x] for x in v[slice(a, b, c)]] if isinstance(v, list) else []
            return ["s", a, b, c], sel
        if kind == "tuple":
            n = rng.randint(0, 4)
            ents = []
            for _ in range(n):
                r = rng.random()
                if isinstance(v, dict) and v and r < 0.6:
                    ents.append(rng.choice(list(v.keys())))
                elif isinstance(v, list) and v and r < 0.6:
                    ents.append(rng.randrange(-len(v), len(v)))
                elif r < 0.8:
                    ents.append(rng.choice(KEYS))
                else:
                    ents.append(self.rint())
            if isinstance(v, dict) and rng.random() < 0.3:
                # an int entry beside a member whose *name* is that number's spelling: an int never names a dict member
                nums = [int(k) for k in v if isinstance(k, str) and k.lstrip("-").isdigit()]
                if nums:
                    ents.insert(rng.randint(0, len(ents)), rng.choice(nums))
            if guided and isinstance(v, dict) and v and not any(isinstance(e, str) and e in v for e in ents):
                ents.insert(rng.randint(0, len(ents)), rng.choice(list(v.keys())))
            if guided and isinstance(v, list) and v and not any(isinstance(e, int) and -len(v) <= e < len(v) for e in ents):
                ents.insert(rng.randint(0, len(ents)), rng.randrange(-len(v), len(v)))
            if ents and rng.random() < 0.3:
                ents.append(rng.choice(ents))
            sel = []
            if isinstance(v, dict):
                sel = [chain + [v[e]] for e in ents if isinstance(e, str) and e in v]
            elif isinstance(v, list):
                sel = [chain + [v[e]] for e in ents if isinstance(e, int) and -len(v) <= e < len(v)]
            return ["t", ents], sel
        if kind == "wc":
            return ["wc"], ([chain + [x] for x in v.values()] if isinstance(v, dict) else [])
        if kind == "iwc":
            return ["iwc"], ([chain + [x] for x in v] if isinstance(v, list) else [])
        if kind == "gwc":
            return ["igwc" if rng.random() < 0.4 else "gwc"], ([chain + [c] for _, c in children(v)] if chain is not None else [])
        if kind == "rec":
            if chain is not None and isinstance(v, (dict, list)):
                sel = [c for c in descendants(chain)]
            else:
                sel = []
            return ["rec"], sel
        if kind == "par":
            return ["par"], ([chain[:-1]] if chain is not None and len(chain) > 1 else [])
        if kind == "filt":
            p = self.gen_pred(chain, pdepth + 1)
            return ["f", p], ([chain] if chain is not None else [])
        raise AssertionError(kind)

    def gen_path(self, chain, maxlen=5, guided_p=0.85, pdepth=0, minlen=0):
        rng = self.rng
        n = rng.randint(minlen, maxlen)
        steps = []
        prev_rec = False
        guided = rng.random() < guided_p
        cur = chain
        for _ in range(n):
            step, sel = self.gen_step(cur, guided, prev_rec, pdepth)
            steps.append(step)
            prev_rec = step[0] == "rec"
            if step[0] == "rec" and sel:
                # after rec only containers are candidates for further steps
                conts = [c for c in sel if isinstance(c[-1], (dict, list))]
                sel = conts or sel
            if sel:
                conts = [c for c in sel if isinstance(c[-1], (dict, list)) and c[-1]]
                cur = rng.choice(conts) if conts and rng.random() < 0.7 else rng.choice(sel)
            elif guided and rng.random() < 0.7:
                break  # the path selects nothing from here on: stop growing it
            if guided and cur is not None and not isinstance(cur[-1], (dict, list)) and rng.random() < 0.6:
                break  # reached a scalar
        return steps

    # ---- predicates ----
    def gen_out(self):
        rng = self.rng
        r = rng.random()
        if r < 0.12:
            return ["x", "Boom"]
        if r < 0.16:
            return ["b", "TypeError"]
        if r < 0.19:
            return ["x", "StopIteration"]     # what an exhausted next() inside a predicate raises
        if r < 0.23:
            return ["trav"]                   # the predicate returns find(...) itself: an object, truthy even when empty
        return ["v", rng.choice(OUT_VALUES)]

    def gen_fns(self):
        rng = self.rng
        n = rng.choice([0, 0, 0, 1, 1, 2, 3])
        return [rng.choice(FNS) for _ in range(n)]

    def gen_arg(self, chain, pdepth, allow_tuple=True):
        rng = self.rng
        r = rng.random()
        if r < 0.4:
            return ["p", self.gen_path(chain, maxlen=3, pdepth=pdepth, minlen=0 if rng.random() < 0.1 else 1)]
        if r < 0.7:
            c = rng.choice(SCALARS + [[], [1], {}])
            return ["c", self.gen_path(chain, maxlen=3, pdepth=pdepth, minlen=0 if rng.random() < 0.1 else 1), rng.choice(OPS), enc(c)]
        if r < 0.9 and pdepth < self.max_pred_depth:
            return ["pred", self.gen_pred(chain, pdepth + 1, custom=rng.random() < 0.6)]
        if allow_tuple:
            return ["tup", self.gen_arg(chain, pdepth, False), self.gen_fns()]
        return ["p", self.gen_path(chain, maxlen=2, pdepth=pdepth, minlen=1)]

    def gen_below(self, chain):
        """a has-predicate that refers to itself from inside its own filter"""
        rng = self.rng
        vals = [c[-1] for c in (descendants(chain) if chain is not None else []) if not isinstance(c[-1], (dict, list))]
        cases = [[enc(rng.choice(vals if vals and rng.random() < 0.8 else SCALARS)), ["v", rng.choice([True, 1, "y"])]]
                 for _ in range(rng.randint(1, 2))]
        dflt = ["x", "Boom"] if rng.random() < 0.05 else ["v", rng.choice([False, 0, None, ""])]
        first = rng.choice([["wc"], ["iwc"], ["gwc"], ["gwc"], ["s", None, None, None]])
        if rng.random() < 0.4:
            # the table is consulted after the nested search returned: make it depend on *which* node the Match
            # shows (its name / kind), so that a Match re-pointed by the nested search answers differently
            sel = rng.choice(["name", "kind", "name"])
            if sel == "name":
                names = [c[-2] for c in (_named_descendants(chain) if chain is not None else [])] or KEYS
                tcases = [[rng.choice(names), ["v", rng.choice([True, 1, "y"])]] for _ in range(rng.randint(1, 2))]
            else:
                tcases = [[k, ["v", True]] for k in rng.sample(["dict", "list"], rng.randint(1, 2))]
            return ["below2", first, ["tab", sel, tcases, ["v", rng.choice([False, 0, None, ""])]]]
        return [rng.choice(["below", "below", "below2"]), first, ["tab", "data", cases, dflt]]

    def gen_lazy_has(self, chain):
        """a has-comparison (with or without conversion functions) that an early candidate of a multi-valued nested
        path already decides, with a logged user predicate inside that path: how far the nested search is driven shows
        in the per-next() call log and nowhere else"""
        rng = self.rng
        first = rng.choice([["wc"], ["gwc"], ["gwc"], ["rec"], ["s", None, None, None]])
        sel = rng.choice(["kind", "data", "depth"])
        if sel == "kind":
            cases = [[k, ["v", rng.choice([True, 1, "y", False])]] for k in rng.sample(["dict", "list", "str", "int", "float", "bool", "none"], rng.randint(0, 2))]
        elif sel == "data":
            cases = [[enc(rng.choice(SCALARS)), ["v", rng.choice([False, 0, True])]] for _ in range(rng.randint(0, 2))]
        else:
            cases = [[rng.randint(1, 4), ["v", rng.choice([False, True])]] for _ in range(rng.randint(0, 1))]
        tab = ["tab", sel, cases, ["v", rng.choice([True, True, 1, "y"])]]
        nested = [first, ["f", tab]]
        if rng.random() < 0.25:
            pre = self.gen_path(chain, maxlen=1, pdepth=self.max_pred_depth, minlen=1)
            if not (pre and pre[-1][0] == "rec" and first[0] == "rec"):      # successive rec steps are a PathSyntaxError by design
                nested = pre + nested
        op, c = rng.choice([("ne", "zzz"), ("ne", "zzz"), ("ne", -77), ("eq", rng.choice(SCALARS)), ("ge", 0), ("lt", 5)])
        fns = rng.choice([[], ["ident"], ["ident"], ["truth"], ["ident", "ident"], ["int"], ["boom_if_str"]])
        return [rng.choice(["has", "has", "has", "not"]), ["c", nested, op, enc(c)], fns]

    def gen_pred(self, chain, pdepth, custom=False):
        rng = self.rng
        prof = self.pred_profile
        if prof == "below" and pdepth <= 1 and rng.random() < 0.7:
            return self.gen_below(chain)
        if prof == "lazyhas" and pdepth <= 1 and rng.random() < 0.7:
            return self.gen_lazy_has(chain)
        r = rng.random()
        if custom:
            r = r * 0.25
        elif prof == "custom":
            r = r * 0.3
        elif prof == "has":
            r = 0.3 + r * 0.7
        if r < 0.22 or pdepth > self.max_pred_depth:
            sel = rng.choice(["kind", "name", "depth", "path", "data", "pkind"])
            v = chain[-1] if chain is not None else None
            if sel == "kind":
                cases = [[k, self.gen_out()] for k in rng.sample(["dict", "list", "str", "int", "float", "bool", "none"], rng.randint(1, 4))]
            elif sel == "name":
                cases = [[rng.choice(KEYS + [0, 1, -1, "$"]), self.gen_out()] for _ in range(rng.randint(1, 3))]
            elif sel == "depth":
                cases = [[rng.randint(1, 4), self.gen_out()] for _ in range(rng.randint(1, 2))]
            elif sel == "path":
                cases = [[rng.choice(["$", "$.a", "$[0]", "$.a.b", "$.x[0]"]), self.gen_out()]]
            elif sel == "data":
                cases = [[enc(rng.choice(SCALARS)), self.gen_out()] for _ in range(rng.randint(1, 3))]
                if v is not None and not isinstance(v, (dict, list)):
                    cases.append([enc(v), self.gen_out()])
            else:
                cases = [[rng.choice(["dict", "list", None]), self.gen_out()] for _ in range(rng.randint(1, 2))]
            return ["tab", sel, cases, self.gen_out()]
        if r < 0.30:
            if rng.random() < 0.3 and pdepth < self.max_pred_depth:
                return self.gen_below(chain)
            if rng.random() < 0.25:
                # two hops: get_match from the candidate, then a search from the Match that came back
                return ["nb2", self.gen_path(chain, maxlen=2, pdepth=pdepth, minlen=1), self.gen_path(None, maxlen=2, pdepth=pdepth, minlen=1)]
            return ["nb", rng.choice(["m", "v", "x", "mt", "vt"]), self.gen_path(chain, maxlen=3, pdepth=pdepth, minlen=1)]
        if r < 0.62:
            return ["has", self.gen_arg(chain, pdepth, False), self.gen_fns()]
        if r < 0.74:
            return ["not", self.gen_arg(chain, pdepth, False), self.gen_fns()]
        n = rng.choice([0, 1, 2, 2, 3])
        args = [self.gen_arg(chain, pdepth) for _ in range(n)]
        if rng.random() < 0.2:
            # two arguments that *print* alike and mean different things: 1 vs "1", None vs "None", a key "a.b" vs a -> b
            v = chain[-1] if chain is not None else None
            key = rng.choice(list(v.keys())) if isinstance(v, dict) and v else rng.choice(KEYS)
            a, b = rng.choice([(1, "1"), ("1", 1), (None, "None"), (True, "True"), ("0", 0), (2.5, "2.5")])
            twin = [["c", [["k", key]], "eq", enc(a)], ["c", [["k", key]], "eq", enc(b)]]
            if rng.random() < 0.3:
                twin = [["p", [["k", key + ".x"]]], ["p", [["k", key], ["k", "x"]]]]
            pos = rng.randint(0, len(args))
            args = args[:pos] + twin + args[pos:]
        return [rng.choice(["all", "any"]), args]


def _named_descendants(chain):
    """(name, value) pairs of every node below the last node of the chain"""
    out = []

    def rec(v):
        if isinstance(v, dict):
            for k, x in v.items():
                out.append((k, x))
                rec(x)
        elif isinstance(v, list):
            for i, x in enumerate(v):
                out.append((i, x))
                rec(x)
    rec(chain[-1])
    return out


def _all_locs(v, prefix=()):
    out = [prefix]
    if isinstance(v, dict):
        for k, x in v.items():
            out.extend(_all_locs(x, prefix + (k,)))
    elif isinstance(v, list):
        for i, x in enumerate(v):
            out.extend(_all_locs(x, prefix + (i,)))
    return out


def _node_at(v, loc):
    for nm in loc:
        v = v[nm]
    return v


def share_subtree(rng, doc):
    """a document in which one container *object* sits at two positions (a reused defaults
    dict, a YAML alias, `[[0] * 2] * 3`): still a finite JSON tree.  Returns the pair of
    locations, or None; `doc` is changed in place (the second position holds a copy here —
    the observer makes it the same object)."""
    locs = _all_locs(doc)
    srcs = [l for l in locs if l and isinstance(_node_at(doc, l), (dict, list))]
    conts = [l for l in locs if isinstance(_node_at(doc, l), (dict, list))]
    rng.shuffle(srcs)
    for a in srcs:
        hosts = [c for c in conts if c[:len(a)] != a]       # not inside the shared sub-tree: no cycle
        if not hosts:
            continue
        host = rng.choice(hosts)
        h = _node_at(doc, host)
        copy_ = __import__("json").loads(__import__("json").dumps(_node_at(doc, a)))
        if isinstance(h, dict):
            k = rng.choice(KEYS + ["shared"])
            h[k] = copy_
            return [list(a), list(host) + [k]]
        h.append(copy_)
        return [list(a), list(host) + [len(h) - 1]]
    return None


def gen_query(rng, profile="all", pred_profile="mixed", api=None, with_src=None, maxlen=5):
    doc = gen_doc(rng)
    pg = PathGen(rng, profile, pred_profile)
    share = share_subtree(rng, doc) if isinstance(doc, (dict, list)) and rng.random() < 0.1 else None
    sc = {"fam": "q", "doc": enc(doc)}
    if share:
        sc["share"] = share
    chain = [doc]
    if with_src is None:
        with_src = rng.random() < 0.25
    if with_src:
        # source path: no trailing rec (C12 quantifier), and parent-free unless profile allows
        sp = pg.gen_path(chain, maxlen=3)
        while sp and sp[-1][0] == "rec":
            sp.pop()
        sc["src"] = {"path": sp, "k": rng.randint(0, 3)}
    sc["path"] = pg.gen_path(chain, maxlen=maxlen, minlen=0 if rng.random() < 0.05 else (1 if rng.random() < 0.3 else 2))
    sc["api"] = api or rng.choice(["find_matches", "find_matches", "find", "get_match", "get"])
    if sc["api"] == "get_match":
        sc["must_match"] = rng.random() < 0.6
    if sc["api"] == "get":
        r = rng.random()
        if r < 0.4:
            sc["default"] = None
        elif r < 0.7:
            sc["default"] = ["const", enc(rng.choice(["dflt", ["D"], 0, None, False, {}, [], ""]))]
        else:
            sc["default"] = ["call", enc(rng.choice(["dflt", ["D"], 0, None]))]
    if sc["api"] in ("find", "find_matches"):
        sc["nexts"] = rng.choice(["drain", "drain", "drain", 1, 2, 3])
        sc["extra"] = rng.choice([0, 1, 2, 3])
    return sc
