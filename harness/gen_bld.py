"""Generator for the builder family (C15): derivation DAGs of path expressions — siblings
derived before and after their prefix was rendered or evaluated — with equivalent spellings."""
import gen
from codec import enc

NAMES = ["a", "b", "k", "x_y", "a_b", "x", "l"]
RES = ["wc", "wildcard", "gwc", "generic_wildcard", "rec", "recursive", "parent"]
ODD = ["shape", "create_path_builder", "transform_attribute_name", "__len__", "_RESERVED_ATTR_FOR_VERTEX_DATA"]
DOC_KEYS = ["a", "b", "k", "x_y", "x-y", "a_b", "a-b", "x", "l", "parent", "wc"]


def gen_bdoc(rng, depth=0):
    r = rng.random()
    if depth >= 3 or r < 0.3:
        return rng.choice([0, 1, None, "s", 2.5, True, [], {}])
    if r < 0.7:
        ks = rng.sample(DOC_KEYS, rng.randint(1, 5))
        return {k: gen_bdoc(rng, depth + 1) for k in ks}
    return [gen_bdoc(rng, depth + 1) for _ in range(rng.randint(0, 3))]


def gen_key(rng):
    r = rng.random()
    if r < 0.2:
        return ["int", rng.choice([-2, -1, 0, 1, 2])]
    if r < 0.32:
        a, b, c = (rng.choice([None, -2, -1, 0, 1, 2]) for _ in range(3))
        if c == 0:
            c = rng.choice([None, 0, 1, -1])     # step 0 renders, but is never evaluated
        return ["slice", a, b, c]
    if r < 0.4:
        return ["wc"]
    if r < 0.48:
        return ["gwc"]
    if r < 0.72:
        return ["str", rng.choice(NAMES + ["x-y", "a-b"] + RES[:3])]
    if r < 0.82:
        items = [rng.choice(NAMES + [0, 1, -1]) for _ in range(rng.randint(0, 3))]
        if rng.random() < 0.2:
            items.insert(rng.randint(0, len(items)), {"bad": "float"})
        return ["tuple", items]
    if r < 0.92:
        return ["call", rng.choice(["T", "F", "D"])]
    return ["other", rng.choice(["float", "none", "bytes", "rec", "list", "pathexpr", "pathpred"])]


def gen_builder(rng):
    ops = [["root", 0, rng.choice(["path", "path", "pathd"])]]
    regs = [0]
    zero_slice = set()
    nxt = 1
    if rng.random() < 0.3:
        ops.append(["root", 1, rng.choice(["path", "pathd"])])
        regs.append(1)
        nxt = 2
    for _ in range(rng.randint(3, 16)):
        r = rng.random()
        src = rng.choice(regs)
        if r < 0.3:
            name = rng.choice(NAMES + NAMES + RES + ([rng.choice(ODD)] if rng.random() < 0.2 else []))
            ops.append(["attr", nxt, src, name])
            regs.append(nxt)
            if src in zero_slice:
                zero_slice.add(nxt)
            nxt += 1
        elif r < 0.55:
            key = gen_key(rng)
            ops.append(["item", nxt, src, key])
            regs.append(nxt)
            if src in zero_slice or (key[0] == "slice" and key[3] == 0):
                zero_slice.add(nxt)
            nxt += 1
        elif r < 0.75:
            ops.append(["str", src])
        elif r < 0.97:
            if src in zero_slice:
                ops.append(["str", src])
            else:
                ops.append(["eval", src, enc(gen_bdoc(rng))])
        else:
            ops.append([rng.choice(["setattr", "setitem"]), src])
    # equivalent spellings from one shared prefix, derived late
    src = rng.choice(regs)
    nm = rng.choice(NAMES)
    ops.append(["attr", nxt, src, nm])
    ops.append(["item", nxt + 1, src, ["str", nm]])
    d = enc(gen_bdoc(rng))
    if src not in zero_slice:
        ops += [["eval", nxt, d], ["eval", nxt + 1, d]]
    ops += [["str", nxt], ["str", nxt + 1], ["str", src]]
    nxt += 2
    if rng.random() < 0.3:
        # the dash root keeps translating after every kind of step: pathd.<name>.<reserved step>.<under_score name>
        r0 = nxt
        ops.append(["root", r0, "pathd"])
        cur = r0
        nxt += 1
        chain = ([rng.choice(NAMES)] if rng.random() < 0.5 else []) + [rng.choice(RES)] + [rng.choice(["x_y", "a_b"])]
        if rng.random() < 0.3:
            chain += [rng.choice(RES[:6]), rng.choice(["x_y", "a_b"])]
        for nm in chain:
            ops.append(["attr", nxt, cur, nm])
            cur = nxt
            nxt += 1
        doc = {"a": {"x-y": 1, "a-b": {"x-y": [2]}, "x_y": 3}, "x-y": {"a-b": 4, "a_b": 5}, "k": [{"x-y": 6}], "a-b": 7, "x_y": 8}
        ops += [["str", cur], ["eval", cur, enc(doc)], ["eval", cur, enc(gen_bdoc(rng))]]
    return {"fam": "b", "ops": ops}
