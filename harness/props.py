"""Per-property configuration and the generic runner (query family); the writer, builder,
descriptor and list-view families plug in through `extra` callables."""
import copy
import json
import os
import random
import sys
from concurrent.futures import ProcessPoolExecutor

HERE = os.path.dirname(os.path.abspath(__file__))
VERIF = os.path.dirname(HERE)

import corr
import gen
from observe import observe_query


def _hash(sc):
    import hashlib
    d = {k: v for k, v in sc.items() if k != "id"}
    return hashlib.sha1(json.dumps(d, sort_keys=True).encode()).hexdigest()[:12]


# ------------------------------------------------------------------ query streams

def make_query(rng, st):
    apis = st.get("apis") or ["find_matches"]
    sc = gen.gen_query(rng, st.get("profile", "all"), st.get("pred_profile", "mixed"), api=rng.choice(apis),
                       with_src=st.get("src"), maxlen=st.get("maxlen", 5))
    if st.get("untraced") and rng.random() < st["untraced"]:
        sc["traced"] = False
    if st.get("up") and sc.get("src") and rng.random() < st["up"]:
        # the search starts from an ancestor Match of a result (m.parent, m.parent.parent) of a search that is
        # still suspended, and begins with an iterating step
        sc["src"]["up"] = rng.choice([1, 1, 2])
        if rng.random() < 0.7:
            sc["path"] = [rng.choice([["gwc"], ["wc"], ["iwc"], ["rec"], ["s", None, None, None], ["t", ["a", 0, "b", 1]]])] + \
                [x for x in sc["path"] if x[0] != "rec"][:2]
    if st.get("guarded") and rng.random() < st["guarded"]:
        # a guarded conjunction / disjunction: an earlier argument protects a later one from values it cannot
        # handle ("a" > 3 raises), and the arguments decide differently from node to node
        ks = rng.sample(gen.KEYS, 4)
        rows = [{"kind": "num", "v": 5}, {"kind": "num", "v": 1}, {"kind": "txt", "v": "a"}, {"kind": "num", "v": 7}]
        rng.shuffle(rows)
        doc = dict(zip(ks, rows))
        guard = ["c", [["k", "kind"]], "eq", gen.enc("num")]
        test = ["c", [["k", "v"]], rng.choice(["gt", "ge", "lt"]), gen.enc(3)]
        if rng.random() < 0.5:
            pred = ["all", [guard, test] + ([["p", [["k", "v"]]]] if rng.random() < 0.3 else [])]
        else:
            pred = ["any", [["c", [["k", "kind"]], "ne", gen.enc("num")], test]]
        sc["doc"] = gen.enc(doc)
        sc["path"] = [rng.choice([["wc"], ["gwc"]]), ["f", pred]] + rng.choice([[], [["k", "v"]]])
        sc.pop("src", None)
        sc.pop("share", None)
    if st.get("par_filter_par") and rng.random() < st["par_filter_par"]:
        # a candidate that was reached by a parent step, filtered, then climbed from again
        keep = ["f", rng.choice([["all", []], ["not", ["p", [["k", "nope"]]], []], ["tab", "kind", [["dict", ["v", 1]], ["list", ["v", "y"]]], ["v", 0]]])]
        sc["path"] = [x for x in sc["path"] if x[0] != "rec"][:3] + [["par"]] + [keep] * rng.choice([1, 1, 2]) + [["par"]] * rng.choice([1, 2])
    if st.get("climb_in_has") and rng.random() < st["climb_in_has"]:
        # parent steps hidden inside a filter of a has-path: they climb above the candidate of the outer filter
        key = rng.choice(gen.KEYS)
        inner = ["f", ["has", ["p", [["par"]] * rng.choice([1, 2, 2, 3]) + rng.choice([[], [["k", key]], [["gwc"]]])], []]]
        outer = ["f", [rng.choice(["has", "has", "not"]), ["p", [rng.choice([["gwc"], ["wc"], ["k", key], ["iwc"], ["par"], ["par"]]), inner]], []]]
        pos = rng.randint(1, len(sc["path"])) if sc["path"] else 0
        sc["path"] = [x for x in sc["path"][:pos]] + [outer] + sc["path"][pos:]
    if st.get("resume") and sc["api"] in ("find", "find_matches") and rng.random() < st["resume"]:
        # the iterator is used again after it raised (the consumer caught the error and went on)
        sc["nexts"] = "drain"
        sc["extra"] = rng.choice([1, 2, 3])
    if st.get("nexts") == "drain" and sc["api"] in ("find", "find_matches"):
        sc["nexts"] = "drain"
        sc["extra"] = rng.choice([0, 1])
    if st.get("nexts") == "partial" and sc["api"] in ("find", "find_matches"):
        sc["nexts"] = rng.choice(["drain", 1, 2, 3, 4])
        if rng.random() < 0.12:
            sc["nexts"] = rng.randint(2, 8)
            sc["reiter_at"] = rng.randint(1, sc["nexts"] - 1)
        sc["extra"] = rng.choice([0, 1, 2, 5])
    return sc


def _worker(args):
    seed, n, st, base = args
    sys.path.insert(0, HERE)
    rng = random.Random(seed)
    out = []
    for i in range(n):
        sc = make_query(rng, st)
        sc["id"] = base + i
        try:
            sc = corr.finalize_query(sc)
            py = observe_query(sc)
        except Exception as e:  # harness must not die on a broken implementation
            py = [{"e": [], "s": ["HARNESS-EXC", f"{type(e).__name__}: {e}"]}]
            sc.setdefault("nexts", 1)
            if not isinstance(sc.get("nexts"), int):
                sc["nexts"] = 1
            sc.pop("extra", None)
        out.append((sc, py))
    return out


def nontrivial_query(sc, py):
    if py == "nosrc":
        return False
    has_res = any(s["s"][0] in ("R", "V") for s in py)
    has_exc = any(s["s"][0] == "X" for s in py)
    return (has_res and len(sc["path"]) >= 2) or has_exc


def classify_query(ctx, sc, py):
    ctx.count("api:" + sc["api"])
    ctx.count("src:" + ("match" if sc.get("src") else "doc"))
    if sc.get("reiter_at") is not None:
        ctx.count("iter() again before call %s" % ("1" if sc["reiter_at"] == 1 else "2+"))
    ctx.count("pathlen:%d" % min(len(sc["path"]), 6))
    for s in sc["path"]:
        ctx.count("step:" + s[0])
    js = json.dumps(sc["path"])
    for kind in ("below", "below2", "nb", "nb2", "tab", "has", "not", "all", "any"):
        if '["%s"' % kind in js:
            ctx.count("pred:" + kind)
    if py != "nosrc":
        nres = sum(1 for s in py if s["s"][0] in ("R", "V"))
        ctx.count("results:" + ("0" if nres == 0 else "1" if nres == 1 else "2-5" if nres <= 5 else "6+"))
        for s in py:
            if s["s"][0] == "X":
                ctx.count("exc:" + "/".join(s["s"][1]))
                break


def run_query_stream(ctx, st, n, observables, parallel=True):
    procs = 16 if (parallel and n >= 4000) else 1
    per = (n + procs - 1) // procs
    jobs = [(ctx.rng.randrange(1 << 60), per, st, k * per) for k in range(procs)]
    if procs == 1:
        batches = [_worker(jobs[0])]
    else:
        with ProcessPoolExecutor(max_workers=procs) as ex:
            batches = list(ex.map(_worker, jobs))
    pairs = [p for b in batches for p in b]
    run_pairs(ctx, pairs, observables)


def run_pairs(ctx, pairs, observables, label=None):
    outs = corr.run_driver([sc for sc, _ in pairs])
    for sc, py in pairs:
        ctx.evaluations += 1
        h = _hash(sc)
        ctx.distinct.add(h)
        if nontrivial_query(sc, py):
            ctx.nontrivial.add(h)
            if len(ctx.samples) < 6 and len(json.dumps(sc)) < 1500:
                ctx.samples.append({"scenario": {k: v for k, v in sc.items() if k != "id"},
                                    "python": py if len(json.dumps(py)) < 1500 else "(long)"})
        classify_query(ctx, sc, py)
        lean = outs.get(sc["id"], {"error": "no output from driver"})
        diffs = corr.compare_query(sc, py, lean, observables)
        if any(s["s"][0] == "HARNESS-EXC" for s in py if py != "nosrc"):
            diffs = diffs or [("spec", "harness-exception", py[0]["s"][1])]
        for level, ob, detail in diffs:
            if level == "infra":
                # the model gave no answer on this scenario: the correspondence cannot be checked on it
                level, ob, detail = "mach", "driver", "the model's driver gave no answer (" + detail + ")"
            v = dict(level=level, what=f"python vs {'specification' if level == 'spec' else 'machine model'} on '{ob}'",
                     detail=detail, scenario={k: v for k, v in sc.items() if k != "id"}, family="q",
                     observables=observables, label=label)
            if level == "spec" and sum(1 for x in ctx.violations if x["level"] == "spec") < 2:
                v = shrink_query(v, observables)
            v["python"] = None
            ctx.violations.append(v)
            break


# ------------------------------------------------------------------ shrinking

def _doc_reductions(j):
    """smaller variants of an encoded document"""
    out = []
    if isinstance(j, list) and j and j[0] in ("a", "o"):
        items = j[1]
        for i in range(len(items)):
            out.append([j[0], items[:i] + items[i + 1:]])
        for i, it in enumerate(items):
            sub = it[1] if j[0] == "o" else it
            for r in _doc_reductions(sub):
                new = list(items)
                new[i] = [it[0], r] if j[0] == "o" else r
                out.append([j[0], new])
            if isinstance(sub, list):
                new = list(items)
                new[i] = [it[0], 0] if j[0] == "o" else 0
                out.append([j[0], new])
    return out


def _candidates(sc):
    out = []
    if sc.get("src"):
        c = copy.deepcopy(sc)
        del c["src"]
        out.append(c)
        for i in range(len(sc["src"]["path"])):
            c = copy.deepcopy(sc)
            del c["src"]["path"][i]
            out.append(c)
    for i in range(len(sc["path"])):
        c = copy.deepcopy(sc)
        del c["path"][i]
        out.append(c)
    for r in _doc_reductions(sc["doc"])[:60]:
        c = copy.deepcopy(sc)
        c["doc"] = r
        out.append(c)
    # drop adjacent rec produced by deletions
    good = []
    for c in out:
        p = c["path"]
        if any(p[i][0] == "rec" and p[i + 1][0] == "rec" for i in range(len(p) - 1)):
            continue
        good.append(c)
    return good


def still_fails(cands, observables, deadline=None):
    import time
    pairs = []
    for i, c in enumerate(cands):
        if deadline is not None and time.time() > deadline:
            break
        c = copy.deepcopy(c)
        c["id"] = i
        if c["api"] in ("find", "find_matches"):
            c["nexts"] = "drain"
            c["extra"] = 2
        try:
            c = corr.finalize_query(c)
            py = observe_query(c)
        except Exception:
            continue
        pairs.append((c, py))
    outs = corr.run_driver([c for c, _ in pairs], procs=8)
    for c, py in pairs:
        lean = outs.get(c["id"])
        if not lean or "error" in lean:
            continue
        d = corr.compare_query(c, py, lean, observables)
        if d and d[0][0] == "spec":
            return c, d[0]
    return None, None


def shrink_query(v, observables, rounds=25, budget_s=12.0):
    import time
    sc = v["scenario"]
    t0 = time.time()
    try:
        for _ in range(rounds):
            if time.time() - t0 > budget_s:
                break
            c, d = still_fails(_candidates(sc), observables, t0 + budget_s)
            if c is None:
                break
            sc = {k: x for k, x in c.items() if k != "id"}
            v["detail"] = d[2]
            v["what"] = f"python vs specification on '{d[1]}'"
        v["scenario"] = sc
        v["shrunk"] = True
    except Exception as e:
        v["shrink_error"] = repr(e)
    return v


# ------------------------------------------------------------------ corpus

def run_corpus(ctx, cfg):
    d = os.path.join(VERIF, "corpus", ctx.pid)
    if not os.path.isdir(d):
        return
    pairs = []
    other = {}
    for i, f in enumerate(sorted(os.listdir(d))):
        if not f.endswith(".json"):
            continue
        item = json.load(open(os.path.join(d, f)))
        if item.get("family", "q") != "q":
            other.setdefault(item["family"], []).append(item)
            ctx.count("corpus")
            continue
        sc = copy.deepcopy(item["scenario"])
        sc["id"] = 10_000_000 + i
        sc = corr.finalize_query(sc)
        pairs.append((sc, observe_query(sc)))
        ctx.count("corpus")
    if pairs:
        run_pairs(ctx, pairs, cfg["observables"], label="corpus")
    for fam, items in other.items():
        for fn in cfg["extra"]:
            if getattr(fn, "family", None) == fam:
                fn.corpus(ctx, items)
                break


# ------------------------------------------------------------------ registry

def Q(profile="all", pred="mixed", apis=None, src=None, maxlen=5, nexts=None, share=1.0, untraced=0.0, up=0.0, climb_in_has=0.0,
      par_filter_par=0.0, guarded=0.0, resume=0.0):
    return dict(kind="q", profile=profile, pred_profile=pred, apis=apis, src=src, maxlen=maxlen, nexts=nexts, share=share,
                untraced=untraced, up=up, climb_in_has=climb_in_has, par_filter_par=par_filter_par, guarded=guarded, resume=resume)


ALL_APIS = ["find_matches", "find", "get_match", "get"]

PROPS = {}


def register(pid, **kw):
    kw.setdefault("streams", [])
    kw.setdefault("observables", ["results"])
    kw.setdefault("oracles", [])
    kw.setdefault("extra", [])
    kw.setdefault("n_quick", 5000)
    kw.setdefault("n_thorough", 120000)
    PROPS[pid] = kw


def run_property(ctx, cfg, escalate=1):
    run_corpus(ctx, cfg)
    n = ctx.scale(cfg["n_quick"], cfg["n_thorough"]) * escalate
    if escalate > 1:
        n = min(n, 200000)
    tot = sum(s["share"] for s in cfg["streams"]) or 1
    for st in cfg["streams"]:
        k = max(1, int(n * st["share"] / tot))
        done = 0
        while done < k:
            step = min(k - done, 40000)
            run_query_stream(ctx, st, step, st.get("observables", cfg["observables"]))
            done += step
            if sum(1 for v in ctx.violations if v["level"] == "spec") >= 3:
                break
    def found():
        return any(v["level"] == "spec" for v in ctx.violations)
    for fn in cfg["oracles"]:
        if found():
            break       # one replayable failing input is enough; do not keep running a broken tree
        fn(ctx)
    for fn in cfg["extra"]:
        if found():
            break
        fn(ctx, escalate)
    # generator health (DESIGN §6.1): a silently degenerate generator must not pass for coverage
    # (a tree that fails everywhere is not a degenerate generator: its failing inputs are reported)
    if cfg["streams"] and ctx.evaluations >= 500 and len(ctx.nontrivial) < 0.15 * ctx.evaluations and not found():
        raise RuntimeError(f"degenerate generator: {len(ctx.nontrivial)} non-trivial of {ctx.evaluations}")


def known_reproduces(cfg, kf):
    """does the recorded witness of a known finding still fail on this tree?"""
    w = kf["witness"]
    fam = w.get("family", "m")
    for fn in cfg["extra"]:
        if getattr(fn, "family", None) == fam:
            sc = copy.deepcopy(w["scenario"])
            sc["id"] = 0
            py = fn.observe(sc)
            out = corr.run_driver([sc], procs=1)[0]
            hits = set()
            fn.first_diff(py, out["out"][fn.out_key], sc, hits)
            return kf["signature"] in hits
    if fam.startswith("oracle:"):
        detail, _ = oracles.CHECKS[fam.split(":", 1)[1]](w["scenario"])
        return bool(detail)
    return None


def replay(ctx, cfg, rp):
    sc = rp.get("scenario")
    if not sc:
        print("replay file carries no scenario (broken obligation only):", json.dumps(rp.get("broken_obligations"))[:600])
        return False
    fam = rp.get("family", "q")
    if fam == "q":
        sc = copy.deepcopy(sc)
        sc["id"] = 1
        sc = corr.finalize_query(sc)
        py = observe_query(sc)
        run_pairs(ctx, [(sc, py)], rp.get("observables") or cfg["observables"], label="replay")
        print("python record:", json.dumps(py)[:1500])
        return not ctx.violations
    if fam.startswith("oracle:"):
        detail, _ = oracles.CHECKS[fam.split(":", 1)[1]](sc)
        if detail:
            ctx.violations.append(dict(level="spec", what=fam, detail=detail, scenario=sc, family=fam))
        return not detail
    for fn in cfg["extra"]:
        if getattr(fn, "family", None) == fam:
            return fn.replay(ctx, rp)
    return False


import oracles  # noqa: E402  (python-side support oracles; registers nothing by itself)
import families  # noqa: E402

register("C01", streams=[Q("child", apis=["find_matches"], src=False, maxlen=5)],
         observables=["results"], oracles=[oracles.identity_oracle, oracles.requery_oracle, oracles.interleave_child_oracle, oracles.big_iteration_oracle_for({"kind": "wc", "n": 400000})],
         rule="random JSON documents (depth<=4, shuffled keys, empty containers, falsy scalars) x child-step paths grown by walking the document (75%) or free (25%); non-trivial = at least one result and >=2 steps, or an exception; distinct by scenario hash",
         assumptions=["floats restricted to half-integers", "slice step 0 and bool indices excluded (not supported steps)"])
register("C02", streams=[Q("rec", apis=["find_matches"], src=False, maxlen=5, share=4), Q("recpar", apis=["find_matches"], src=None, maxlen=5, share=1)],
         extra=[families.BuilderFamily("dag", 300, 15000, "recursive steps written through the builders (path / pathd, steps after rec): renderings and selections")],
         observables=["results"], oracles=[oracles.reiter_oracle, oracles.big_iteration_oracle_for({"kind": "rec", "n": 180000}, {"kind": "rec_scalars", "n": 6000}), oracles.reuse_oracle],
         rule="documents with ragged depth and empty containers x paths with >=1 recursive step mixed with all other step kinds; non-trivial as C01")
register("C03", streams=[Q("filter", pred="custom", apis=["find_matches"], src=False, share=2), Q("filter", pred="mixed", apis=["find_matches"], src=False, share=1),
                         Q("filterpar", pred="custom", apis=["find_matches"], src=None, share=1, par_filter_par=0.4),
                         Q("filter", pred="below", apis=["find_matches"], src=False, share=1)],
         observables=["calls", "results_exc"], oracles=[oracles.deep_oracle],
         rule="paths with filters in any position (root, after wildcard/rec/slice, stacked, followed by steps); predicates are decision tables over the candidate returning arbitrary truthy/falsy objects or raising, neighbour lookups, and has-family predicates; compared: results, per-candidate call log (path, data_name, data, parent), exception cause chain")
register("C04", streams=[Q("filter", pred="has", apis=["find_matches"], src=False, share=5, untraced=0.4, guarded=0.04, resume=0.3, climb_in_has=0.12),
                         Q("filter", pred="below", apis=["find_matches"], src=False, share=1, untraced=0.4)],
         observables=["fncalls", "results_exc"], oracles=[oracles.has_again_oracle],
         rule="has/has_not/has_all/has_any trees (depth<=3) over relative paths incl. wildcards, recursion, parent steps, nested filters; six operators; constants of every JSON kind; conversion chains of length 0-3 that raise on part of the data; compared: results, conversion call order, exception chain")
register("C05", streams=[Q("all", apis=ALL_APIS, src=None, share=3, untraced=0.4), Q("parent", apis=ALL_APIS, src=True, share=1, untraced=0.4),
                         Q("keyidx", apis=ALL_APIS, src=None, share=1, untraced=0.6)],
         observables=["results_exc"], oracles=[oracles.deep_oracle, oracles.big_iteration_oracle_for({"kind": "find", "n": 260000}), oracles.projection_oracle],
         extra=[families.MutateFamily("cascade", 400, 15000, "get(store_default) with constant and callable defaults: what is returned is what is stored, the callable is asked once")],
         rule="all four read functions on the same (path, source) space, source = document or k-th match of another path; default in {none, constant incl. falsy and {}, callable}; must_match in {True, False}")
register("C07", generated=["Shared"], streams=[Q("all", apis=["find_matches", "find"], src=None, nexts="partial", untraced=0.5, share=4),
                         Q("filter", pred="below", apis=["find_matches", "find"], src=None, nexts="partial", untraced=0.5, share=1),
                         Q("filter", pred="lazyhas", apis=["find_matches", "find"], src=None, nexts="partial", untraced=0.5, share=1)],
         observables=["calls", "results_exc", "segments"], oracles=[oracles.interleave_oracle, oracles.thread_oracle, oracles.reiter_oracle, oracles.long_iteration_oracle, oracles.fatigue_oracle],
         rule="iterators advanced k times (k below, at, beyond the number of results; extra next() calls after exhaustion); per-call segments of results and user-predicate calls compared with the machine model; interleavings of 2-5 iterators sharing path objects; real threads as support")
register("C11", streams=[Q("nopar", apis=["find_matches"], src=None)],
         observables=["full_results"], oracles=[oracles.match_truth_oracle, oracles.match_eq_oracle, oracles.eq_after_change_oracle, oracles.eq_across_documents_oracle, oracles.live_edit_oracle],
         rule="parent-free paths; every Match observable (path_as_str, data_name, data, path_match_list names, parent) compared; round trip through Match.path, duplicate-freedom and == on random pairs as python-side oracles")
register("C12", streams=[Q("all", apis=ALL_APIS, src=True, untraced=0.4, share=3), Q("parent", apis=ALL_APIS, src=True, untraced=0.4, share=1),
                         Q("nopar", apis=ALL_APIS, src=True, untraced=0.4, share=1, up=1.0),
                         Q("keyidx", apis=["get", "get", "get_match", "find"], src=True, untraced=0.7, share=2)],
         observables=["full_results"], oracles=[oracles.concat_oracle],
         extra=[families.MutateFamily("handles", 500, 15000, "searches from a Match that was written through (m.data = v, then find_matches(q, m)): locations and the node reached"),
                families.MutateFamily("cascade", 500, 15000, "get(q, match, default, store_default=True) and cascading set_match from a Match: the same as from the root")],
         rule="pairs (p, q): every API function run on q from the k-th match of p, compared with the specification evaluated from the same match; p+q concatenation checked on the python side")
register("C13", streams=[Q("parent", apis=["find_matches"], src=None, share=2, untraced=0.3, climb_in_has=0.25),
                         Q("parent", apis=ALL_APIS, src=True, share=1, untraced=0.4, climb_in_has=0.2)],
         observables=["full_results"],
         extra=[families.MutateFamily("mset", 300, 15000, "set_match from a Match whose target path climbs above the source (outcome, returned location, object graph)"),
                families.BuilderFamily("dag", 300, 15000, "parent steps written through the builders (path / pathd): renderings and selections"),
                families.MutateFamily("handles", 500, 15000, "searches that climb (child, then parent) from a Match whose container was replaced through it"),
                families.MutateFamily("descr", 400, 15000, "attributes of nested documents typed through getter=get_match whose paths climb above the wrapped node")],
         rule="paths with parent steps in any position, interleaved with descents, filters and recursion, from a document or a Match; locations incl. the '<-name' trail compared")
register("C17", streams=[Q("all", apis=["find_matches", "find", "get_match"], src=None)],
         observables=["results_exc", "leaf_events", "stamps", "tie:trace"], oracles=[oracles.untraced_oracle, oracles.long_scan_oracle, oracles.event_chain_oracle, oracles.deep_oracle],
         extra=[families.MutateFamily("set", 500, 15000, "writers given a trace callable on every other call: outcome and object graph as without")],
         rule="full trace event stream (last_match, vertex index, next_match, predicate_match) compared with the machine model; unstamped events compared with the specification stream; traced vs untraced runs compared on the python side")
register("C20", generated=["Budget"], streams=[Q("all", apis=["find_matches"], src=None, nexts="drain", share=5),
                                               Q("filter", pred="lazyhas", apis=["find_matches"], src=None, nexts="drain", share=1)],
         observables=["attempts_bound", "results_exc", "tie:attempts"], oracles=[oracles.work_bound_oracle, oracles.rescan_oracle, oracles.live_edit_oracle, oracles.interleave_oracle, oracles.cyclic_oracle, oracles.cyclic_optional_oracle, oracles.deep_oracle],
         extra=[families.GraphFamily("cyclic", 8, 150, "per-next() trace-event count and signal on self-referential structures under the real budget")],
         rule="number of trace events of a drained search compared with the specification's attempt count and with 2 x examinations; cyclic dict/list structures with the real budget as support")

register("C08", oracles=[oracles.append_many_oracle], extra=[families.MutateFamily("set", 1500, 60000, "outcome and whole object graph of set_ / set_match histories")],
         rule="histories of 1-10 set_/set_match calls (no cascade) on one evolving document; parent part of any step kind, last step key/index incl. negative, ==len, beyond, wrong kind, other step kinds, the root; values fresh or aliases of existing objects; the same expression objects reused across calls; non-trivial = the history changed the document; compared: outcome class, returned value identity, the whole reachable object graph under canonical object numbers after every call")
register("C09", oracles=[oracles.append_many_oracle], extra=[families.MutateFamily("cascade", 1500, 60000, "outcome and object graph of cascading set_ / get(store_default) histories")],
         rule="histories of cascading set_/set_match and get(..., store_default=True) on key/index paths that exist up to a random level (wrong type at some level, append vs index 0 vs other indices), interleaved with pops that remove created levels; expression objects reused")
register("C10", oracles=[oracles.deep_oracle], extra=[families.MutateFamily("pop", 1500, 60000, "outcome and object graph of pop / pop_match / set_ histories"),
                                                      families.MutateFamily("handles", 500, 15000, "pop with a Match as data source that was taken before earlier edits (h.mpop)")],
         rule="histories of pop (with/without default), pop_match (must_match on/off) and set_ on one evolving document; any parent part, any last step, negative indices, the root")
register("C14", extra=[families.MutateFamily("handles", 1500, 60000, "outcome and object graph of Match.data assignment / del / pop histories")],
         rule="1-4 live Match handles (several on the same slot, on shifting list items, obtained through filters / recursion / wildcards) x sequences of m.data = v, del m.data, m.pop(default), m.data reads")

register("C18", oracles=[oracles.stored_default_alias_oracle], extra=[families.MutateFamily("descr", 1500, 60000, "outcome and object graph of descriptor reads / writes / deletes"),
                       families.MutateFamily("listview", 500, 20000, "writes through the list view of a list-typed attribute reach the original document")],
         rule="histories over Document subclasses built from random declarations: attr with/without expression, getters get/find/get_match, setters set_/set_match, converters (identity, numeric negation, boxing), typed chains (attr_typed, element k of attr_iter_typed) whose inner attributes are read / written / deleted, iterator-typed assignment, deprecated pprop/mprop; compared: outcome, returned value identity, whole object graph")
register("C19", oracles=[oracles.stored_default_alias_oracle], extra=[families.MutateFamily("listview", 1500, 60000, "results and object graph of list-view operation histories")],
         rule="histories of len / [i] / [i]= / del [i] / in / append / pop(i) / iteration / live iterators interleaved with mutations / keep_all / remove_all through the view of a list-typed attribute (identity, negating and boxing converters; empty lists; negative and out-of-range indices; predicates keeping none / some / all); compared: results and the document's own list object in the whole object graph")

register("C15", streams=[Q("filter", pred="has", apis=["find_matches"], src=False, guarded=0.2)], n_quick=2500, n_thorough=60000,
         oracles=[oracles.reuse_oracle, oracles.spelling_oracle, oracles.interrupted_use_oracle, oracles.snapshot_oracle, oracles.interleave_oracle], extra=[families.BuilderFamily("dag", 1500, 60000, "renderings and selections of expression derivation DAGs")],
         generated=["Reserved"],
         rule="derivation DAGs over path / pathd: attribute and item steps of every kind (incl. reserved attribute names, odd builder attributes, unsupported indices), siblings derived before and after their shared prefix was rendered or evaluated, equivalent spellings derived late from one prefix; compared: str()/repr() of every expression, results of evaluating it on random documents (keys with '-' and '_'), errors")

register("C06", streams=[Q("all", apis=ALL_APIS, src=None, share=1, guarded=0.06)], n_quick=1500, n_thorough=60000,
         observables=["results_exc"], oracles=[oracles.snapshot_oracle, oracles.reuse_oracle, oracles.interleave_oracle, oracles.interrupted_use_oracle, oracles.recycled_document_oracle], generated=["Stores"],
         rule="read-only calls (find / find_matches / get_match / get, traced and untraced, from a document or a Match, any has-family predicates) repeated 2-5 times on the same document and the same path object: deep snapshot (container identities, key order, list contents) before = after every call, the path renders like a never-evaluated twin, later evaluations select what the first did; plus the store table regenerated from the source")
register("C16", streams=[Q("all", apis=ALL_APIS, src=None, share=1, resume=0.4),
                         Q("filter", pred="mixed", apis=["find", "find_matches"], src=None, share=1, resume=1.0, untraced=0.5)], n_quick=3000, n_thorough=60000,
         observables=["results_exc", "documented"], oracles=[oracles.documented_oracle, oracles.slice_mutation_oracle, oracles.deep_oracle, oracles.resume_after_loop_oracle, oracles.dash_root_oracle, oracles.live_edit_oracle],
         extra=[families.MutateFamily("set", 400, 15000, "error classes of set_ / set_match"),
                families.MutateFamily("pop", 400, 15000, "error classes of pop / pop_match"),
                families.BuilderFamily("dag", 400, 15000, "PathSyntaxError at construction for unsupported indices")],
         generated=["ExcMro"],
         rule="every API function (incl. nested variants, cascade / default options, set_ and pop at the root) on documents whose types mismatch the path at every level: the exception class chain is compared with the model; any exception outside the library's classes is a failing input; str()/repr() twice, equal, naming the path; unsupported indices at construction")
