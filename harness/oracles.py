"""Python-side support oracles: what the Lean model cannot carry (object identity, thread
pre-emption, wall time) or what is cheapest to state against the implementation alone.
They never stand in for a theorem; their coverage is reported separately in the evidence."""
import itertools
import json
import random
import sys
import threading
import time

import gen
from codec import Builder, dec, enc, exc_chain, node_full
from treepath import find, find_matches, get, get_match, path, InfiniteLoopDetected, TreepathException


def _viol(ctx, name, detail, sc):
    ctx.violations.append(dict(level="spec", what=f"python-side oracle '{name}'", detail=detail, scenario=sc,
                               family="oracle:" + name))


class _OracleHang(BaseException):
    pass


def _limited(check, sc):
    """run one oracle case under a CPU-time limit (a broken implementation may loop for ever, allocating as it
    goes): no answer within the limit is reported as a failing input.  Cases carry their own limit in
    sc['timeout']; the default is generous (the longest clean case takes well under a minute)."""
    import os
    import signal
    secs = float(sc.get("timeout") or os.environ.get("VERIF_ORACLE_TIMEOUT", 300)) if isinstance(sc, dict) else 300.0
    if threading.current_thread() is not threading.main_thread() or secs <= 0:
        return check(sc)

    def onalarm(signum, frame):
        raise _OracleHang()

    old = signal.signal(signal.SIGVTALRM, onalarm)
    signal.setitimer(signal.ITIMER_VIRTUAL, secs)
    try:
        return check(sc)
    except _OracleHang:
        return f"no answer within {secs:.0f} CPU seconds (hangs, or does unbounded work)", True
    finally:
        signal.setitimer(signal.ITIMER_VIRTUAL, 0)
        signal.signal(signal.SIGVTALRM, old)


def _run(ctx, name, n_quick, n_thorough, make, check):
    n = ctx.scale(n_quick, n_thorough)
    bad = 0
    nontriv = 0
    for _ in range(n):
        sc = make(ctx.rng)
        try:
            r = _limited(check, sc)
        except TreepathException:
            r = (None, False)   # a generated predicate raised: outside this oracle's scope
        except Exception as e:  # an oracle that crashes on the implementation's behaviour reports it
            r = (f"oracle raised {type(e).__name__}: {e}", True)
        detail, nt = r
        nontriv += 1 if nt else 0
        if detail and bad < 3:
            _viol(ctx, name, detail, sc)
            bad += 1
            if bad >= 3:
                break
    ctx.support[name] = dict(cases=n, nontrivial=nontriv, failures=bad)


def walk(doc, names):
    cur = doc
    for nm in names:
        cur = cur[nm]
    return cur


# ---------------- C01: reported values are the stored objects ----------------

def identity_check(sc):
    doc = dec(sc["doc"])
    expr = Builder([]).steps(sc["path"])
    n = 0
    for m in find_matches(expr, doc):
        n += 1
        names = [x.data_name for x in m.path_match_list[1:]]
        try:
            node = walk(doc, names)
        except Exception as e:
            return f"location {m.path_as_str} does not exist in the document ({type(e).__name__})", True
        if m.data is not node:
            return f"value reported at {m.path_as_str} is not the object stored there", True
    return None, n > 0


def identity_oracle(ctx):
    def make(rng):
        sc = gen.gen_query(rng, "child", api="find_matches", with_src=False)
        return {"doc": sc["doc"], "path": sc["path"]}
    _run(ctx, "identity", 1500, 40000, make, identity_check)


# ---------------- C01 / C06: the same path object, evaluated again after the document was edited ----------------

def _containers(v, acc):
    if isinstance(v, (dict, list)):
        acc.append(v)
        for x in (v.values() if isinstance(v, dict) else v):
            _containers(x, acc)
    return acc


def _apply_edit(doc, ed):
    cs = _containers(doc, [])
    if not cs:
        return              # a scalar document: nothing to edit in place
    c = cs[ed["at"] % len(cs)]
    k = ed["op"]
    if isinstance(c, dict):
        keys = list(c.keys())
        if k == "del" and keys:
            del c[keys[ed["i"] % len(keys)]]
        elif k == "replace" and keys:
            c[keys[ed["i"] % len(keys)]] = dec(ed["v"])
        elif k == "clear":
            c.clear()
        else:
            c[ed["key"]] = dec(ed["v"])
    else:
        if k == "del" and c:
            del c[ed["i"] % len(c)]
        elif k == "replace" and c:
            c[ed["i"] % len(c)] = dec(ed["v"])
        elif k == "clear":
            del c[:]
        elif k == "insert":
            c.insert(0, dec(ed["v"]))
        else:
            c.append(dec(ed["v"]))


def requery_check(sc):
    """a path is a value: whatever it was evaluated on before, evaluating it on the document as
    it is now gives what a freshly written copy of the path gives"""
    doc = dec(sc["doc"])
    expr = Builder([]).steps(sc["path"])

    def run(e):
        try:
            return [(m.path_as_str, id(m.data) if isinstance(m.data, (dict, list)) else repr(m.data))
                    for m in itertools.islice(find_matches(e, doc), 300)]
        except TreepathException as x:
            return ("exc", tuple(exc_chain(x)))

    first = run(expr)
    nontrivial = bool(first) and not isinstance(first, tuple)
    for rnd, ed in enumerate(sc["edits"]):
        _apply_edit(doc, ed)
        again = run(expr)
        fresh = run(Builder([]).steps(sc["path"]))
        if again != fresh:
            return (f"after edit #{rnd} {json.dumps(ed)} the path object that was used before selects "
                    f"{str(again)[:200]} but a freshly built copy selects {str(fresh)[:200]}"), True
    return None, nontrivial


def requery_oracle(ctx):
    def make(rng):
        sc = gen.gen_query(rng, rng.choice(["child", "child", "all", "rec"]), pred_profile="has", api="find_matches", with_src=False)
        edits = []
        for _ in range(rng.randint(1, 3)):
            edits.append({"at": rng.randrange(64), "op": rng.choice(["del", "replace", "add", "add", "clear", "insert"]),
                          "i": rng.randrange(8), "key": rng.choice(gen.KEYS), "v": gen.enc(rng.choice(gen.SCALARS + [[], {}, [1], {"a": 1}]))})
        return {"doc": sc["doc"], "path": sc["path"], "edits": edits}
    _run(ctx, "requery", 800, 30000, make, requery_check)


# ---------------- C02 / C07: iter() called again on a partly consumed iterator ----------------

def reiter_check(sc):
    """what `iter(it)` does to a live iterator is not part of any property (the library starts
    the search over; the iterator protocol would allow it to just continue) — but the results
    that follow must be one or the other: the complete answer again, or the part of it not
    delivered yet.  Anything else loses or repeats nodes."""
    doc = dec(sc["doc"])
    full = [_val(m) for m in itertools.islice(find_matches(Builder([]).steps(sc["path"]), doc), 400)]
    it = find_matches(Builder([]).steps(sc["path"]), doc)
    head = []
    for _ in range(sc["k"]):
        try:
            head.append(_val(next(it)))
        except StopIteration:
            break
    if head != full[:len(head)]:
        return None, False       # (laziness / prefix is the business of the correspondence)
    again = [_val(m) for m in itertools.islice(iter(it), 400)]
    if again != full and again != full[len(head):]:
        return (f"after {len(head)} results and iter() again the iterator yields {str(again)[:160]}: neither the complete "
                f"answer {str(full)[:160]} nor its remainder"), True
    return None, len(full) > len(head) > 0


def reiter_oracle(ctx):
    def make(rng):
        sc = gen.gen_query(rng, rng.choice(["rec", "all", "child"]), pred_profile="has", api="find_matches", with_src=False)
        return {"doc": sc["doc"], "path": sc["path"], "k": rng.randint(1, 6)}
    _run(ctx, "reiter", 600, 20000, make, reiter_check)


# ---------------- C07: interleavings and threads ----------------

def _drain(it, cap=400):
    out = []
    for _ in range(cap):
        try:
            out.append(("R", id(next(it))) if False else ("R", _val(next(it))))
        except StopIteration:
            out.append(("S",))
            break
        except Exception as e:  # noqa
            out.append(("X", tuple(exc_chain(e))))
            break
    return out


def _val(r):
    if hasattr(r, "path_as_str"):
        return (r.path_as_str, id(r.data))
    return json.dumps(enc(r))


def interleave_check(sc):
    rng = random.Random(sc["seed"])
    docs = [dec(d) for d in sc["docs"]]
    b = Builder([])
    exprs = [b.steps(p) for p in sc["paths"]]
    # iterator i uses expression sc["uses"][i][0] on document sc["uses"][i][1]
    fns = {"find": find, "find_matches": find_matches}
    srcs = list(docs)
    if sc.get("from_match") is not None:
        # all iterators start from one and the same Match object of document 0
        ms = list(itertools.islice(find_matches(b.steps(sc["from_match"]), docs[0]), 1))
        if not ms:
            return None, False
        srcs = [ms[0] for _ in docs]
    outer = None
    if sc.get("from_parent") is not None:
        # the searches start from m.parent, where m is a result of an outer search that is still live (the outer
        # iterator is fanning out from that very node); the outer iterator takes part in the interleaving
        oexpr = b.steps(sc["from_parent"])
        solo_outer = _steps(find_matches(oexpr, docs[0]), sc["calls"] + 1)
        outer = find_matches(oexpr, docs[0])
        try:
            m = next(outer)
        except Exception:  # noqa
            return None, False
        par = m.parent
        if par is None:
            return None, False
        try:
            ref = get_match(par.path, docs[0])      # the same location, found by a search of its own
        except Exception:  # noqa
            return None, False
        got_outer = [("R", _val(m))]
        srcs = [ref for _ in docs]
    solo = []
    for (pi, di, api) in sc["uses"]:
        solo.append(_steps(fns[api](exprs[pi], srcs[di]), sc["calls"]))
    if outer is not None:
        srcs = [par for _ in docs]
    its = [fns[api](exprs[pi], srcs[di]) for (pi, di, api) in sc["uses"]]
    got = [[] for _ in its]
    order = []
    for i in range(len(its)):
        order += [i] * sc["calls"]
    if outer is not None:
        order += [-1] * sc["calls"]
    rng.shuffle(order)
    for i in order:
        if i < 0:
            got_outer.append(_one(outer))
        else:
            got[i].append(_one(its[i]))
    if outer is not None and got_outer != solo_outer:
        k = next(j for j in range(len(solo_outer)) if got_outer[j] != solo_outer[j])
        return f"the outer iterator differs from its solo run at call {k}: {got_outer[k]} vs {solo_outer[k]}", True
    for i in range(len(its)):
        if got[i] != solo[i]:
            k = next(j for j in range(len(solo[i])) if got[i][j] != solo[i][j])
            return f"iterator {i} differs from its solo run at call {k}: {got[i][k]} vs {solo[i][k]}", True
    return None, any(x[0] == "R" for s in solo for x in s)


def _one(it):
    try:
        return ("R", _val(next(it)))
    except StopIteration:
        return ("S",)
    except Exception as e:  # noqa
        return ("X", tuple(exc_chain(e)))


def _steps(it, n):
    return [_one(it) for _ in range(n)]


def interleave_oracle(ctx, profile="all", n_quick=400):
    def make(rng):
        ndocs = rng.randint(1, 2)
        docs = [gen.gen_doc(rng) for _ in range(ndocs)]
        pg = gen.PathGen(rng, profile)
        base = pg.gen_path([docs[0]], maxlen=3)
        paths = [base]
        # a path that reuses the base as the relative path of its own filter, and an extension
        paths.append(base + [["f", ["has", ["p", [s for s in base if s[0] != "rec"][:2] or [["gwc"]]], []]]])
        ext = pg.gen_path([docs[0]], maxlen=2)
        if base and base[-1][0] == "rec" and ext and ext[0][0] == "rec":
            ext = ext[1:]
        paths.append(base + ext)
        uses = [(rng.randrange(len(paths)), rng.randrange(ndocs), rng.choice(["find", "find_matches"]))
                for _ in range(rng.randint(2, 5))]
        sc = {"docs": [enc(d) for d in docs], "paths": paths, "uses": uses, "calls": rng.randint(2, 9),
              "seed": rng.randrange(1 << 30)}
        r = rng.random()
        fans = [["gwc"], ["igwc"], ["wc"], ["iwc"], ["rec"], ["s", None, None, None], ["t", ["a", "b", 0, 1, "c"]]]
        if r < 0.25:
            # searches from the parent of a result of a live outer search, starting with fan-out steps
            pre = pg.gen_path([docs[0]], maxlen=2, minlen=0)
            sc["from_parent"] = [x for x in pre if x[0] not in ("rec", "par")] + [rng.choice(fans)]
            sc["paths"] = [[rng.choice(fans)] + [x for x in p[:2] if x[0] != "rec"] for p in paths]
        elif r < 0.5:
            # several live searches from one Match object, starting with fan-out steps
            sc["from_match"] = pg.gen_path([docs[0]], maxlen=2, minlen=0)
            sc["paths"] = [[rng.choice([["gwc"], ["wc"], ["iwc"], ["rec"], ["s", None, None, None]])] + p[:2] for p in paths]
            while any(p[0][0] == "rec" and len(p) > 1 and p[1][0] == "rec" for p in sc["paths"]):
                sc["paths"] = [[p[0]] + [x for x in p[1:] if x[0] != "rec"] for p in sc["paths"]]
        return sc
    _run(ctx, "interleave", n_quick, 12000, make, interleave_check)


def interleave_child_oracle(ctx):
    """several live searches by one path object of child steps (comma lists, slices, wildcards) over one or two documents"""
    interleave_oracle(ctx, profile="child", n_quick=600)


def thread_check(sc):
    docs = [dec(d) for d in sc["docs"]]
    old = sys.getswitchinterval()
    sys.setswitchinterval(1e-6)
    try:
        # fresh, never rendered / evaluated expression objects shared by all threads
        b = Builder([])
        expr = b.steps(sc["path"])
        expected_expr = Builder([]).steps(sc["path"])
        expected = [[_val(m) for m in itertools.islice(find_matches(expected_expr, d), 300)] for d in docs]
        results = [None] * sc["threads"]
        errors = []
        barrier = threading.Barrier(sc["threads"])

        def work(i):
            try:
                barrier.wait()
                d = docs[i % len(docs)]
                results[i] = [_val(m) for m in itertools.islice(find_matches(expr, d), 300)]
                str(expr)
            except Exception as e:  # noqa
                errors.append(f"{type(e).__name__}: {e}")

        ts = [threading.Thread(target=work, args=(i,)) for i in range(sc["threads"])]
        for t in ts:
            t.start()
        for t in ts:
            t.join()
    finally:
        sys.setswitchinterval(old)
    if errors:
        if all(e.startswith("TraversingError") for e in errors):
            return None, False
        return "thread raised " + errors[0], True
    for i in range(sc["threads"]):
        if results[i] != expected[i % len(docs)]:
            return f"thread {i} yields {len(results[i])} results, solo run {len(expected[i % len(docs)])}", True
    return None, any(expected)


def thread_long_check(sc):
    """several threads start evaluating the same *never used* long path at once: whatever they
    find in its lazily filled caches must be complete (a long chain keeps the window open)"""
    n, threads = sc["steps"], sc["threads"]
    doc = leaf = {"v": 1}
    for i in range(n):
        doc = {"k": doc}
    old = sys.getswitchinterval()
    sys.setswitchinterval(1e-6)
    bad = None
    try:
        for trial in range(sc["trials"]):
            expr = path
            for i in range(n):
                expr = expr.k
            expr = expr.v
            results = [None] * threads
            errors = []
            barrier = threading.Barrier(threads)

            def work(i, expr=expr):
                try:
                    barrier.wait()
                    results[i] = list(itertools.islice(find(expr, doc), 3))
                except Exception as e:  # noqa
                    errors.append(f"{type(e).__name__}: {e}")

            ts = [threading.Thread(target=work, args=(i,)) for i in range(threads)]
            for t in ts:
                t.start()
            for t in ts:
                t.join()
            if errors:
                bad = f"trial {trial}: a thread sharing a fresh {n}-step path raised {errors[0]}"
                break
            if any(r != [1] for r in results):
                bad = f"trial {trial}: threads sharing a fresh {n}-step path yield {results}, alone each yields [1]"
                break
    finally:
        sys.setswitchinterval(old)
    return bad, True


def thread_oracle(ctx):
    def make_long(rng):
        return {"steps": rng.choice([200, 400]), "threads": rng.randint(2, 4), "trials": 12}
    _run(ctx, "threads_long", 3, 40, make_long, thread_long_check)

    def make(rng):
        docs = [gen.gen_doc(rng) for _ in range(rng.randint(1, 2))]
        pg = gen.PathGen(rng, "all", "has")
        return {"docs": [enc(d) for d in docs], "path": pg.gen_path([docs[0]], maxlen=5, minlen=2),
                "threads": rng.randint(2, 6)}
    _run(ctx, "threads", 40, 1500, make, thread_check)


def long_iteration_oracle(ctx):
    """C07 for large k: an iterator that has already delivered hundreds of thousands of results
    (each a few steps away) keeps delivering the next ones"""
    sc = {"kind": "dict", "path": [["rec"], ["k", "x"]], "take": 350000, "expect": "many", "first": [], "timeout": 120}
    try:
        detail, _ = cyclic_check(sc)
    except Exception as e:  # noqa
        detail = f"{type(e).__name__}: {e}"
    if detail:
        _viol(ctx, "cyclic", detail, sc)
    ctx.support["long_iteration"] = dict(cases=1, nontrivial=1, failures=1 if detail else 0)


def projection_check(sc):
    """find(p, src) is find_matches(p, src) with every match replaced by its data — call for call, also for
    the calls made after a predicate raised and after iter() was called again on the iterator"""
    from observe import observe_query
    a = observe_query(dict(sc, api="find_matches"), traced=sc.get("traced", True))
    b_ = observe_query(dict(sc, api="find"), traced=sc.get("traced", True))
    if a == "nosrc" or b_ == "nosrc":
        return (None, False) if a == b_ else ("source match differs", True)
    pa = [["V", s["s"][1]["d"]] if s["s"][0] == "R" else s["s"] for s in a]
    pb = [s["s"] for s in b_]
    if pa != pb:
        k = next((i for i in range(min(len(pa), len(pb))) if pa[i] != pb[i]), min(len(pa), len(pb)))
        return (f"call {k}: find_matches gives {json.dumps(pa[k] if k < len(pa) else None)[:160]}, "
                f"find gives {json.dumps(pb[k] if k < len(pb) else None)[:160]}"), True
    return None, any(x[0] == "X" for x in pa) and any(x[0] == "V" for x in pa)


def projection_oracle(ctx):
    import corr

    def make(rng):
        sc = gen.gen_query(rng, rng.choice(["filter", "all", "parent"]), pred_profile=rng.choice(["custom", "mixed"]),
                           api="find_matches", with_src=rng.random() < 0.6)
        sc["id"] = 0
        sc = corr.finalize_query(sc)
        sc["nexts"] = sc.get("nexts", 1) + rng.choice([1, 2, 3])     # keep calling after the end / after an error
        if rng.random() < 0.4:
            sc["reiter_at"] = rng.randint(1, max(1, sc["nexts"] - 1))
        sc["traced"] = rng.random() < 0.5
        return sc
    _run(ctx, "projection", 800, 20000, make, projection_check)


def fatigue_check(sc):
    """a path object that has been through many failed evaluations (its predicate raised) is still the
    same expression: a later evaluation equals that of a freshly built copy, and an iteration over a healthy
    document that was already under way is not disturbed"""
    good = dec(sc["good"])
    bad = dec(sc["bad"])

    def build():
        def pred(m):
            if m.data == "boom":
                raise ValueError("malformed")
            return isinstance(m.data, (int, str))
        return Builder([]).steps(sc["prefix"])[pred]
    used, fresh = build(), build()
    live = find(used, good)
    first = []
    try:
        first.append(next(live))
    except StopIteration:
        pass
    for _ in range(sc["failures"]):
        try:
            list(find(used, bad))
        except TreepathException:
            pass
    try:
        rest = []
        while True:              # not list(live): iter() on a traverser starts the search over
            try:
                rest.append(next(live))
            except StopIteration:
                break
        again = list(find(used, good))
    except Exception as e:  # noqa
        return f"after {sc['failures']} failed evaluations of a path object a search over a healthy document raised {type(e).__name__}", True
    want = list(find(fresh, good))
    if first + rest != want or again != want:
        return f"after {sc['failures']} failed evaluations: live iterator {first + rest!r:.80}, new iterator {again!r:.80}, fresh copy {want!r:.80}", True
    return None, True


def fatigue_oracle(ctx):
    def make(rng):
        return {"prefix": rng.choice([[["wc"]], [["gwc"]], [["rec"]]]), "failures": rng.choice([120, 260]),
                "good": enc({"a": 1, "b": "x", "c": [2, "y"], "d": {"e": 3}}), "bad": enc({"a": 1, "z": "boom", "b": 2})}
    _run(ctx, "fatigue", 3, 12, make, fatigue_check)


def append_many_check(sc):
    """a list is filled element by element through set_ at index == len (with and without cascade, through
    path and pathd): every assignment appends, also beyond the first few hundred elements"""
    from treepath import set_, pathd
    n = sc["n"]
    root = pathd if sc["dash"] else path
    doc = {"l": []} if not sc["cascade"] else {}
    try:
        for i in range(n):
            r = set_(root.l[i], i, doc, cascade=sc["cascade"])
            if r != i:
                return f"set_(path.l[{i}], {i}) returned {r!r}", True
        if doc.get("l") != list(range(n)):
            return f"after {n} appends through set_ the list has {len(doc.get('l', []))} elements", True
        set_(root.l[-1], "last", doc)
        if doc["l"][-1] != "last" or len(doc["l"]) != n:
            return "set_ at index -1 of a long list did not replace the last element", True
    except Exception as e:  # noqa
        return f"filling a list through set_ failed at length {len(doc.get('l', []))}: {type(e).__name__}", True
    return None, True


def append_many_oracle(ctx):
    cases = [{"n": 300, "cascade": False, "dash": False}, {"n": 300, "cascade": True, "dash": True}]
    it = iter(cases)
    _run(ctx, "append_many", len(cases), len(cases), lambda rng: next(it), append_many_check)


def dash_root_check(sc):
    """set_ / pop aimed at the root, and plain keys, through the dash builder `pathd`: the documented errors"""
    import treepath
    from treepath import set_, set_match, pop, pop_match, pathd
    doc = dec(sc["doc"])
    for name, call in (("set_", lambda: set_(pathd, 1, doc)), ("set_match", lambda: set_match(pathd, 1, doc, cascade=True)),
                       ("pop", lambda: pop(pathd, doc)), ("pop_match", lambda: pop_match(pathd, doc)),
                       ("set_ from a Match", lambda: set_(pathd, 1, get_match(pathd, doc))),
                       ("get", lambda: get(pathd.no_such_key.x, doc)), ("set_ deep", lambda: set_(pathd.no_such.x, 1, doc))):
        try:
            call()
        except treepath.TreepathException as e:
            if not str(e) or str(e) != str(e) or repr(e) != repr(e):
                return f"{name} through pathd: {type(e).__name__} does not render", True
        except Exception as e:  # noqa
            return f"{name} aimed at the root through pathd raised a bare {type(e).__name__}: {e}", True
    return None, True


def dash_root_oracle(ctx):
    def make(rng):
        return {"doc": enc(gen.gen_doc(rng))}
    _run(ctx, "dash_root", 30, 300, make, dash_root_check)


def big_iteration_check(sc):
    """"all documents" includes long ones: an iteration that delivers several hundred thousand results
    delivers all of them (the action budget is per next(), not per iterator), through every entry point"""
    kind, n = sc["kind"], sc["n"]
    try:
        if kind == "wc":
            doc = list(range(n))
            k = 0
            for m in find_matches(path[gen_wc()], doc):
                if m.data != k or m.data_name != k:
                    return f"member {k} of a list of {n}: reported {m.path_as_str} = {m.data!r}", True
                k += 1
            if k != n:
                return f"path[wc] over a list of {n} yields {k} matches", True
        elif kind == "rec":
            doc = {"rows": [{"v": i} for i in range(n)]}
            k = sum(1 for _ in find_matches(path.rec, doc))
            if k != 2 + 2 * n:
                return f"path.rec over a document of {2 + 2 * n} nodes yields {k} matches", True
        elif kind == "rec_scalars":
            # a long run of scalar siblings under a recursive step that is not the last step: each is examined and
            # passed over, however many there are, traced or not
            doc = {"a": list(range(n)), "z": {"name": 1, "l": [7]}}
            for label, got, want in (("find(path.rec.name)", lambda: list(find(path.rec.name, doc)), [1]),
                                     ("find(path.rec[0])", lambda: list(find(path.rec[0], doc)), [0, 7]),
                                     ("find(path.a.rec.name)", lambda: list(find(path.a.rec.name, doc)), []),
                                     ("get(path.z.parent.rec.name)", lambda: get(path.z.parent.rec.name, doc), 1)):
                g = got()
                if g != want:
                    return f"{label} over a list of {n} scalars gives {g!r:.80}, expected {want!r}", True
        elif kind == "find":
            doc = [{"v": i} for i in range(n)]
            vals = list(find(path[gen_wc()].v, doc))
            if vals != list(range(n)):
                return f"find(path[wc].v) over {n} records yields {len(vals)} values (find_matches yields {sum(1 for _ in find_matches(path[gen_wc()].v, doc))})", True
            m0 = get_match(path[0], doc)
            vals = list(find(path.parent[gen_wc()].v, m0))
            if vals != list(range(n)):
                return f"find(path.parent[wc].v, match) over {n} records yields {len(vals)} values", True
    except Exception as e:  # noqa
        return f"{kind} over {n} elements raised {type(e).__name__}: {str(e)[:120]}", True
    return None, True


def gen_wc():
    from treepath import wc
    return wc


def big_iteration_oracle_for(*cases):
    def oracle(ctx):
        it = iter(cases)
        _run(ctx, "big_iteration", len(cases), len(cases), lambda rng: dict(next(it)), big_iteration_check)
    return oracle


# ---------------- C11: a Match tells the truth ----------------

def match_truth_check(sc):
    doc = dec(sc["doc"])
    expr = Builder([]).steps(sc["path"])
    if sc.get("src"):
        # nested searches from a Match: the matches of `path` searched from the k-th match of the source path
        starts = list(itertools.islice(find_matches(Builder([]).steps(sc["src"]["path"]), doc), sc["src"]["k"] + 1))
        if len(starts) <= sc["src"]["k"]:
            return None, False
        ms = list(itertools.islice(find_matches(expr, starts[sc["src"]["k"]]), 200))
        kinds = [s[0] for s in sc["src"]["path"]] + [s[0] for s in sc["path"]]
    else:
        ms = list(itertools.islice(find_matches(expr, doc), 200))
        kinds = [s[0] for s in sc["path"]]
    seen = {}
    nodup_applies = kinds.count("rec") <= 1 and "t" not in kinds and not _has_nested_dup(sc["path"])
    for m in ms:
        pml = m.path_match_list
        if pml[0].path_as_str != "$" or pml[0].data is not doc:
            return f"path_match_list of {m.path_as_str} does not start at the root", True
        segs = "$"
        for a, b_ in zip(pml, pml[1:]):
            try:
                slot = a.data[b_.data_name]
            except Exception as e:
                return f"{b_.path_as_str}: parent.data[{b_.data_name!r}] fails with {type(e).__name__}", True
            if slot is not b_.data:
                return f"{b_.path_as_str}: data is not parent.data[data_name]", True
            if b_.parent is None or b_.parent.path_as_str != a.path_as_str:
                return f"{b_.path_as_str}: parent is not the previous element of path_match_list", True
            segs += f".{b_.data_name}" if isinstance(a.data, dict) else f"[{b_.data_name}]"
        if pml[-1].path_as_str != m.path_as_str or pml[-1].data is not m.data:
            return f"path_match_list of {m.path_as_str} does not end at the match", True
        if m.path_as_str != segs:
            return f"path_as_str {m.path_as_str} != {segs}", True
        back = get_match(m.path, doc)
        if back.path_as_str != m.path_as_str or back.data is not m.data:
            return f"get_match(m.path) finds {back.path_as_str} instead of {m.path_as_str}", True
        if nodup_applies:
            where = tuple((type(x.data_name).__name__, x.data_name) for x in pml)   # the rendering is ambiguous for keys holding '.' or '['
            if where in seen:
                return f"location {m.path_as_str} reported twice", True
            seen[where] = True
    # equality on pairs
    rng = random.Random(len(ms))
    for _ in range(min(30, len(ms) * len(ms))):
        a, b_ = rng.choice(ms), rng.choice(ms)
        la, lb = a.path_match_list, b_.path_match_list
        want = len(la) == len(lb) and all(x.data_name == y.data_name and x.data == y.data for x, y in zip(la, lb))
        if (a == b_) != want or (a != b_) == want:
            return f"{a.path_as_str} == {b_.path_as_str} gives {a == b_}, chains say {want}", True
    return None, len(ms) > 0


def _has_nested_dup(steps):
    return False


def match_truth_oracle(ctx):
    def make(rng):
        if rng.random() < 0.1:
            # keys whose rendering is ambiguous: "a.b" next to a -> b, "c[0]" next to c -> [0]
            a, b_ = rng.sample(gen.KEYS, 2)
            doc = {a + "." + b_: rng.choice([1, {"z": 1}]), a: {b_: rng.choice([2, {"z": 2}])},
                   b_ + "[0]": 3, b_: [rng.choice([4, {"z": 4}])]}
            items = list(doc.items())
            rng.shuffle(items)
            return {"doc": enc(dict(items)), "path": rng.choice([[["rec"]], [["gwc"]], [["gwc"], ["gwc"]], [["rec"], ["k", "z"]]]), "src": None}
        sc = gen.gen_query(rng, "nopar", api="find_matches", with_src=rng.random() < 0.35)
        if sc.get("src") and rng.random() < 0.5:
            # explicit key / index steps only (what Match.path itself is made of), often the bare root
            sc["path"] = [s for s in sc["path"] if s[0] in ("k", "i")][:rng.randint(0, 2)]
        return {"doc": sc["doc"], "path": sc["path"], "src": sc.get("src")}
    _run(ctx, "match_truth", 1200, 30000, make, match_truth_check)


def eq_after_change_check(sc):
    """two Match objects compare equal iff their chains carry the same names and equal data at every level —
    also for matches taken before and after an inner container was replaced by a different container
    that holds the same leaf under the same names"""
    doc = dec(sc["doc"])
    expr = Builder([]).steps(sc["path"])
    before = list(itertools.islice(find_matches(expr, doc), 20))
    deep = [m for m in before if len(m.path_match_list) >= 3]
    if not deep:
        return None, False
    victim = deep[sc["pick"] % len(deep)]
    chain = victim.path_match_list
    inner = chain[1 + sc["level"] % (len(chain) - 2)]          # strictly between root and leaf
    child_name = chain[chain.index(inner) + 1].data_name if inner is not chain[-1] else None
    old = inner.data
    if isinstance(old, dict):
        new = dict(old)
        new["__extra__"] = 1
    elif isinstance(old, list):
        new = list(old) + ["__extra__"]
    else:
        return None, False
    inner.data = new                     # the public setter: the document now holds `new` there
    after = list(itertools.islice(find_matches(expr, doc), 20))
    def parent_chain(m):
        # what == is specified over: the match, its .parent, that one's .parent, ... (after an assignment through
        # a Match the bookkeeping matches of a filter / rec keep their own cached data, so this chain — not
        # path_match_list — is the one the statement's "chains" can mean for matches taken before the change)
        out = []
        while m is not None:
            out.append(m)
            m = m.parent
        return out
    for a in before:
        for b_ in after:
            la, lb = parent_chain(a), parent_chain(b_)
            want = len(la) == len(lb) and all(x.data_name == y.data_name and x.data == y.data for x, y in zip(la, lb))
            if (a == b_) != want or (a != b_) == want:
                return (f"{a.path_as_str} (taken before {inner.path_as_str} was replaced) == {b_.path_as_str} (after) gives "
                        f"{a == b_}, the chains say {want}"), True
    return None, True


def _retype(v, rng):
    """the same document with some numbers written in another of JSON's / Python's number-like types
    (1 / 1.0 / True, 0 / 0.0 / False): equal by ==, different by type"""
    if isinstance(v, dict):
        return {k: _retype(x, rng) for k, x in v.items()}
    if isinstance(v, list):
        return [_retype(x, rng) for x in v]
    if isinstance(v, bool):
        return rng.choice([v, int(v), float(v)])
    if isinstance(v, (int, float)) and v in (0, 1):
        return rng.choice([v, bool(v), int(v), float(v)])
    if isinstance(v, int) and abs(v) < 2 ** 50:
        return rng.choice([v, float(v)])
    if isinstance(v, float) and v == int(v):
        return rng.choice([v, int(v)])
    return v


def eq_across_documents_check(sc):
    """== between matches of two documents that are equal (by ==) value for value but spell some numbers in
    another type: equality of matches is equality of the chains' names and data, data compared with =="""
    rng = random.Random(sc["seed"])
    d1 = dec(sc["doc"])
    d2 = _retype(dec(sc["doc"]), rng)
    e = Builder([]).steps(sc["path"])
    ms1 = list(itertools.islice(find_matches(e, d1), 12))
    ms2 = list(itertools.islice(find_matches(e, d2), 12))

    def chain(m):
        out = []
        while m is not None:
            out.append(m)
            m = m.parent
        return out
    differ = False
    for a in ms1:
        for b_ in ms2:
            la, lb = chain(a), chain(b_)
            want = len(la) == len(lb) and all(x.data_name == y.data_name and x.data == y.data for x, y in zip(la, lb))
            differ = differ or (want and any(type(x.data) is not type(y.data) for x, y in zip(la, lb)))
            if (a == b_) != want or (a != b_) == want:
                return (f"{a.path_as_str} = {a.data!r:.30} (document 1) == {b_.path_as_str} = {b_.data!r:.30} (document 2) gives "
                        f"{a == b_}, the chains say {want}"), True
    return None, differ


def eq_across_documents_oracle(ctx):
    def make(rng):
        sc = gen.gen_query(rng, "child", api="find_matches", with_src=False, maxlen=3)
        if rng.random() < 0.5:
            sc["doc"] = enc({"a": [1, 0, True, 2.0, {"n": 1.0, "m": False}], "b": {"c": 0.0, "d": [1]}, "x": dec(sc["doc"])})
            sc["path"] = rng.choice([[["k", "a"], ["iwc"]], [["rec"]], [["k", "a"], ["i", 4], ["gwc"]], [["k", "b"], ["gwc"]], [["gwc"], ["gwc"]]])
        return {"doc": sc["doc"], "path": sc["path"], "seed": rng.randrange(1 << 30)}
    _run(ctx, "eq_across_documents", 300, 8000, make, eq_across_documents_check)


def eq_after_change_oracle(ctx):
    def make(rng):
        sc = gen.gen_query(rng, "child", api="find_matches", with_src=False, maxlen=4)
        d = dec(sc["doc"])
        if not isinstance(d, (dict, list)) or rng.random() < 0.5:
            d = {"a": {"b": {"c": 1, "d": [1, 2]}, "e": [{"c": 1}]}, "x": d}
            sc["path"] = rng.choice([[["k", "a"], ["k", "b"], ["gwc"]], [["k", "a"], ["gwc"], ["gwc"]], [["rec"], ["k", "c"]]])
        return {"doc": enc(d), "path": sc["path"], "pick": rng.randrange(8), "level": rng.randrange(4)}
    _run(ctx, "eq_after_change", 300, 8000, make, eq_after_change_check)


def match_eq_oracle(ctx):
    """`==` between the first matches of a query: python's Match.__eq__ against the model's
    `matchEq` (whose theorems say: element-wise comparison of the two chains) — the tie of
    `C11.eq_iff_chains` to the code.  Documents carry equal sub-trees under different and under
    equal names so that both outcomes occur."""
    import corr
    n = ctx.scale(400, 12000)
    scs = []
    for i in range(n):
        rng = ctx.rng
        sc = gen.gen_query(rng, "nopar", api="find_matches", with_src=False)
        if rng.random() < 0.6:
            # duplicate a sub-tree: equal data at a different location, or a twin list of equal items
            d = dec(sc["doc"])
            if isinstance(d, dict) and d:
                k = rng.choice(list(d.keys()))
                d[rng.choice(gen.KEYS)] = json.loads(json.dumps(d[k]))
            elif isinstance(d, list) and d:
                d.append(json.loads(json.dumps(d[rng.randrange(len(d))])))
            sc["doc"] = enc(d)
            r2 = rng.random()
            if r2 < 0.4:
                sc["path"] = [rng.choice([["gwc"], ["rec"]])] + sc["path"][1:3]
            elif r2 < 0.7 and isinstance(d, dict) and d:
                k1 = rng.choice(list(d.keys()))
                sc["path"] = [["t", [k1, rng.choice(list(d.keys())), k1]]] + sc["path"][1:2]   # repeats: equal chains
            elif r2 < 0.8 and isinstance(d, list) and d:
                sc["path"] = [["t", [0, -len(d), 0]]] + sc["path"][1:2]
        scs.append({"fam": "q", "id": 40_000_000 + i, "doc": sc["doc"], "path": sc["path"], "api": "find_matches", "nexts": 1})
    outs = corr.run_driver(scs)
    bad = 0
    nontriv = 0
    for sc in scs:
        o = outs.get(sc["id"])
        if not o or "error" in o or "eqm" not in o.get("out", {}):
            continue
        try:
            ms = list(itertools.islice(find_matches(Builder([]).steps(sc["path"]), dec(sc["doc"])), 6))
            py = [[bool(a == b) for b in ms] for a in ms]
        except TreepathException:
            continue
        mo = o["out"]["eqm"]
        same_data = any(i != j and a.data == b.data for i, a in enumerate(ms) for j, b in enumerate(ms))
        if len(py) >= 2 and (same_data or any(any(r[:i] + r[i + 1:]) for i, r in enumerate(py))):
            nontriv += 1        # a pair that is equal, or that differs only in its names
        if py != mo and bad < 3:
            _viol(ctx, "match_eq", f"Match.__eq__ over the first {len(py)} matches: python {py} model {mo}",
                  {k: v for k, v in sc.items() if k != "id"})
            bad += 1
    ctx.support["match_eq"] = dict(cases=len(scs), nontrivial=nontriv, failures=bad)


# ---------------- C12: concatenation ----------------

def concat_check(sc):
    doc = dec(sc["doc"])
    b = Builder([])
    p = b.steps(sc["p"])
    pq = b.steps(sc["p"] + sc["q"])
    q = b.steps(sc["q"])
    whole = []
    try:
        whole = [(m.path_as_str, id(m.data)) for m in itertools.islice(find_matches(pq, doc), 300)]
        wexc = None
    except Exception as e:  # noqa
        wexc = exc_chain(e)
    parts = []
    pexc = None
    try:
        for m in itertools.islice(find_matches(p, doc), 300):
            for r in itertools.islice(find_matches(q, m), 300):
                parts.append((r.path_as_str, id(r.data)))
                if not r.path_as_str.count("<-") and len(parts) <= 40:
                    # "results obtained from a Match carry absolute locations": the explicit path of a result, followed
                    # from the document root, leads back to it
                    back = get_match(r.path, doc, must_match=False)
                    if back is None or back.data is not r.data:
                        return (f"the explicit path {r.path} of a result found from the Match {m.path_as_str} does not lead back to it "
                                f"from the root (result at {r.path_as_str})"), True
    except Exception as e:  # noqa
        pexc = exc_chain(e)
    if wexc or pexc:
        return None, False     # raising predicates: compared through the model, not here
    if len(whole) >= 300 or len(parts) >= 300:
        return None, False     # enumeration caps reached: not comparable
    if whole != parts:
        n = next((i for i in range(min(len(whole), len(parts))) if whole[i] != parts[i]), min(len(whole), len(parts)))
        return f"p+q yields {len(whole)} results, q from each match of p yields {len(parts)}; first difference at {n}", True
    return None, len(whole) > 0


def concat_oracle(ctx):
    def make(rng):
        doc = gen.gen_doc(rng)
        pg = gen.PathGen(rng, "all")
        p = pg.gen_path([doc], maxlen=3)
        while p and p[-1][0] == "rec":
            p.pop()
        q = pg.gen_path([doc], maxlen=3)
        return {"doc": enc(doc), "p": p, "q": q}
    _run(ctx, "concat", 1200, 30000, make, concat_check)


# ---------------- C17: traced vs untraced ----------------

def untraced_check(sc):
    from observe import observe_query
    a = observe_query(sc, traced=True)
    b_ = observe_query(sc, traced=False)
    if a == "nosrc" or b_ == "nosrc":
        return (None, False) if a == b_ else ("source match differs with tracing", True)
    sa = [s["s"] for s in a]
    sb = [s["s"] for s in b_]
    if sa != sb:
        k = next(i for i in range(min(len(sa), len(sb))) if sa[i] != sb[i]) if len(sa) == len(sb) else min(len(sa), len(sb))
        return f"call {k}: traced {json.dumps(sa[k] if k < len(sa) else None)[:200]} untraced {json.dumps(sb[k] if k < len(sb) else None)[:200]}", True
    pa = [[e for e in s["e"] if e[0] != "T"] for s in a]
    pb = [[e for e in s["e"] if e[0] != "T"] for s in b_]
    if pa != pb:
        return "user predicates / functions are called differently with tracing on", True
    # the library's own tracer, log_to(...): rendering the events must not interfere either
    c = observe_query(sc, traced="log_to")
    sc_ = [s["s"] for s in c] if c != "nosrc" else c
    if sc_ != sb:
        k = next((i for i in range(min(len(sc_), len(sb))) if sc_[i] != sb[i]), min(len(sc_), len(sb)))
        return f"call {k}: with trace=log_to(...) {json.dumps(sc_[k] if k < len(sc_) else None)[:160]} untraced {json.dumps(sb[k] if k < len(sb) else None)[:160]}", True
    return None, any(s[0] in ("R", "V") for s in sa)


def untraced_oracle(ctx):
    import corr

    def make(rng):
        if rng.random() < 0.12:
            # existence tests over members that are present but null / falsy
            k1, k2 = rng.sample(gen.KEYS, 2)
            falsy = rng.choice([None, None, 0, False, "", [], {}])
            doc = {"p": {k1: falsy, k2: 1}, "q": {k1: 2}, "r": {k2: falsy}, "s": [falsy, {k1: None}]}
            inner = rng.choice([[["k", k1]], [["k", k1]], [["par"], ["k", "q"], ["k", k1]], [["k", k2]]])
            pred = rng.choice([["has", ["p", inner], []], ["not", ["p", inner], []],
                               ["all", [["p", inner], ["p", [["k", k2]]]]], ["any", [["p", inner], ["p", [["k", "zz"]]]]]])
            sc = {"fam": "q", "doc": enc(doc), "path": [rng.choice([["wc"], ["gwc"], ["rec"]]), ["f", pred]],
                  "api": rng.choice(["find_matches", "find", "get", "get_match"]), "id": 0, "nexts": "drain", "extra": 1}
            if sc["api"] == "get":
                sc["default"] = rng.choice([None, ["const", enc("dflt")]])
            if sc["api"] == "get_match":
                sc["must_match"] = rng.random() < 0.5
            return corr.finalize_query(sc)
        if rng.random() < 0.08:
            # member names and constants with characters a message template could trip over
            k1, k2 = rng.sample(["50%", "%s", "100%d", "{}", "{0}", "a%", "%(x)s", "\\n"], 2)
            doc = {k1: {k2: "5%", "n": 1}, "l": [{k1: "%s"}, {k2: 2}], k2: "{}"}
            path = rng.choice([[["k", k1], ["k", k2]], [["gwc"], ["f", ["has", ["c", [["k", k2]], "eq", enc("5%")], []]]],
                               [["rec"], ["k", k1]], [["k", "l"], ["iwc"], ["f", ["has", ["p", [["k", k1]]], []]], ["k", k1]]])
            sc = {"fam": "q", "doc": enc(doc), "path": path, "api": rng.choice(["find_matches", "find", "get", "get_match"]), "id": 0,
                  "nexts": "drain", "extra": 1}
            if sc["api"] == "get":
                sc["default"] = ["const", enc("dflt")]
            if sc["api"] == "get_match":
                sc["must_match"] = False
            return corr.finalize_query(sc)
        sc = gen.gen_query(rng, "all")
        sc["id"] = 0
        return corr.finalize_query(sc)
    _run(ctx, "untraced", 1200, 30000, make, untraced_check)


def event_chain_check(sc):
    """in every event delivered to a trace callable, next_match (when present) is reached from last_match
    by the attempted step — also in the events of an iteration that is started over with iter() after a
    predicate raised, and of a resumed one"""
    doc = dec(sc["doc"])
    expr = Builder([]).steps(sc["path"])
    events = []

    def tr(t):
        events.append((t.last_match.path_as_str, t.next_match.path_as_str if t.next_match is not None else None))
    it = find_matches(expr, doc, trace=tr)
    errors = 0
    results = 0
    for round_ in range(sc["rounds"]):
        for _ in range(60):
            try:
                next(it)
                results += 1
            except StopIteration:
                break
            except TreepathException:
                errors += 1
                if errors > 6:
                    break
                if sc["after_error"] == "iter":
                    it = iter(it)
        it = iter(it)       # start over on the same iterator object
    for i, (last, nxt) in enumerate(events):
        if nxt is not None and not nxt.startswith(last):
            return f"event {i}: next_match {nxt} is not reached from last_match {last}", True
    return None, errors > 0 and results > 0


def event_chain_oracle(ctx):
    def make(rng):
        sc = gen.gen_query(rng, "filter", pred_profile="custom", api="find_matches", with_src=False)
        return {"doc": sc["doc"], "path": sc["path"], "rounds": rng.choice([1, 2]), "after_error": rng.choice(["iter", "resume"])}
    _run(ctx, "event_chain", 600, 15000, make, event_chain_check)


def resume_after_loop_check(sc):
    """an iterator whose next() ran out of its action budget on a long (finite) scan is still an iterator:
    further next() calls raise documented errors or deliver what the search still has to deliver"""
    n = sc["n"]
    doc = [{"y": i} for i in range(n)]
    doc.append({"x": "needle"})
    if sc["src"] == "match":
        doc = {"rows": doc}
        it = find(Builder([]).steps(sc["path"]), get_match(path.rows, doc))
    else:
        it = find(Builder([]).steps(sc["path"]), doc)
    got, loops = [], 0
    for _ in range(8):
        try:
            got.append(next(it))
        except StopIteration:
            break
        except InfiniteLoopDetected:
            loops += 1
        except TreepathException as e:
            return f"after {loops} InfiniteLoopDetected: {type(e).__name__}", True
        except Exception as e:  # noqa
            return f"after {loops} InfiniteLoopDetected the next next() raised a bare {type(e).__name__}: {e}", True
    if got != ["needle"]:
        return f"a scan over {n} elements with {loops} InfiniteLoopDetected in between delivered {got!r}", True
    return None, loops > 0


def resume_after_loop_oracle(ctx):
    cases = [{"n": 400000, "path": [["iwc"], ["k", "x"]], "src": "doc"}, {"n": 350000, "path": [["gwc"], ["k", "x"]], "src": "match"}]
    it = iter(cases)
    _run(ctx, "resume_after_loop", len(cases), len(cases), lambda rng: next(it), resume_after_loop_check)


DOCUMENTED_ATTRS = {"wc", "wildcard", "gwc", "generic_wildcard", "rec", "recursive", "parent", "shape",
                    "create_path_builder", "transform_attribute_name", "_RESERVED_ATTR_FOR_VERTEX_DATA"}


def spelling_check(sc):
    """path.k and path['k'] (pathd: '_' -> '-') select identically for every name that is not one of
    the builder's documented attributes"""
    from treepath import pathd
    name = sc["name"]
    dashed = name.replace("_", "-")
    doc = {name: 1, dashed: 2, "other": {name: 3, dashed: 4}}
    for root, key, label in ((path, name, "path"), (pathd, dashed, "pathd"), (path.other, name, "path.other"),
                              (pathd.other, dashed, "pathd.other")):
        try:
            by_attr = getattr(root, name)
            got = [(m.path_as_str, m.data) for m in find_matches(by_attr, doc)]
            text = str(by_attr)
        except Exception as e:  # noqa
            return f"{label}.{name} is not a key step ({type(e).__name__}: {e})", True
        by_item = root[key]
        want = [(m.path_as_str, m.data) for m in find_matches(by_item, doc)]
        if got != want or text != str(by_item):
            return f"{label}.{name} selects {got} / renders {text!r}, {label}[{key!r}] selects {want} / renders {str(by_item)!r}", True
        # an item key is used as given: members of a (str, Enum) enumeration of field names, or instances of a str
        # subclass with a presentation of their own, *are* that string (equal to it, hashing like it)
        import enum
        for sub in (enum.Enum("Field", {"MEMBER": key}, type=str).MEMBER, _Label(key)):
            try:
                sel = [([x.data_name for x in m.path_match_list], m.data) for m in find_matches(root[sub], doc)]
            except Exception as e:  # noqa
                return f"{label}[{type(sub).__name__} {key!r}] raised {type(e).__name__}: {e}", True
            ref = [([x.data_name for x in m.path_match_list], m.data) for m in find_matches(by_item, doc)]
            if sel != ref:
                return f"{label}[<{type(sub).__name__} instance equal to {key!r}>] selects {sel}, {label}[{key!r}] selects {ref}", True
    return None, True


class _Label(str):
    def __str__(self):
        return "<" + str.__str__(self) + ">"


def spelling_oracle(ctx):
    import importlib
    names = set()
    for mod, cls in (("treepath.path.builder.path_builder", "PathBuilder"), ("treepath.path.builder.dash_path_builder", "DashPathBuilder"),
                     ("treepath.path.builder.root_path_builder", "RootPathBuilder")):
        try:
            names |= set(dir(getattr(importlib.import_module(mod), cls)))
        except Exception:  # noqa
            pass
    names |= set(dir(path)) | {"k", "x_y", "_private", "keys", "items", "data", "path", "match", "vertex", "_vertex", "name",
                                    "_Ledger__total", "_A__b_c", "__x", "_x__", "x__y", "_",
                                    "\ufb01le", "\u00b5m", "x\u00b2", "\u2460", "\u212b"}
    names = sorted(n for n in names if not (n.startswith("__") and n.endswith("__")) and n not in DOCUMENTED_ATTRS)
    it = iter(names)
    _run(ctx, "spelling", len(names), len(names), lambda rng: {"name": next(it)}, spelling_check)


def interrupted_use_check(sc):
    """a first use that dies half-way (RecursionError while the chain of a very long expression is
    walked) must leave the expression the value it was: used again with enough stack it renders and
    selects like a twin built by the same steps"""
    n, first = sc["n"], sc["first"]
    keys = ["k%d" % (i % 5) for i in range(n)]

    def build():
        e = path
        for k in keys:
            e = e[k]
        return e
    doc = leaf = {}
    for k in keys[:-1]:
        leaf[k] = {}
        leaf = leaf[k]
    leaf[keys[-1]] = "the value"
    victim = build()
    old = sys.getrecursionlimit()
    died = False
    try:
        sys.setrecursionlimit(max(200, n // 3))
        try:
            if first == "render":
                str(victim)
            else:
                get(victim, doc)
        except RecursionError:
            died = True
        sys.setrecursionlimit(max(old, 8 * n + 1000))
        twin = build()

        def outcome(f, *a):
            try:
                return ("value", f(*a))
            except Exception as e:  # noqa
                return ("raised", type(e).__name__)
        if outcome(str, victim) != outcome(str, twin):
            return f"after a first {first} cut short by RecursionError a {n}-step expression renders differently from its twin", True
        if outcome(get, victim, doc) != outcome(get, twin, doc):
            return f"after a first {first} cut short by RecursionError: get gives {outcome(get, victim, doc)!r:.80}, its twin {outcome(get, twin, doc)!r:.80}", True
    finally:
        sys.setrecursionlimit(old)
    return None, died


def interrupted_use_oracle(ctx):
    cases = [{"n": 1500, "first": "render"}, {"n": 1200, "first": "get"}]
    it = iter(cases)
    _run(ctx, "interrupted_use", len(cases), len(cases), lambda rng: next(it), interrupted_use_check)


def long_scan_check(sc):
    """a long sparse scan (many candidates examined between two results): the outcome — values or
    the exception class — must not depend on a trace callable being passed, also when the scan comes
    close to the per-next() action budget"""
    n = sc["n"]
    doc = [{"y": i} for i in range(n)]
    doc.append({"x": "needle"})
    steps = sc["path"]

    def outcome(traced):
        expr = Builder([]).steps(steps)
        hits = []

        def tr(t):
            if t.predicate_match is None and t.next_match is not None and t.next_match.data == "needle":
                hits.append(t.next_match.data)
        try:
            return ("values", list(find(expr, doc, trace=tr) if traced else find(expr, doc))), hits
        except Exception as e:  # noqa
            return ("raised", type(e).__name__), hits
    plain, _ = outcome(False)
    traced, hits = outcome(True)
    if plain != traced:
        return f"a scan over {n} non-matching elements: without trace {plain!r}, with trace {traced!r}", True
    if traced[0] == "values" and traced[1] != hits:
        return f"last-step events {hits!r} do not correspond to the results {traced[1]!r}", True
    return None, True


def long_scan_oracle(ctx):
    cases = [{"n": 250000, "path": [["iwc"], ["k", "x"]]}, {"n": 330000, "path": [["gwc"], ["k", "x"]]},
             {"n": 160000, "path": [["rec"], ["k", "x"]]}]
    it = iter(cases)
    _run(ctx, "long_scan", len(cases), len(cases), lambda rng: next(it), long_scan_check)


# ---------------- C20: work bound and cyclic structures ----------------

def work_bound_oracle(ctx):
    pass  # the attempt count is compared with the specification's closed form in the main stream


def _dedupe_tuples(steps):
    """comma lists without repeated entries (a repeated entry is asked for twice, legitimately)"""
    if isinstance(steps, list):
        if len(steps) == 2 and steps[0] == "t" and isinstance(steps[1], list):
            seen = []
            for e in steps[1]:
                if not any(e == x and type(e) is type(x) for x in seen):
                    seen.append(e)
            return ["t", seen]
        return [_dedupe_tuples(x) for x in steps]
    return steps


def _multi_rec(x):
    """does some step list contain two recursive steps (a node is then reached by several routes)?"""
    if isinstance(x, list):
        if sum(1 for e in x if e == ["rec"]) >= 2:
            return True
        return any(_multi_rec(e) for e in x)
    return False


def rescan_check(sc):
    """"it never re-scans, restarts": on a tree, a search by a path without parent steps reaches every node by one
    route, so no attempt (this step, from this node, arriving at that node or failing) is made twice — neither by the
    search itself nor by the searches its has-filters run for one candidate"""
    doc = dec(sc["doc"])
    b = Builder([])
    expr = b.steps(sc["path"])
    seen = {}
    dup = []

    def loc(m):
        return None if m is None else tuple((type(x.data_name).__name__, x.data_name) for x in m.path_match_list)

    def tr(t):
        pm = t.predicate_match
        key = (id(t.next_vertex), loc(t.last_match), loc(t.next_match), loc(pm))
        if key in seen and not dup:
            dup.append(f"step {t.next_vertex.path_segment!r} from {t.last_match.path_as_str} to "
                       f"{t.next_match.path_as_str if t.next_match else None}"
                       + (f" (while testing candidate {pm.path_as_str})" if pm is not None else ""))
        seen[key] = True

    b.tracer = tr
    try:
        n = sum(1 for _ in find_matches(expr, doc, trace=tr))
    except TreepathException:
        n = -1
    if dup:
        return f"the same attempt is made twice in one search: {dup[0]} ({len(seen)} distinct attempts)", True
    return None, len(seen) > 3


def rescan_oracle(ctx):
    def make(rng):
        for _ in range(50):
            doc = gen.gen_doc(rng)
            pg = gen.PathGen(rng, "filter" if rng.random() < 0.7 else "nopar", "has")
            p = _dedupe_tuples(pg.gen_path([doc], maxlen=4, minlen=1))
            txt = json.dumps(p)
            # filters inside a filter's own relative path are left out: their events carry the innermost candidate
            # only, and that node is reached again from every enclosing candidate above it
            nested = any(st[0] == "f" and '["f"' in json.dumps(st[1]) for st in p)
            if '"par"' not in txt and '"below' not in txt and '"nb"' not in txt and not _multi_rec(p) and not nested:
                return {"doc": enc(doc), "path": p}
        return {"doc": enc({"a": [1, 2]}), "path": [["k", "a"], ["iwc"]]}
    _run(ctx, "rescan", 800, 20000, make, rescan_check)


def cyclic_check(sc):
    kind = sc["kind"]
    if kind == "dict":
        d = {"x": 1, "y": [2, 3]}
        d["self"] = d
    elif kind == "list":
        d = [1, {"x": 5}]
        d.append(d)
    else:
        a = {"x": 1}
        b_ = [a, 7]
        a["b"] = b_
        d = {"a": a, "z": 0}
    import signal

    class _Hang(BaseException):
        pass

    def _alarm(signum, frame):
        raise _Hang()

    class _Quiet(Builder):
        def logged(self, pred, depth=0):        # no call log: it would unfold the cyclic data
            return pred

    expr = _Quiet([]).steps(sc["path"])
    t = time.process_time()
    it = find(expr, d)
    got = []
    outcome = None
    # CPU seconds of this process (a hang burns CPU; a busy machine must not look like one)
    old = signal.signal(signal.SIGVTALRM, _alarm)
    signal.setitimer(signal.ITIMER_VIRTUAL, float(sc.get("timeout", 30)))
    try:
        for _ in range(sc["take"]):
            got.append(next(it))
        outcome = "results"
    except InfiniteLoopDetected:
        outcome = "loop"
    except StopIteration:
        outcome = "stop"
    except RecursionError:
        return "RecursionError on a cyclic structure", True
    except _Hang:
        return f"hangs: neither a result nor InfiniteLoopDetected within {sc.get('timeout', 30)} CPU seconds", True
    except Exception as e:  # noqa
        if any(c == "InfiniteLoopDetected" for c in exc_chain(e)):
            outcome = "loop"
        else:
            return f"{type(e).__name__} on a cyclic structure", True
    finally:
        signal.setitimer(signal.ITIMER_VIRTUAL, 0)
        signal.signal(signal.SIGVTALRM, old)
    wall = time.process_time() - t
    if wall > 0.75 * float(sc.get("timeout", 30)):
        return f"took {wall:.1f} CPU seconds", True
    if sc["expect"] == "many":
        # the budget is per next(): an iterator whose results are each a few actions away must
        # keep delivering them however many it has delivered before
        if outcome != "results" or len(got) != sc["take"]:
            return f"iterator stopped delivering reachable results after {len(got)} of {sc['take']} ({outcome})", True
        return None, True
    if sc["expect"] == "loop" and outcome != "loop":
        return f"expected InfiniteLoopDetected, got {outcome} after {len(got)} results", True
    if sc["expect"] == "stop" and outcome != "stop":
        return f"expected no result (StopIteration), got {outcome} after {len(got)} results", True
    if sc["expect"] == "results" and (outcome != "results" or got[: len(sc["first"])] != sc["first"]):
        return f"expected reachable results {sc['first']} first, got {outcome} {got[:5]}", True
    return None, True


def cyclic_oracle(ctx):
    cases = [
        {"kind": "dict", "path": [["rec"], ["k", "nope"]], "take": 1, "expect": "loop", "first": []},
        {"kind": "dict", "path": [["rec"], ["k", "x"]], "take": 3, "expect": "results", "first": [1, 1, 1]},
        {"kind": "list", "path": [["rec"], ["k", "nope"]], "take": 1, "expect": "loop", "first": []},
        {"kind": "list", "path": [["rec"], ["k", "x"]], "take": 2, "expect": "results", "first": [5, 5]},
        {"kind": "mutual", "path": [["rec"], ["k", "nope"]], "take": 1, "expect": "loop", "first": []},
        {"kind": "mutual", "path": [["rec"], ["i", 1]], "take": 2, "expect": "results", "first": [7, 7]},
    ]
    n = ctx.scale(2, len(cases))
    picks = cases[:n] if ctx.tier == "thorough" else [cases[0], cases[2 + 2 * ctx.rng.randrange(0, 2)], cases[1 + 2 * ctx.rng.randrange(0, 3)]]   # two that cannot finish, one that can
    picks = picks + [{"kind": "dict", "path": [["rec"], ["k", "x"]], "take": 350000, "expect": "many", "first": [],
                      "timeout": 120}]
    # a has-predicate whose witness is the first value its (infinite) relative search selects must
    # answer at once: the existential test is lazy, with and without conversion functions / operator
    lazy = [
        {"kind": "dict", "path": [["f", ["has", ["c", [["rec"], ["k", "x"]], "eq", 1], ["int"]]]], "take": 1, "expect": "results", "first": [], "timeout": 15},
        {"kind": "dict", "path": [["f", ["has", ["p", [["rec"], ["k", "x"]]], ["ident"]]]], "take": 1, "expect": "results", "first": [], "timeout": 15},
        {"kind": "dict", "path": [["f", ["has", ["c", [["rec"], ["k", "x"]], "eq", 1], []]]], "take": 1, "expect": "results", "first": [], "timeout": 15},
        {"kind": "dict", "path": [["f", ["has", ["p", [["rec"], ["k", "x"]]], []]]], "take": 1, "expect": "results", "first": [], "timeout": 15},
        {"kind": "dict", "path": [["f", ["not", ["c", [["rec"], ["k", "x"]], "eq", 1], ["int"]]]], "take": 1, "expect": "stop", "first": [], "timeout": 15},
        {"kind": "dict", "path": [["f", ["any", [["tup", ["c", [["rec"], ["k", "x"]], "eq", 1], ["int"]]]]]], "take": 1, "expect": "results", "first": [], "timeout": 15},
    ]
    picks = picks + (lazy if ctx.tier == "thorough" else [lazy[0], lazy[1 + ctx.rng.randrange(0, len(lazy) - 1)]])
    bad = 0
    for sc in picks:
        try:
            detail, _ = cyclic_check(sc)
        except Exception as e:  # noqa
            detail = f"{type(e).__name__}: {e}"
        if detail:
            _viol(ctx, "cyclic", detail, sc)
            bad += 1
    ctx.support["cyclic"] = dict(cases=len(picks), nontrivial=len(picks), failures=bad)


def cyclic_optional_check(sc):
    """a search over a cyclic structure that cannot finish raises InfiniteLoopDetected — also through the entry
    points that are allowed to come back empty (default, must_match=False), from a document and from a Match"""
    from treepath import pop, pop_match
    d = {"x": 1, "y": [2, 3]}
    d["self"] = d
    src = d if sc["src"] == "doc" else get_match(path.self, d)
    expr = Builder([]).steps(sc["path"])
    calls = {"get_default": lambda: get(expr, src, default="dflt"),
             "get_match_optional": lambda: get_match(expr, src, must_match=False),
             "pop_default": lambda: pop(expr, src, default="dflt"),
             "pop_match_optional": lambda: pop_match(expr, src, must_match=False),
             "get_store_default": lambda: get(expr, src, default="dflt", store_default=True)}
    try:
        r = calls[sc["call"]]()
    except InfiniteLoopDetected:
        return None, True
    except Exception as e:  # noqa
        return f"{sc['call']} over a cyclic structure raised {type(e).__name__} instead of InfiniteLoopDetected", True
    return f"{sc['call']} over a cyclic structure returned {r!r:.60} for a search that cannot finish", True


def cyclic_optional_oracle(ctx):
    cases = [{"call": c, "src": s_, "path": [["rec"], ["k", "nope"]], "timeout": 45}
             for c in ("get_default", "get_match_optional", "pop_default", "pop_match_optional", "get_store_default") for s_ in ("doc", "match")]
    picks = cases if ctx.tier == "thorough" else [cases[0], cases[3], cases[4], cases[7]]
    it = iter(picks)
    _run(ctx, "cyclic_optional", len(picks), len(picks), lambda rng: next(it), cyclic_optional_check)


CHECKS = {"identity": identity_check, "requery": requery_check, "reiter": reiter_check, "interleave": interleave_check, "threads": thread_check,
          "match_truth": match_truth_check, "concat": concat_check, "untraced": untraced_check,
          "cyclic": cyclic_check, "rescan": rescan_check}


# ---------------- C04: a has-predicate is a function of the candidate as it is now ----------------

def has_again_check(sc):
    """the same has(...) object applied to the same Match again — after the document was edited in between, or
    after it raised — answers (or raises) like a freshly built predicate on a freshly found Match"""
    from treepath import has, has_not, has_all, has_any, set_
    import operator as _op
    doc = dec(sc["doc"])
    b = Builder([])

    def build():
        return Builder([]).pred(sc["pred"])
    h = build()
    cand = b.steps(sc["cand"])
    m = get_match(cand, doc, must_match=False)
    if m is None:
        return None, False

    def outcome(pred, match):
        try:
            return ("value", bool(pred(match)))
        except Exception as e:  # noqa
            return ("raised", tuple(exc_chain(e)))
    first = outcome(h, m)
    again = outcome(h, m)
    if again != first:
        return f"applied twice to the same Match: {first} then {again}", True
    for (steps, val) in sc["edits"]:
        try:
            set_(Builder([]).steps(sc["cand"] + steps), dec(val), doc)
        except Exception:  # noqa
            return None, False
    after = outcome(h, m)
    fresh = outcome(build(), get_match(Builder([]).steps(sc["cand"]), doc))
    if after != fresh:
        return f"after the document was edited the same has-object says {after} on the same Match, a fresh one {fresh} (before the edit: {first})", True
    return None, first != after


def has_again_oracle(ctx):
    def make(rng):
        import gen_mut
        for _ in range(60):
            doc = gen.gen_doc(rng)
            locs = [l for l in gen_mut.locations(doc) if isinstance(gen_mut.node_at(doc, l), dict) and gen_mut.node_at(doc, l)]
            if not locs:
                continue
            loc = rng.choice(locs)
            c = gen_mut.node_at(doc, loc)
            key = rng.choice(list(c.keys()))
            cand = [["k", nm] if isinstance(nm, str) else ["i", nm] for nm in loc]
            const = rng.choice(gen.SCALARS)
            arg = rng.choice([["p", [["k", key]]], ["c", [["k", key]], rng.choice(gen.OPS), enc(const)],
                              ["c", [["k", key]], "eq", enc(c[key]) if not isinstance(c[key], (dict, list)) else enc(1)]])
            fns = rng.choice([[], [], ["int"], ["len"], ["truth"], ["boom_if_str"]])
            pred = rng.choice([["has", arg, fns], ["not", arg, fns], ["all", [arg, ["p", [["k", key]]]]], ["any", [arg, ["c", [["k", key]], "eq", enc(const)]]]])
            edits = [([["k", key]], enc(rng.choice(gen.SCALARS + [[], [1], {}, {"a": 1}])))]
            return {"doc": enc(doc), "cand": cand, "pred": pred, "edits": edits}
        return {"doc": enc({"a": {"k": 1}}), "cand": [["k", "a"]], "pred": ["has", ["c", [["k", "k"]], "eq", 1], []], "edits": [([["k", "k"]], 2)]}
    _run(ctx, "has_again", 600, 12000, make, has_again_check)


CHECKS["has_again"] = has_again_check


# ---------------- C11 / C16 / C20: a live iterator whose consumer edits what it is handed ----------------

LIVE_ACTIONS = {
    # (container kind, step kind) -> edits the consumer may make between two next() calls
    ("dict", "wc"): ["assign", "replace_all"], ("dict", "gwc"): ["assign", "replace_all"], ("dict", "igwc"): ["assign", "replace_all"],
    ("dict", "t"): ["assign", "replace_all", "pop_member", "clear"],
    ("list", "iwc"): ["assign", "replace_all", "pop_last", "clear"], ("list", "gwc"): ["assign", "replace_all", "pop_last", "clear"],
    ("list", "igwc"): ["assign", "replace_all", "pop_last", "clear"], ("list", "t"): ["assign", "replace_all", "pop_last", "clear"],
    ("list", "s"): ["assign"],       # (a slice step works on a copy of the selected range: members replaced later are delivered as they were)
}


def live_edit_check(sc):
    """the ordinary "update every entry" loop: the consumer of find_matches edits the container it is being handed
    the members of — assigns through the Match, replaces values, removes members not yet delivered, empties it.
    Whatever it does, each Match is true when it is delivered (its parent holds its data under its name), the
    iteration ends, with StopIteration; and edits that keep every member in place deliver every member once."""
    doc = dec(sc["doc"])
    ref = dec(sc["doc"])
    expr = Builder([]).steps(sc["path"])
    want = [m.path_as_str for m in find_matches(Builder([]).steps(sc["path"]), ref)]
    action = sc["action"]
    it = find_matches(expr, doc)
    got = []
    try:
        for k in range(len(want) + 60):
            m = next(it)
            par = m.parent
            try:
                held = par.data[m.data_name]
            except Exception as e:  # noqa
                return f"delivered {m.path_as_str}, which its parent does not hold ({type(e).__name__})", True
            if held is not m.data:
                return f"delivered {m.path_as_str} with data {m.data!r:.40} while the document holds {held!r:.40} there", True
            got.append(m.path_as_str)
            c = par.data
            if action == "assign":
                m.data = {"edited": k}
            elif action == "replace_all":
                for key in (list(c.keys()) if isinstance(c, dict) else range(len(c))):
                    c[key] = [key]
            elif action == "pop_last":
                if len(c) > 1:
                    c.pop()
            elif action == "pop_member":
                for key in list(c.keys()):
                    if key != m.data_name:
                        del c[key]
                        break
            elif action == "clear":
                c.clear()
        return f"still delivering after {len(got)} results ({len(want)} members): {got[-3:]}", True
    except StopIteration:
        pass
    except TreepathException as e:
        return f"ended with {type(e).__name__} after {len(got)} results", True
    except Exception as e:  # noqa
        return f"leaked {type(e).__name__}: {str(e)[:60]} after {len(got)} results", True
    if action in ("assign", "replace_all") and got != want:
        return f"with members only replaced in place the search delivered {got}, an undisturbed one {want}", True
    return None, len(want) > 1


def live_edit_oracle(ctx):
    def make(rng):
        import gen_mut
        for _ in range(60):
            doc = gen.gen_doc(rng)
            if not isinstance(doc, dict):
                doc = {"a": doc, "l": [1, {"k": 2}, [3], "s"], "d": {"x": 1, "y": [2], "z": {"w": 3}}}
            locs = [l for l in gen_mut.locations(doc) if isinstance(gen_mut.node_at(doc, l), (dict, list)) and len(gen_mut.node_at(doc, l)) >= 2]
            if not locs:
                continue
            loc = rng.choice(locs)
            c = gen_mut.node_at(doc, loc)
            pre = [["k", nm] if isinstance(nm, str) else ["i", nm] for nm in loc]
            if isinstance(c, dict):
                kind = rng.choice(["wc", "gwc", "igwc", "t"])
                step = [kind] if kind != "t" else ["t", list(c.keys())]
                ck = "dict"
            else:
                kind = rng.choice(["iwc", "gwc", "igwc", "t", "s"])
                n = len(c)
                step = [kind] if kind in ("iwc", "gwc", "igwc") else (["t", rng.choice([list(range(n)), [0, -1], list(range(-n, 0))])] if kind == "t"
                                                                  else ["s", None, None, None])
                ck = "list"
            return {"doc": enc(doc), "path": pre + [step], "action": rng.choice(LIVE_ACTIONS[(ck, kind)])}
        return {"doc": enc({"l": [1, 2, 3]}), "path": [["k", "l"], ["iwc"]], "action": "assign"}
    _run(ctx, "live_edit", 400, 8000, make, live_edit_check)


CHECKS["live_edit"] = live_edit_check


# ---------------- C06: read-only calls leave the document and the path as they were ----------------

def snapshot(v, stack=None):
    """identity, order and content of every container reachable (cycle-safe)"""
    stack = stack or []
    if isinstance(v, dict):
        if any(v is s for s in stack):
            return ("cycle", id(v))
        stack.append(v)
        r = ("dict", id(v), [(k, snapshot(x, stack)) for k, x in v.items()])
        stack.pop()
        return r
    if isinstance(v, list):
        if any(v is s for s in stack):
            return ("cycle", id(v))
        stack.append(v)
        r = ("list", id(v), [snapshot(x, stack) for x in v])
        stack.pop()
        return r
    return (type(v).__name__, repr(v))


def snapshot_check(sc):
    from observe import make_trace
    doc = dec(sc["doc"])
    b = Builder([])
    expr = b.steps(sc["path"])
    twin = Builder([]).steps(sc["path"])
    src = doc
    if sc.get("src"):
        ms = list(itertools.islice(find_matches(Builder([]).steps(sc["src"]["path"]), doc), sc["src"]["k"] + 1))
        if len(ms) > sc["src"]["k"]:
            src = ms[sc["src"]["k"]]
    before = snapshot(doc)
    s0 = str(twin)
    first = None
    nontrivial = False
    for rnd, api in enumerate(sc["calls"]):
        trace = make_trace([]) if sc["traced"][rnd] else None
        b.tracer = trace
        try:
            if api == "find":
                out = ("vals", [json.dumps(enc(x)) for x in itertools.islice(find(expr, src, trace=trace), 200)])
            elif api == "find_matches":
                out = ("vals", [json.dumps(enc(m.data)) for m in itertools.islice(find_matches(expr, src, trace=trace), 200)])
            elif api == "get_match":
                m = get_match(expr, src, must_match=False, trace=trace)
                out = ("first", None if m is None else json.dumps(enc(m.data)))
            else:
                out = ("first", json.dumps(enc(get(expr, src, default="<none>", trace=trace))))
        except TreepathException as e:
            out = ("exc", tuple(exc_chain(e)))
        after = snapshot(doc)
        if after != before:
            return f"the document changed during read-only call #{rnd} ({api})", True
        if out[0] == "vals":
            key = ("vals", out[1])
            head = out[1][0] if out[1] else "<none>"
        elif out[0] == "first":
            key = None
            head = out[1] if out[1] is not None else "<none>"
            if out[1] == json.dumps("<none>"):
                head = "<none>"
        else:
            key, head = out, out
        if first is None:
            first = (key, head)
        else:
            if key is not None and first[0] is not None and key != first[0]:
                return f"call #{rnd} ({api}) selects differently from the first evaluation of the same path object", True
            if first[1] != head and not (isinstance(head, tuple) or isinstance(first[1], tuple)):
                return f"call #{rnd} ({api}): first result {head} differs from the first evaluation {first[1]}", True
        nontrivial = nontrivial or (out[0] != "exc" and head != "<none>")
        if str(expr) != s0:
            return f"the path renders {str(expr)!r} after call #{rnd}, a never-evaluated twin renders {s0!r}", True
    return None, nontrivial


def snapshot_oracle(ctx):
    def make(rng):
        sc = gen.gen_query(rng, "all", rng.choice(["mixed", "has", "custom"]), with_src=rng.random() < 0.25)
        if rng.random() < 0.15:
            # a conjunction / disjunction whose arguments decide differently from node to node: evaluating it must not
            # rearrange it (rendering and later evaluations stay what they were)
            ks = rng.sample(gen.KEYS, 3)
            doc = {k: {"kind": rng.choice(["num", "num", "txt"]), "v": rng.choice([1, 5, 7, "a"])} for k in ks}
            doc[ks[0]] = {"kind": "num", "v": 5}
            doc[ks[1]] = {"kind": "num", "v": 1}
            doc[ks[2]] = {"kind": "txt", "v": "a"}
            args = [["c", [["k", "kind"]], "eq", enc("num")], ["c", [["k", "v"]], "gt", enc(3)]]
            if rng.random() < 0.5:
                args.append(["p", [["k", "v"]]])
            rng.shuffle(args) if rng.random() < 0.3 else None
            sc = {"doc": enc(doc), "path": [rng.choice([["wc"], ["gwc"]]), ["f", [rng.choice(["all", "all", "any"]), args]], ["k", "v"]]}
        n = rng.randint(2, 5)
        out = {"doc": sc["doc"], "path": sc["path"], "calls": [rng.choice(["find", "find_matches", "get_match", "get"]) for _ in range(n)],
               "traced": [rng.random() < 0.5 for _ in range(n)]}
        if sc.get("src"):
            out["src"] = sc["src"]
        return out
    _run(ctx, "snapshot", 2500, 60000, make, snapshot_check)


# ---------------- C06 / C15: path objects that share a prefix, used on several documents ----------------

def reuse_check(sc):
    """a path is an immutable value whatever it, its prefix or its siblings have been used for:
    `base`, `base + e1`, `base + e2` (derived from the very object `base`) are evaluated and
    rendered in some order on two documents; every use must agree with a path written afresh"""
    docs = [dec(d) for d in sc["docs"]]
    b = Builder([])
    base = b.steps(sc["pre"])
    objs = [base] + [b.steps(e, p=base) for e in sc["exts"]]

    def fresh(i):
        return Builder([]).steps(sc["pre"] + ([] if i == 0 else sc["exts"][i - 1]))

    def run(e, doc):
        try:
            return [(m.path_as_str, json.dumps(enc(m.data))) for m in itertools.islice(find_matches(e, doc), 200)]
        except TreepathException as x:
            return ("exc", tuple(exc_chain(x)))

    nontrivial = False
    for step, (i, j, render) in enumerate(sc["order"]):
        if render:
            a, f = str(objs[i]), str(fresh(i))
            if a != f:
                return f"use #{step}: path object {i} renders {a!r}, a freshly written copy {f!r}", True
            continue
        a, f = run(objs[i], docs[j]), run(fresh(i), docs[j])
        if a != f:
            return (f"use #{step}: path object {i} on document {j} selects {str(a)[:160]}, "
                    f"a freshly written copy {str(f)[:160]}"), True
        nontrivial = nontrivial or (bool(a) and not isinstance(a, tuple))
    return None, nontrivial


def _vary_lists(rng, v):
    """the same shape with longer / shorter lists"""
    if isinstance(v, dict):
        return {k: _vary_lists(rng, x) for k, x in v.items()}
    if isinstance(v, list):
        out = [_vary_lists(rng, x) for x in v]
        r = rng.random()
        if r < 0.4:
            out = out + [json.loads(json.dumps(rng.choice(out))) if out else rng.choice(gen.SCALARS) for _ in range(rng.randint(1, 3))]
        elif r < 0.6:
            out = out[:rng.randint(0, len(out))]
        return out
    return v


def reuse_oracle(ctx):
    def crafted(rng):
        """an explicit slice / index / comma list aimed at one list that is short in one document
        and long in the other, used on both in either order"""
        import gen_mut
        d1 = gen.gen_doc(rng)
        locs = [l for l in gen_mut.locations(d1) if isinstance(gen_mut.node_at(d1, l), list)]
        if not locs:
            d1 = {"k": [rng.choice(gen.SCALARS) for _ in range(rng.randint(0, 3))], "z": d1}
            locs = [("k",)]
        loc = rng.choice(locs)
        d2 = json.loads(json.dumps(d1))
        lst = gen_mut.node_at(d2, loc)
        n = len(lst)
        lst.extend(rng.choice(gen.SCALARS) for _ in range(rng.randint(1, 4)))
        pre = [["k", nm] if isinstance(nm, str) else ["i", nm] for nm in loc]
        lo = rng.randint(0, max(0, n))
        exts = [[["s", lo, n + rng.randint(1, 3), None]],
                [rng.choice([["s", 0, n + 1, rng.choice([None, 1, 2])], ["t", [0, n, -1, n + 1]], ["i", n], ["s", None, None, -1]])]]
        docs = [d1, d2] if rng.random() < 0.5 else [d2, d1]
        order = [(1, 0, False), (2, 0, False), (1, 1, False), (2, 1, False), (0, 1, False), (1, 0, False)]
        if not pre:
            pre, exts = exts[0], [exts[1], [["gwc"]]]
            order = [(0, 0, False), (0, 1, False), (0, 0, False), (1, 1, False)]
        return {"docs": [gen.enc(docs[0]), gen.enc(docs[1])], "pre": pre, "exts": exts, "order": order}

    def crafted_rec(rng):
        """a stored path ending in rec (or a wildcard) from which longer paths are derived — used or not —
        before and after it is evaluated itself"""
        d1 = gen.gen_doc(rng)
        if not isinstance(d1, (dict, list)):
            d1 = {"a": d1, "b": [1, {"c": [2, "x"]}, "y"]}
        pg = gen.PathGen(rng, "child", "has")
        pre = (pg.gen_path([d1], maxlen=1, minlen=0) if rng.random() < 0.5 else []) + [rng.choice([["rec"], ["rec"], ["gwc"]])]
        exts = [[rng.choice([["k", rng.choice(gen.KEYS)], ["i", 0], ["f", ["all", []]], ["gwc"], ["wc"]])],
                [rng.choice([["f", ["has", ["p", [["k", rng.choice(gen.KEYS)]]], []]], ["iwc"], ["s", None, None, None]])]]
        order = [(0, 0, False)] if rng.random() < 0.5 else []
        order += [(rng.choice([1, 2]), 0, rng.random() < 0.3), (0, 0, False), (rng.choice([1, 2]), 0, False), (0, 0, False)]
        return {"docs": [gen.enc(d1), gen.enc(d1)], "pre": pre, "exts": exts, "order": order}

    def crafted_same_scalars(rng):
        """the same scalar object at several places whose surroundings differ: a filter that looks at the
        surroundings (parent steps inside has) evaluated again and again through one path object"""
        ks = rng.sample(gen.KEYS, 4)
        v = rng.choice([1, 0, True, None, "s"])
        flags = [rng.choice([True, False]) for _ in range(4)]
        d1 = {k: {"v": v if rng.random() < 0.7 else 2, "ok": f} for k, f in zip(ks, flags)}
        pred = rng.choice([["has", ["c", [["par"], ["k", "ok"]], "eq", enc(True)], []], ["not", ["c", [["par"], ["k", "ok"]], "eq", enc(True)], []],
                           ["has", ["p", [["par"], ["par"], ["k", ks[0]]]], []]])
        pre = [["wc"], ["k", "v"], ["f", pred]]
        exts = [[["par"]], [["par"], ["k", "ok"]]]
        order = [(0, 0, False), (0, 0, False), (1, 0, False), (0, 0, False), (2, 0, False), (0, 0, False)]
        return {"docs": [gen.enc(d1), gen.enc(d1)], "pre": pre, "exts": exts, "order": order}

    def make(rng):
        r0 = rng.random()
        if r0 < 0.25:
            return crafted(rng)
        if r0 < 0.4:
            return crafted_rec(rng)
        if r0 < 0.5:
            return crafted_same_scalars(rng)
        d1 = gen.gen_doc(rng)
        d2 = _vary_lists(rng, d1) if rng.random() < 0.7 else gen.gen_doc(rng)
        if rng.random() < 0.5:
            d1, d2 = d2, d1
        pg = gen.PathGen(rng, rng.choice(["child", "all", "nopar"]), "has")
        pre = pg.gen_path([d1], maxlen=2, minlen=1)
        exts = []
        for _ in range(2):
            e = pg.gen_path([d1], maxlen=2, minlen=1)
            if pre and pre[-1][0] == "rec" and e and e[0][0] == "rec":
                e = e[1:] or [["gwc"]]
            exts.append(e)
        order = [(rng.randrange(3), rng.randrange(2), rng.random() < 0.2) for _ in range(rng.randint(4, 8))]
        return {"docs": [gen.enc(d1), gen.enc(d2)], "pre": pre, "exts": exts, "order": order}
    _run(ctx, "reuse", 1500, 40000, make, reuse_check)


CHECKS["reuse"] = reuse_check
CHECKS["threads_long"] = thread_long_check


# ---------------- C05 / C16 / C20: documents deeper than the interpreter's recursion limit ----------------

def deep_check(sc):
    """the traverser is iterative: a document nested deeper than Python's recursion limit is a
    JSON tree like any other.  (Rendering the path of such a match recurses in the unchanged
    library too, so nothing here renders one.)"""
    from treepath import MatchNotFoundError, NestedMatchNotFoundError
    depth, kind = sc["depth"], sc["kind"]
    leaf = {"bottom": 1, "zero": 0}
    doc = leaf
    for i in range(depth):
        doc = {"n": doc} if kind == "dict" or (kind == "mixed" and i % 2) else [doc]
    try:
        vals = list(itertools.islice(find(path.rec.bottom, doc), 3))
        if vals != [1]:
            return f"find(path.rec.bottom) on a document of depth {depth} yields {vals!r}", True
        m = get_match(path.rec.zero, doc)
        if m is None or m.data != 0:
            return "get_match(path.rec.zero) does not find the present falsy value", True
        leafm = get_match(path.rec[lambda x: isinstance(x.data, dict) and "bottom" in x.data], doc)
        if leafm is None or leafm.data is not leaf:
            return "the deepest container is not found by a filter after rec", True
        if get(path.bottom, leafm) != 1:
            return "get(path.bottom, <deep match>) does not find the value", True
        if get(path.nope, leafm, default=7) != 7 or get_match(path.nope, leafm, must_match=False) is not None:
            return "default / must_match=False from a deep match", True
        try:
            get(path.nope, leafm)
            return "get(path.nope, <deep match>) returned instead of raising", True
        except NestedMatchNotFoundError:
            pass
        try:
            get_match(path.rec.nope, doc)
            return "get_match(path.rec.nope) returned instead of raising", True
        except MatchNotFoundError:
            pass
        up = get(path.parent.zero, get_match(path.bottom, leafm))
        if up != 0:
            return "a parent step from a deep match does not climb", True
        # the same with a trace callable and a has-family filter evaluated at every level
        from treepath import has
        seen = [0]

        def count(_t):
            seen[0] += 1
        tv0 = list(itertools.islice(find(path.rec.bottom, doc, trace=count), 3))
        if tv0 != [1] or seen[0] == 0:
            return f"traced find(path.rec.bottom) on a document of depth {depth} yields {tv0!r} ({seen[0]} events)", True
        tv = list(itertools.islice(find(path.rec[has(path.bottom)].zero, doc, trace=count), 3))
        if tv != [0]:
            return f"traced find(path.rec[has(path.bottom)].zero) on a document of depth {depth} yields {tv!r}", True
        # a predicate that raises on the deepest container: TraversingError chained to what it raised
        from treepath import TraversingError, pop, set_

        class _DeepBoom(Exception):
            pass

        def boom_at_leaf(x):
            if isinstance(x.data, dict) and "bottom" in x.data:
                raise _DeepBoom()
            return False
        try:
            r = list(itertools.islice(find_matches(path.rec[boom_at_leaf], doc), 2))
            return f"a predicate raising at depth {depth} was swallowed ({len(r)} results)", True
        except TraversingError as e:
            if not isinstance(e.__cause__, _DeepBoom):
                return f"TraversingError at depth {depth} is chained to {type(e.__cause__).__name__}, not to what the predicate raised", True
        # the writers at the bottom of a deep document
        if set_(path.bottom, 2, leafm) != 2 or leaf["bottom"] != 2:
            return f"set_(path.bottom, <deep match>) at depth {depth} did not assign", True
        if pop(path.rec.bottom, doc) != 2 or "bottom" in leaf:
            return f"pop(path.rec.bottom) at depth {depth} did not remove the entry", True
        if pop(path.rec.bottom, doc, default="gone") != "gone":
            return f"pop with a default at depth {depth}", True
    except RecursionError:
        return f"RecursionError on a document of depth {depth} ({kind})", True
    except TreepathException as e:
        return f"{type(e).__name__} on a document of depth {depth} ({kind}): {exc_chain(e)}", True
    return None, True


def deep_oracle(ctx):
    kinds = iter(["dict", "list", "mixed"] * 4)

    def make(rng):      # every kind in every run (three cases at the quick tier)
        return {"depth": rng.choice([1200, 2000, 3000]), "kind": next(kinds)}
    _run(ctx, "deep", 3, 12, make, deep_check)


CHECKS["deep"] = deep_check


# ---------------- C16: only documented errors, printable ----------------

def documented_check(sc):
    import treepath
    from treepath import set_, set_match, pop, pop_match
    doc = dec(sc["doc"])
    b = Builder([])
    allowed = (treepath.TreepathException,)
    seen_error = False
    for op in sc["ops"]:
        try:
            k = op[0]
            if k == "q":
                expr = b.steps(op[2])
                src = doc
                if op[3] is not None:
                    ms = list(itertools.islice(find_matches(b.steps(op[3][0]), doc), op[3][1] + 1))
                    if len(ms) > op[3][1]:
                        src = ms[op[3][1]]
                if op[1] in ("find", "find_matches"):
                    # the caller keeps using the iterator after an error it has caught
                    it = (find if op[1] == "find" else find_matches)(expr, src)
                    caught = []
                    for _ in range(100):
                        try:
                            next(it)
                        except StopIteration:
                            break
                        except allowed as e1:
                            caught.append(e1)
                            if len(caught) > 3:
                                break
                    if caught:
                        raise caught[0]     # rendered and checked below
                elif op[1] == "get_match":
                    get_match(expr, src, must_match=op[4])
                else:
                    if op[4]:
                        get(expr, src)
                    else:
                        get(expr, src, default=None)
            elif k == "set":
                (set_ if op[4] else set_match)(b.steps(op[1]), dec(op[2]), doc, cascade=op[3])
            elif k == "pop":
                if op[2]:
                    pop(b.steps(op[1]), doc)
                else:
                    pop_match(b.steps(op[1]), doc, must_match=op[3])
            elif k == "get_sd":
                get(b.steps(op[1]), doc, default=dec(op[2]), store_default=True)
        except allowed as e:
            seen_error = True
            s1, s2, r1, r2 = str(e), str(e), repr(e), repr(e)
            if s1 != s2 or r1 != r2:
                return f"{type(e).__name__} renders differently on repeated str()/repr()", True
            if not s1 or type(e).__name__ not in s1:
                return f"{type(e).__name__} renders as {s1[:80]!r}", True
            if "$" not in s1:
                return f"{type(e).__name__} does not name the path involved: {s1[:120]!r}", True
        except StopIteration:
            pass
        except Exception as e:  # noqa
            return f"{type(e).__name__} escaped from {op[0]}/{op[1] if op[0] == 'q' else ''}: {str(e)[:120]}", True
    return None, seen_error


def documented_oracle(ctx):
    import gen_mut

    def make(rng):
        doc = gen.gen_doc(rng)
        ops = []
        shadow = dec(enc(doc))
        for _ in range(rng.randint(1, 6)):
            r = rng.random()
            if r < 0.5:
                q = gen.gen_query(rng, "all", rng.choice(["mixed", "has", "custom"]))
                src = [q["src"]["path"], q["src"]["k"]] if q.get("src") else None
                ops.append(["q", q["api"], q["path"], src, rng.random() < 0.5])
            elif r < 0.75:
                steps = gen_mut.target_path(rng, shadow)[0] if rng.random() < 0.6 else gen_mut.cascade_path(rng, shadow)
                ops.append(["set", steps, enc(rng.choice(gen_mut.VALS)), rng.random() < 0.5, rng.random() < 0.5])
            elif r < 0.92:
                ops.append(["pop", gen_mut.target_path(rng, shadow)[0], rng.random() < 0.5, rng.random() < 0.5])
            else:
                ops.append(["get_sd", gen_mut.cascade_path(rng, shadow), enc(rng.choice(gen_mut.VALS))])
        return {"doc": enc(doc), "ops": ops}
    _run(ctx, "documented_errors", 2500, 60000, make, documented_check)



def slice_mutation_check(sc):
    """a slice step iterates a copy of the selected items: shrinking the list between two
    next() calls must not make a bare IndexError (or anything else) escape"""
    import treepath
    from treepath import pop
    doc = dec(sc["doc"])
    b = Builder([])
    it = find_matches(b.steps(sc["path"]), doc)
    n = 0
    try:
        for k in range(sc["calls"]):
            try:
                next(it)
                n += 1
            except StopIteration:
                break
            if k in sc["pops"]:
                try:
                    pop(b.steps(sc["pop_path"]), doc, default=None)
                except treepath.TreepathException:
                    pass
    except treepath.TreepathException:
        pass
    except Exception as e:  # noqa
        return f"{type(e).__name__} escaped from next() after the sliced list shrank: {str(e)[:100]}", True
    return None, n > 1


def slice_mutation_oracle(ctx):
    def make(rng):
        n = rng.randint(2, 6)
        doc = {"a": [rng.choice([0, 1, {"x": 1}, [2]]) for _ in range(n)], "b": 1}
        sl = ["s", rng.choice([None, 0, 1]), rng.choice([None, n, -1]), rng.choice([None, 1, 2, -1])]
        tail = rng.choice([[], [["gwc"]], [["k", "x"]]])
        return {"doc": enc(doc), "path": [["k", "a"], sl] + tail, "calls": rng.randint(2, 8),
                "pops": sorted(rng.sample(range(8), rng.randint(1, 4))), "pop_path": [["k", "a"], ["i", rng.choice([0, -1])]]}
    _run(ctx, "slice_under_mutation", 300, 6000, make, slice_mutation_check)


CHECKS.update({"snapshot": snapshot_check, "documented_errors": documented_check, "slice_under_mutation": slice_mutation_check})


def stored_default_alias_check(sc):
    """a typed / list-typed attribute whose getter stores a default (`partial(get, default=dict | list,
    store_default=True)`): what the *first* read hands out wraps the very node that was stored — writes through it
    are writes to the document (constant and callable defaults, missing levels at any depth)"""
    from functools import partial
    from treepath import Document, attr, attr_typed, attr_list_typed
    depth, kind, callable_default = sc["depth"], sc["kind"], sc["callable"]
    if kind == "second_doc":
        # one class, two documents: the levels a cascading assignment creates belong to the document assigned to
        from treepath import pprop, set_
        e = path
        for i in range(depth + 1):
            e = e["lvl%d" % i]
        e = e[0].leaf if callable_default else e.leaf

        class P:
            def __init__(self, d):
                self._d = d

            def data(self):
                return self._d
            x = pprop(e, data)

        class A(Document):
            x = attr(e, setter=partial(set_, cascade=True))
        for cls2 in (P, A):
            d1, d2 = {}, {}
            cls2(d1).x = 1
            snap = json.dumps(d1)
            cls2(d2).x = 2
            if json.dumps(d1) != snap:
                return f"assigning through the same attribute on a second document changed the first: {snap} -> {json.dumps(d1)}", True
            if "lvl0" not in d1 or d1["lvl0"] is d2.get("lvl0"):
                return "two documents share a level that a cascading assignment created", True
            cls2(d1).x = 3
            if json.dumps(d2) != json.dumps(d1).replace("3", "2"):
                return f"documents diverge after a further assignment: {json.dumps(d1)} / {json.dumps(d2)}", True
        return None, True
    expr = path
    for i in range(depth):
        expr = expr["lvl%d" % i]
    expr = expr.node

    class Inner(Document):
        name = attr()

    if kind == "list":
        dflt = list if callable_default else []
        cls = type("Outer", (Document,), {"node": attr_list_typed(int, expr, getter=partial(get, default=dflt, store_default=True))})
    else:
        dflt = dict if callable_default else {}
        cls = type("Outer", (Document,), {"node": attr_typed(Inner, expr, getter=partial(get, default=dflt, store_default=True))})
    doc = {}
    inst = cls(doc)
    first = inst.node
    if kind == "list":
        first.append(3)
        first.append(5)
    else:
        first.name = "written"
    cur = doc
    try:
        for i in range(depth):
            cur = cur["lvl%d" % i]
        stored = cur["node"]
    except (KeyError, TypeError):
        return f"nothing was stored at the attribute's location: {doc!r:.80}", True
    want = [3, 5] if kind == "list" else {"name": "written"}
    if stored != want:
        return f"a write through the first read of the attribute did not reach the document: it holds {stored!r:.60}", True
    if first.data is not stored or inst.node.data is not stored:
        return "the object handed out does not wrap the stored node itself", True
    return None, True


def stored_default_alias_oracle(ctx):
    cases = [{"depth": d, "kind": k, "callable": c} for d in (0, 1, 3) for k in ("list", "dict") for c in (True, False)]
    cases += [{"depth": d, "kind": "second_doc", "callable": c} for d in (0, 2) for c in (True, False)]
    it = iter(cases)
    _run(ctx, "stored_default_alias", len(cases), len(cases), lambda rng: next(it), stored_default_alias_check)


def recycled_document_check(sc):
    """a held path object used on a long series of short-lived documents (each dropped before the next is built —
    CPython hands the freed address to the next one): every answer is what a freshly built path gives"""
    from treepath import has
    key = sc["key"]
    held = [path[key], path.wc[key], path[has(path[key])][key], path.rec[key]]
    for i in range(sc["n"]):
        d = {"other": i} if i % 2 == 0 else {key: i}
        if sc["nest"]:
            d = {"w": d}
        for e in held:
            fresh = Builder([]).steps([["k", key]]) if e is held[0] else None
            got = get(e, d["w"] if sc["nest"] and e is held[0] else d, default="MISSING")
            want_doc = d["w"] if sc["nest"] else d
            want = want_doc.get(key, "MISSING")
            if e is held[2] and sc["nest"]:
                want = "MISSING"
            if e is held[1] and not sc["nest"]:
                want = "MISSING"
            if e is held[1] and sc["nest"]:
                want = want_doc.get(key, "MISSING")
            if got != want:
                return f"document {i} ({d!r}): a path object used on earlier, now freed, documents answers {got!r}, expected {want!r}", True
        want_doc = None
        del d               # nothing refers to the document any more …
        if i % 3:
            import gc
            gc.collect()    # … once the traversal's own reference cycles are collected: the next one is likely built at its address
    return None, True


def recycled_document_oracle(ctx):
    cases = [{"key": "k", "n": 400, "nest": False}, {"key": "a", "n": 400, "nest": True}]
    it = iter(cases)
    _run(ctx, "recycled_document", len(cases), len(cases), lambda rng: next(it), recycled_document_check)


CHECKS["recycled_document"] = recycled_document_check
CHECKS["stored_default_alias"] = stored_default_alias_check
CHECKS["eq_across_documents"] = eq_across_documents_check
