"""./check <property> [--tier quick|thorough] [--replay file]

Pipeline (DESIGN.md §5): regenerate facts, build the Lean development, audit the theorems of
the property, run the correspondence (corpus first, then seeded generation), run the
python-side support oracles, write evidence, classify differences.
Exit 0 = held on everything explored, 1 = VIOLATION printed, 2 = infrastructure problem.
"""
import argparse
import hashlib
import json
import os
import random
import sys
import time
import traceback

HERE = os.path.dirname(os.path.abspath(__file__))
VERIF = os.path.dirname(HERE)
sys.path.insert(0, HERE)

import lean_tools  # noqa: E402
import corr  # noqa: E402
import props  # noqa: E402

TRUSTED_BASE = [
    "Lean 4.33 kernel; axioms allowed in property theorems: propext, Classical.choice, Quot.sound (audited by #print axioms on every run)",
    "hand-written Lean model lean/Treepath/Model/*.lean (modelled, not verified against the Python; tied by the correspondence run of this check)",
    "lean/Treepath/Model/Basic.lean: asserted CPython semantics of list indexing, slice.indices, truthiness, ==, ordering on JSON values",
    "correspondence harness harness/*.py and driver lean/Driver/*.lean (generators, canonicalisation, closed predicate language)",
    "fact extractor harness/gen_facts.py (syntactic AST walk of /repo/src)",
]


def sc_hash(sc):
    d = {k: v for k, v in sc.items() if k != "id"}
    return hashlib.sha1(json.dumps(d, sort_keys=True).encode()).hexdigest()[:12]


def load_known():
    p = os.path.join(VERIF, "known_findings.json")
    if os.path.exists(p):
        return json.load(open(p))
    return {"fixed": [], "known": []}


class Ctx:
    def __init__(self, pid, tier, seed):
        self.pid, self.tier, self.seed = pid, tier, seed
        self.rng = random.Random(seed * 1000003 + sum(ord(c) for c in pid))
        self.evaluations = 0
        self.distinct = set()
        self.nontrivial = set()
        self.samples = []
        self.dist = {}
        self.violations = []       # dicts: level, what, scenario, detail
        self.known_hits = []
        self.support = {}
        self.notes = []

    def count(self, key, n=1):
        self.dist[key] = self.dist.get(key, 0) + n

    def scale(self, quick, thorough):
        return thorough if self.tier == "thorough" else quick


def write_replay(ctx, v):
    os.makedirs(os.path.join(VERIF, "replays"), exist_ok=True)
    h = hashlib.sha1(json.dumps(v, sort_keys=True, default=str).encode()).hexdigest()[:10]
    p = os.path.join(VERIF, "replays", f"{ctx.pid}-{h}.json")
    body = dict(v)
    body.update(property=ctx.pid, seed=ctx.seed, tier=ctx.tier,
                how_to_replay=f"./check {ctx.pid} --replay replays/{ctx.pid}-{h}.json")
    with open(p, "w") as f:
        json.dump(body, f, indent=1, default=str)
    return os.path.relpath(p, VERIF)


def main():
    ap = argparse.ArgumentParser()
    ap.add_argument("pid")
    ap.add_argument("--tier", default=os.environ.get("VERIF_TIER", "quick"))
    ap.add_argument("--replay")
    ap.add_argument("--seed", type=int, default=None)
    args = ap.parse_args()
    pid = args.pid
    tier = args.tier if args.tier in ("quick", "thorough") else "quick"
    seed = args.seed if args.seed is not None else int(os.environ.get("VERIF_SEED", "1") or 1)
    t0 = time.time()
    if pid not in props.PROPS:
        print(f"unknown property {pid}")
        return 2
    ctx = Ctx(pid, tier, seed)
    cfg = props.PROPS[pid]

    # 1. facts + build
    broken_obligations = []
    try:
        import gen_facts
        ferrs = gen_facts.generate()
    except Exception as e:  # noqa
        ferrs = {"*": f"{type(e).__name__}: {e}"}
    for fact, msg in ferrs.items():
        # a fact that can no longer be extracted is a broken tie of the properties that use it
        if fact == "*" or fact in cfg.get("generated", []):
            broken_obligations.append(("fact-extraction", f"{fact}: {msg}"))
        else:
            print(f"note: generated fact {fact} could not be extracted ({msg}); not an obligation of {pid}")
    try:
        bt, blog = lean_tools.build(("tpdriver",))
    except lean_tools.BuildError as e:
        print("INFRA: the model / driver does not build")
        print(e.log[-3000:])
        return 2
    props_built = True
    try:
        lean_tools.build((f"Treepath.Props.{pid}",))
    except lean_tools.BuildError as e:
        # a theorem of this property (or a generated-facts obligation it depends on) no longer
        # checks: a broken proof obligation, handled below (search for a failing input first)
        props_built = False
        errs = [ln for ln in e.log.split("\n") if ln.startswith("error") or "✖" in ln]
        broken_obligations.append(("proof-does-not-check", "\n".join(errs)[:1500]))

    # 2. proof audit
    aud = dict(theorems=[], clean=[], dirty={}, missing=[], forbidden=[], cmd="")
    if props_built:
        aud = lean_tools.audit(pid)
        for n in aud["missing"]:
            broken_obligations.append(("theorem-missing", n))
        for n, ax in aud["dirty"].items():
            broken_obligations.append(("theorem-axioms", f"{n}: {ax}"))
        for h in aud["forbidden"]:
            broken_obligations.append(("forbidden-construct", h))
        if ctx.tier == "thorough":
            ok, klog, ksec = lean_tools.kernel_recheck(pid)
            ctx.notes.append(f"leanchecker Treepath.Props.{pid}: {'ok' if ok else 'FAILED'} ({ksec:.0f}s)")
            if not ok:
                broken_obligations.append(("kernel-recheck", klog))
        if not aud["theorems"]:
            broken_obligations.append(("no-theorems", f"Props/{pid}.lean states no theorem"))

    # replay mode
    if args.replay:
        rp = json.load(open(os.path.join(VERIF, args.replay) if not os.path.isabs(args.replay) else args.replay))
        ok = props.replay(ctx, cfg, rp)
        print("replay:", "property holds on this input now" if ok else "still failing")
        for v in ctx.violations:
            print(" ", v.get("what"), "-", str(v.get("detail"))[:400])
        return 0 if ok else 1

    # 3+4. correspondence and support oracles
    try:
        props.run_property(ctx, cfg)
    except Exception:
        print("INFRA: harness error")
        traceback.print_exc()
        return 2

    if broken_obligations and not any(v["level"] == "spec" for v in ctx.violations):
        # the property is no longer shown to hold; escalate the search for a failing input
        try:
            ctx.notes.append("escalated search after broken obligation")
            props.run_property(ctx, cfg, escalate=8)
        except Exception:
            traceback.print_exc()

    # 5. classification
    known = load_known()
    exit_code = 0
    lines = []
    spec_v = [v for v in ctx.violations if v["level"] == "spec"]
    tie_v = [v for v in ctx.violations if v["level"] != "spec"]
    reported = 0
    seen_sig = set()
    for v in spec_v:
        sig = v.get("signature")
        kf = next((k for k in known.get("known", []) if k["property"] == pid and sig and k.get("signature") == sig), None)
        if kf:
            if sig not in seen_sig:
                lines.append(f"KNOWN-FINDING: property={pid} {kf['what']}")
                seen_sig.add(sig)
            continue
        if reported < 3:
            rp = write_replay(ctx, v)
            lines.append(f"VIOLATION property={pid} replay={rp}")
        reported += 1
        exit_code = 1
    if exit_code == 0 and (tie_v or broken_obligations):
        body = dict(level="obligation", what="proof obligation or correspondence no longer checks",
                    broken_obligations=broken_obligations,
                    correspondence=[dict(what=v["what"], detail=v["detail"], scenario=v.get("scenario")) for v in tie_v[:3]],
                    note="no input was found on which the property itself fails")
        rp = write_replay(ctx, body)
        lines.append(f"VIOLATION property={pid} replay={rp} no-failing-input-found")
        exit_code = 1
    # listed known findings of this property: run each witness; announce it while it reproduces
    for kf in known.get("known", []):
        if kf["property"] != pid:
            continue
        try:
            still = props.known_reproduces(cfg, kf)
        except Exception as e:  # noqa
            still = None
            print(f"note: witness of known finding {kf.get('signature')} could not be run: {e}")
        if still:
            lines.insert(0, f"KNOWN-FINDING: property={pid} {kf['what']}")
        elif still is False:
            print(f"note: known finding {kf.get('signature')} no longer reproduces on this tree")
    for l in lines:
        print(l)

    wall = time.time() - t0
    nthe = len(aud["theorems"])
    ev = {
        "property_id": pid, "tier": tier, "seed": seed, "level": "proof",
        "coverage": {
            "obligations": max(nthe, 1) + len(cfg.get("generated", [])),
            "discharged": len(aud["clean"]) + (len(cfg.get("generated", [])) if not any(k.startswith("generated") or k == "fact-extraction" for k, _ in broken_obligations) else 0),
            "checker_cmd": aud["cmd"] or "cd lean && lake build",
            "trusted_base": TRUSTED_BASE,
            "theorems": aud["clean"],
            "broken_obligations": [list(b) for b in broken_obligations],
            "evaluations": ctx.evaluations,
            "distinct_nontrivial": len(ctx.nontrivial),
            "distinct": len(ctx.distinct),
            "rule": cfg.get("rule", ""),
            "samples": ctx.samples[:6],
            "distribution": ctx.dist,
            "support_oracles": ctx.support,
            "exhaustive": False,
            "notes": ctx.notes,
        },
        "assumptions": cfg.get("assumptions", []),
        "wall_s": round(wall, 2),
        "violations": reported + (1 if (exit_code == 1 and reported == 0) else 0),
    }
    # evidence describes runs against /repo itself; a run against a scratch copy (VERIF_REPO:
    # seeded changes, refactorings) writes its record elsewhere so that it can never be committed
    # as the evidence of the property
    scratch = os.environ.get("VERIF_REPO", "/repo") != "/repo"
    evdir = os.path.join(VERIF, "replays", "scratch-evidence") if scratch else os.path.join(VERIF, "evidence")
    os.makedirs(evdir, exist_ok=True)
    with open(os.path.join(evdir, f"{pid}.json"), "w") as f:
        json.dump(ev, f, indent=1)
    print(f"{pid} tier={tier} seed={seed}: theorems {len(aud['clean'])}/{nthe} clean, "
          f"{ctx.evaluations} scenarios ({len(ctx.nontrivial)} distinct non-trivial), "
          f"{len(spec_v)} property-level diffs, {len(tie_v)} tie diffs, {wall:.1f}s -> exit {exit_code}")
    return exit_code


def _restore_generated():
    """a run against a scratch copy regenerated lean/Treepath/Generated from that copy; put the
    facts of /repo back so that the tree (and anything committed from it) describes /repo"""
    if os.environ.get("VERIF_REPO", "/repo") == "/repo" or not os.path.isdir("/repo/src/treepath"):
        return
    try:
        import subprocess
        env = dict(os.environ, VERIF_REPO="/repo", PYTHONPATH="/repo/src:" + HERE)
        subprocess.run([sys.executable, os.path.join(HERE, "gen_facts.py")], env=env, capture_output=True, timeout=120)
    except Exception:  # noqa
        pass


if __name__ == "__main__":
    try:
        rc = main()
    finally:
        _restore_generated()
    sys.exit(rc)
