"""Generators for the mutate family (C06, C08, C09, C10, C14): histories of writer operations
on one evolving document.  A shadow copy of the document is evolved with the library itself
so that later operations aim at locations that exist (or just miss them)."""
import copy
import random

import gen
from codec import Builder, dec, enc

VALS = [0, 1, None, False, "", "v", 2.5, [], {}, [1], {"n": 1}, [[], {}], {"a": {"b": []}}, True, 1.0, 0.0]


def locations(doc, prefix=()):
    out = [prefix]
    if isinstance(doc, dict):
        for k, v in doc.items():
            out.extend(locations(v, prefix + (k,)))
    elif isinstance(doc, list):
        for i, v in enumerate(doc):
            out.extend(locations(v, prefix + (i,)))
    return out


def node_at(doc, loc):
    for nm in loc:
        doc = doc[nm]
    return doc


def loc_to_steps(rng, doc, loc, fancy=0.25):
    """key/index steps for a location; with probability `fancy` a step is generalised to an
    equivalent-or-wider step (wildcard, negative index, filter, rec) — the first match may
    then be another node, which is fine"""
    steps = []
    cur = doc
    for nm in loc:
        r = rng.random()
        if isinstance(nm, str):
            if r < fancy * 0.5:
                steps.append(["wc"])
            elif r < fancy * 0.7:
                steps.append(["gwc"])
            elif r < fancy * 0.85:
                steps.append(["t", [nm, rng.choice(gen.KEYS)]])
            elif r < fancy:
                steps.append(["f", ["has", ["p", [["k", nm]]], []]])
                steps.append(["k", nm])
            else:
                steps.append(["k", nm])
        else:
            n = len(cur)
            if r < fancy * 0.4:
                steps.append(["iwc"])
            elif r < fancy * 0.7:
                steps.append(["i", nm - n])
            elif r < fancy * 0.85:
                # a slice whose first selected element is this one (a start below -len is clamped to the first)
                steps.append(["s", rng.choice([nm, nm - n, nm - n if nm else -n - rng.randint(1, 3)]), None, None])
            elif r < fancy:
                steps.append(["gwc"])
            else:
                steps.append(["i", nm])
        cur = cur[nm]
    return steps


def gen_valspec(rng, doc):
    if rng.random() < 0.2:
        locs = [l for l in locations(doc) if l]
        if locs:
            return ["at", list(rng.choice(locs))]
    return ["new", enc(copy.deepcopy(rng.choice(VALS)))]


def last_step_for(rng, cur, mode):
    """a last step aimed at container `cur` (mode: 'ok' mostly valid, 'any' anything)"""
    r = rng.random()
    if isinstance(cur, dict):
        if r < 0.45 and cur:
            return ["k", rng.choice(list(cur.keys()))]
        if r < 0.8:
            return ["k", rng.choice(gen.KEYS + ["new1", "new2", ""])]
        if r < 0.88:
            return ["i", rng.choice([0, 1, -1])]
    elif isinstance(cur, list):
        n = len(cur)
        if r < 0.4 and n:
            return ["i", rng.randrange(-n, n)]
        if r < 0.6:
            return ["i", n]
        if r < 0.75:
            return ["i", rng.choice([n + 1, -n - 1, n + 2])]
        if r < 0.85:
            return ["k", rng.choice(gen.KEYS)]
    else:
        if r < 0.5:
            return ["k", rng.choice(gen.KEYS)]
        if r < 0.8:
            return ["i", rng.choice([0, 1, -1])]
    if rng.random() < 0.35:
        # a comma list with a single entry is still a comma list (not assignable / not poppable)
        one = rng.choice(list(cur.keys())) if isinstance(cur, dict) and cur else (rng.choice([0, -1, len(cur)]) if isinstance(cur, list) else rng.choice(["a", 0]))
        return ["t", [one]]
    return rng.choice([["wc"], ["iwc"], ["gwc"], ["rec"], ["par"], ["s", None, None, None], ["t", ["a", 0]],
                       ["f", ["all", []]]])


def target_path(rng, doc, fancy=0.25):
    """(steps, container-or-None): a path whose parent part leads to an existing node"""
    locs = locations(doc)
    conts = [l for l in locs if isinstance(node_at(doc, l), (dict, list))]
    r = rng.random()
    if r < 0.06:
        return [], None          # the root itself
    if conts and r < 0.85:
        loc = rng.choice(conts)
    else:
        loc = rng.choice(locs)
    cur = node_at(doc, loc)
    steps = loc_to_steps(rng, doc, loc, fancy)
    if rng.random() < 0.08:
        steps = steps + [["k", "missing_parent"]]
        cur = None
    elif rng.random() < 0.1:
        steps = steps + [["rec"]]       # a recursive parent part: its first match is the node it starts from
        if rng.random() < 0.3:
            steps = steps + [["k", ""]]  # … followed by the empty member name (renders like the recursive step itself)
    elif rng.random() < 0.1 and isinstance(cur, (dict, list)):
        # a detour through the parent part: down two levels, up, through a filter, up again — back at the same node
        kids = [(k, v) for k, v in (cur.items() if isinstance(cur, dict) else enumerate(cur)) if isinstance(v, (dict, list)) and v]
        if kids:
            k1, v1 = rng.choice(kids)
            k2 = rng.choice(list(v1.keys()) if isinstance(v1, dict) else list(range(len(v1))))
            nm = lambda k: ["k", k] if isinstance(k, str) else ["i", k]
            steps = steps + [nm(k1), nm(k2), ["par"], ["f", rng.choice([["all", []], ["not", ["p", [["k", "nope"]]], []]])], ["par"]]
    last = last_step_for(rng, cur, "ok")
    if last[0] == "rec" and steps and steps[-1][0] == "rec":
        last = ["wc"]        # `rec.rec` is rejected when the expression is built
    steps.append(last)
    return steps, cur


def cascade_path(rng, doc):
    """key/index path that exists up to some level and is extended by missing levels"""
    locs = locations(doc)
    loc = rng.choice(locs)
    cur = node_at(doc, loc)
    steps = [["k", nm] if isinstance(nm, str) else ["i", nm] for nm in loc]
    # first new step aimed at cur
    n_new = rng.randint(1, 4)
    for j in range(n_new):
        r = rng.random()
        if j == 0 and isinstance(cur, list):
            n = len(cur)
            steps.append(["i", n] if r < 0.6 else (["i", rng.choice([0, n + 1, -1])] if r < 0.85 else ["k", rng.choice(gen.KEYS)]))
        elif j == 0 and isinstance(cur, dict):
            steps.append(["k", rng.choice(gen.KEYS + ["n1", "n2"])] if r < 0.8 else ["i", 0])
        elif j == 0:
            steps.append(["k", rng.choice(gen.KEYS)] if r < 0.5 else ["i", 0])
        else:
            steps.append(["k", rng.choice(gen.KEYS)] if r < 0.55 else (["i", 0] if r < 0.9 else ["i", rng.choice([1, -1, 2])]))
    if not steps:
        steps = [["k", rng.choice(gen.KEYS)]]
    return steps


def apply_shadow(doc, op):
    """evolve the shadow document with the library (errors ignored)"""
    from treepath import set_, pop, get
    b = Builder([])

    def val(vs):
        if vs[0] == "new":
            return dec(vs[1])
        cur = doc
        try:
            for nm in vs[1]:
                cur = cur[nm]
            return cur
        except Exception:
            return None
    try:
        k = op[0]
        if k in ("set", "set_match"):
            set_(b.steps(op[1]), val(op[2]), doc, cascade=op[3])
        elif k == "mset":
            from treepath import find_matches, set_match
            import itertools
            ms = list(itertools.islice(find_matches(b.steps(op[1]), doc), op[2] + 1))
            if len(ms) > op[2]:
                set_match(b.steps(op[3]), val(op[4]), ms[op[2]], cascade=op[5])
        elif k == "mget_sd":
            from treepath import find_matches
            import itertools
            ms = list(itertools.islice(find_matches(b.steps(op[1]), doc), op[2] + 1))
            if len(ms) > op[2]:
                get(b.steps(op[3]), ms[op[2]], default=val(op[4]), store_default=True)
        elif k == "mpop":
            from treepath import find_matches
            import itertools
            ms = list(itertools.islice(find_matches(b.steps(op[1]), doc), op[2] + 1))
            if len(ms) > op[2]:
                pop(b.steps(op[3]), ms[op[2]], default=None)
        elif k == "pop":
            pop(b.steps(op[1]), doc, default=None)
        elif k == "pop_match":
            pop(b.steps(op[1]), doc, default=None)
        elif k in ("get_sd", "get_sdc"):
            get(b.steps(op[1]), doc, default=val(op[2]), store_default=True)
    except Exception:
        pass


def gen_mset(rng, doc, cascade):
    """set_match from a Match: source = an existing location, target = a path relative to it that
    descends, or climbs above the source first"""
    locs = [l for l in locations(doc) if l] or [()]
    loc = rng.choice(locs)
    src = loc_to_steps(rng, doc, loc, fancy=0.15)
    cur = node_at(doc, loc)
    r = rng.random()
    rel = []
    if r < 0.55:
        for _ in range(rng.randint(1, min(2, len(loc)) if loc else 1)):
            rel.append(["par"])
        up = node_at(doc, loc[:max(0, len(loc) - len(rel))])
        cur = up
    if isinstance(cur, list):
        rel.append(["i", rng.choice([0, len(cur), len(cur) - 1, -1])])
    else:
        rel.append(["k", rng.choice(gen.KEYS + (list(cur.keys()) if isinstance(cur, dict) else []))])
    if cascade and rng.random() < 0.5:
        rel.append(["k", rng.choice(gen.KEYS)])
    return ["mset", src, 0, rel, gen_valspec(rng, doc), cascade]


def gen_mutate(rng, profile):
    doc = gen.gen_doc(rng)
    if not isinstance(doc, (dict, list)) and rng.random() < 0.8:
        doc = {"a": doc, "b": [1, {"c": 2}]}
    script = []
    if profile in ("set", "pop") and isinstance(doc, dict) and rng.random() < 0.12:
        # "claim the first free slot": the parent part is filtered on an entry that the history itself assigns through
        # the same parent expression, so which node the parent part selects changes between consecutive calls
        doc["slots"] = [{"free": rng.choice([True, True, False, 1]), "owner": None} for _ in range(rng.randint(2, 4))]
        par = [["k", "slots"], rng.choice([["iwc"], ["gwc"], ["s", None, None, None], ["igwc"]]),
               ["f", rng.choice([["has", ["c", [["k", "free"]], "eq", True], []], ["has", ["p", [["k", "free"]]], []]])]]
        for j in range(rng.randint(2, 3)):
            script.append([rng.choice(["set", "set", "set_match"]), par + [["k", "owner"]], ["new", rng.choice(["u", "usr", "u%d" % j])], False])
            if profile == "pop" and rng.random() < 0.5:
                script.append(["pop", par + [["k", "free"]], ["none"]])
            else:
                script.append(["set", par + [["k", "free"]], ["new", rng.choice([False, 0, None, ""])], False])
    sc = {"fam": "m", "doc": enc(doc), "ops": []}
    shadow = copy.deepcopy(doc)
    nops = rng.randint(1, 10) if profile != "handles" else rng.randint(3, 12)
    nops = max(nops, len(script))
    nh = 0
    nested_made = set()
    live = set()
    if profile == "handles" and rng.random() < 0.4:
        # a scripted opening: a match below a filter / rec / nested root (its parent is a bookkeeping match), the
        # container replaced through the parent Match or through the match itself, then writes / a nested search
        locs = [l for l in locations(doc) if len(l) >= 2]
        if locs:
            loc = rng.choice(locs)
            par_steps = [["k", nm] if isinstance(nm, str) else ["i", nm] for nm in loc[:-1]]
            last = ["k", loc[-1]] if isinstance(loc[-1], str) else ["i", loc[-1]]
            filt = ["f", rng.choice([["all", []], ["not", ["p", [["k", "nope"]]], []]])]
            newc = copy.deepcopy(node_at(doc, loc[:-1]))
            variant = rng.random()
            if variant < 0.4:
                script = [["h.new", 0, par_steps + [filt] * rng.randint(1, 2) + [last], 0], ["h.parent", 1, 0],
                          ["h.assign", 1, ["new", enc(newc)]],
                          rng.choice([["h.assign", 0, ["new", enc(rng.choice(VALS))]], ["h.pop", 0, ["none"]], ["h.del", 0]]),
                          ["h.data", 0]]
            elif variant < 0.62:
                script = [["h.new", 0, par_steps + [filt], 0], ["h.assign", 0, ["new", enc(newc)]],
                          ["h.nested", 1, 0, rng.choice([[last], [["gwc"]], [], [last, ["par"]], [["gwc"], ["par"]], [last, ["par"], ["f", ["all", []]]]]), 0],
                          rng.choice([["h.assign", 1, ["new", enc(rng.choice(VALS))]], ["h.pop", 1, ["none"]], ["h.del", 1], ["h.data", 1], ["h.data", 1]])]
            else:
                # a Match of a list item used as data source after an earlier item was removed through another Match: the
                # search starts from the node the Match holds, not from what now sits at its old index
                lists = [l for l in locations(doc) if isinstance(node_at(doc, l), list) and len(node_at(doc, l)) >= 2 and l]
                rich = [l for l in lists if any(isinstance(x, (dict, list)) and x for x in node_at(doc, l)[1:])]
                lists = rich or lists
                if lists:
                    ll = rng.choice(lists)
                    lst = node_at(doc, ll)
                    j = rng.randrange(1, len(lst))
                    full = [x for x in range(1, len(lst)) if isinstance(lst[x], (dict, list)) and lst[x]]
                    if full and rng.random() < 0.8:
                        j = rng.choice(full)        # an item that is a non-empty container: there is something below it
                    base = [["k", nm] if isinstance(nm, str) else ["i", nm] for nm in ll]
                    inner = [["k", rng.choice(list(lst[j].keys()))]] if isinstance(lst[j], dict) and lst[j] else \
                        ([["i", 0]] if isinstance(lst[j], list) and lst[j] else [["k", "a"]])
                    vv = rng.random()
                    if vv < 0.3:
                        script = [["h.new", 0, base + [["i", j]], 0], ["h.new", 1, base + [["i", rng.randrange(0, j)]], 0], ["h.pop", 1, ["none"]],
                                  ["h.mpop", 0, inner], ["h.data", 0]]
                    elif vv < 0.75:
                        # … then climbing from a Match below the shifted item: the parent step leads to the node the
                        # Match was found in, not to what now sits at its old index
                        deep = base + [["i", j]] + (inner if isinstance(lst[j], (dict, list)) and lst[j] else [])
                        script = [["h.new", 0, deep, 0], ["h.new", 1, base + [["i", rng.randrange(0, j)]], 0], ["h.pop", 1, ["none"]],
                                  ["h.nested", 2, 0, rng.choice([[["par"]], [["par"], ["par"]], [["par"], ["gwc"]]]), 0], ["h.data", 2]]
                        live.add(2)
                    else:
                        # a Match found through a negative index, the list then shrunk below it through other matches:
                        # its entry no longer exists (PopError, or the default), nothing else may be removed
                        n = len(lst)
                        script = [["h.new", 0, base + [["i", -n]], 0], ["h.new", 1, base + [["i", n - 1]], 0], ["h.pop", 1, ["none"]],
                                  rng.choice([["h.pop", 0, ["none"]], ["h.pop", 0, ["val", ["new", "dflt"]]], ["h.del", 0], ["h.assign", 0, ["new", 7]]]),
                                  ["h.data", 0]]
            live.update({0, 1})
            nh = 1
    if profile == "handles" and not script and isinstance(doc, dict) and rng.random() < 0.1:
        # a comma list with int entries over a dict whose member *names* spell those numbers: an int names no dict
        # member, so the matches (and what is written through them) are the string-named ones listed
        key = rng.choice(gen.KEYS)
        doc[key] = {"1": 10, "x": [20], "-1": {"a": 30}, "0": None}
        sc["doc"] = enc(doc)
        shadow = copy.deepcopy(doc)
        ents = rng.choice([[1, "x"], [0, -1, "1"], ["x", 1, "-1"], [1, 0, -1]])
        script = [["h.new", 0, [["k", key], ["t", ents]], 0], ["h.new", 1, [["k", key], ["t", ents]], 1],
                  rng.choice([["h.assign", 0, ["new", 7]], ["h.pop", 0, ["none"]], ["h.del", 0]]), ["h.data", 0],
                  rng.choice([["h.assign", 1, ["new", 8]], ["h.pop", 1, ["val", ["new", "d"]]], ["h.data", 1]])]
        live.update({0, 1})
        nh = 1
    prev_paths = []
    for _ in range(max(nops, len(script))):
        r = rng.random()
        if script:
            op = script.pop(0)
        elif (profile in ("set", "cascade") and rng.random() < 0.15) or profile == "mset":
            op = gen_mset(rng, shadow, cascade=(profile == "cascade" or (profile == "mset" and rng.random() < 0.3)))
        elif profile == "set":
            steps, _ = target_path(rng, shadow)
            op = [rng.choice(["set", "set", "set_match"]), steps, gen_valspec(rng, shadow), False]
        elif profile == "cascade":
            if rng.random() < 0.08:
                # get(..., store_default=True) with a Match as data source: the path may climb above the Match
                ms = gen_mset(rng, shadow, cascade=True)
                op = ["mget_sd", ms[1], ms[2], ms[3], ms[4]]
            elif r < 0.12 and prev_paths:
                pp = rng.choice(prev_paths)
                op = ["pop", pp[:rng.randint(1, len(pp))] if pp else pp, ["val", ["new", None]]]
            elif r < 0.7:
                op = [rng.choice(["set", "set_match"]), cascade_path(rng, shadow), gen_valspec(rng, shadow), True]
            elif r < 0.9:
                cp = cascade_path(rng, shadow)
                if rng.random() < 0.3:
                    # the entry is there already — holding null / a falsy value as likely as not: nothing is stored
                    locs = [l for l in locations(shadow) if l]
                    falsy = [l for l in locs if not node_at(shadow, l)]
                    if locs:
                        loc = rng.choice(falsy if falsy and rng.random() < 0.7 else locs)
                        cp = [["k", nm] if isinstance(nm, str) else ["i", nm] for nm in loc]
                op = [rng.choice(["get_sd", "get_sd", "get_sdc"]), cp,
                      rng.choice([gen_valspec(rng, shadow), ["new", enc(rng.choice([[], {}, 0, None, "", False]))]])]
            else:
                steps, _ = target_path(rng, shadow, fancy=0.0)
                op = ["set", steps, gen_valspec(rng, shadow), True]
        elif profile == "pop":
            if r < 0.04:
                # pop aimed at the node a Match stands for, the Match being the document root (reached in several ways)
                op = ["mpop", rng.choice([[], [["f", ["all", []]]], [["rec"]], [["k", rng.choice(gen.KEYS)], ["par"]]]), 0,
                      rng.choice([[], [["f", ["all", []]]], [["par"]]]), rng.choice(["match", "value"]), rng.random() < 0.5]
            elif r < 0.12:
                ms = gen_mset(rng, shadow, cascade=False)
                op = ["mpop", ms[1], ms[2], ms[3], rng.choice(["match", "value"]), rng.random() < 0.5]
            elif r < 0.55:
                steps, _ = target_path(rng, shadow)
                rr = rng.random()
                d = ["none"] if rr < 0.45 else ["fn"] if rr < 0.55 else ["val", gen_valspec(rng, shadow)]
                op = ["pop", steps, d]
            elif r < 0.75:
                steps, _ = target_path(rng, shadow)
                op = ["pop_match", steps, rng.random() < 0.5]
            else:
                steps, _ = target_path(rng, shadow)
                op = ["set", steps, gen_valspec(rng, shadow), rng.random() < 0.3]
        else:  # handles
            if nh == 0 or r < 0.3:
                hid = rng.randint(0, 3)
                live.add(hid)
                locs = [l for l in locations(shadow) if l]
                if locs and rng.random() < 0.8:
                    steps = loc_to_steps(rng, shadow, rng.choice(locs), fancy=0.3)
                else:
                    steps = gen.PathGen(rng, "nopar", "custom").gen_path([shadow], maxlen=3, minlen=1)
                rr = rng.random()
                if rr < 0.3:      # matches reached through (stacked) filters keep their slot
                    steps = steps + [["f", rng.choice([["all", []], ["not", ["p", [["k", "nope"]]], []], ["tab", "kind", [], ["v", 1]]])]]
                    if rr < 0.12:
                        steps = steps + [["f", ["all", []]]]
                elif rr < 0.4 and steps:
                    steps = [["rec"]] + [["f", ["all", []]]] if rng.random() < 0.3 else steps
                op = ["h.new", hid, steps, rng.randint(0, 2)]
                nested_made.discard(hid)
                nh += 1
            else:
                hid = rng.choice(sorted(live)) if live and rng.random() < 0.9 else rng.randint(0, 3)
                k = rng.choice(["h.assign", "h.assign", "h.del", "h.pop", "h.pop", "h.data", "h.parent", "h.nested", "h.mpop"])
                if k == "h.nested":
                    # a search from the Match behind a live handle (whose container may have been replaced through it)
                    nid = rng.randint(0, 3)
                    live.add(nid)
                    nested_made.add(nid)
                    steps = rng.choice([[], [["gwc"]], [["wc"]], [["iwc"]], [["k", rng.choice(gen.KEYS)]], [["i", rng.choice([0, -1])]],
                                        [["gwc"], ["f", ["all", []]]], [["f", ["all", []]]], [["k", "n"]]])
                    op = [k, nid, hid, steps, rng.randint(0, 1)]
                elif k == "h.mpop":
                    op = [k, hid, rng.choice([[["k", rng.choice(gen.KEYS)]], [["i", rng.choice([0, -1])]], [["gwc"]], [["par"], ["k", rng.choice(gen.KEYS)]]])]
                elif k == "h.parent":
                    # the parent Match of a live handle: replacing a container through it redirects the child's writes
                    nid = rng.randint(0, 3)
                    live.add(nid)
                    op = [k, nid, hid]
                elif k == "h.assign":
                    # fresh values only: an alias could be stored inside itself (cyclic document)
                    op = [k, hid, ["new", enc(copy.deepcopy(rng.choice(VALS)))]]
                elif k == "h.pop":
                    op = [k, hid, ["none"] if rng.random() < 0.5 else ["val", gen_valspec(rng, shadow)]]
                else:
                    op = [k, hid]
        if prev_paths and len(op) > 1 and isinstance(op[1], list) and op[0] in ("set", "set_match", "pop", "get_sd", "get_sdc") and rng.random() < 0.25:
            op[1] = rng.choice(prev_paths)      # the same expression object is reused by the observer
        trial = copy.deepcopy(shadow)
        apply_shadow(trial, op)
        if is_cyclic(trial):
            continue            # an alias stored inside itself: cyclic documents are C20's business
        if op[0] in ("set", "set_match", "pop", "get_sd", "get_sdc", "pop_match"):
            prev_paths.append(op[1])
        sc["ops"].append(op)
        apply_shadow(shadow, op)
    return sc


def is_cyclic(v, stack=None):
    stack = stack or []
    if isinstance(v, (dict, list)):
        if any(v is s for s in stack):
            return True
        stack.append(v)
        items = v.values() if isinstance(v, dict) else v
        for x in items:
            if is_cyclic(x, stack):
                return True
        stack.pop()
    return False


# ---------------------------------------------------------------- descriptors / list views

def _decl_chain(rng, doc, want=None):
    """a declaration chain [[name, path|None(, 'iter', k)]...] aimed at an existing node
    (want: None | 'list'), and the absolute key/index location it denotes (or None)"""
    locs = [l for l in locations(doc) if l]
    if want == "list":
        cands = [l for l in locs if isinstance(node_at(doc, l), list)]
        if cands and rng.random() < 0.9:
            locs = cands
    if not locs:
        return [[rng.choice(gen.KEYS), None]], None
    loc = rng.choice(locs)
    r = rng.random()
    # an iterator-typed outer attribute: the element documents of a list, reached through the
    # typed iterator (DocumentIterator), then an attribute declared on the element type
    its = [c for c in range(len(loc) - 1) if isinstance(node_at(doc, loc[:c]), list) and isinstance(loc[c], int)]
    if its and rng.random() < 0.3:
        c = rng.choice(its)
        outer_steps = [["k", nm] if isinstance(nm, str) else ["i", nm] for nm in loc[:c]] + [["iwc"]]
        inner = loc[c + 1:]
        inner_steps = [["k", nm] if isinstance(nm, str) else ["i", nm] for nm in inner]
        o = ["o", outer_steps, "iter", loc[c]]
        if len(inner) == 1 and isinstance(inner[0], str) and rng.random() < 0.5:
            return [o, [inner[0], None]], loc
        return [o, ["x", inner_steps]], loc
    if len(loc) >= 2 and r < 0.35:
        cut = rng.randint(1, len(loc) - 1)
        outer, inner = loc[:cut], loc[cut:]
        if isinstance(node_at(doc, outer), (dict, list)):
            o = ["o", loc_to_steps(rng, doc, outer, fancy=0.1)]
            inner_steps = [["k", nm] if isinstance(nm, str) else ["i", nm] for nm in inner]
            if rng.random() < 0.25:
                # the outer attribute is typed through getter=get_match: its nested document wraps the Match, and
                # an attribute of the nested type may leave the node with parent steps (a sibling of the node)
                o = o + ["gm"]
                if rng.random() < 0.6:
                    up = node_at(doc, outer[:-1])
                    sib = rng.choice(list(up.keys())) if isinstance(up, dict) and up else rng.choice([0, -1, 1])
                    return [o, ["x", [["par"], ["k", sib] if isinstance(sib, str) else ["i", sib]]]], None
            if len(inner) == 1 and isinstance(inner[0], str) and rng.random() < 0.5:
                return [o, [inner[0], None]], loc
            return [o, ["x", inner_steps]], loc
    if len(loc) == 1 and isinstance(loc[0], str) and r < 0.7:
        return [[loc[0], None]], loc
    return [["x", loc_to_steps(rng, doc, loc, fancy=0.15)]], loc


def gen_descr_op(rng, doc):
    r = rng.random()
    if r < 0.08:
        steps, _ = target_path(rng, doc, fancy=0.1)
        return [rng.choice(["pp.get", "mp.get"]), steps]
    if r < 0.14:
        if rng.random() < 0.4:
            # any parent part (wildcards, filters, recursion: the first node it selects takes the entry, whether or
            # not a later candidate already has it) and any last step
            steps, _ = target_path(rng, doc, fancy=0.6)
            return ["pp.set", steps, ["new", enc(rng.choice(VALS))]]
        return ["pp.set", cascade_path(rng, doc), ["new", enc(rng.choice(VALS))]]
    chain, loc = _decl_chain(rng, doc)
    if rng.random() < 0.12:
        chain[-1] = [rng.choice(gen.KEYS), None]          # a missing attribute
    if r < 0.5:
        return ["d.get", chain, rng.choice(["get", "get", "get", "find", "find", "find_matches", "get_match", "get_match", "itc", "itx"]),
                rng.choice(["id", "id", "neg", "box"])]
    if r < 0.85:
        kind = rng.choice(["iter", "iterc", "iterx"]) if rng.random() < 0.2 else "plain"
        conv = rng.choice(["id", "id", "neg", "box"])
        vs = gen_valspec(rng, doc)
        if vs[0] == "at" and (loc is None or tuple(vs[1]) == tuple(loc[:len(vs[1])])):
            vs = ["new", enc(rng.choice(VALS))]     # would store a container inside itself
        return ["d.set", chain, kind, rng.choice(["set_", "set_match"]), conv, vs]
    return ["d.del", chain]


def gen_list_op(rng, doc, live, its):
    r = rng.random()
    if not live or r < 0.15:
        lid = rng.randint(0, 2)
        chain, _ = _decl_chain(rng, doc, want="list")
        live.add(lid)
        return ["l.new", lid, chain, rng.choice(["id", "id", "neg", "box", "boom"])]
    lid = rng.choice(sorted(live)) if rng.random() < 0.95 else rng.randint(0, 2)
    idx = rng.choice([-5, -3, -2, -1, 0, 0, 1, 1, 2, 3, 5])
    if rng.random() < 0.06:
        chain, _ = _decl_chain(rng, doc)
        return ["l.assign", [c for c in chain if len(c) <= 2 or c[2] != "gm"] or chain, lid]
    k = rng.choice(["l.len", "l.get", "l.get", "l.set", "l.set", "l.del", "l.in", "l.append", "l.append", "l.pop",
                    "l.pop", "l.iter", "l.keep", "l.keep", "l.remove", "l.it.new", "l.it.next", "l.it.next"])
    if k in ("l.len", "l.iter"):
        return [k, lid]
    if k in ("l.get", "l.del", "l.pop"):
        return [k, lid, idx]
    if k == "l.set":
        return [k, lid, idx, ["new", enc(rng.choice(VALS))]]
    if k in ("l.in", "l.append"):
        return [k, lid, ["new", enc(rng.choice(VALS))]]
    if k in ("l.keep", "l.remove"):
        return [k, lid, rng.choice(["truthy", "none", "all", "is_num", "small", "is_bool", "is_int", "is_float", "first2", "alt", "first2"])]
    if k == "l.it.next" and not its:
        k = "l.it.new"
    if k == "l.it.new":
        itid = rng.randint(0, 1)
        its.add(itid)
        return [k, itid, lid]
    return [k, rng.choice(sorted(its)) if its else 0]


def gen_views(rng, profile):
    doc = gen.gen_doc(rng)
    if not isinstance(doc, dict) and rng.random() < 0.85:
        doc = {"a": doc, "b": [1, {"c": 2}, 0, "s"], "l": []}
    if profile == "listview" and isinstance(doc, dict) and rng.random() < 0.6:
        if rng.random() < 0.3:
            # values that compare equal without being the same JSON value (1 == True == 1.0, 0 == False == 0.0)
            mixed = [rng.choice([0, False, 0.0, 1, True, 1.0, 1, True]) for _ in range(rng.randint(2, 6))]
            doc[rng.choice(gen.KEYS)] = mixed
        else:
            doc[rng.choice(gen.KEYS)] = rng.choice([[], [1, 2, 3], [0, "", None, 2.5, {"a": 1}], [3, 1, 2, 0, 5]])
    script = []
    if profile == "listview" and isinstance(doc, dict) and rng.random() < 0.12:
        # a live iterator of a view whose converter raises on part of the elements: the iterator is used again
        # after each failure (it has advanced; it is not finished)
        key = rng.choice(gen.KEYS)
        doc[key] = [rng.choice([1, "s", 2.5, "t", None, "u", [1]]) for _ in range(rng.randint(3, 6))]
        script = [["l.new", 0, [[key, None]], "boom"], ["l.it.new", 0, 0]] + [["l.it.next", 0] for _ in range(rng.randint(3, 7))]
        if rng.random() < 0.5:
            script.insert(rng.randint(2, len(script)), rng.choice([["l.append", 0, ["new", "z"]], ["l.del", 0, 0], ["l.iter", 0]]))
    if profile == "listview" and isinstance(doc, dict) and not script and rng.random() < 0.12:
        # values that are == without being the same JSON value, filtered by predicates that tell them apart:
        # a kept entry following a removed one that equals it must still end up in the removed one's place
        key = rng.choice(gen.KEYS)
        base = rng.choice([[0, False], [False, 0], [1, True, 1.0], [True, 1], [0.0, 0, False, 1, True], [1.0, 1, 0, False]])
        doc[key] = base + [rng.choice([0, False, 0.0, 1, True, 1.0]) for _ in range(rng.randint(0, 3))]
        script = [["l.new", 0, [[key, None]], "id"], [rng.choice(["l.keep", "l.remove"]), 0, rng.choice(["is_bool", "is_int", "is_float"])],
                  ["l.iter", 0], [rng.choice(["l.keep", "l.remove"]), 0, rng.choice(["is_bool", "is_int", "is_float", "truthy"])], ["l.len", 0]]
    sc = {"fam": "m", "doc": enc(doc), "ops": []}
    live, its = set(), set()
    if script:
        live.add(0)
        its.add(0)
    shadow = copy.deepcopy(doc)
    from observe import final_doc
    for _ in range(max(rng.randint(2, 12), len(script))):
        if script:
            op = script.pop(0)
        else:
            op = gen_descr_op(rng, shadow) if profile == "descr" else gen_list_op(rng, shadow, live, its)
        sc["ops"].append(op)
        try:
            after = final_doc(sc)
        except Exception:
            after = None
        if after is None or is_cyclic(after):
            sc["ops"].pop()          # would make the document cyclic (C20's business)
            continue
        shadow = after
    return sc
