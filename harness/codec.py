"""Shared encoding between the Python observer and the Lean driver (see DESIGN.md §4.2).

Documents: scalars raw, ["a",[...]] lists, ["o",[[k,v],...]] dicts (ordered), ["f",n] = float n/2.
"""
import json
import operator

import treepath
from treepath import (path, wc, gwc, find, find_matches, get, get_match, has, has_all, has_any, has_not)


class Boom(Exception):
    pass


class BadBool:
    """a value a predicate may return whose truth test raises (numpy arrays do this)"""
    __slots__ = ()

    def __bool__(self):
        raise TypeError("the truth value of this object is ambiguous")

    def __repr__(self):
        return "BadBool()"


def enc(v, _budget=None):
    """canonical encoding; bounded (a broken implementation can turn the document into a DAG
    or a cycle whose unfolding is exponential / infinite)"""
    if _budget is None:
        _budget = [20000]
    _budget[0] -= 1
    if _budget[0] < 0:
        return ["?", "too-big"]
    if v is None or isinstance(v, bool) or isinstance(v, str):
        return v
    if isinstance(v, int):
        return v
    if isinstance(v, float):
        n = v * 2
        if n != int(n):
            return ["?", "float"]
        return ["f", int(n)]
    if isinstance(v, list):
        return ["a", [enc(x, _budget) for x in v]]
    if isinstance(v, dict):
        return ["o", [[k, enc(x, _budget)] for k, x in v.items()]]
    return ["?", repr(type(v))]


def dec(j):
    if isinstance(j, list):
        tag = j[0]
        if tag == "a":
            return [dec(x) for x in j[1]]
        if tag == "o":
            return {k: dec(x) for k, x in j[1]}
        if tag == "f":
            return j[1] / 2
        raise ValueError(f"bad value {j!r}")
    return j


def same(a, b):
    """type-strict, order-sensitive structural equality (decision tables)"""
    return json.dumps(enc(a)) == json.dumps(enc(b))


def kind_of(v):
    if v is None:
        return "none"
    if isinstance(v, bool):
        return "bool"
    if isinstance(v, int):
        return "int"
    if isinstance(v, float):
        return "float"
    if isinstance(v, str):
        return "str"
    if isinstance(v, list):
        return "list"
    if isinstance(v, dict):
        return "dict"
    return "?"


def _boom_if_str(x):
    if isinstance(x, str):
        raise Boom()
    return x


FN = {
    "int": int,
    "len": len,
    "truth": operator.truth,
    "not": operator.not_,
    "neg": operator.neg,
    "abs": abs,
    "first": lambda x: x[0],
    "boom_if_str": _boom_if_str,
    "ident": lambda x: x,
}

OPS = {"lt": operator.lt, "le": operator.le, "eq": operator.eq, "ne": operator.ne, "gt": operator.gt,
       "ge": operator.ge}


# what callers catch: `except MatchNotFoundError`, `except LookupError`, `except TraversingError` …
EXPECTED_BASES = {"NestedMatchNotFoundError": ("MatchNotFoundError", "LookupError", "TreepathException"),
                  "MatchNotFoundError": ("LookupError", "TreepathException"), "SetError": ("LookupError", "TreepathException"),
                  "PopError": ("LookupError", "TreepathException"), "TraversingError": ("RuntimeError", "TreepathException"),
                  "InfiniteLoopDetected": ("TraversingError", "TreepathException"), "PathSyntaxError": ("SyntaxError", "TreepathException"),
                  "StopTraversing": ("StopIteration", "TreepathException")}


def _exc_name(e):
    name = type(e).__name__
    want = EXPECTED_BASES.get(name)
    if want:
        mro = [c.__name__ for c in type(e).__mro__]
        missing = [b for b in want if b not in mro]
        if missing:
            return name + "(not a " + "/".join(missing) + ")"
    return name


def exc_chain(e):
    out = []
    seen = 0
    while e is not None and seen < 50:
        out.append(_exc_name(e))
        e = e.__cause__
        seen += 1
    return out


def ppath(m):
    return m.path_as_str


def node_full(m):
    par = m.parent
    return {"p": m.path_as_str, "n": m.data_name, "d": enc(m.data),
            "l": [x.data_name for x in m.path_match_list],
            "u": par.path_as_str if par is not None else None}


class Named:
    """a callable with a stable repr (no addresses), so that renderings are comparable"""
    __slots__ = ("fn", "label")

    def __init__(self, fn, label):
        self.fn, self.label = fn, label

    def __call__(self, *a):
        return self.fn(*a)

    def __repr__(self):
        return self.label

    __str__ = __repr__


class NamedCmp(Named):
    """a predicate object of a query DSL: callable, and its comparison operators build further predicate
    objects (truthy, like treepath's own `path.x == 1`) instead of answering True / False"""
    __slots__ = ()

    def _cmp(self, other):
        return NamedCmp(lambda *a: False, "cmp(" + self.label + ")")

    __eq__ = __ne__ = __lt__ = __le__ = __gt__ = __ge__ = _cmp
    __hash__ = object.__hash__


class Builder:
    """Builds treepath expressions and predicates of the closed language, logging every
    observable call into self.log."""

    def __init__(self, log, root=None):
        self.log = log
        self.root = path if root is None else root
        self.tracer = None      # the trace callable of the running query (set by the observer)

    def fn(self, name, depth=0):
        f = FN[name]
        log = self.log

        def g(x):
            log.append(["F", name, enc(x), depth])
            return f(x)

        return Named(g, name)

    def steps(self, steps, p=None, depth=0):
        p = self.root if p is None else p
        for s in steps:
            p = self.step(p, s, depth)
        return p

    def step(self, p, s, depth=0):
        k = s[0]
        if k == "k":
            return p[s[1]]
        if k == "i":
            return p[s[1]]
        if k == "s":
            return p[slice(s[1], s[2], s[3])]
        if k == "t":
            return p[tuple(s[1])]
        if k == "wc":
            return p.wc
        if k == "iwc":
            return p[wc]
        if k == "gwc":
            return p.gwc
        if k == "igwc":
            return p[gwc]       # the bracket spelling of the generic wildcard (renders [*])
        if k == "rec":
            return p.rec
        if k == "par":
            return p.parent
        if k == "f":
            return p[self.logged(self.pred(s[1], depth), depth)]
        raise ValueError(f"bad step {s!r}")

    def logged(self, pred, depth=0):
        log = self.log

        def w(m):
            par = m.parent
            log.append(["P", m.path_as_str, m.data_name, enc(m.data), par.path_as_str if par is not None else None,
                        depth])
            try:
                return pred(m)
            finally:
                log.append(["PX", depth])       # python-only marker: the predicate returned / raised

        lab = "L(" + repr(pred) + ")"
        return (NamedCmp if len(lab) % 3 == 0 else Named)(w, lab)

    def arg(self, a, depth=0):
        """the first argument of has / has_not, or an item of has_all / has_any.
        depth = nesting depth of the filter whose predicate is being built; paths inside the
        predicate are one level deeper"""
        k = a[0]
        if k == "p":
            return self.steps(a[1], depth=depth + 1)
        if k == "c":
            return OPS[a[2]](self.steps(a[1], depth=depth + 1), dec(a[3]))
        if k == "pred":
            return self.pred(a[1], depth)
        if k == "tup":
            return (self.arg(a[1], depth),) + tuple(self.fn(f, depth) for f in a[2])
        raise ValueError(f"bad arg {a!r}")

    def pred(self, p, depth=0):
        k = p[0]
        if k == "has":
            a = self.arg(p[1], depth)
            fns = [self.fn(f, depth) for f in p[2]]
            return has(a, *fns)
        if k == "not":
            a = self.arg(p[1], depth)
            fns = [self.fn(f, depth) for f in p[2]]
            return has_not(a, *fns)
        if k == "all":
            return has_all(*[self.arg(a, depth) for a in p[1]])
        if k == "any":
            return has_any(*[self.arg(a, depth) for a in p[1]])
        if k == "tab":
            sel, cases, dflt = p[1], p[2], p[3]

            def out(o, m=None):
                if o[0] == "trav":
                    # a lazy traverser over nothing: like any object without __bool__ / __len__ it is truthy
                    return find(path.no_such_key_anywhere, m)
                if o[0] == "v":
                    return dec(o[1])
                if o[0] == "b":
                    return BadBool()     # the truth test raises TypeError where the value is used
                raise {"Boom": Boom, "ValueError": ValueError, "KeyError": KeyError, "StopIteration": StopIteration}[o[1]]()

            def tab(m):
                key = selector(sel, m)
                for v, o in cases:
                    if same(dec(v), key):
                        return out(o, m)
                return out(dflt, m)

            return Named(tab, "tab:" + sel)
        if k == "nb":
            kind, steps = p[1], p[2]
            expr = self.steps(steps, depth=depth + 1)
            lab = "nb:" + kind + ":" + str(expr)
            if kind == "m":
                return Named(lambda m: get_match(expr, m, must_match=False) is not None, lab)
            if kind == "v":
                return Named(lambda m: get(expr, m, default=None), lab)
            if kind == "mt":   # passes the tracer explicitly
                return Named(lambda m: get_match(expr, m, must_match=False, trace=self.tracer) is not None, lab)
            if kind == "vt":
                return Named(lambda m: get(expr, m, default=None, trace=self.tracer), lab)
            return Named(lambda m: get(expr, m), lab)
        if k == "nb2":
            e1 = self.steps(p[1], depth=depth + 1)
            e2 = self.steps(p[2], depth=depth + 1)

            def hop(m):
                r = get_match(e1, m, must_match=False)
                return None if r is None else get(e2, r, default=None)
            return Named(hop, "nb2:" + str(e1) + ">" + str(e2))
        if k == "below2":
            # as `below`, but the predicate looks at its Match *after* the nested search that went through
            # the same filter step (the same PredicateVertex object) has returned
            first, tabp = p[1], p[2]
            tab = self.pred(tabp, depth + 1)
            holder = {}

            def below_p2(m):
                r = holder["H"](m) if isinstance(m.data, (dict, list)) else False
                t = tab(m)
                return t if t else r

            inner = self.logged(Named(below_p2, "below2-P:" + repr(tab)), depth + 1)
            expr = self.step(self.root, first, depth + 1)[inner]
            holder["H"] = has(expr)
            return holder["H"]
        if k == "below":
            # a has-predicate reused inside its own filter: "some node below this one satisfies
            # `tab`", written as H = has(path.<first>[P]) with P(m) = tab(m) or H(m)
            first, tabp = p[1], p[2]
            tab = self.pred(tabp, depth + 1)
            holder = {}

            def below_p(m):
                r = tab(m)
                if r:
                    return r
                if isinstance(m.data, (dict, list)):
                    return holder["H"](m)
                return r

            inner = self.logged(Named(below_p, "below-P:" + repr(tab)), depth + 1)
            expr = self.step(self.root, first, depth + 1)[inner]
            holder["H"] = has(expr)
            return holder["H"]
        raise ValueError(f"bad pred {p!r}")


def selector(sel, m):
    if sel == "kind":
        return kind_of(m.data)
    if sel == "name":
        return m.data_name
    if sel == "depth":
        return len(m.path_match_list)
    if sel == "path":
        return m.path_as_str
    if sel == "data":
        return m.data
    if sel == "pkind":
        p = m.parent
        return kind_of(p.data) if p is not None else None
    return None
