"""Non-query scenario families plugged into props.run_property through cfg['extra']:
each family generates scenarios, observes the implementation, runs the Lean driver and
compares record by record.  In these families the model *is* the specification the
theorems are about (frame conditions on the heap model, list semantics, builder store), so a
difference in outcome / object graph is a property-level failing input."""
import copy
import hashlib
import json
import random
import sys
from concurrent.futures import ProcessPoolExecutor

import corr


def _hash(sc):
    d = {k: v for k, v in sc.items() if k != "id"}
    return hashlib.sha1(json.dumps(d, sort_keys=True).encode()).hexdigest()[:12]


class Family:
    """subclass: name, gen(rng, profile), observe(sc), nontrivial(sc, py), classify(ctx, sc, py), ops_key"""
    name = "?"
    ops_key = "ops"
    out_key = "mach"

    def __init__(self, profile, n_quick, n_thorough, what):
        self.profile, self.n_quick, self.n_thorough, self.what = profile, n_quick, n_thorough, what
        self.family = self.name

    # -- per family
    def gen(self, rng, profile):
        raise NotImplementedError

    def observe(self, sc):
        raise NotImplementedError

    def nontrivial(self, sc, py):
        return True

    def classify(self, ctx, sc, py):
        pass

    def known(self, sc, i, a, b):
        """signature of a recorded known finding that explains this difference, or None"""
        return None

    def note(self, ctx, sc, lean):
        """model-side information that is not compared with python (counted into the evidence)"""
        pass

    def first_diff(self, py, lean, sc=None, hits=None):
        for i, (a, b) in enumerate(zip(py, lean)):
            if a != b:
                sig = self.known(sc, i, a, b) if sc is not None else None
                if sig:
                    if hits is not None:
                        hits.add(sig)
                    continue
                return i, f"step {i}: python {json.dumps(a)[:400]} model {json.dumps(b)[:400]}"
        if len(py) != len(lean):
            return min(len(py), len(lean)), f"python has {len(py)} records, model {len(lean)}"
        return None, None

    def procs_for(self, n):
        return 16 if n >= 4000 else 1

    # -- generic
    def _work(self, args):
        seed, n, base = args
        rng = random.Random(seed)
        out = []
        for i in range(n):
            sc = self.gen(rng, self.profile)
            sc["id"] = base + i
            try:
                py = self.observe(sc)
            except Exception as e:  # noqa
                py = [{"r": ["HARNESS-EXC", f"{type(e).__name__}: {e}"]}]
            out.append((sc, py))
        return out

    def check_pairs(self, ctx, pairs, label=None):
        outs = corr.run_driver([sc for sc, _ in pairs])
        for sc, py in pairs:
            ctx.evaluations += 1
            h = _hash(sc)
            ctx.distinct.add(h)
            if self.nontrivial(sc, py):
                ctx.nontrivial.add(h)
                if len(ctx.samples) < 6 and len(json.dumps(sc)) < 1200:
                    ctx.samples.append({"scenario": {k: v for k, v in sc.items() if k != "id"},
                                        "python": py if len(json.dumps(py)) < 1500 else "(long)"})
            self.classify(ctx, sc, py)
            lean = outs.get(sc["id"], {"error": "no output"})
            if "error" in lean:
                # the model gave no answer on this scenario: the correspondence cannot be checked on it
                ctx.violations.append(dict(level="mach", what=f"python vs model ({self.what})",
                                           detail="the model's driver gave no answer (" + lean["error"] + ")",
                                           scenario={k: x for k, x in sc.items() if k != "id"}, family=self.name, label=label))
                continue
            self.note(ctx, sc, lean["out"][self.out_key])
            hits = set()
            i, detail = self.first_diff(py, lean["out"][self.out_key], sc, hits)
            for sig in hits:
                ctx.known_hits.append(sig)
            if detail:
                v = dict(level="spec", what=f"python vs model ({self.what})", detail=detail,
                         scenario={k: x for k, x in sc.items() if k != "id"}, family=self.name, label=label)
                if sum(1 for x in ctx.violations if x["level"] == "spec") < 2:
                    v = self.shrink(v)
                ctx.violations.append(v)

    def still_fails(self, sc):
        sc = copy.deepcopy(sc)
        sc["id"] = 0
        try:
            py = self.observe(sc)
        except Exception:
            return None
        out = corr.run_driver([sc], procs=1).get(0)
        if not out or "error" in out:
            return None
        _, d = self.first_diff(py, out["out"][self.out_key], sc, set())
        return d

    def shrink(self, v, budget_s=10.0):
        import time
        t0 = time.time()
        sc = v["scenario"]
        try:
            changed = True
            while changed and time.time() - t0 < budget_s:
                changed = False
                ops = sc.get(self.ops_key, [])
                for i in range(len(ops) - 1, -1, -1):
                    c = copy.deepcopy(sc)
                    del c[self.ops_key][i]
                    d = self.still_fails(c)
                    if d:
                        sc, v["detail"], changed = c, d, True
                        break
            v["scenario"] = sc
            v["shrunk"] = True
        except Exception as e:  # noqa
            v["shrink_error"] = repr(e)
        return v

    def __call__(self, ctx, escalate=1):
        n = ctx.scale(self.n_quick, self.n_thorough) * escalate
        procs = self.procs_for(n)
        per = (n + procs - 1) // procs
        jobs = [(ctx.rng.randrange(1 << 60), per, k * per) for k in range(procs)]
        if procs == 1:
            batches = [self._work(jobs[0])]
        else:
            with ProcessPoolExecutor(max_workers=procs) as ex:
                batches = list(ex.map(self._work, jobs))
        pairs = [p for b in batches for p in b]
        self.check_pairs(ctx, pairs)

    def replay(self, ctx, rp):
        sc = copy.deepcopy(rp["scenario"])
        sc["id"] = 0
        py = self.observe(sc)
        self.check_pairs(ctx, [(sc, py)], label="replay")
        return not ctx.violations

    def corpus(self, ctx, items):
        pairs = []
        for i, item in enumerate(items):
            sc = copy.deepcopy(item["scenario"])
            sc["id"] = 20_000_000 + i
            pairs.append((sc, self.observe(sc)))
        if pairs:
            self.check_pairs(ctx, pairs, label="corpus")


class MutateFamily(Family):
    name = "m"

    def gen(self, rng, profile):
        import gen_mut
        if profile in ("descr", "listview"):
            return gen_mut.gen_views(rng, profile)
        return gen_mut.gen_mutate(rng, profile)

    def observe(self, sc):
        from observe import observe_mutate
        return observe_mutate(sc)

    def nontrivial(self, sc, py):
        # at least one operation changed the document (views: or read something through a view)
        if any(a["g"] != b["g"] for a, b in zip(py, py[1:])):
            return True
        return any(r["r"][0] in ("vals", "view") or (r["r"][0] == "ok" and len(r["r"]) > 1) for r in py[1:])

    def known(self, sc, i, a, b):
        if i == 0 or i > len(sc["ops"]):
            return None
        op = sc["ops"][i - 1]
        return None

    def classify(self, ctx, sc, py):
        for op, rec in zip(sc["ops"], py[1:]):
            tag = rec["r"][0]
            ctx.count(f"op:{op[0]}:" + (tag if tag != "err" else "err:" + rec["r"][1][0]))

    def first_diff(self, py, lean, sc=None, hits=None):
        # "t": the driver's comparison of the store model with the tree-level specification
        # (J.setAt / J.popAt of Spec/TreeWrite.lean) on this very operation — not a python observable
        for i, b in enumerate(lean):
            t = b.get("t") if isinstance(b, dict) else None
            if t == "BAD":
                return i, f"step {i}: the store model and the tree-level specification (Spec/TreeWrite) disagree: {json.dumps(b)[:300]}"
        stripped = [{k: v for k, v in b.items() if k != "t"} if isinstance(b, dict) else b for b in lean]
        return super().first_diff(py, stripped, sc, hits)

    def note(self, ctx, sc, lean):
        for b in lean:
            if isinstance(b, dict) and "t" in b:
                ctx.count("tree-spec:" + b["t"])


class BuilderFamily(Family):
    name = "b"

    def gen(self, rng, profile):
        import gen_bld
        return gen_bld.gen_builder(rng)

    def observe(self, sc):
        from observe import observe_builder
        return observe_builder(sc)

    def nontrivial(self, sc, py):
        return any(r[0] == "res" and r[1] for r in py) and any(r[0] == "str" for r in py)

    def classify(self, ctx, sc, py):
        for op, rec in zip(sc["ops"], py):
            ctx.count(f"op:{op[0]}:{rec[0]}" + (":" + rec[1] if rec[0] == "err" else ""))


class GraphFamily(Family):
    """cyclic dict / list structures under the real action budget (C20)"""
    name = "g"
    ops_key = "path"

    def procs_for(self, n):
        return max(1, min(8, n))     # every scenario runs up to 3 x 1,000,000 actions

    def gen(self, rng, profile):
        if rng.random() < 0.3:
            # the plain ring, searched for something that is not there: every next() must end in
            # InfiniteLoopDetected, also the next() after one that already did, also from a Match
            sc = {"fam": "g", "nodes": [["d", [["self", 0], ["x", 1]]], ["s", 1]], "root": 0,
                  "path": [["rec"], ["k", "nope"]], "nexts": 2}
            if rng.random() < 0.5:
                sc["src"] = {"path": [["k", "self"]], "k": 0}
            return sc
        n = rng.randint(2, 5)
        nodes = []
        keys = ["a", "b", "x", "self", "k"]
        for i in range(n):
            r = rng.random()
            if r < 0.5:
                ks = rng.sample(keys, rng.randint(1, 3))
                nodes.append(["d", [[k, rng.randrange(n)] for k in ks]])
            elif r < 0.8:
                nodes.append(["l", [rng.randrange(n) for _ in range(rng.randint(0, 3))]])
            else:
                nodes.append(["s", rng.choice([0, 1, None, "s", True])])
        if nodes[0][0] == "s":
            nodes[0] = ["d", [["self", 0], ["x", rng.randrange(n)]]]
        steps = [["rec"]]
        r = rng.random()
        if r < 0.35:
            steps.append(["k", rng.choice(keys + ["nope"])])
        elif r < 0.5:
            steps.append(["i", rng.choice([0, 1, -1])])
        elif r < 0.65:
            steps.append(["k", "nope"])
        elif r < 0.8:
            steps.append(rng.choice([["wc"], ["gwc"], ["iwc"]]))
            steps.append(["k", rng.choice(["nope", "x"])])
        elif r < 0.9:
            steps.append(["par"])      # (filters are left out: the harness' call log would unfold cyclic data)
        if rng.random() < 0.3:
            steps = [["k", rng.choice(keys)]] + steps
        sc = {"fam": "g", "nodes": nodes, "root": 0, "path": steps, "nexts": rng.randint(1, 3)}
        if rng.random() < 0.4 and nodes[0][0] == "d":
            # start from a Match (nested traverser): the k-th match of a plain key path
            sc["src"] = {"path": [["k", rng.choice([k for k, _ in nodes[0][1]])]], "k": 0}
        return sc

    def observe(self, sc):
        from observe import observe_graph
        return observe_graph(sc)

    def nontrivial(self, sc, py):
        if isinstance(py, str):
            return False
        return any(r["s"][0] == "X" for r in py) or sum(1 for r in py if r["s"][0] == "R") >= 1

    def classify(self, ctx, sc, py):
        if isinstance(py, str):
            ctx.count("graph:" + py)
            return
        ctx.count("graph-src:" + ("match" if sc.get("src") else "doc"))
        for r in py:
            ctx.count("graph:" + (r["s"][0] if r["s"][0] != "X" else "X:" + r["s"][1][0]))

    def shrink(self, v, budget_s=10.0):
        return v
