#!/bin/sh
# re-run every stored seeded change against the check of its property, and every harmless refactoring against all checks
cd /verif
for d in seeded/C*-*; do
  id=$(basename $d); p=${id%%-*}
  r=$(./tools_try_seed.sh /verif/$d/patch.diff $p 2>&1 | tail -1)
  case "$r" in *"exit 1"*) echo "$id detected";; *) echo "$id MISSED: $r";; esac
done
for d in seeded/harmless/R*; do
  echo "== $(basename $d): $(./tools_try_harmless.sh /verif/$d/patch.diff 2>&1 | tail -3 | tr '\n' ' ')"
done
