#!/bin/sh
# usage: tools_try_harmless.sh <patch.diff>  : all 20 quick checks must stay silent on a behaviour-preserving change
patch="$1"
wt=$(mktemp -d /tmp/hwt.XXXXXX); rmdir "$wt"
git -C /repo worktree add -q "$wt" HEAD || exit 3
git -C "$wt" apply "$patch" || { echo "APPLY FAILED"; git -C /repo worktree remove --force "$wt"; exit 3; }
bad=0
for p in C01 C02 C03 C04 C05 C06 C07 C08 C09 C10 C11 C12 C13 C14 C15 C16 C17 C18 C19 C20; do
  out=$(cd /verif && VERIF_REPO="$wt" ./check "$p" --tier quick 2>&1); rc=$?
  if [ $rc -ne 0 ]; then bad=1; echo "ALARM $p (exit $rc)"; echo "$out" | grep -E "^(VIOLATION|INFRA)" | head -2; fi
done
[ $bad -eq 0 ] && echo "silent on all 20"
git -C /repo worktree remove --force "$wt"
