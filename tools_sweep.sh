#!/bin/sh
# usage: [PROPS="C01 C02"] tools_sweep.sh <tier> <seed>...   : run every check with each seed (false-alarm hunt on the unchanged tree)
tier="$1"; shift
(cd lean && lake build Treepath tpdriver >/dev/null 2>&1)
for s in "$@"; do
  for p in ${PROPS:-C01 C02 C03 C04 C05 C06 C07 C08 C09 C10 C11 C12 C13 C14 C15 C16 C17 C18 C19 C20}; do
    VERIF_SEED=$s ./check $p --tier $tier 2>&1 | grep -E "^(VIOLATION|INFRA|C[0-9]+ tier)" | tr '\n' ' '; echo
  done
done
