import Treepath.Model.Basic
import Treepath.Model.Path
import Treepath.Model.Machine
import Treepath.Model.Has
import Treepath.Spec.Eval
import Treepath.Spec.Has
import Treepath.Model.Fns
