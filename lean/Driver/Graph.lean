import Driver.Query
/- the `g` (graph) family: the generic traverser on finite *graphs* (self-referential
dict/list structures) under the real action budget: per `next()` the number of trace events
and the signal (result location / InfiniteLoopDetected / StopIteration). -/
open Lean (Json)
namespace Treepath.Driver

inductive GNode where
  | dict (es : List (String × Nat))
  | list (xs : List Nat)
  | scalar (j : J)

def gview (g : Array GNode) (id : Nat) : View Nat :=
  match g[id]? with
  | some (.dict es) => .dict es
  | some (.list xs) => .list xs
  | _ => .scalar

/-- values of graph nodes as JSON, cut at depth 2 (enough for the predicates of this family) -/
def gToJ (g : Array GNode) : Nat → Nat → J
  | 0, _ => .null
  | fuel+1, id =>
    match g[id]? with
    | some (.dict es) => .obj (es.map fun (k, v) => (k, gToJ g fuel v))
    | some (.list xs) => .arr (xs.map (gToJ g fuel))
    | some (.scalar j) => j
    | none => .null

def decGNode (j : Json) : E GNode := do
  let a ← getArr j
  match a.toList with
  | [.str "d", .arr es] => do
    let es ← es.toList.mapM fun e => match e with
      | .arr #[.str k, v] => do match v.getNat? with
        | .ok n => pure (k, n)
        | .error er => .error er
      | _ => jErr "bad graph dict entry" e
    return .dict es
  | [.str "l", .arr xs] => do
    let xs ← xs.toList.mapM fun v => match v.getNat? with | .ok n => pure n | .error er => .error er
    return .list xs
  | [.str "s", v] => do return .scalar (← decJ v)
  | _ => jErr "bad graph node" j

def countT (evs : List (Ev Nat)) : Nat :=
  evs.countP fun e => match e with | .attempt .. => true | _ => false

def driveGraph (cx : Ctx Nat) (steps : Array (Step Nat)) (src : Src Nat) : Nat → St Nat → List Json
  | 0, _ => []
  | n+1, st =>
    let (st', evs, sig) := next cx.view steps src cx.limit st
    let sigJ : Json := match sig with
      | .result m => .arr #[.str "R", .str m.pathStr]
      | .stop => .arr #[.str "S"]
      | .raised e => .arr #[.str "X", encExc e]
      | .none => .arr #[.str "BUG", .str "none"]
      | .bug m => .arr #[.str "BUG", .str m]
    Json.mkObj [("n", natJ (countT evs)), ("s", sigJ)] :: driveGraph cx steps src n st'

def handleGraph (j : Json) : E Json := do
  let nodes ← getArr (← field j "nodes")
  let g ← nodes.toList.mapM decGNode
  let ga := g.toArray
  let root ← match (← field j "root").getNat? with | .ok n => pure n | .error e => .error e
  let nexts := match (fieldD j "nexts" (natJ 1)).getNat? with | .ok n => n | .error _ => 1
  let lim := match (fieldD j "limit" .null).getNat? with | .ok n => n | .error _ => Generated.loopBudget
  let cx : Ctx Nat := { view := gview ga, toJ := gToJ ga 3, limit := lim }
  let steps ← decSteps (machImpl cx) (← field j "path")
  -- optional source: the search starts at the k-th match of another path (nested traverser)
  let src : Option (Src Nat) ← match fieldD j "src" .null with
    | .null => pure (some (.doc root))
    | sj => do
      let ssteps ← decSteps (machImpl cx) (← field sj "path")
      let k := match (fieldD sj "k" (natJ 0)).getNat? with | .ok n => n | .error _ => 0
      pure ((drainMach cx ssteps.toArray (.doc root) (k + 1) {})[k]?.map Src.nested)
  match src with
  | none => return Json.mkObj [("mach", .str "nosrc")]
  | some src => return Json.mkObj [("mach", .arr (driveGraph cx steps.toArray src nexts {}).toArray)]

end Treepath.Driver
