import Driver.Query
import Treepath.Model.Mutate
/- the `m` (mutate) family: histories of set_/set_match/pop/pop_match/get(store_default) and
Match handle writes on one evolving document, with the whole reachable object graph dumped
after every operation under canonical object numbers. -/
open Lean (Json)
namespace Treepath.Driver

structure MState where
  heap : Heap
  root : Val
  handles : List (Nat × Handle) := []
  nums : List (Nat × Nat) := []       -- heap id ↦ canonical number (first-visit order)

def intJ (i : Int) : Json := Json.num (Lean.JsonNumber.fromInt i)

/-- numbering (global over the history) and the objects already printed in this dump -/
structure DumpSt where
  nums : List (Nat × Nat)
  seen : List Nat := []

/-- canonical dump: an object is printed once per dump as `["o"|"a", n, contents]`, later
visits in the same dump are `["r", n]`; `n` = first-visit order over the whole history -/
partial def dumpVal (h : Heap) (v : Val) (ds : DumpSt) : Json × DumpSt :=
  match v with
  | .atom j => (encJ j, ds)
  | .ref id =>
    let (n, ds) := match ds.nums.lookup id with
      | some n => (n, ds)
      | none => (ds.nums.length, { ds with nums := ds.nums ++ [(id, ds.nums.length)] })
    if ds.seen.contains id then (.arr #[.str "r", natJ' n], ds)
    else
      let ds := { ds with seen := id :: ds.seen }
      match h[id]? with
      | some (.dict es) =>
        let (items, ds) := es.foldl (fun (acc : List Json × DumpSt) (kv : String × Val) =>
          let (j, ds') := dumpVal h kv.2 acc.2
          (acc.1 ++ [Json.arr #[.str kv.1, j]], ds')) ([], ds)
        (.arr #[.str "o", natJ' n, .arr items.toArray], ds)
      | some (.list xs) =>
        let (items, ds) := xs.foldl (fun (acc : List Json × DumpSt) (x : Val) =>
          let (j, ds') := dumpVal h x acc.2
          (acc.1 ++ [j], ds')) ([], ds)
        (.arr #[.str "a", natJ' n, .arr items.toArray], ds)
      | none => (.arr #[.str "dangling", natJ' n], ds)
where natJ' (n : Nat) : Json := Json.num (Lean.JsonNumber.fromNat n)

def lookupLoc (h : Heap) : Val → List Json → Option Val
  | v, [] => some v
  | .ref id, nm :: rest =>
    match h[id]?, nm with
    | some (.dict es), .str k => (es.lookup k).bind (lookupLoc h · rest)
    | some (.list xs), .num _ =>
      match nm.getInt? with
      | .ok i => ((normIndex xs.length i).bind (xs[·]?)).bind (lookupLoc h · rest)
      | .error _ => none
    | _, _ => none
  | _, _ => none

/-- `["new", J]` allocates fresh containers; `["at", [names…]]` is the object currently at that
location of the document (an alias) -/
def decValSpec (st : MState) (j : Json) : E (Heap × Val) := do
  let a ← getArr j
  match a.toList with
  | [.str "new", v] => do
    let jv ← decJ v
    return allocJ st.heap jv
  | [.str "at", .arr names] =>
    return (st.heap, (lookupLoc st.heap st.root names.toList).getD (.atom .null))
  | _ => jErr "bad valspec" j

def apiErrChain : ApiErr → List String
  | .matchNotFound => ["MatchNotFoundError"]
  | .nestedMatchNotFound => ["NestedMatchNotFoundError"]
  | .setError => ["SetError"]
  | .popError => ["PopError"]
  | .exc e => excChain e
  | .bug m => ["BUG:" ++ m]

def errJ (e : ApiErr) : Json := .arr #[.str "err", .arr ((apiErrChain e).map Json.str).toArray]

def hErrJ : HErr → Json
  | .popError => .arr #[.str "err", .arr #[.str "PopError"]]
  | .py c => .arr #[.str "err", .arr #[.str c]]

def stepsOfJson (pathJ : Json) (h : Heap) : List (Step Val) :=
  match decSteps (machImpl (wcx h)) pathJ with
  | .ok s => s
  | .error _ => []

/-- finish an operation: dump the document graph, then the outcome's value -/
def finish (st : MState) (tag : String) (pre : List Json) (v : Option Val) : MState × Json :=
  let (g, ds) := dumpVal st.heap st.root { nums := st.nums }
  let (vj, ds) := match v with
    | some v => let r := dumpVal st.heap v ds; (some r.1, r.2)
    | none => (none, ds)
  let r := Json.arr ((Json.str tag :: pre) ++ (match vj with | some x => [x] | none => [])).toArray
  ({ st with nums := ds.nums }, Json.mkObj [("r", r), ("g", g)])

def finishErr (st : MState) (e : Json) : MState × Json :=
  let (g, ds) := dumpVal st.heap st.root { nums := st.nums }
  ({ st with nums := ds.nums }, Json.mkObj [("r", e), ("g", g)])

def matchPre (m : MNode Val) : List Json := [.str m.pathStr, encName m.dataName]

def decDflt (st : MState) (j : Json) : E (Heap × Option Val) := do
  match j with
  | .arr #[.str "none"] => return (st.heap, none)
  | .arr #[.str "val", vs] => do
    let (h, v) ← decValSpec st vs
    return (h, some v)
  | _ => jErr "bad default" j

def runOp (st : MState) (op : Json) : E (MState × Json) := do
  let a ← getArr op
  let src : Src Val := .doc st.root
  match a.toList with
  | [.str "set", p, vs, .bool cascade] => do
    let (h, v) ← decValSpec st vs
    match setMatch (stepsOfJson p) src cascade h v with
    | (h', .ok m) => return finish { st with heap := h' } "ok" [] (some m.data)
    | (h', .error e) => return finishErr { st with heap := h' } (errJ e)
  | [.str "set_match", p, vs, .bool cascade] => do
    let (h, v) ← decValSpec st vs
    match setMatch (stepsOfJson p) src cascade h v with
    | (h', .ok m) => return finish { st with heap := h' } "match" (matchPre m) (some m.data)
    | (h', .error e) => return finishErr { st with heap := h' } (errJ e)
  | [.str "pop", p, d] => do
    let (h, dv) ← decDflt st d
    match pop (stepsOfJson p) src dv h with
    | (h', .ok v) => return finish { st with heap := h' } "ok" [] (some v)
    | (h', .error e) => return finishErr { st with heap := h' } (errJ e)
  | [.str "pop_match", p, .bool mm] =>
    match popMatch (stepsOfJson p) src mm st.heap with
    | (h', .ok (some m)) => return finish { st with heap := h' } "match" (matchPre m) (some m.data)
    | (h', .ok none) => return finish { st with heap := h' } "none" [] none
    | (h', .error e) => return finishErr { st with heap := h' } (errJ e)
  | [.str "get_sd", p, vs] => do
    let (h, v) ← decValSpec st vs
    match getStoreDefault (stepsOfJson p) src v h with
    | (h', .ok r) => return finish { st with heap := h' } "ok" [] (some r)
    | (h', .error e) => return finishErr { st with heap := h' } (errJ e)
  | [.str "h.new", hid, p, k] => do
    let hid ← match hid.getNat? with | .ok n => pure n | .error e => .error e
    let k ← match k.getNat? with | .ok n => pure n | .error e => .error e
    let (ms, exc) := drain (wcx st.heap) (stepsOfJson p st.heap).toArray src (k+1) freshIter
    match ms[k]?, exc with
    | none, some e => return finishErr st (errJ (.exc e))
    | m?, _ =>
      match m?.bind Handle.ofNode with
      | some hd =>
        return finish { st with handles := (hid, hd) :: st.handles.filter (·.1 != hid) } "h" [.str hd.pathStr] none
      | none => return finish { st with handles := st.handles.filter (·.1 != hid) } "none" [] none
  | [.str "h.assign", hid, vs] => do
    let hid ← match hid.getNat? with | .ok n => pure n | .error e => .error e
    match st.handles.lookup hid with
    | none => return finish st "nohandle" [] none
    | some hd =>
      let (h, v) ← decValSpec st vs
      match hd.assign h v with
      | .ok (h', hd') => return finish { st with heap := h', handles := (hid, hd') :: st.handles.filter (·.1 != hid) } "ok" [] none
      | .error e => return finishErr { st with heap := h } (hErrJ e)
  | [.str "h.del", hid] => do
    let hid ← match hid.getNat? with | .ok n => pure n | .error e => .error e
    match st.handles.lookup hid with
    | none => return finish st "nohandle" [] none
    | some hd =>
      match hd.del st.heap with
      | .ok (h', hd') => return finish { st with heap := h', handles := (hid, hd') :: st.handles.filter (·.1 != hid) } "ok" [] none
      | .error e => return finishErr st (hErrJ e)
  | [.str "h.pop", hid, d] => do
    let hid ← match hid.getNat? with | .ok n => pure n | .error e => .error e
    match st.handles.lookup hid with
    | none => return finish st "nohandle" [] none
    | some hd =>
      let (h, dv) ← decDflt st d
      match hd.pop h dv with
      | .ok (h', hd', v) => return finish { st with heap := h', handles := (hid, hd') :: st.handles.filter (·.1 != hid) } "ok" [] (some v)
      | .error e => return finishErr { st with heap := h } (hErrJ e)
  | [.str "h.data", hid] => do
    let hid ← match hid.getNat? with | .ok n => pure n | .error e => .error e
    match st.handles.lookup hid with
    | none => return finish st "nohandle" [] none
    | some hd => return finish st "ok" [] (some hd.cache)
  | _ => jErr "bad op" op

def handleMutate (j : Json) : E Json := do
  let doc ← decJ (← field j "doc")
  let (h, root) := allocJ #[] doc
  let ops ← getArr (← field j "ops")
  let mut st : MState := { heap := h, root := root }
  let (g0, ds0) := dumpVal st.heap st.root { nums := st.nums }
  st := { st with nums := ds0.nums }
  let mut outs : Array Json := #[Json.mkObj [("r", .arr #[.str "init"]), ("g", g0)]]
  for op in ops do
    let (st', o) ← runOp st op
    st := st'
    outs := outs.push o
  return Json.mkObj [("mach", .arr outs)]

end Treepath.Driver
