import Driver.Query
import Treepath.Model.Descr
import Treepath.Spec.TreeWrite
/- the `m` (mutate) family: histories of set_/set_match/pop/pop_match/get(store_default) and
Match handle writes on one evolving document, with the whole reachable object graph dumped
after every operation under canonical object numbers. -/
open Lean (Json)
namespace Treepath.Driver

structure MState where
  heap : Heap
  root : Val
  handles : List (Nat × Nat × Nat) := []          -- handle id ↦ (group, depth along `.parent`)
  groups : Array (MNode Val × List Nat) := #[]    -- one group per result a handle was taken from: the match and the numbers of its cells
  cells : Array HCell := #[]                      -- the TraverserMatch objects (shared between a Match and the results of searches from it)
  nums : List (Nat × Nat) := []       -- heap id ↦ canonical number (first-visit order)
  views : List (Nat × Nat × String) := []          -- view id ↦ (heap id of the list, converter)
  iters : List (Nat × Nat × String × Nat × Bool) := []   -- iterator id ↦ (list heap id, conv, position, exhausted)

def intJ (i : Int) : Json := Json.num (Lean.JsonNumber.fromInt i)

/-- numbering (global over the history) and the objects already printed in this dump -/
structure DumpSt where
  nums : List (Nat × Nat)
  seen : List Nat := []

/-- canonical dump: an object is printed once per dump as `["o"|"a", n, contents]`, later
visits in the same dump are `["r", n]`; `n` = first-visit order over the whole history -/
partial def dumpVal (h : Heap) (v : Val) (ds : DumpSt) : Json × DumpSt :=
  match v with
  | .atom j => (encJ j, ds)
  | .ref id =>
    let (n, ds) := match ds.nums.lookup id with
      | some n => (n, ds)
      | none => (ds.nums.length, { ds with nums := ds.nums ++ [(id, ds.nums.length)] })
    if ds.seen.contains id then (.arr #[.str "r", natJ' n], ds)
    else
      let ds := { ds with seen := id :: ds.seen }
      match h[id]? with
      | some (.dict es) =>
        let (items, ds) := es.foldl (fun (acc : List Json × DumpSt) (kv : String × Val) =>
          let (j, ds') := dumpVal h kv.2 acc.2
          (acc.1 ++ [Json.arr #[.str kv.1, j]], ds')) ([], ds)
        (.arr #[.str "o", natJ' n, .arr items.toArray], ds)
      | some (.list xs) =>
        let (items, ds) := xs.foldl (fun (acc : List Json × DumpSt) (x : Val) =>
          let (j, ds') := dumpVal h x acc.2
          (acc.1 ++ [j], ds')) ([], ds)
        (.arr #[.str "a", natJ' n, .arr items.toArray], ds)
      | none => (.arr #[.str "dangling", natJ' n], ds)
where natJ' (n : Nat) : Json := Json.num (Lean.JsonNumber.fromNat n)

def lookupLoc (h : Heap) : Val → List Json → Option Val
  | v, [] => some v
  | .ref id, nm :: rest =>
    match h[id]?, nm with
    | some (.dict es), .str k => (es.lookup k).bind (lookupLoc h · rest)
    | some (.list xs), .num _ =>
      match nm.getInt? with
      | .ok i => ((normIndex xs.length i).bind (xs[·]?)).bind (lookupLoc h · rest)
      | .error _ => none
    | _, _ => none
  | _, _ => none

/-- `["new", J]` allocates fresh containers; `["at", [names…]]` is the object currently at that
location of the document (an alias) -/
def decValSpec (st : MState) (j : Json) : E (Heap × Val) := do
  let a ← getArr j
  match a.toList with
  | [.str "new", v] => do
    let jv ← decJ v
    return allocJ st.heap jv
  | [.str "at", .arr names] =>
    return (st.heap, (lookupLoc st.heap st.root names.toList).getD (.atom .null))
  | _ => jErr "bad valspec" j

def apiErrChain : ApiErr → List String
  | .matchNotFound => ["MatchNotFoundError"]
  | .nestedMatchNotFound => ["NestedMatchNotFoundError"]
  | .setError => ["SetError"]
  | .popError => ["PopError"]
  | .exc e => excChain e
  | .bug m => ["BUG:" ++ m]

def errJ (e : ApiErr) : Json := .arr #[.str "err", .arr ((apiErrChain e).map Json.str).toArray]

def hErrJ : HErr → Json
  | .popError => .arr #[.str "err", .arr #[.str "PopError"]]
  | .py c => .arr #[.str "err", .arr #[.str c]]

def stepsOfJson (pathJ : Json) (h : Heap) : List (Step Val) :=
  match decSteps (machImpl (wcx h)) pathJ with
  | .ok s => s
  | .error _ => []

/-- finish an operation: dump the document graph, then the outcome's value -/
def finish (st : MState) (tag : String) (pre : List Json) (v : Option Val) : MState × Json :=
  let (g, ds) := dumpVal st.heap st.root { nums := st.nums }
  let (vj, ds) := match v with
    | some v => let r := dumpVal st.heap v ds; (some r.1, r.2)
    | none => (none, ds)
  let r := Json.arr ((Json.str tag :: pre) ++ (match vj with | some x => [x] | none => [])).toArray
  ({ st with nums := ds.nums }, Json.mkObj [("r", r), ("g", g)])

def finishErr (st : MState) (e : Json) : MState × Json :=
  let (g, ds) := dumpVal st.heap st.root { nums := st.nums }
  ({ st with nums := ds.nums }, Json.mkObj [("r", e), ("g", g)])

def matchPre (m : MNode Val) : List Json := [.str m.pathStr, encName m.dataName]

def decDflt (st : MState) (j : Json) : E (Heap × Option Val) := do
  match j with
  | .arr #[.str "none"] => return (st.heap, none)
  | .arr #[.str "fn"] => return (st.heap, some (.atom (.str "<fn>")))   -- a callable default: returned as it is
  | .arr #[.str "val", vs] => do
    let (h, v) ← decValSpec st vs
    return (h, some v)
  | _ => jErr "bad default" j


def negJ : J → J
  | .int i => .int (-i)
  | .half n => .half (-n)
  | j => j

def convOf (name : String) : Conv :=
  match name with
  | "neg" => { w := negJ, u := negJ }
  | _ => { w := id, u := id }

/-- elements `to_wrapped_value` raises on ("boom": every string) -/
def badOf (name : String) : Val → Bool :=
  match name with
  | "boom" => fun v => match v with | .atom (.str _) => true | _ => false
  | _ => fun _ => false

/-- finish with several dumped values -/
def finishVals (st : MState) (tag : String) (pre : List Json) (vs : List Val) : MState × Json :=
  let (g, ds) := dumpVal st.heap st.root { nums := st.nums }
  let (js, ds) := vs.foldl (fun (acc : List Json × DumpSt) v =>
    let r := dumpVal st.heap v acc.2; (acc.1 ++ [r.1], r.2)) ([], ds)
  let r := Json.arr ((Json.str tag :: pre) ++ js).toArray
  ({ st with nums := ds.nums }, Json.mkObj [("r", r), ("g", g)])

def pyErrJ (cls : String) : Json := .arr #[.str "err", .arr #[.str cls]]

/-- path of a declaration: explicit, or the attribute's own name as key -/
def declPath (d : Json) : E Json := do
  let a ← getArr d
  match a.toList with
  | [.str name, .null] => return .arr #[.arr #[.str "k", .str name]]
  | [.str _, p] => return p
  | _ => jErr "bad decl" d

/-- follow the outer (typed) levels of a declaration chain; returns the data the last
declaration acts on and that declaration's path -/
def resolveChain (st : MState) (chain : Json) : E (Except ApiErr (Src Val) × Json) := do
  let a ← getArr chain
  let ds := a.toList
  match ds.reverse with
  | [] => jErr "empty chain" chain
  | last :: outerRev =>
    let mut data : Except ApiErr (Src Val) := .ok (.doc st.root)
    for d in outerRev.reverse do
      let da ← getArr d
      let p ← declPath (.arr #[da[0]!, da[1]!])
      let iterK : Option Nat := match da.toList with
        | [_, _, .str "iter", k] => (k.getNat?).toOption
        | _ => none
      let viaMatch : Bool := match da.toList with
        | [_, _, .str "gm"] => true
        | _ => false
      data := match data, iterK with
        | .ok src, none =>
          if viaMatch then typedMatch (stepsOfJson p) st.heap src
          else (typedDataS .get (stepsOfJson p) st.heap src).map Src.doc
        | .ok src, some k =>
          -- element k of an iterator-typed attribute
          match descrGetS .find (stepsOfJson p) st.heap src with
          | .ok (.values vs) => match vs[k]? with
            | some x => .ok (.doc x)
            | none => .error (.exc (.user "IndexError"))
          | .ok _ => .error (.bug "find")
          | .error e => .error e
        | .error e, _ => .error e
    let la ← getArr last
    return (data, ← declPath (.arr #[la[0]!, la[1]!]))

/-- a list index aimed at a dict (after the container was replaced through the parent Match):
Python would create / look up an int key, which no JSON document has — both sides skip -/
def intOnDict (h : Heap) (hd : Handle) : Bool :=
  match hd.parent, hd.name with
  | .ref id, .idx _ => match h[id]? with | some (.dict _) => true | _ => false
  | _, _ => false

def predOf (name : String) (h : Heap) : Val → Bool := fun v =>
  -- these predicates look at the kind / truthiness of the value only: two levels of unfolding decide them
  -- (a deep unfolding of a store a broken implementation made cyclic would not end)
  let j := unfoldVal h 2 v
  match name with
  | "truthy" => j.truthy
  | "none" => false
  | "all" => true
  | "is_num" => match j with | .int _ | .half _ => true | _ => false
  | "small" => match j with | .int i => i < 2 | .half n => n < 4 | _ => false
  | "is_bool" => match j with | .bool _ => true | _ => false
  | "is_int" => match j with | .int _ => true | _ => false
  | "is_float" => match j with | .half _ => true | _ => false
  | _ => false

/-- predicates with memory: the state is the number of calls so far -/
def predOfS (name : String) (h : Heap) : Nat → Val → Nat × Bool := fun n v =>
  match name with
  | "first2" => (n+1, n < 2)
  | "alt" => (n+1, n % 2 == 0)
  | _ => (n+1, predOf name h v)

def getNatJ (j : Json) : E Nat := match j.getNat? with | .ok n => pure n | .error e => .error e

/-! ### the tree-level specification, run next to the store model

For every non-cascading `set_` and every `pop` that succeeds on a document satisfying the
premises of `set_is_one_tree_update` / `pop_is_one_tree_update` (no aliasing, fresh value),
the driver also computes `J.setAt` / `J.popAt` on the unfolded tree and compares it with what
the store unfolds to afterwards: "ok" / "BAD"; "na" when the premises do not hold. -/

/-- is everything below `v` a tree — every container object met once?  (decided on the store itself,
before anything is unfolded: a store full of aliases unfolds to an exponentially large tree) -/
partial def treeShaped (h : Heap) (v : Val) (seen : List Nat) : Option (List Nat) :=
  match v with
  | .atom _ => some seen
  | .ref id =>
    if seen.contains id then none
    else
      let seen := id :: seen
      match h[id]? with
      | some (.dict es) => es.foldl (fun acc kv => acc.bind (treeShaped h kv.2)) (some seen)
      | some (.list xs) => xs.foldl (fun acc x => acc.bind (treeShaped h x)) (some seen)
      | none => some seen

/-- does the unfolding of `v` have at most `fuel` nodes?  (`none` = no: a cyclic store, or one whose
sharing makes the unfolding huge; the remaining fuel otherwise) -/
partial def sizeWithin (h : Heap) (v : Val) (fuel : Nat) : Option Nat :=
  if fuel = 0 then none else
  match v with
  | .atom _ => some (fuel - 1)
  | .ref id =>
    match h[id]? with
    | some (.dict es) => es.foldl (fun acc kv => acc.bind (sizeWithin h kv.2)) (some (fuel - 1))
    | some (.list xs) => xs.foldl (fun acc x => acc.bind (sizeWithin h x)) (some (fuel - 1))
    | none => some (fuel - 1)

def nodupB : List Nat → Bool
  | [] => true
  | x :: xs => !xs.contains x && nodupB xs

def treeVerdictSet (h1 : Heap) (root v : Val) (m : MNode Val) (h' : Heap) : String :=
  if ((treeShaped h1 root []).bind (treeShaped h1 v)).isNone then "na" else
  let j := unfoldVal h1 64 root
  let jv := unfoldVal h1 64 v
  let fr := fpJ h1 j root
  let fv := fpJ h1 jv v
  if !nodupB fr || !nodupB fv || fv.any (fr.contains ·) then "na"
  else match m.loc.getLast? with
    | none => "na"
    | some nm =>
      match J.setAt j m.loc.dropLast nm jv with
      | some j' => if sameJ j' (unfoldVal h' 64 root) then "ok" else "BAD"
      | none => "BAD"

def namesOfSteps : List (Step Val) → Option (List Name)
  | [] => some []
  | .key k :: rest => (namesOfSteps rest).map (Name.key k :: ·)
  | .idx i :: rest => (namesOfSteps rest).map (Name.idx i :: ·)
  | _ :: _ => none

/-- the same for a cascading assignment along a path of keys / indices: `J.cascadeAt` -/
def treeVerdictCascade (h1 : Heap) (root v : Val) (steps : List (Step Val)) (h' : Heap) : String :=
  if ((treeShaped h1 root []).bind (treeShaped h1 v)).isNone then "na" else
  let j := unfoldVal h1 64 root
  let jv := unfoldVal h1 64 v
  let fr := fpJ h1 j root
  let fv := fpJ h1 jv v
  if !nodupB fr || !nodupB fv || fv.any (fr.contains ·) then "na"
  else match namesOfSteps steps with
    | none => "na"
    | some names =>
      match J.cascadeAt j names jv with
      | some j' => if sameJ j' (unfoldVal h' 64 root) then "ok" else "BAD"
      | none => "BAD"

def treeVerdictPop (h : Heap) (root : Val) (last : Option (Step Val)) (m : MNode Val) (h' : Heap) : String :=
  if (treeShaped h root []).isNone then "na" else
  let j := unfoldVal h 64 root
  if !nodupB (fpJ h j root) then "na"
  else match m.parent, last with
    | some p, some (.key k) =>
      (match J.popAt j p.loc (.key k) with
       | some j' => if sameJ j' (unfoldVal h' 64 root) then "ok" else "BAD"
       | none => "BAD")
    | some p, some (.idx i) =>
      (match J.popAt j p.loc (.idx i) with
       | some j' => if sameJ j' (unfoldVal h' 64 root) then "ok" else "BAD"
       | none => "BAD")
    | _, _ => "na"

def withT (r : MState × Json) (t : String) : MState × Json :=
  (r.1, r.2.setObjVal! "t" (.str t))

def runOp (st : MState) (op : Json) : E (MState × Json) := do
  let a ← getArr op
  let src : Src Val := .doc st.root
  match a.toList with
  | [.str "set", p, vs, .bool cascade] => do
    let (h, v) ← decValSpec st vs
    match setMatch (stepsOfJson p) src cascade h v with
    | (h', .ok m) =>
      let t := if cascade then treeVerdictCascade h st.root v (stepsOfJson p h) h' else treeVerdictSet h st.root v m h'
      return withT (finish { st with heap := h' } "ok" [] (some m.data)) t
    | (h', .error e) => return finishErr { st with heap := h' } (errJ e)
  | [.str "set_match", p, vs, .bool cascade] => do
    let (h, v) ← decValSpec st vs
    match setMatch (stepsOfJson p) src cascade h v with
    | (h', .ok m) =>
      let t := if cascade then treeVerdictCascade h st.root v (stepsOfJson p h) h' else treeVerdictSet h st.root v m h'
      return withT (finish { st with heap := h' } "match" (matchPre m) (some m.data)) t
    | (h', .error e) => return finishErr { st with heap := h' } (errJ e)
  | [.str "mset", sp, k, p, vs, .bool cascade] => do
    let k ← getNatJ k
    let (ms, _) := drain (wcx st.heap) (stepsOfJson sp st.heap).toArray src (k+1) freshIter
    match ms[k]? with
    | none => return finish st "nosrc" [] none
    | some sm =>
      let (h, v) ← decValSpec st vs
      match setMatch (stepsOfJson p) (.nested sm) cascade h v with
      | (h', .ok m) => return finish { st with heap := h' } "match" (matchPre m) (some m.data)
      | (h', .error e) => return finishErr { st with heap := h' } (errJ e)
  | [.str "mpop", sp, k, p, .str kind, .bool flag] => do
    let k ← getNatJ k
    let (ms, _) := drain (wcx st.heap) (stepsOfJson sp st.heap).toArray src (k+1) freshIter
    match ms[k]? with
    | none => return finish st "nosrc" [] none
    | some sm =>
      if kind == "match" then
        match popMatch (stepsOfJson p) (.nested sm) flag st.heap with
        | (h', .ok (some m)) => return finish { st with heap := h' } "match" (matchPre m) (some m.data)
        | (h', .ok none) => return finish { st with heap := h' } "none" [] none
        | (h', .error e) => return finishErr { st with heap := h' } (errJ e)
      else
        match pop (stepsOfJson p) (.nested sm) (if flag then none else some (.atom (.str "dflt"))) st.heap with
        | (h', .ok v) => return finish { st with heap := h' } "ok" [] (some v)
        | (h', .error e) => return finishErr { st with heap := h' } (errJ e)
  | [.str "mget_sd", sp, k, p, vs] => do
    -- get(path, match, default=v, store_default=True): the search and the cascade both start from the Match
    let k ← getNatJ k
    let (ms, _) := drain (wcx st.heap) (stepsOfJson sp st.heap).toArray src (k+1) freshIter
    match ms[k]? with
    | none => return finish st "nosrc" [] none
    | some sm =>
      let (h, v) ← decValSpec st vs
      match getStoreDefault (stepsOfJson p) (.nested sm) v h with
      | (h', .ok r) => return finish { st with heap := h' } "ok" [] (some r)
      | (h', .error e) => return finishErr { st with heap := h' } (errJ e)
  | [.str "pop", p, d] => do
    let (h, dv) ← decDflt st d
    match pop (stepsOfJson p) src dv h with
    | (h', .ok v) =>
      let t := match popMatch (stepsOfJson p) src dv.isNone h with
        | (_, .ok (some m)) => treeVerdictPop h st.root (stepsOfJson p h).getLast? m h'
        | _ => "na"
      return withT (finish { st with heap := h' } "ok" [] (some v)) t
    | (h', .error e) => return finishErr { st with heap := h' } (errJ e)
  | [.str "pop_match", p, .bool mm] =>
    match popMatch (stepsOfJson p) src mm st.heap with
    | (h', .ok (some m)) =>
      return withT (finish { st with heap := h' } "match" (matchPre m) (some m.data))
        (treeVerdictPop st.heap st.root (stepsOfJson p st.heap).getLast? m h')
    | (h', .ok none) => return finish { st with heap := h' } "none" [] none
    | (h', .error e) => return finishErr { st with heap := h' } (errJ e)
  | [.str "get_sd", p, vs] => do
    let (h, v) ← decValSpec st vs
    match getStoreDefault (stepsOfJson p) src v h with
    | (h', .ok r) => return finish { st with heap := h' } "ok" [] (some r)
    | (h', .error e) => return finishErr { st with heap := h' } (errJ e)
  | [.str "get_sdc", p, vs] => do
    -- a callable default: asked exactly once when nothing is found, never otherwise
    let (h, v) ← decValSpec st vs
    let asked : Nat := match getMatch (wcx h) (stepsOfJson p h).toArray src false with
      | .ok none => 1
      | _ => 0
    match getStoreDefault (stepsOfJson p) src v h with
    | (h', .ok r) => return finish { st with heap := h' } "ok" [natJ asked] (some r)
    | (h', .error e) => return finishErr { st with heap := h' } (errJ e)
  | [.str "h.new", hid, p, k] => do
    let hid ← match hid.getNat? with | .ok n => pure n | .error e => .error e
    let k ← match k.getNat? with | .ok n => pure n | .error e => .error e
    let (ms, exc) := drain (wcx st.heap) (stepsOfJson p st.heap).toArray src (k+1) freshIter
    match ms[k]?, exc with
    | none, some e => return finishErr st (errJ (.exc e))
    | m?, _ =>
      match m?.bind (fun m => (groupHandle m.cells 0).map fun hd => (m, hd)) with
      | some (m, hd) =>
        let (cells', ids) := allocCells st.cells m.cells
        return finish { st with cells := cells', groups := st.groups.push (m, ids),
                                handles := (hid, st.groups.size, 0) :: st.handles.filter (·.1 != hid) } "h" [.str hd.pathStr] none
      | none => return finish { st with handles := st.handles.filter (·.1 != hid) } "none" [] none
  | [.str "h.nested", nid, hid, p, k] => do
    -- a search from the Match behind a live handle (as its TraverserMatch objects cache it now)
    let nid ← match nid.getNat? with | .ok n => pure n | .error e => .error e
    let hid ← match hid.getNat? with | .ok n => pure n | .error e => .error e
    let k ← match k.getNat? with | .ok n => pure n | .error e => .error e
    match (st.handles.lookup hid).bind (fun gd => (st.groups[gd.1]?).bind fun gr =>
        ((gr.1.withCells (chainCells st.cells gr.2)).ancestor gd.2).map fun sm => (sm, gr.2.drop (gd.2 + 1))) with
    | none => return finish st "nohandle" [] none
    | some (sm, sharedIds) =>
      let (ms, exc) := drain (wcx st.heap) (stepsOfJson p st.heap).toArray (.nested sm) (k+1) freshIter
      match ms[k]?, exc with
      | none, some e => return finishErr st (errJ (.exc e))
      | m?, _ =>
        match m?.bind (fun m => (groupHandle m.cells 0).map fun hd => (m, hd)) with
        | some (m, hd) =>
          -- from the nested root upward the chain is the start match's own chain: those cells are shared
          let own := m.cells.take (m.cells.length - sharedIds.length)
          let (cells', ids) := allocCells st.cells own
          return finish { st with cells := cells', groups := st.groups.push (m, ids ++ sharedIds),
                                  handles := (nid, st.groups.size, 0) :: st.handles.filter (·.1 != nid) } "h" [.str hd.pathStr] none
        | none => return finish { st with handles := st.handles.filter (·.1 != nid) } "none" [] none
  | [.str "h.mpop", hid, p] => do
    -- pop(path, m, default) with the Match behind a live handle as data source: the search starts from the node
    -- the Match holds (as its TraverserMatch objects cache it now), wherever the document has moved it since
    let hid ← match hid.getNat? with | .ok n => pure n | .error e => .error e
    match (st.handles.lookup hid).bind (fun gd => (st.groups[gd.1]?).bind fun gr =>
        ((gr.1.withCells (chainCells st.cells gr.2)).ancestor gd.2)) with
    | none => return finish st "nohandle" [] none
    | some sm =>
      match pop (stepsOfJson p) (.nested sm) (some (.atom (.str "dflt"))) st.heap with
      | (h', .ok v) => return finish { st with heap := h' } "ok" [] (some v)
      | (h', .error e) => return finishErr { st with heap := h' } (errJ e)
  | [.str "h.parent", nid, hid] => do
    let nid ← match nid.getNat? with | .ok n => pure n | .error e => .error e
    let hid ← match hid.getNat? with | .ok n => pure n | .error e => .error e
    match st.handles.lookup hid with
    | none => return finish st "nohandle" [] none
    | some (g, d) =>
      match groupHandleH st.cells ((st.groups[g]?.map (·.2)).getD []) (d+1) with
      | some hd => return finish { st with handles := (nid, g, d+1) :: st.handles.filter (·.1 != nid) } "h" [.str hd.pathStr] none
      | none => return finish { st with handles := st.handles.filter (·.1 != nid) } "none" [] none
  | [.str "h.assign", hid, vs] => do
    let hid ← match hid.getNat? with | .ok n => pure n | .error e => .error e
    match (st.handles.lookup hid).bind (fun gd => (groupHandleH st.cells ((st.groups[gd.1]?.map (·.2)).getD []) gd.2).map fun hd => (gd, hd)) with
    | none => return finish st "nohandle" [] none
    | some ((g, d), hd) =>
      if intOnDict st.heap hd then return finish st "skip" [] none else
      let (h, v) ← decValSpec st vs
      match hd.assign h v with
      | .ok (h', hd') => return finish { st with heap := h', cells := groupStoreH st.cells ((st.groups[g]?.map (·.2)).getD []) d hd' } "ok" [] none
      | .error e => return finishErr { st with heap := h } (hErrJ e)
  | [.str "h.del", hid] => do
    let hid ← match hid.getNat? with | .ok n => pure n | .error e => .error e
    match (st.handles.lookup hid).bind (fun gd => (groupHandleH st.cells ((st.groups[gd.1]?.map (·.2)).getD []) gd.2).map fun hd => (gd, hd)) with
    | none => return finish st "nohandle" [] none
    | some ((g, d), hd) =>
      if intOnDict st.heap hd then return finish st "skip" [] none else
      match hd.del st.heap with
      | .ok (h', hd') => return finish { st with heap := h', cells := groupStoreH st.cells ((st.groups[g]?.map (·.2)).getD []) d hd' } "ok" [] none
      | .error e => return finishErr st (hErrJ e)
  | [.str "h.pop", hid, d] => do
    let hid ← match hid.getNat? with | .ok n => pure n | .error e => .error e
    match (st.handles.lookup hid).bind (fun gd => (groupHandleH st.cells ((st.groups[gd.1]?.map (·.2)).getD []) gd.2).map fun hd => (gd, hd)) with
    | none => return finish st "nohandle" [] none
    | some ((g, dp), hd) =>
      if intOnDict st.heap hd then return finish st "skip" [] none else
      let (h, dv) ← decDflt st d
      match hd.pop h dv with
      | .ok (h', hd', v) => return finish { st with heap := h', cells := groupStoreH st.cells ((st.groups[g]?.map (·.2)).getD []) dp hd' } "ok" [] (some v)
      | .error e => return finishErr { st with heap := h } (hErrJ e)
  | [.str "h.data", hid] => do
    let hid ← match hid.getNat? with | .ok n => pure n | .error e => .error e
    match (st.handles.lookup hid).bind (fun gd => groupHandleH st.cells ((st.groups[gd.1]?.map (·.2)).getD []) gd.2) with
    | none => return finish st "nohandle" [] none
    | some hd => return finish st "ok" [] (some hd.cache)
  | [.str "d.get", chain, .str getter, .str conv] => do
    let (data, p) ← resolveChain st chain
    let c := convOf conv
    let g : Getter := match getter with | "find" | "find_matches" | "itc" | "itx" => .find | "get_match" => .getMatch | _ => .get
    match data with
    | .error e => return finishErr st (errJ e)
    | .ok d =>
      match descrGetS g (stepsOfJson p) st.heap d with
      | .ok (.value v) => return finish st "ok" [] (some (c.wrap v))
      | .ok (.values vs) => return finishVals st "vals" [] vs   -- the converter sees the iterator, not its elements
      | .ok (.mtch (some m)) => return finish st "match" (matchPre m) (some m.data)
      | .ok (.mtch none) => return finish st "none" [] none
      | .error e => return finishErr st (errJ e)
  | [.str "d.set", chain, .str kind, .str setter, .str conv, vs] => do
    let (data, p) ← resolveChain st chain
    let (h, v) ← decValSpec st vs
    let st := { st with heap := h }
    match data with
    | .error e => return finishErr st (errJ e)
    | .ok d =>
      let r := if kind.startsWith "iter" then descrSetIter st.heap else descrSetS (convOf conv) (stepsOfJson p) st.heap d v
      let _ := setter
      match r with
      | (h', .ok _) => return finish { st with heap := h' } "ok" [] none
      | (h', .error e) => return finishErr { st with heap := h' } (errJ e)
  | [.str "d.del", chain] => do
    let (data, p) ← resolveChain st chain
    match data with
    | .error e => return finishErr st (errJ e)
    | .ok d =>
      match descrDelS (stepsOfJson p) st.heap d with
      | (h', .ok _) => return finish { st with heap := h' } "ok" [] none
      | (h', .error e) => return finishErr { st with heap := h' } (errJ e)
  | [.str "pp.get", p] =>
    match ppropGet (stepsOfJson p) st.heap st.root with
    | .ok v => return finish st "ok" [] (some v)
    | .error e => return finishErr st (errJ e)
  | [.str "mp.get", p] =>
    match mpropGet (stepsOfJson p) st.heap st.root with
    | .ok (some m) => return finish st "match" (matchPre m) (some m.data)
    | .ok none => return finish st "none" [] none
    | .error e => return finishErr st (errJ e)
  | [.str "pp.set", p, vs] => do
    let (h, v) ← decValSpec st vs
    match ppropSet (stepsOfJson p) h st.root v with
    | (h', .ok _) => return finish { st with heap := h' } "ok" [] none
    | (h', .error e) => return finishErr { st with heap := h' } (errJ e)
  | [.str "l.new", lid, chain, .str conv] => do
    let lid ← getNatJ lid
    let st := { st with views := st.views.filter (·.1 != lid) }     -- the old view is dropped first
    let (data, p) ← resolveChain st chain
    match data with
    | .error e => return finishErr st (errJ e)
    | .ok d =>
      match descrGetS .get (stepsOfJson p) st.heap d with
      | .ok (.value (.ref id)) =>
        match listOf st.heap id with
        | some _ => return finish { st with views := (lid, id, conv) :: st.views.filter (·.1 != lid) } "view" [] none
        | none => return finish { st with views := st.views.filter (·.1 != lid) } "notlist" [] none
      | .ok _ => return finish { st with views := st.views.filter (·.1 != lid) } "notlist" [] none
      | .error e => return finishErr { st with views := st.views.filter (·.1 != lid) } (errJ e)
  | [.str "l.assign", chain, lid] => do
    let lid ← getNatJ lid
    match st.views.lookup lid with
    | none => return finish st "noview" [] none
    | some (id, _) =>
      let (data, p) ← resolveChain st chain
      match data with
      | .error e => return finishErr st (errJ e)
      | .ok d =>
        match descrSetS (convOf "id") (stepsOfJson p) st.heap d (.ref id) with
        | (h', .ok _) => return finish { st with heap := h' } "ok" [] none
        | (h', .error e) => return finishErr { st with heap := h' } (errJ e)
  | .str "l.it.next" :: [itid] => do
    let itid ← getNatJ itid
    match st.iters.lookup itid with
    | none => return finish st "noiter" [] none
    | some (id, conv, pos, dead) =>
      let xs := (listOf st.heap id).getD []
      if dead then return finishErr st (pyErrJ "StopIteration")
      else match iterNextX (convOf conv) (badOf conv) xs pos with
        | some (pos', some v) => return finish { st with iters := (itid, id, conv, pos', false) :: st.iters.filter (·.1 != itid) } "ok" [] (some v)
        | some (pos', none) => return finishErr { st with iters := (itid, id, conv, pos', false) :: st.iters.filter (·.1 != itid) } (pyErrJ "Boom")
        | none => return finishErr { st with iters := (itid, id, conv, pos, true) :: st.iters.filter (·.1 != itid) } (pyErrJ "StopIteration")
  | .str "l.it.new" :: [itid, lid] => do
    let itid ← getNatJ itid
    let lid ← getNatJ lid
    match st.views.lookup lid with
    | none => return finish st "noview" [] none
    | some (id, conv) => return finish { st with iters := (itid, id, conv, 0, false) :: st.iters.filter (·.1 != itid) } "ok" [] none
  | .str lop :: lidJ :: args => do
    if !lop.startsWith "l." then jErr "bad op" op else
    let lid ← getNatJ lidJ
    match st.views.lookup lid with
    | none => return finish st "noview" [] none
    | some (id, conv) =>
      let c := convOf conv
      match lop, args with
      | "l.len", [] => match lLen st.heap id with
        | some n => return finish st "ok" [natJ n] none
        | none => return finishErr st (pyErrJ "TypeError")
      | "l.get", [i] => do
        let i ← getInt i
        match (listOf st.heap id).bind (fun xs => (normIndex xs.length i).bind (xs[·]?)) with
        | some x =>
          if badOf conv x then return finishErr st (pyErrJ "Boom")
          else match lGet c st.heap id i with
            | some v => return finish st "ok" [] (some v)
            | none => return finishErr st (pyErrJ "IndexError")
        | none => return finishErr st (pyErrJ "IndexError")
      | "l.set", [i, vs] => do
        let (h, v) ← decValSpec st vs
        match lSet c h id (← getInt i) v with
        | some h' => return finish { st with heap := h' } "ok" [] none
        | none => return finishErr { st with heap := h } (pyErrJ "IndexError")
      | "l.del", [i] => do
        match lDel st.heap id (← getInt i) with
        | some h' => return finish { st with heap := h' } "ok" [] none
        | none => return finishErr st (pyErrJ "IndexError")
      | "l.in", [vs] => do
        let (h, v) ← decValSpec st vs
        -- `in` compares unfolded values: on a store that is cyclic (the generators never make one; a broken
        -- implementation under test can lead the model there) the comparison would not end
        if (sizeWithin h (.ref id) 20000).isNone then return finishErr st (pyErrJ "RecursionError") else
        match lContains c h id v with
        | some b => return finish { st with heap := h } "ok" [.bool b] none
        | none => return finishErr st (pyErrJ "TypeError")
      | "l.append", [vs] => do
        let (h, v) ← decValSpec st vs
        match lAppend c h id v with
        | some h' => return finish { st with heap := h' } "ok" [] none
        | none => return finishErr st (pyErrJ "AttributeError")
      | "l.pop", [i] => do
        match lPopX c (badOf conv) st.heap id (← getInt i) with
        | some (h', some v) => return finish { st with heap := h' } "ok" [] (some v)
        | some (h', none) => return finishErr { st with heap := h' } (pyErrJ "Boom")
        | none => return finishErr st (pyErrJ "IndexError")
      | "l.iter", [] => match listOf st.heap id with
        | some xs =>
          if xs.any (badOf conv) then return finishErr st (pyErrJ "Boom")
          else return finishVals st "vals" [] (xs.map c.wrap)
        | none => return finishErr st (pyErrJ "TypeError")
      | "l.keep", [.str pn] => match listOf st.heap id with
        | some xs =>
          let (xs', raised) := keepAllX c (badOf conv) (predOfS pn st.heap) 0 xs
          let st' := { st with heap := hput st.heap id (.list xs') }
          if raised then return finishErr st' (pyErrJ "Boom") else return finish st' "ok" [] none
        | none => return finishErr st (pyErrJ "TypeError")
      | "l.remove", [.str pn] => match listOf st.heap id with
        | some xs =>
          let (xs', raised) := keepAllX c (badOf conv) (fun n v => let r := predOfS pn st.heap n v; (r.1, !r.2)) 0 xs
          let st' := { st with heap := hput st.heap id (.list xs') }
          if raised then return finishErr st' (pyErrJ "Boom") else return finish st' "ok" [] none
        | none => return finishErr st (pyErrJ "TypeError")
      | _, _ => jErr "bad list op" op
  | _ => jErr "bad op" op

def handleMutate (j : Json) : E Json := do
  let doc ← decJ (← field j "doc")
  let (h, root) := allocJ #[] doc
  let ops ← getArr (← field j "ops")
  let mut st : MState := { heap := h, root := root }
  let (g0, ds0) := dumpVal st.heap st.root { nums := st.nums }
  st := { st with nums := ds0.nums }
  let mut outs : Array Json := #[Json.mkObj [("r", .arr #[.str "init"]), ("g", g0)]]
  for op in ops do
    let (st', o) ← runOp st op
    st := st'
    outs := outs.push o
  return Json.mkObj [("mach", .arr outs)]

end Treepath.Driver
