import Driver.Query
import Treepath.Model.Builder
/- the `b` (builder) family: derivation DAGs of path expressions, renderings, evaluations -/
open Lean (Json)
namespace Treepath.Driver

def labelPred (label : String) : Pred J := fun n =>
  match label with
  | "T" => { evs := [], res := .val (.bool true) }
  | "F" => { evs := [], res := .val (.bool false) }
  | "D" => { evs := [], res := .val (.bool (match n.data with | .obj _ => true | _ => false)) }
  | _ => { evs := [], res := .val (.bool true) }

def decKeyArg (j : Json) : E KeyArg := do
  let a ← getArr j
  match a.toList with
  | [.str "int", i] => return .int (← getInt i)
  | [.str "slice", x, y, z] => return .slice (← decOptInt x) (← decOptInt y) (← decOptInt z)
  | [.str "wc"] => return .wildcard
  | [.str "gwc"] => return .genericWildcard
  | [.str "str", .str s] => return .str s
  | [.str "tuple", .arr items] =>
    return .tuple (items.toList.map fun it => match it with
      | .str s => some (Name.key s)
      | .num _ => (it.getInt?.toOption).map Name.idx
      | _ => none)
  | [.str "call", .str l] => return .callable l
  | [.str "other", _] => return .other
  | _ => jErr "bad key" j

def bErrJ : BErr → Json
  | .pathSyntax => .arr #[.str "err", .str "PathSyntaxError"]
  | .attribute => .arr #[.str "err", .str "AttributeError"]
  | .notExpr => .arr #[.str "notexpr"]

def handleBuilder (j : Json) : E Json := do
  let ops ← getArr (← field j "ops")
  let mut st : VStore := #[]
  let mut regs : List (Nat × Expr) := []
  let mut outs : Array Json := #[]
  for op in ops do
    let a ← getArr op
    match a.toList with
    | [.str "root", r, .str which] =>
      let r ← getNatJ' r
      let (st', e) := newRoot st (which == "pathd")
      st := st'
      regs := (r, e) :: regs.filter (·.1 != r)
      outs := outs.push (.arr #[.str "ok"])
    | [.str "attr", r, src, .str name] =>
      let r ← getNatJ' r
      let src ← getNatJ' src
      match regs.lookup src with
      | none => outs := outs.push (.arr #[.str "noreg"])
      | some e =>
        match getAttr st e name with
        | .ok (st', e') =>
          st := st'
          regs := (r, e') :: regs.filter (·.1 != r)
          outs := outs.push (.arr #[.str "ok"])
        | .error er => outs := outs.push (bErrJ er)
    | [.str "item", r, src, key] =>
      let r ← getNatJ' r
      let src ← getNatJ' src
      let k ← decKeyArg key
      match regs.lookup src with
      | none => outs := outs.push (.arr #[.str "noreg"])
      | some e =>
        match getItem st e k with
        | .ok (st', e') =>
          st := st'
          regs := (r, e') :: regs.filter (·.1 != r)
          outs := outs.push (.arr #[.str "ok"])
        | .error er => outs := outs.push (bErrJ er)
    | [.str "str", src] =>
      let src ← getNatJ' src
      match regs.lookup src with
      | none => outs := outs.push (.arr #[.str "noreg"])
      | some e =>
        let (st', s) := render st e.v
        st := st'
        outs := outs.push (.arr #[.str "str", .str s])
    | [.str "eval", src, doc] =>
      let src ← getNatJ' src
      let d ← decJ doc
      match regs.lookup src with
      | none => outs := outs.push (.arr #[.str "noreg"])
      | some e =>
        let (st', _) := pathAsList st e.v       -- MatchTraverser.__init__ reads leaf.path_as_list
        st := st'
        let steps : List (Step J) := stepsOfExpr labelPred st e.v
        let cx : Ctx J := { view := J.view, toJ := id }
        let (ms, exc) := drain cx steps.toArray (.doc d) 2000 freshIter
        let res := ms.map fun m => Json.arr #[.str m.pathStr, encName m.dataName]
        outs := outs.push (.arr #[.str "res", .arr res.toArray, match exc with | some x => encExc x | none => .null])
    | [.str "setattr", src] | [.str "setitem", src] =>
      let src ← getNatJ' src
      match regs.lookup src with
      | none => outs := outs.push (.arr #[.str "noreg"])
      | some e => outs := outs.push (bErrJ (setAttr st e))
    | _ => outs := outs.push (.arr #[.str "badop"])
  return Json.mkObj [("mach", .arr outs)]
where getNatJ' (j : Json) : E Nat := match j.getNat? with | .ok n => pure n | .error e => .error e

end Treepath.Driver
