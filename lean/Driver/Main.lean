import Driver.Query
import Driver.Mutate
import Driver.Builder
import Driver.Graph
open Lean (Json)
open Treepath.Driver

def handleLine (line : String) : String :=
  match Json.parse line with
  | .error e => (Json.mkObj [("error", .str ("parse: " ++ e))]).compress
  | .ok j =>
    let id := fieldD j "id" .null
    let fam := match (fieldD j "fam" (.str "q")).getStr? with | .ok s => s | .error _ => "?"
    let r : E Json := match fam with
      | "q" => handleQuery j
      | "m" => handleMutate j
      | "b" => handleBuilder j
      | "g" => handleGraph j
      | _ => .error ("unknown family " ++ fam)
    match r with
    | .ok out => (Json.mkObj [("id", id), ("out", out)]).compress
    | .error e => (Json.mkObj [("id", id), ("error", .str e)]).compress

partial def loop (hin : IO.FS.Stream) (hout : IO.FS.Stream) : IO Unit := do
  let line ← hin.getLine
  if line.isEmpty then return ()
  let t := line.trimAscii.toString
  if !t.isEmpty then
    hout.putStrLn (handleLine t)
  loop hin hout

def main : IO Unit := do
  let hin ← IO.getStdin
  let hout ← IO.getStdout
  loop hin hout
  hout.flush
