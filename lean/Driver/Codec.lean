import Lean.Data.Json
import Treepath.Model.Fns
import Treepath.Model.Api
import Treepath.Spec.Has
/-
JSON line protocol of the correspondence harness: decoding of documents, paths and the
closed predicate language; canonical encoding of nodes, events and outcomes.
-/
open Lean (Json)
namespace Treepath.Driver

abbrev E := Except String

def jErr {β} (msg : String) (j : Json) : E β := .error (msg ++ ": " ++ (j.compress.take 80).toString)

def getInt (j : Json) : E Int := match j.getInt? with | .ok v => .ok v | .error e => .error e
def getStr (j : Json) : E String := match j.getStr? with | .ok v => .ok v | .error e => .error e
def getArr (j : Json) : E (Array Json) := match j.getArr? with | .ok v => .ok v | .error e => .error e
def field (j : Json) (k : String) : E Json := match j.getObjVal? k with | .ok v => .ok v | .error e => .error e
def fieldD (j : Json) (k : String) (d : Json) : Json := match j.getObjVal? k with | .ok v => v | .error _ => d

/-- documents: scalars raw, `["a",[…]]` lists, `["o",[[k,v],…]]` dicts (ordered), `["f",n]` float n/2 -/
partial def decJ (j : Json) : E J :=
  match j with
  | .null => .ok .null
  | .bool b => .ok (.bool b)
  | .str s => .ok (.str s)
  | .num _ => do return .int (← getInt j)
  | .arr a =>
    match a.toList with
    | [.str "a", .arr xs] => do return .arr (← xs.toList.mapM decJ)
    | [.str "o", .arr kvs] => do
        let es ← kvs.toList.mapM fun kv => do
          match kv with
          | .arr #[.str k, v] => return (k, ← decJ v)
          | _ => jErr "bad dict entry" kv
        return .obj es
    | [.str "f", n] => do return .half (← getInt n)
    | _ => jErr "bad value" j
  | _ => jErr "bad value" j

partial def encJ : J → Json
  | .null => .null
  | .bool b => .bool b
  | .int i => Json.num (Lean.JsonNumber.fromInt i)
  | .half n => .arr #[.str "f", Json.num (Lean.JsonNumber.fromInt n)]
  | .str s => .str s
  | .arr xs => .arr #[.str "a", .arr (xs.map encJ).toArray]
  | .obj kvs => .arr #[.str "o", .arr (kvs.map fun (k, v) => Json.arr #[.str k, encJ v]).toArray]

def encName : Name → Json
  | .key k => .str k
  | .idx i => Json.num (Lean.JsonNumber.fromInt i)

def decName (j : Json) : E Name :=
  match j with
  | .str s => .ok (.key s)
  | .num _ => do return .idx (← getInt j)
  | _ => jErr "bad name" j

def decOptInt (j : Json) : E (Option Int) :=
  match j with
  | .null => .ok none
  | _ => do return some (← getInt j)

def decOp (s : String) : E CmpOp :=
  match s with
  | "lt" => .ok .lt | "le" => .ok .le | "eq" => .ok .eq
  | "ne" => .ok .ne | "gt" => .ok .gt | "ge" => .ok .ge
  | _ => .error ("bad op " ++ s)

def decFns (j : Json) : E (List Fn) := do
  let a ← getArr j
  a.toList.mapM fun x => do
    let s ← getStr x
    match fnByName s with
    | some f => return f
    | none => .error ("unknown fn " ++ s)

/-- type-strict, order-sensitive structural equality used by decision tables -/
partial def sameJ : J → J → Bool
  | .null, .null => true
  | .bool a, .bool b => a == b
  | .int a, .int b => a == b
  | .half a, .half b => a == b
  | .str a, .str b => a == b
  | .arr xs, .arr ys => xs.length == ys.length && (xs.zip ys).all fun (x, y) => sameJ x y
  | .obj xs, .obj ys => xs.length == ys.length && (xs.zip ys).all fun ((k, x), (k', y)) => k == k' && sameJ x y
  | _, _ => false

def kindOf : J → String
  | .null => "none" | .bool _ => "bool" | .int _ => "int" | .half _ => "float"
  | .str _ => "str" | .arr _ => "list" | .obj _ => "dict"

def nameJ : Name → J
  | .key k => .str k
  | .idx i => .int i

/-- how has-predicates and neighbour lookups are realised: by the machine (generic `α`) or
by the specification (`α = J`). -/
structure Impl (α : Type) where
  cx : Ctx α
  has : List (Step α) → Option Fn → List Fn → Pred α
  first : List (Step α) → MNode α → List (Ev α) × Except Exc (Option (MNode α))

def machImpl {α} (cx : Ctx α) : Impl α :=
  { cx := cx, has := Treepath.has cx, first := firstNested cx }

def firstS (steps : List (Step J)) (c : MNode J) : List (Ev J) × Except Exc (Option (MNode J)) :=
  match evalE steps (.imag c) with
  | (n :: _, _) => ([], .ok (some n))
  | ([], some e) => ([], .error e)
  | ([], none) => ([], .ok none)

def specImpl : Impl J :=
  { cx := { view := J.view, toJ := id }, has := hasS, first := firstS }

section
variable {α : Type} (im : Impl α)

def selector (sel : String) (n : MNode α) : J :=
  match sel with
  | "kind" => .str (kindOf (im.cx.toJ n.data))
  | "name" => nameJ n.dataName
  | "depth" => .int n.pathMatchList.length
  | "path" => .str n.pathStr
  | "data" => im.cx.toJ n.data
  | "pkind" => match n.parent with
      | some p => .str (kindOf (im.cx.toJ p.data))
      | none => .null
  | _ => .null

def decOut (j : Json) : E PRes := do
  let a ← getArr j
  match a.toList with
  | [.str "v", v] => return .val (← decJ v)
  | [.str "x", .str cls] => return .raise (.user cls)
  | [.str "trav"] => return .val (.bool true)        -- a traverser object: truthy whatever it would yield
  | [.str "b", .str cls] => return .raise (.user cls)   -- a value whose truth test raises: raises where it is tested
  | _ => jErr "bad out" j

/-- a has-predicate reused inside its own filter: `H = has(path.<first>[P])` with
`P(m) = tab(m) or (container(m.data) and H(m))`; the direct call `H(m)` is an evaluation of the
same has-predicate at candidate `m` (no filter call is logged for it) -/
def belowH (first : Step α) (tab : Pred α) : Nat → Pred α
  | 0 => fun _ => { evs := [], res := .raise (.user "FUEL") }
  | k+1 => im.has [first, .filter (fun n =>
      let o := tab n
      match o.res with
      | .val j =>
        if j.truthy then o
        else if (im.cx.toJ n.data).isContainer then
          let o' := belowH first tab k n
          { evs := o.evs ++ o'.evs, res := o'.res }
        else o
      | .raise _ => o)] none []

/-- the same with the table consulted *after* the nested evaluation:
`P(m) = (r := container(m.data) and H(m); t := tab(m); t if t else r)` -/
def belowH2 (first : Step α) (tab : Pred α) : Nat → Pred α
  | 0 => fun _ => { evs := [], res := .raise (.user "FUEL") }
  | k+1 => im.has [first, .filter (fun n =>
      if (im.cx.toJ n.data).isContainer then
        let o' := belowH2 first tab k n
        match o'.res with
        | .raise _ => o'
        | .val r =>
          let o := tab n
          match o.res with
          | .val j => { evs := o'.evs ++ o.evs, res := .val (if j.truthy then j else r) }
          | .raise e => { evs := o'.evs ++ o.evs, res := .raise e }
      else
        let o := tab n
        match o.res with
        | .val j => { evs := o.evs, res := .val (if j.truthy then j else .bool false) }
        | .raise _ => o)] none []

mutual
partial def decSteps (j : Json) : E (List (Step α)) := do
  let a ← getArr j
  a.toList.mapM decStep

partial def decStep (j : Json) : E (Step α) := do
  let a ← getArr j
  match a.toList with
  | [.str "k", .str k] => return .key k
  | [.str "i", i] => return .idx (← getInt i)
  | [.str "s", x, y, z] => return .slice (← decOptInt x) (← decOptInt y) (← decOptInt z)
  | [.str "t", ns] => do
      let ns ← getArr ns
      return .tuple (← ns.toList.mapM decName)
  | [.str "wc"] => return .keyWc
  | [.str "iwc"] => return .idxWc
  | [.str "gwc"] => return .gwc
  | [.str "igwc"] => return .gwc      -- `path[gwc]`: the same step, spelled with brackets
  | [.str "rec"] => return .recur
  | [.str "par"] => return .parent
  | [.str "f", p] => return .filter (← decPred p)
  | _ => jErr "bad step" j

/-- `arg` of has / has_not / items of has_all, has_any -/
partial def decArg (j : Json) (fns : List Fn) : E (Pred α) := do
  let a ← getArr j
  match a.toList with
  | [.str "p", p] => return im.has (← decSteps p) none fns
  | [.str "c", p, .str op, c] => return im.has (← decSteps p) (some (cmpFn (← decOp op) (← decJ c))) fns
  | [.str "pred", p] => decPred p       -- has(callable, …) returns the callable
  | [.str "tup", arg, fs] => do decArg arg (← decFns fs)
  | _ => jErr "bad arg" j

partial def decPred (j : Json) : E (Pred α) := do
  let a ← getArr j
  match a.toList with
  | [.str "has", arg, fs] => do decArg arg (← decFns fs)
  | [.str "not", arg, fs] => do return hasNot (← decArg arg (← decFns fs))
  | [.str "all", items] => do
      let items ← getArr items
      return hasAll (← items.toList.mapM fun it => decArg it [])
  | [.str "any", items] => do
      let items ← getArr items
      return hasAny (← items.toList.mapM fun it => decArg it [])
  | [.str "tab", .str sel, cases, dflt] => do
      let cases ← getArr cases
      let cs ← cases.toList.mapM fun c => do
        match c with
        | .arr #[v, o] => return (← decJ v, ← decOut o)
        | _ => jErr "bad case" c
      let d ← decOut dflt
      return fun n =>
        let key := selector im sel n
        match cs.find? (fun (v, _) => sameJ v key) with
        | some (_, o) => { evs := [], res := o }
        | none => { evs := [], res := d }
  | [.str "nb", .str kind, p] => do
      let steps ← decSteps p
      return fun n =>
        let (evs, r) := im.first steps n
        let kind := if kind == "mt" then "m" else if kind == "vt" then "v" else kind
        match r, kind with
        | .ok (some _), "m" => { evs := evs, res := .val (.bool true) }
        | .ok none, "m" => { evs := evs, res := .val (.bool false) }
        | .ok (some m), _ => { evs := evs, res := .val (im.cx.toJ m.data) }
        | .ok none, "v" => { evs := evs, res := .val .null }
        | .ok none, _ => { evs := evs, res := .raise .nestedNotFound }
        | .error e, _ => { evs := evs, res := .raise e }
  | [.str "nb2", p1, p2] => do
      -- two hops: `r = get_match(p1, candidate, must_match=False)`, then `get(p2, r, default=None)`; `r` is a
      -- plain Match, so the second search is not traced
      let s1 ← decSteps p1
      let s2 ← decSteps p2
      return fun n =>
        let (evs, r) := im.first s1 n
        match r with
        | .ok (some m) =>
          let (evs2, r2) := im.first s2 m
          -- untraced: no Trace callbacks; user predicates and conversion functions are still called
          let evs := evs ++ evs2.filter (fun e => match e with | .attempt .. => false | _ => true)
          match r2 with
          | .ok (some m2) => { evs := evs, res := .val (im.cx.toJ m2.data) }
          | .ok none => { evs := evs, res := .val .null }
          | .error e => { evs := evs, res := .raise e }
        | .ok none => { evs := evs, res := .val .null }
        | .error e => { evs := evs, res := .raise e }
  | [.str "below", first, tabp] => do
      return belowH im (← decStep first) (← decPred tabp) 64
  | [.str "below2", first, tabp] => do
      return belowH2 im (← decStep first) (← decPred tabp) 64
  | _ => jErr "bad pred" j
end
end

/-! ### encoding of outcomes -/

def excChain : Exc → List String
  | .user c => [c]
  | .traversing c => "TraversingError" :: excChain c
  | .loopDetected => ["InfiniteLoopDetected"]
  | .nestedNotFound => ["NestedMatchNotFoundError"]
  | .notFound => ["MatchNotFoundError"]

def encExc (e : Exc) : Json := .arr ((excChain e).map Json.str).toArray

section
variable {α : Type} (toJ : α → J)

def encNodeFull (n : MNode α) : Json :=
  Json.mkObj [
    ("p", .str n.pathStr),
    ("n", encName n.dataName),
    ("d", encJ (toJ n.data)),
    ("l", .arr (n.pathMatchList.map fun m => encName m.dataName).toArray),
    ("u", match n.parent with | some p => .str p.pathStr | none => .null)]

def encEv : Ev α → Json
  | .attempt l vi nx st =>
    .arr #[.str "T", .str l.pathStr, Json.num (Lean.JsonNumber.fromNat vi),
           (match nx with | some m => .arr #[.str m.pathStr, encName m.dataName] | none => .null),
           (match st with | some m => .str m.pathStr | none => .null)]
  | .predCall c =>
    .arr #[.str "P", .str c.pathStr, encName c.dataName, encJ (toJ c.data),
           (match c.parent with | some p => .str p.pathStr | none => .null)]
  | .fnCall nm arg => .arr #[.str "F", .str nm, encJ arg]
  | .result n => .arr #[.str "R", encNodeFull toJ n]
  | .raised e => .arr #[.str "X", encExc e]
  | .stop => .arr #[.str "S"]

end
end Treepath.Driver
