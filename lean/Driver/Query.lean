import Driver.Codec
/- the `q` (query) family: iterators, get / get_match / find / find_matches, from a document
or from the k-th match of another path; machine record and specification record. -/
open Lean (Json)
namespace Treepath.Driver

def natJ (n : Nat) : Json := Json.num (Lean.JsonNumber.fromNat n)

def isSigEv {α} : Ev α → Bool
  | .result _ | .stop | .raised _ => true
  | _ => false

/-- call `next()` `n` times on a machine iterator; one record per call -/
def driveSegs {α} (cx : Ctx α) (steps : Array (Step α)) (src : Src α) (valuesOnly : Bool) (reiterAt : Option Nat := none) :
    Nat → St α → List Json
  | 0, _ => []
  | n+1, st =>
    -- `iter(it)` is called again before the call that leaves `n` more calls to go
    let st := if reiterAt == some (n+1) then reiter st else st
    let (st', evs, sig) := next cx.view steps src cx.limit st
    let evsJ := (evs.filter (fun e => !isSigEv e)).map (encEv cx.toJ)
    let sigJ : Json := match sig with
      | .result m => if valuesOnly then .arr #[.str "V", encJ (cx.toJ m.data)] else .arr #[.str "R", encNodeFull cx.toJ m]
      | .stop => .arr #[.str "S"]
      | .raised e => .arr #[.str "X", encExc e]
      | .none => .arr #[.str "BUG", .str "none"]
      | .bug m => .arr #[.str "BUG", .str m]
    Json.mkObj [("e", .arr evsJ.toArray), ("s", sigJ)] :: driveSegs cx steps src valuesOnly reiterAt n st'

/-- all results of a machine iterator (used to pick the source match of a nested search) -/
def drainMach {α} (cx : Ctx α) (steps : Array (Step α)) (src : Src α) : Nat → St α → List (MNode α)
  | 0, _ => []
  | n+1, st =>
    let (st', _, sig) := next cx.view steps src cx.limit st
    match sig with
    | .result m => m :: drainMach cx steps src n st'
    | _ => []

structure QOpts where
  api : String
  nexts : Nat
  reiterAt : Option Nat := none   -- index of the call before which `iter(it)` is called again
  mustMatch : Bool
  dflt : Option (Bool × J)     -- (callable?, value)

def decOpts (j : Json) : E QOpts := do
  let api ← getStr (← field j "api")
  let nexts := match (fieldD j "nexts" (natJ 1)).getNat? with | .ok n => n | .error _ => 1
  let mm := match (fieldD j "must_match" (.bool true)).getBool? with | .ok b => b | .error _ => true
  let d ← match fieldD j "default" .null with
    | .null => pure none
    | .arr #[.str "const", v] => do pure (some (false, ← decJ v))
    | .arr #[.str "call", v] => do pure (some (true, ← decJ v))
    | other => jErr "bad default" other
  let ra := match (fieldD j "reiter_at" .null).getNat? with | .ok n => some n | .error _ => none
  return { api := api, nexts := nexts, reiterAt := ra, mustMatch := mm, dflt := d }

/-- outcome of get / get_match given the first `next()` signal -/
def projectFirst {α} (toJ : α → J) (o : QOpts) (nested : Bool) (sig : Sig α) : List Json × Json :=
  let nf : Json := .arr #[.str "X", .arr #[.str (if nested then "NestedMatchNotFoundError" else "MatchNotFoundError")]]
  match sig with
  | .result m =>
    if o.api == "get" then ([], .arr #[.str "V", encJ (toJ m.data)]) else ([], .arr #[.str "R", encNodeFull toJ m])
  | .stop =>
    if o.api == "get" then
      match o.dflt with
      | none => ([], nf)
      | some (false, v) => ([], .arr #[.str "V", encJ v])
      | some (true, v) => ([.arr #[.str "DC"]], .arr #[.str "V", encJ v])
    else if o.mustMatch then ([], nf) else ([], .arr #[.str "N"])
  | .raised e => ([], .arr #[.str "X", encExc e])
  | .none => ([], .arr #[.str "BUG", .str "none"])
  | .bug m => ([], .arr #[.str "BUG", .str m])

def machRecord {α} (cx : Ctx α) (steps : List (Step α)) (src : Src α) (nested : Bool) (o : QOpts) : Json :=
  let arr := steps.toArray
  if o.api == "find_matches" || o.api == "find" then
    .arr (driveSegs cx arr src (o.api == "find") (o.reiterAt.map fun k => o.nexts - k) o.nexts {}).toArray
  else
    let (_, evs, sig) := next cx.view arr src cx.limit {}
    let evsJ := (evs.filter (fun e => !isSigEv e)).map (encEv cx.toJ)
    let (extra, ret) := projectFirst cx.toJ o nested sig
    .arr #[Json.mkObj [("e", .arr (evsJ ++ extra).toArray), ("s", ret)]]

/-- specification record: the whole answer and the whole (top-level) event stream -/
def specRecord (steps : List (Step J)) (root : MNode J) (nested : Bool) (o : QOpts) : Json :=
  let full := takeThroughRaise (stream steps 0 root)
  let r := evalE steps root
  let exc : Option Exc := full.findSome? fun e => match e with | .raised x => some x | _ => none
  let top := full.filter fun e => match e with
    | .attempt _ _ _ (some _) => false
    | _ => true
  let sigOfFirst : Sig J := match r.1, r.2 with
    | n :: _, _ => .result n
    | [], some e => .raised e
    | [], none => .stop
  let (extra, first) := projectFirst id o nested sigOfFirst
  Json.mkObj [
    ("res", .arr (r.1.map (encNodeFull id)).toArray),
    ("x", match r.2 with | some e => encExc e | none => .null),
    ("sx", match exc with | some e => encExc e | none => .null),
    ("att", natJ (attempts full)),
    ("attTop", natJ (attemptsTop full)),
    ("exams", natJ (exams steps root)),
    ("top", .arr (top.map (encEv id)).toArray),
    ("first", first),
    ("firstExtra", .arr extra.toArray)]

def handleQuery (j : Json) : E Json := do
  let doc ← decJ (← field j "doc")
  let o ← decOpts j
  let cxJ : Ctx J := { view := J.view, toJ := id }
  let imM := machImpl cxJ
  let imS := specImpl
  let pathJ ← field j "path"
  let stepsM ← decSteps imM pathJ
  let stepsS ← decSteps imS pathJ
  let srcJ := fieldD j "src" .null
  match srcJ with
  | .null =>
    -- `==` between the first few matches (Match.__eq__), row by row
    let ms := (drainMach cxJ stepsM.toArray (.doc doc) 6 {})
    let eqm : Json := .arr (ms.map fun a => Json.arr (ms.map fun b => Json.bool (matchEq a b)).toArray).toArray
    return Json.mkObj [("mach", machRecord cxJ stepsM (.doc doc) false o),
                       ("spec", specRecord stepsS (.root doc) false o), ("eqm", eqm)]
  | _ =>
    let sp ← field srcJ "path"
    let k ← match (← field srcJ "k").getNat? with | .ok n => pure n | .error e => .error e
    let srcM ← decSteps imM sp
    let srcS ← decSteps imS sp
    let msM := drainMach cxJ srcM.toArray (.doc doc) (k+1) {}
    let msS := eval srcS (.root doc)
    let up : Nat := match (fieldD srcJ "up" (.num 0)).getNat? with | .ok n => n | .error _ => 0
    let climb {β : Type} (m : MNode β) : Option (MNode β) := Nat.rec (some m) (fun _ acc => acc.bind MNode.parent) up
    match (msM[k]?).bind climb, (msS[k]?).bind climb with
    | some m, some m' =>
      return Json.mkObj [("mach", machRecord cxJ stepsM (.nested m) true o),
                         ("spec", specRecord stepsS (.imag m') true o)]
    | _, _ => return Json.mkObj [("mach", .str "nosrc"), ("spec", .str "nosrc")]

end Treepath.Driver
