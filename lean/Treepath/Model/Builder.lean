import Treepath.Model.Path
import Treepath.Generated.Reserved
/-
Path expressions (`path/builder`, `path/vertex`): a store of immutable vertices (child →
parent) with the two lazily filled caches `_path_as_list` and `_path`, the builder
operations, rendering, and the translation of a vertex chain into traverser steps.
-/
namespace Treepath

inductive VKind where
  | root
  | key (k : String)
  | idx (i : Int)
  | slice (a b c : Option Int)
  | tuple (ns : List Name)
  | keyWc | idxWc
  | gwc (dot : Bool)           -- `.gwc` (renders `.*`) / `[gwc]` (renders `[*]`)
  | recur
  | parent
  | pred (label : String)      -- a filter; the predicate itself lives outside the store
  deriving Repr, DecidableEq, Inhabited

structure VNode where
  parent : Option Nat
  kind : VKind
  listCache : Option (List Nat) := none     -- `_path_as_list`
  pathCache : Option String := none         -- `_path`
  deriving Repr, Inhabited

abbrev VStore := Array VNode

/-- an expression object: its leaf vertex and whether it was built from `pathd` -/
structure Expr where
  v : Nat
  dash : Bool
  deriving Repr, DecidableEq, Inhabited

inductive BErr where
  | pathSyntax                 -- PathSyntaxError
  | attribute                  -- AttributeError (`__setattr__` / `__setitem__`)
  | notExpr                    -- the attribute is a method / dunder of the builder, not a step
  deriving Repr, DecidableEq

/-- the vertex ids from the root to `v` (`traverse`), not using any cache -/
def chainOf (st : VStore) : Nat → Nat → List Nat
  | 0, _ => []
  | fuel+1, v =>
    match st[v]? with
    | none => []
    | some n =>
      match n.parent with
      | none => [v]
      | some p => chainOf st fuel p ++ [v]

def chain (st : VStore) (v : Nat) : List Nat := chainOf st (v+1) v

def optIntStr : Option Int → String
  | none => ""
  | some i => if i = 0 then "" else toString i

def nameRepr : Name → String
  | .key k => "'" ++ k ++ "'"
  | .idx i => toString i

/-- `path_segment` -/
def segment : VKind → String
  | .root => "$"
  | .key k => "." ++ k
  | .idx i => "[" ++ toString i ++ "]"
  | .slice a b c =>
    match c with
    | some s => if s = 0 then "[" ++ optIntStr a ++ ":" ++ optIntStr b ++ "]"
                else "[" ++ optIntStr a ++ ":" ++ optIntStr b ++ ":" ++ toString s ++ "]"
    | none => "[" ++ optIntStr a ++ ":" ++ optIntStr b ++ "]"
  | .tuple ns => "[" ++ ", ".intercalate (ns.map nameRepr) ++ "]"
  | .keyWc => ".*"
  | .idxWc => "[*]"
  | .gwc dot => if dot then ".*" else "[*]"
  | .recur => "."
  | .parent => ".parent"
  | .pred label => "[?(" ++ label ++ ")]"

def kindOfV (st : VStore) (v : Nat) : VKind := (st[v]?.map (·.kind)).getD .root

/-- the rendering as a function of the vertex chain alone -/
def renderPure (st : VStore) (v : Nat) : String :=
  String.join ((chain st v).map fun u => segment (kindOfV st u))
    ++ (if kindOfV st v = .recur then "." else "")

def VNode.setListCache (l : List Nat) (n : VNode) : VNode := { n with listCache := some l }
def VNode.setPathCache (s : String) (n : VNode) : VNode := { n with pathCache := some s }

/-- `vertex.path_as_list`: returns the cache if set, otherwise computes and stores it -/
def pathAsList (st : VStore) (v : Nat) : VStore × List Nat :=
  match st[v]? with
  | none => (st, [])
  | some n =>
    match n.listCache with
    | some l => (st, l)
    | none =>
      let l := chain st v
      (st.modify v (VNode.setListCache l), l)

/-- `str(expr)` / `repr(expr)`: returns the cache if set, otherwise renders and stores it.
(The recursive vertex overrides `path` and never caches.) -/
def render (st : VStore) (v : Nat) : VStore × String :=
  match st[v]? with
  | none => (st, "")
  | some n =>
    if n.kind = .recur then
      let r := pathAsList st v
      (r.1, String.join (r.2.map fun u => segment (kindOfV r.1 u)) ++ ".")
    else
      match n.pathCache with
      | some s => (st, s)
      | none =>
        let r := pathAsList st v
        let s := String.join (r.2.map fun u => segment (kindOfV r.1 u))
        (r.1.modify v (VNode.setPathCache s), s)

/-- a new vertex below `e` -/
def extend (st : VStore) (e : Expr) (k : VKind) : VStore × Expr :=
  (st.push { parent := some e.v, kind := k }, { v := st.size, dash := e.dash })

def newRoot (st : VStore) (dash : Bool) : VStore × Expr :=
  (st.push { parent := none, kind := .root }, { v := st.size, dash := dash })

def transformName (dash : Bool) (name : String) : String :=
  if dash then name.map (fun ch => if ch = '_' then '-' else ch) else name

/-- `expr.<name>`: real attributes of the builder win (`wc`, `rec`, `parent`, `shape`, …);
every other name is a key step (with `_` → `-` under `pathd`) -/
def getAttr (st : VStore) (e : Expr) (name : String) : Except BErr (VStore × Expr) :=
  if (if e.dash then Generated.reservedAttrsDash else Generated.reservedAttrs).contains name then
    match name with
    | "wc" | "wildcard" => .ok (extend st e .keyWc)
    | "gwc" | "generic_wildcard" => .ok (extend st e (.gwc true))
    | "rec" | "recursive" =>
      if kindOfV st e.v = .recur then .error .pathSyntax else .ok (extend st e .recur)
    | "parent" => .ok (extend st e .parent)
    | "shape" => .error .pathSyntax
    | _ => .error .notExpr
  else .ok (extend st e (.key (transformName e.dash name)))

/-- the Python value used as an index -/
inductive KeyArg where
  | int (i : Int)
  | slice (a b c : Option Int)
  | wildcard | genericWildcard
  | str (s : String)
  | tuple (items : List (Option Name))      -- `none` = an entry that is neither int nor str
  | callable (label : String)
  | other                                   -- float, None, bytes, the `rec` symbol, …
  deriving Repr

/-- `expr[key]` (`_build_key`): item keys are never rewritten -/
def getItem (st : VStore) (e : Expr) (key : KeyArg) : Except BErr (VStore × Expr) :=
  match key with
  | .int i => .ok (extend st e (.idx i))
  | .slice a b c => .ok (extend st e (.slice a b c))
  | .wildcard => .ok (extend st e .idxWc)
  | .genericWildcard => .ok (extend st e (.gwc false))
  | .str s => .ok (extend st e (.key s))
  | .tuple items =>
    if items.all Option.isSome then .ok (extend st e (.tuple (items.filterMap id))) else .error .pathSyntax
  | .callable l => .ok (extend st e (.pred l))
  | .other => .error .pathSyntax

/-- `expr.x = v`, `expr[k] = v` -/
def setAttr (_st : VStore) (_e : Expr) : BErr := .attribute

/-- the traverser steps of an expression (filters resolved by `preds`) -/
def kindToStep {α} (preds : String → Pred α) : VKind → Option (Step α)
  | .root => none
  | .key k => some (.key k)
  | .idx i => some (.idx i)
  | .slice a b c => some (.slice a b c)
  | .tuple ns => some (.tuple ns)
  | .keyWc => some .keyWc
  | .idxWc => some .idxWc
  | .gwc _ => some .gwc
  | .recur => some .recur
  | .parent => some .parent
  | .pred l => some (.filter (preds l))

def stepsOfExpr {α} (preds : String → Pred α) (st : VStore) (v : Nat) : List (Step α) :=
  (chain st v).filterMap fun u => kindToStep preds (kindOfV st u)

end Treepath
