import Treepath.Model.Mutate
/-
`DocumentList`: the list view returned by a list-typed attribute (`document_list.py`).
It holds a reference to the document's own list object; every operation reads / writes that
object, with `to_wrapped_value` / `to_json_value` applied at the boundary.
-/
namespace Treepath

/-- the two converters of a typed attribute, acting on scalars (containers pass through:
they are wrapped by reference) -/
structure Conv where
  w : J → J        -- to_wrapped_value
  u : J → J        -- to_json_value

def Conv.wrap (c : Conv) : Val → Val
  | .atom j => .atom (c.w j)
  | r => r
def Conv.unwrap (c : Conv) : Val → Val
  | .atom j => .atom (c.u j)
  | r => r

def listOf (h : Heap) (id : Nat) : Option (List Val) :=
  match h[id]? with
  | some (.list xs) => some xs
  | _ => none

/-- `len(view)` -/
def lLen (h : Heap) (id : Nat) : Option Nat := (listOf h id).map List.length

/-- `view[i]` (`none` = IndexError) -/
def lGet (c : Conv) (h : Heap) (id : Nat) (i : Int) : Option Val :=
  (listOf h id).bind fun xs => ((normIndex xs.length i).bind (xs[·]?)).map c.wrap

/-- `view[i] = v` -/
def lSet (c : Conv) (h : Heap) (id : Nat) (i : Int) (v : Val) : Option Heap :=
  (listOf h id).bind fun xs => (listSet xs i (c.unwrap v)).map fun xs' => hput h id (.list xs')

/-- `del view[i]` -/
def lDel (h : Heap) (id : Nat) (i : Int) : Option Heap :=
  (listOf h id).bind fun xs => (listDel xs i).map fun r => hput h id (.list r.2)

/-- `view.append(v)` -/
def lAppend (c : Conv) (h : Heap) (id : Nat) (v : Val) : Option Heap :=
  (listOf h id).map fun xs => hput h id (.list (xs ++ [c.unwrap v]))

/-- `view.pop(i)` -/
def lPop (c : Conv) (h : Heap) (id : Nat) (i : Int) : Option (Heap × Val) :=
  (listOf h id).bind fun xs => (listDel xs i).map fun r => (hput h id (.list r.2), c.wrap r.1)

/-- `list(iter(view))` -/
def lIter (c : Conv) (h : Heap) (id : Nat) : Option (List Val) := (listOf h id).map (·.map c.wrap)

/-- `v in view`: `to_json_value(v) in data` (Python `==` on the unfolded values) -/
def lContains (c : Conv) (h : Heap) (id : Nat) (v : Val) : Option Bool :=
  (listOf h id).map fun xs => xs.any fun x => J.pyEq (unfoldVal h 64 x) (unfoldVal h 64 (c.unwrap v))

/-- the loop of `keep_all`: a live index iterator reads `data[r]`, and every kept element is
written back (after `to_json_value ∘ to_wrapped_value`) at the write index `wr ≤ r` of the
same list.  `f x = some y` iff `x` is kept and `y` is what is written. -/
def keepLoop (f : Val → Option Val) : Nat → List Val → Nat → Nat → List Val × Nat
  | 0, data, _, wr => (data, wr)
  | fuel+1, data, r, wr =>
    match data[r]? with
    | none => (data, wr)
    | some x =>
      match f x with
      | some y => keepLoop f fuel (data.set wr y) (r+1) (wr+1)
      | none => keepLoop f fuel data (r+1) wr

/-- `keep_all`: run the loop, then `data.pop()` until only the kept prefix is left -/
def keepAllList (f : Val → Option Val) (xs : List Val) : List Val :=
  let r := keepLoop f xs.length xs 0 0
  r.1.take r.2

def keepFn (c : Conv) (keep : Val → Bool) : Val → Option Val :=
  fun x => if keep (c.wrap x) then some (c.unwrap (c.wrap x)) else none

/-- `view.keep_all(is_keep)` -/
def lKeepAll (c : Conv) (keep : Val → Bool) (h : Heap) (id : Nat) : Option Heap :=
  (listOf h id).map fun xs => hput h id (.list (keepAllList (keepFn c keep) xs))

/-- `view.remove_all(is_remove)` = `keep_all(not ∘ is_remove)` -/
def lRemoveAll (c : Conv) (rm : Val → Bool) (h : Heap) (id : Nat) : Option Heap :=
  lKeepAll c (fun x => !rm x) h id

/-! ### predicates with memory, converters that raise

`keep_all(is_keep)` asks `is_keep` once per element, front to back — which matters as soon as
the predicate remembers what it has seen (de-duplication, "keep at most n").  And
`to_wrapped_value` may raise on an element: the operation then stops where it is, with
whatever it has already done to the list. -/

/-- the loop of `keep_all` with a predicate that carries state `σ` from call to call -/
def keepLoopS {σ : Type} (f : σ → Val → σ × Option Val) : Nat → σ → List Val → Nat → Nat → List Val × Nat × σ
  | 0, s, data, _, wr => (data, wr, s)
  | fuel+1, s, data, r, wr =>
    match data[r]? with
    | none => (data, wr, s)
    | some x =>
      match f s x with
      | (s', some y) => keepLoopS f fuel s' (data.set wr y) (r+1) (wr+1)
      | (s', none) => keepLoopS f fuel s' data (r+1) wr

/-- the plain-list reading: one call per element, in order, threading the state -/
def filterMapS {σ : Type} (f : σ → Val → σ × Option Val) : σ → List Val → List Val × σ
  | s, [] => ([], s)
  | s, x :: xs =>
    match f s x with
    | (s', some y) => let r := filterMapS f s' xs; (y :: r.1, r.2)
    | (s', none) => filterMapS f s' xs

def keepAllListS {σ : Type} (f : σ → Val → σ × Option Val) (s : σ) (xs : List Val) : List Val :=
  let r := keepLoopS f xs.length s xs 0 0
  r.1.take r.2.1

def keepFnS {σ : Type} (c : Conv) (keep : σ → Val → σ × Bool) : σ → Val → σ × Option Val :=
  fun s x => let r := keep s (c.wrap x); (r.1, if r.2 then some (c.unwrap (c.wrap x)) else none)

/-- number of leading elements `to_wrapped_value` accepts -/
def goodPrefix (bad : Val → Bool) : List Val → Nat
  | [] => 0
  | x :: xs => if bad x then 0 else goodPrefix bad xs + 1

/-- `view.keep_all(is_keep)` when the converter raises on the elements `bad`: the loop runs over
the elements in front of the first such element, then the exception leaves — the kept elements
written so far stay where they were written, nothing is popped.  `(list afterwards, raised?)` -/
def keepAllX {σ : Type} (c : Conv) (bad : Val → Bool) (keep : σ → Val → σ × Bool) (s : σ) (xs : List Val) : List Val × Bool :=
  let k := goodPrefix bad xs
  if k = xs.length then (keepAllListS (keepFnS c keep) s xs, false)
  else ((keepLoopS (keepFnS c keep) k s xs 0 0).1, true)

/-- `next(it)` on the view's iterator: the list iterator has already advanced when the
converter raises -/
def iterNextX (c : Conv) (bad : Val → Bool) (xs : List Val) (pos : Nat) : Option (Nat × Option Val) :=
  (xs[pos]?).map fun x => (pos + 1, if bad x then none else some (c.wrap x))

/-- `view.pop(i)`: the element is gone when the converter raises on it -/
def lPopX (c : Conv) (bad : Val → Bool) (h : Heap) (id : Nat) (i : Int) : Option (Heap × Option Val) :=
  (listOf h id).bind fun xs => (listDel xs i).map fun r =>
    (hput h id (.list r.2), if bad r.1 then none else some (c.wrap r.1))

end Treepath
