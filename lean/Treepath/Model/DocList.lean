import Treepath.Model.Mutate
/-
`DocumentList`: the list view returned by a list-typed attribute (`document_list.py`).
It holds a reference to the document's own list object; every operation reads / writes that
object, with `to_wrapped_value` / `to_json_value` applied at the boundary.
-/
namespace Treepath

/-- the two converters of a typed attribute, acting on scalars (containers pass through:
they are wrapped by reference) -/
structure Conv where
  w : J → J        -- to_wrapped_value
  u : J → J        -- to_json_value

def Conv.wrap (c : Conv) : Val → Val
  | .atom j => .atom (c.w j)
  | r => r
def Conv.unwrap (c : Conv) : Val → Val
  | .atom j => .atom (c.u j)
  | r => r

def listOf (h : Heap) (id : Nat) : Option (List Val) :=
  match h[id]? with
  | some (.list xs) => some xs
  | _ => none

/-- `len(view)` -/
def lLen (h : Heap) (id : Nat) : Option Nat := (listOf h id).map List.length

/-- `view[i]` (`none` = IndexError) -/
def lGet (c : Conv) (h : Heap) (id : Nat) (i : Int) : Option Val :=
  (listOf h id).bind fun xs => ((normIndex xs.length i).bind (xs[·]?)).map c.wrap

/-- `view[i] = v` -/
def lSet (c : Conv) (h : Heap) (id : Nat) (i : Int) (v : Val) : Option Heap :=
  (listOf h id).bind fun xs => (listSet xs i (c.unwrap v)).map fun xs' => hput h id (.list xs')

/-- `del view[i]` -/
def lDel (h : Heap) (id : Nat) (i : Int) : Option Heap :=
  (listOf h id).bind fun xs => (listDel xs i).map fun r => hput h id (.list r.2)

/-- `view.append(v)` -/
def lAppend (c : Conv) (h : Heap) (id : Nat) (v : Val) : Option Heap :=
  (listOf h id).map fun xs => hput h id (.list (xs ++ [c.unwrap v]))

/-- `view.pop(i)` -/
def lPop (c : Conv) (h : Heap) (id : Nat) (i : Int) : Option (Heap × Val) :=
  (listOf h id).bind fun xs => (listDel xs i).map fun r => (hput h id (.list r.2), c.wrap r.1)

/-- `list(iter(view))` -/
def lIter (c : Conv) (h : Heap) (id : Nat) : Option (List Val) := (listOf h id).map (·.map c.wrap)

/-- `v in view`: `to_json_value(v) in data` (Python `==` on the unfolded values) -/
def lContains (c : Conv) (h : Heap) (id : Nat) (v : Val) : Option Bool :=
  (listOf h id).map fun xs => xs.any fun x => J.pyEq (unfoldVal h 64 x) (unfoldVal h 64 (c.unwrap v))

/-- the loop of `keep_all`: a live index iterator reads `data[r]`, and every kept element is
written back (after `to_json_value ∘ to_wrapped_value`) at the write index `wr ≤ r` of the
same list.  `f x = some y` iff `x` is kept and `y` is what is written. -/
def keepLoop (f : Val → Option Val) : Nat → List Val → Nat → Nat → List Val × Nat
  | 0, data, _, wr => (data, wr)
  | fuel+1, data, r, wr =>
    match data[r]? with
    | none => (data, wr)
    | some x =>
      match f x with
      | some y => keepLoop f fuel (data.set wr y) (r+1) (wr+1)
      | none => keepLoop f fuel data (r+1) wr

/-- `keep_all`: run the loop, then `data.pop()` until only the kept prefix is left -/
def keepAllList (f : Val → Option Val) (xs : List Val) : List Val :=
  let r := keepLoop f xs.length xs 0 0
  r.1.take r.2

def keepFn (c : Conv) (keep : Val → Bool) : Val → Option Val :=
  fun x => if keep (c.wrap x) then some (c.unwrap (c.wrap x)) else none

/-- `view.keep_all(is_keep)` -/
def lKeepAll (c : Conv) (keep : Val → Bool) (h : Heap) (id : Nat) : Option Heap :=
  (listOf h id).map fun xs => hput h id (.list (keepAllList (keepFn c keep) xs))

/-- `view.remove_all(is_remove)` = `keep_all(not ∘ is_remove)` -/
def lRemoveAll (c : Conv) (rm : Val → Bool) (h : Heap) (id : Nat) : Option Heap :=
  lKeepAll c (fun x => !rm x) h id

end Treepath
