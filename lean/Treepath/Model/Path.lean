import Treepath.Model.Basic
/-
Matches (derivation nodes), exceptions, events, path steps, and the per-step selection
functions.  Generic in the document type `α` (trees `J`, heap values, graphs).
-/
namespace Treepath

/-- The immutable part of a `TraverserMatch`, one constructor per Python subclass.
`imag p` is an `ImaginaryMatch` whose `real_parent` is `p` (data = `p.data`);
`par rem frm` is a `ParentMatch` remembering `rem`, derived from `frm` (data = `rem.data`). -/
inductive MNode (α : Type) where
  | root (d : α)
  | child (p : MNode α) (nm : Name) (d : α)
  | imag (p : MNode α)
  | par (rem frm : MNode α)
  deriving Repr, Inhabited

namespace MNode
variable {α : Type}

def data : MNode α → α
  | root d => d
  | child _ _ d => d
  | imag p => p.data
  | par r _ => r.data

/-- `data_name` (`'$'` for the root). -/
def dataName : MNode α → Name
  | root _ => .key "$"
  | child _ nm _ => nm
  | imag p => p.dataName
  | par r _ => r.dataName

/-- Python `.parent`: tree parent for key/list matches, forwarded by imaginary matches,
the *derivation* link for parent matches. -/
def parent : MNode α → Option (MNode α)
  | root _ => none
  | child p _ _ => some p
  | imag p => p.parent
  | par _ f => some f

/-- `remembered_parent`: the node that contains this one in the document. -/
def remParent : MNode α → Option (MNode α)
  | root _ => none
  | child p _ _ => some p
  | imag p => p.remParent
  | par r _ => r.remParent

def nameSeg : Name → String
  | .key k => "." ++ k
  | .idx i => "[" ++ toString i ++ "]"

def nameRaw : Name → String
  | .key k => k
  | .idx i => toString i

/-- `path_segment` of each element of `path_match_list` -/
def segs : MNode α → List String
  | root _ => ["$"]
  | child p nm _ => p.segs ++ [nameSeg nm]
  | imag p => p.segs
  | par r f => f.segs ++ ["<-" ++ nameRaw r.dataName]

def pathStr (n : MNode α) : String := String.join n.segs

/-- `path_match_list` (imaginary matches skip themselves). -/
def pathMatchList : MNode α → List (MNode α)
  | root d => [root d]
  | child p nm d => p.pathMatchList ++ [child p nm d]
  | imag p => p.pathMatchList
  | par r f => f.pathMatchList ++ [par r f]

/-- drop the bookkeeping (`imag`) nodes -/
def erase : MNode α → MNode α
  | root d => root d
  | child p nm d => child p.erase nm d
  | imag p => p.erase
  | par r f => par r.erase f.erase

/-- document location: the names from the root (defined through `remParent`-free recursion
for parent-free nodes; `par` nodes take the location of what they remember). -/
def loc : MNode α → List Name
  | root _ => []
  | child p nm _ => p.loc ++ [nm]
  | imag p => p.loc
  | par r _ => r.loc

end MNode

/-- Python-level exceptions the model distinguishes. -/
inductive Exc where
  | user (cls : String)          -- raised by user code / conversion functions / operators
  | traversing (cause : Exc)     -- TraversingError(...) from cause
  | loopDetected                 -- InfiniteLoopDetected
  | nestedNotFound               -- NestedMatchNotFoundError (raised by a nested get_match)
  | notFound                     -- MatchNotFoundError
  deriving Repr, Inhabited, DecidableEq

/-- Observable events.  `attempt` = one `Trace` callback (`stamp` = `predicate_match`). -/
inductive Ev (α : Type) where
  | attempt (last : MNode α) (vi : Nat) (next : Option (MNode α)) (stamp : Option (MNode α))
  | predCall (c : MNode α)
  | fnCall (name : String) (arg : J)
  | result (n : MNode α)
  | raised (e : Exc)
  | stop
  deriving Inhabited

/-- What a predicate call returns: any Python value (truthiness is applied by the filter
step) or an exception. -/
inductive PRes where
  | val (j : J)
  | raise (e : Exc)
  deriving Inhabited

structure POut (α : Type) where
  evs : List (Ev α)
  res : PRes
  deriving Inhabited

abbrev Pred (α : Type) := MNode α → POut α

inductive Step (α : Type) where
  | key (k : String)
  | idx (i : Int)
  | slice (a b c : Option Int)
  | tuple (ns : List Name)
  | keyWc
  | idxWc
  | gwc
  | recur
  | parent
  | filter (f : Pred α)

inductive Cls where | single | multi | recur | filter
  deriving DecidableEq, Repr

def Step.cls {α} : Step α → Cls
  | .key _ | .idx _ | .parent => .single
  | .filter _ => .filter
  | .recur => .recur
  | _ => .multi

/-- the child steps of C01: key, index, slice, comma list, the three wildcards -/
def Step.isChild {α} : Step α → Bool
  | .key _ | .idx _ | .slice .. | .tuple _ | .keyWc | .idxWc | .gwc => true
  | _ => false

variable {α : Type}

def dictItems (es : List (String × α)) : List (Name × α) := es.map fun (k, x) => (Name.key k, x)
def listItems (xs : List α) : List (Name × α) := (enumFrom 0 xs).map fun (i, x) => (Name.idx i, x)

/-- `iter(data.items())` / `enumerate(data)`; `none` on a scalar. -/
def allItems (v : View α) : Option (List (Name × α)) :=
  match v with
  | .scalar => none
  | .dict es => some (dictItems es)
  | .list xs => some (listItems xs)

inductive Items (α : Type) where
  | wrongKind                      -- no iterator is created
  | valueError                     -- `slice.indices` rejects a zero step
  | ok (its : List (Name × α))

/-- the items a multi-valued step iterates over at a node with the given view -/
def itemsOf (s : Step α) (v : View α) : Items α :=
  match s, v with
  | .keyWc, .dict es => .ok (dictItems es)
  | .idxWc, .list xs => .ok (listItems xs)
  | .gwc, .dict es => .ok (dictItems es)
  | .gwc, .list xs => .ok (listItems xs)
  | .slice a b c, .list xs =>
    match sliceItems a b c xs with
    | none => .valueError
    | some its => .ok (its.map fun (i, x) => (Name.idx i, x))
  | .tuple ns, .dict es => .ok (ns.filterMap fun n => match n with
      | .key k => (es.lookup k).map (fun x => (n, x))
      | .idx _ => none)
  | .tuple ns, .list xs => .ok (ns.filterMap fun n => match n with
      | .idx i => (getPy? xs i).map (fun x => (n, x))
      | .key _ => none)
  | _, _ => .wrongKind

/-- single-valued steps: key, index, parent -/
def singleOf (view : α → View α) (s : Step α) (n : MNode α) : Option (MNode α) :=
  match s with
  | .key k => match view n.data with
      | .dict es => (es.lookup k).map (fun x => MNode.child n (.key k) x)
      | _ => none
  | .idx i => match view n.data with
      | .list xs => (getPy? xs i).map (fun x => MNode.child n (.idx i) x)
      | _ => none
  | .parent => n.remParent.map (fun t => MNode.par t n)
  | _ => none

/-- `container[name]`, as Python reads it -/
def childAt (v : View α) : Name → Option α
  | .key k => match v with | .dict es => es.lookup k | _ => none
  | .idx i => match v with | .list xs => getPy? xs i | _ => none

/-- follow a list of names from a value -/
def walk (view : α → View α) : α → List Name → Option α
  | a, [] => some a
  | a, nm :: l => match childAt (view a) nm with
    | some c => walk view c l
    | none => none

theorem walk_append (view : α → View α) (a : α) (l1 l2 : List Name) :
    walk view a (l1 ++ l2) = (walk view a l1).bind (fun b => walk view b l2) := by
  induction l1 generalizing a with
  | nil => simp [walk]
  | cons nm l ih =>
    simp only [List.cons_append, walk]
    cases childAt (view a) nm with
    | none => simp
    | some c => exact ih c

end Treepath
