import Treepath.Model.Heap
/-
The writers: `set_` / `set_match` (+cascade), `pop` / `pop_match`, `get(..., store_default)`,
and `Match.data` assignment / `del` / `Match.pop`, transcribed from
`traverser_functions.py`, the vertices' `set` / `pop` methods and `match.py`, on the object
store of `Heap.lean`.
-/
namespace Treepath

/-- the traverser context over a heap -/
def wcx (h : Heap) : Ctx Val := { view := hview h, toJ := unfoldVal h 64 }

/-- write object `id` -/
def hput (h : Heap) (id : Nat) (o : Obj) : Heap := h.setIfInBounds id o

/-- `vertex.set(parent_match, value)`: only key and index vertices support it -/
def vertexSet (h : Heap) (s : Step Val) (pm : MNode Val) (v : Val) : Except ApiErr (Heap × MNode Val) :=
  match s, pm.data with
  | .key k, .ref id =>
    match h[id]? with
    | some (.dict es) => .ok (hput h id (.dict (dictSet es k v)), .child pm (.key k) v)
    | _ => .error .setError                         -- raise_invalid_set: data is not a dict
  | .idx i, .ref id =>
    match h[id]? with
    | some (.list xs) =>
      match listSet xs i v with
      | some xs' => .ok (hput h id (.list xs'), .child pm (.idx i) v)
      | none =>                                      -- IndexError: append iff index == len
        if i = xs.length then .ok (hput h id (.list (xs ++ [v])), .child pm (.idx i) v)
        else .error .setError
    | _ => .error .setError
  | _, _ => .error .setError                         -- any other vertex / scalar parent

/-- `vertex.default_value_for_set`: a fresh `dict()` / `list()`, `None` for other vertices -/
def defaultValueFor (h : Heap) (s : Step Val) : Heap × Val :=
  match s with
  | .key _ => (h.push (.dict []), .ref h.size)
  | .idx _ => (h.push (.list []), .ref h.size)
  | _ => (h, .atom .null)

def isNotFound : ApiErr → Bool
  | .matchNotFound | .nestedMatchNotFound => true
  | _ => false

/-- `set_match(expression, value, data, cascade)` for the first `n` steps of the path.
`stepsOf` rebuilds the path's steps over the current heap (predicates read the heap).
On failure the heap reached so far is returned as well (containers created by a cascade
before a late failure stay behind). -/
def setMatchN (stepsOf : Heap → List (Step Val)) (src : Src Val) (cascade : Bool) :
    Nat → Heap → Val → (Heap × Except ApiErr (MNode Val))
  | 0, h, _ => (h, .error .setError)                 -- the root cannot be assigned (fix F3)
  | n+1, h, v =>
    match (stepsOf h)[n]? with
    | none => (h, .error (.bug "path shorter than expected"))
    | some last =>
      match getMatch (wcx h) ((stepsOf h).take n).toArray src true with
      | .ok (some pm) =>
        match vertexSet h last pm v with
        | .ok (h', m) => (h', .ok m)
        | .error e => (h, .error e)
      | .ok none => (h, .error (.bug "must_match"))
      | .error e =>
        if isNotFound e then
          if cascade then
            let (h1, dv) := defaultValueFor h last
            match setMatchN stepsOf src true n h1 dv with
            | (h2, .ok pm) =>
              match vertexSet h2 last pm v with
              | .ok (h', m) => (h', .ok m)
              | .error e => (h2, .error e)
            | (h2, .error e) => (h2, .error e)
          else (h, .error .setError)
        else (h, .error e)

def setMatch (stepsOf : Heap → List (Step Val)) (src : Src Val) (cascade : Bool) (h : Heap) (v : Val) :
    Heap × Except ApiErr (MNode Val) :=
  setMatchN stepsOf src cascade (stepsOf h).length h v

/-- `vertex.pop(match)` -/
def vertexPop (h : Heap) (last : Option (Step Val)) (m : MNode Val) : Except ApiErr Heap :=
  match last, m.parent.map MNode.data with
  | some (.key k), some (.ref id) =>
    match h[id]? with
    | some (.dict es) =>
      match dictDel es k with
      | some (_, es') => .ok (hput h id (.dict es'))
      | none => .error (.exc (.user "KeyError"))
    | _ => .error .popError
  | some (.idx i), some (.ref id) =>
    match h[id]? with
    | some (.list xs) =>
      match listDel xs i with
      | some (_, xs') => .ok (hput h id (.list xs'))
      | none => .error (.exc (.user "IndexError"))
    | _ => .error .popError
  | _, _ => .error .popError

/-- `pop_match(expression, data, must_match)` -/
def popMatch (stepsOf : Heap → List (Step Val)) (src : Src Val) (mustMatch : Bool) (h : Heap) :
    Heap × Except ApiErr (Option (MNode Val)) :=
  match getMatch (wcx h) (stepsOf h).toArray src mustMatch with
  | .ok none => (h, .ok none)
  | .ok (some m) =>
    match vertexPop h (stepsOf h).getLast? m with
    | .ok h' => (h', .ok (some m))
    | .error e => (h, .error e)
  | .error e => (h, .error e)

/-- `pop(expression, data, default)`: the popped value, or the default -/
def pop (stepsOf : Heap → List (Step Val)) (src : Src Val) (dflt : Option Val) (h : Heap) :
    Heap × Except ApiErr Val :=
  match popMatch stepsOf src dflt.isNone h with
  | (h', .ok (some m)) => (h', .ok m.data)
  | (h', .ok none) => (h', .ok (dflt.getD (.atom .null)))
  | (h', .error e) => (h', .error e)

/-- `get(expression, data, default=v, store_default=True)` -/
def getStoreDefault (stepsOf : Heap → List (Step Val)) (src : Src Val) (dflt : Val) (h : Heap) :
    Heap × Except ApiErr Val :=
  match getMatch (wcx h) (stepsOf h).toArray src false with
  | .ok (some m) => (h, .ok m.data)
  | .ok none =>
    match setMatch stepsOf src true h dflt with
    | (h', .ok _) => (h', .ok dflt)
    | (h', .error e) => (h', .error e)
  | .error e => (h, .error e)

/-! ### Match handles (`Match.data = v`, `del m.data`, `m.pop()`) -/

/-- what a `Match` of a key / index location holds on to: the parent *object*, the name,
and the value cached when the match was created -/
structure Handle where
  parent : Val
  name : Name
  cache : Val
  pathStr : String
  deriving Inhabited

def Handle.ofNode (m : MNode Val) : Option Handle :=
  m.parent.map fun p => { parent := p.data, name := m.dataName, cache := m.data, pathStr := m.pathStr }

inductive HErr where
  | popError
  | py (cls : String)
  deriving Repr, DecidableEq

/-- read the slot `parent.data[data_name]`; `none` = `LookupError` (or a kind mismatch) -/
def Handle.slot (h : Heap) (hd : Handle) : Option Val :=
  match hd.parent, hd.name with
  | .ref id, .key k => match h[id]? with
    | some (.dict es) => es.lookup k
    | _ => none
  | .ref id, .idx i => match h[id]? with
    | some (.list xs) => (normIndex xs.length i).bind (xs[·]?)
    | _ => none
  | _, _ => none

/-- `m.data = v` -/
def Handle.assign (h : Heap) (hd : Handle) (v : Val) : Except HErr (Heap × Handle) :=
  match hd.parent, hd.name with
  | .ref id, .key k => match h[id]? with
    | some (.dict es) => .ok (hput h id (.dict (dictSet es k v)), { hd with cache := v })
    | _ => .error (.py "TypeError")
  | .ref id, .idx i => match h[id]? with
    | some (.list xs) =>
      match listSet xs i v with
      | some xs' => .ok (hput h id (.list xs'), { hd with cache := v })
      | none => .error (.py "IndexError")
    | _ => .error (.py "TypeError")
  | _, _ => .error (.py "TypeError")

/-- `del m.data` -/
def Handle.del (h : Heap) (hd : Handle) : Except HErr (Heap × Handle) :=
  match hd.parent, hd.name with
  | .ref id, .key k => match h[id]? with
    | some (.dict es) =>
      match dictDel es k with
      | some (_, es') => .ok (hput h id (.dict es'), { hd with cache := .atom .null })
      | none => .error .popError
    | _ => .error (.py "TypeError")
  | .ref id, .idx i => match h[id]? with
    | some (.list xs) =>
      match listDel xs i with
      | some (_, xs') => .ok (hput h id (.list xs'), { hd with cache := .atom .null })
      | none => .error .popError
    | _ => .error (.py "TypeError")
  | _, _ => .error (.py "TypeError")

/-- `m.pop(default)` (after fix F4: the value removed is read from the slot) -/
def Handle.pop (h : Heap) (hd : Handle) (dflt : Option Val) : Except HErr (Heap × Handle × Val) :=
  let old := (hd.slot h).getD (.atom .null)
  match hd.del h with
  | .ok (h', hd') => .ok (h', hd', old)
  | .error .popError =>
    match dflt with
    | some d => .ok (h, hd, d)
    | none => .error .popError
  | .error e => .error e

/-! ### `Match.parent`: the `TraverserMatch` objects behind a `Match` and its ancestors

`Match(m).parent` wraps the *same* `TraverserMatch` object `m.parent` every time, and every
`TraverserMatch` caches its `data` in an attribute the setter / deleter overwrite.  The
container a write goes to is read from the parent object's cache *at the time of the write*:
after `m.parent.data = c` later writes through `m` land in `c`.  A group holds the cells of
one result and of the matches reachable from it through `.parent`, nearest first. -/

structure HCell where
  name : Name
  data : Val
  pathStr : String
  deriving Inhabited

def cellOf (n : MNode Val) : HCell := { name := n.dataName, data := n.data, pathStr := n.pathStr }

/-- `m, m.parent, m.parent.parent, …` (an imaginary match is an object of its own whose
`.parent` is the parent of the match it shadows) -/
def MNode.cells : MNode Val → List HCell
  | .root d => [cellOf (.root d)]
  | .child p nm d => cellOf (.child p nm d) :: p.cells
  | .imag p => cellOf (.imag p) :: p.cells.tail
  | .par r f => cellOf (.par r f) :: f.cells

/-- the `Match` at depth `d` of a group, as the write operations see it now -/
def groupHandle (cs : List HCell) (d : Nat) : Option Handle :=
  match cs[d]?, cs[d+1]? with
  | some c, some p => some { parent := p.data, name := c.name, cache := c.data, pathStr := c.pathStr }
  | _, _ => none

/-- after an operation: the cache of the cell at depth `d` is what the handle now caches -/
def groupStore (cs : List HCell) (d : Nat) (hd : Handle) : List HCell :=
  match cs[d]? with
  | some c => cs.set d { c with data := hd.cache }
  | none => cs

/-- the match as its `TraverserMatch` objects cache it *now*: the data of the match and of its
`.parent` chain taken from the cells (an imaginary match keeps its own cache; the match it
shadows is given the same data — only its ancestors are reachable from here) -/
def MNode.withCells : MNode Val → List HCell → MNode Val
  | .root _, c :: _ => .root c.data
  | .child p nm _, c :: cs => .child (p.withCells cs) nm c.data
  | .imag p, c :: cs => .imag (p.withCells ({ c with name := p.dataName } :: cs))
  | .par r f, c :: cs => .par (r.withCells [c]) (f.withCells cs)
  | n, [] => n

/-- `m.parent`, `d` times -/
def MNode.ancestor : MNode Val → Nat → Option (MNode Val)
  | n, 0 => some n
  | n, d+1 => n.parent.bind (·.ancestor d)

/-! ### cells shared between matches

The result of a search started from a `Match` hangs below that Match's own `TraverserMatch`
objects: from the nested root upward the two chains are the *same* objects.  Cells therefore
live in one array, and a `Match` is the list of the cell numbers along its `.parent` chain. -/

def chainCells (cells : Array HCell) (ids : List Nat) : List HCell := ids.filterMap (cells[·]?)

def groupHandleH (cells : Array HCell) (ids : List Nat) (d : Nat) : Option Handle :=
  groupHandle (chainCells cells ids) d

def groupStoreH (cells : Array HCell) (ids : List Nat) (d : Nat) (hd : Handle) : Array HCell :=
  match ids[d]? with
  | some i => cells.modify i fun c => { c with data := hd.cache }
  | none => cells

/-- allocate the cells of a fresh result -/
def allocCells (cells : Array HCell) (cs : List HCell) : Array HCell × List Nat :=
  (cells ++ cs.toArray, (List.range cs.length).map (· + cells.size))

end Treepath
