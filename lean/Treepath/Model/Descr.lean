import Treepath.Model.DocList
/-
Descriptors (`descriptor/`): `attr`, `attr_typed`, `attr_iter_typed`, `attr_list_typed` on a
`Document` subclass, and the deprecated `pprop` / `mprop`.  A descriptor is a thin view:
read = `to_wrapped_value (getter expression data)`, write = `setter expression
(to_json_value v) data` (no cascade), delete = `pop expression data`.
-/
namespace Treepath

inductive Getter where | get | find | getMatch
  deriving DecidableEq, Repr, Inhabited

/-- what reading an attribute yields before `to_wrapped_value` -/
inductive DOut where
  | value (v : Val)
  | values (vs : List Val)
  | mtch (m : Option (MNode Val))

/-- `descriptor.__get__(instance)`: `getter(expression, instance.data)` -/
def descrGet (g : Getter) (stepsOf : Heap → List (Step Val)) (h : Heap) (data : Val) : Except ApiErr DOut :=
  match g with
  | .get =>
    match getMatch (wcx h) (stepsOf h).toArray (.doc data) true with
    | .ok (some m) => .ok (.value m.data)
    | .ok none => .error (.bug "must_match")
    | .error e => .error e
  | .getMatch =>
    match getMatch (wcx h) (stepsOf h).toArray (.doc data) true with
    | .ok m => .ok (.mtch m)
    | .error e => .error e
  | .find =>
    match drain (wcx h) (stepsOf h).toArray (.doc data) 100000 freshIter with
    | (ms, none) => .ok (.values (ms.map MNode.data))
    | (_, some e) => .error (.exc e)

/-- `descriptor.__set__(instance, v)`: `setter(expression, to_json_value(v), instance.data)`,
never cascading -/
def descrSet (c : Conv) (stepsOf : Heap → List (Step Val)) (h : Heap) (data : Val) (wrapped : Val) :
    Heap × Except ApiErr (MNode Val) :=
  setMatch stepsOf (.doc data) false h (c.unwrap wrapped)

/-- iterator-typed attributes reject assignment: `to_json_value` raises SetError before the
setter is reached -/
def descrSetIter (h : Heap) : Heap × Except ApiErr (MNode Val) := (h, .error .setError)

/-- `descriptor.__delete__(instance)`: `pop(expression, instance.data)` -/
def descrDel (stepsOf : Heap → List (Step Val)) (h : Heap) (data : Val) : Heap × Except ApiErr Val :=
  pop stepsOf (.doc data) none h

/-- a typed attribute wraps the selected JSON node itself: the nested document's `data` is
the very value the getter returned (for a container: the same object reference) -/
def typedData (g : Getter) (stepsOf : Heap → List (Step Val)) (h : Heap) (data : Val) : Except ApiErr Val :=
  match descrGet g stepsOf h data with
  | .ok (.value v) => .ok v
  | .ok _ => .error (.bug "typed attribute with a non-get getter")
  | .error e => .error e

/-- deprecated `pprop`: read = `get(path, data, default=None)` -/
def ppropGet (stepsOf : Heap → List (Step Val)) (h : Heap) (data : Val) : Except ApiErr Val :=
  match getMatch (wcx h) (stepsOf h).toArray (.doc data) false with
  | .ok (some m) => .ok m.data
  | .ok none => .ok (.atom .null)
  | .error e => .error e

/-- deprecated `mprop`: read = `get_match(path, data, must_match=False)` -/
def mpropGet (stepsOf : Heap → List (Step Val)) (h : Heap) (data : Val) : Except ApiErr (Option (MNode Val)) :=
  getMatch (wcx h) (stepsOf h).toArray (.doc data) false

/-- deprecated `pprop` / `mprop`: assign = `set_(path, value, data, cascade=True)` -/
def ppropSet (stepsOf : Heap → List (Step Val)) (h : Heap) (data : Val) (v : Val) : Heap × Except ApiErr (MNode Val) :=
  setMatch stepsOf (.doc data) true h v

end Treepath
