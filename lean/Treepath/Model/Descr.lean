import Treepath.Model.DocList
/-
Descriptors (`descriptor/`): `attr`, `attr_typed`, `attr_iter_typed`, `attr_list_typed` on a
`Document` subclass, and the deprecated `pprop` / `mprop`.  A descriptor is a thin view:
read = `to_wrapped_value (getter expression data)`, write = `setter expression
(to_json_value v) data` (no cascade), delete = `pop expression data`.
-/
namespace Treepath

inductive Getter where | get | find | getMatch
  deriving DecidableEq, Repr, Inhabited

/-- what reading an attribute yields before `to_wrapped_value` -/
inductive DOut where
  | value (v : Val)
  | values (vs : List Val)
  | mtch (m : Option (MNode Val))

/-- `descriptor.__get__(instance)`: `getter(expression, instance.data)`, where the instance's
data is the JSON value — or, for the nested document of an attribute typed through
`getter=get_match`, a `Match` (then every lookup is a search from that Match) -/
def descrGetS (g : Getter) (stepsOf : Heap → List (Step Val)) (h : Heap) (src : Src Val) : Except ApiErr DOut :=
  match g with
  | .get =>
    match getMatch (wcx h) (stepsOf h).toArray src true with
    | .ok (some m) => .ok (.value m.data)
    | .ok none => .error (.bug "must_match")
    | .error e => .error e
  | .getMatch =>
    match getMatch (wcx h) (stepsOf h).toArray src true with
    | .ok m => .ok (.mtch m)
    | .error e => .error e
  | .find =>
    match drain (wcx h) (stepsOf h).toArray src 100000 freshIter with
    | (ms, none) => .ok (.values (ms.map MNode.data))
    | (_, some e) => .error (.exc e)

def descrGet (g : Getter) (stepsOf : Heap → List (Step Val)) (h : Heap) (data : Val) : Except ApiErr DOut :=
  descrGetS g stepsOf h (.doc data)

/-- `descriptor.__set__(instance, v)`: `setter(expression, to_json_value(v), instance.data)`,
never cascading -/
def descrSetS (c : Conv) (stepsOf : Heap → List (Step Val)) (h : Heap) (src : Src Val) (wrapped : Val) :
    Heap × Except ApiErr (MNode Val) :=
  setMatch stepsOf src false h (c.unwrap wrapped)

def descrSet (c : Conv) (stepsOf : Heap → List (Step Val)) (h : Heap) (data : Val) (wrapped : Val) :
    Heap × Except ApiErr (MNode Val) :=
  descrSetS c stepsOf h (.doc data) wrapped

/-- iterator-typed attributes reject assignment: `to_json_value` raises SetError before the
setter is reached -/
def descrSetIter (h : Heap) : Heap × Except ApiErr (MNode Val) := (h, .error .setError)

/-- `descriptor.__delete__(instance)`: `pop(expression, instance.data)` -/
def descrDelS (stepsOf : Heap → List (Step Val)) (h : Heap) (src : Src Val) : Heap × Except ApiErr Val :=
  pop stepsOf src none h

def descrDel (stepsOf : Heap → List (Step Val)) (h : Heap) (data : Val) : Heap × Except ApiErr Val :=
  descrDelS stepsOf h (.doc data)

/-- an attribute typed through `getter=get_match`: the nested document wraps the `Match`
itself, so its own attributes are searched from that Match and may climb above it -/
def typedMatch (stepsOf : Heap → List (Step Val)) (h : Heap) (src : Src Val) : Except ApiErr (Src Val) :=
  match getMatch (wcx h) (stepsOf h).toArray src true with
  | .ok (some m) => .ok (.nested m)
  | .ok none => .error (.bug "must_match")
  | .error e => .error e

/-- a typed attribute wraps the selected JSON node itself: the nested document's `data` is
the very value the getter returned (for a container: the same object reference) -/
def typedDataS (g : Getter) (stepsOf : Heap → List (Step Val)) (h : Heap) (src : Src Val) : Except ApiErr Val :=
  match descrGetS g stepsOf h src with
  | .ok (.value v) => .ok v
  | .ok _ => .error (.bug "typed attribute with a non-get getter")
  | .error e => .error e

def typedData (g : Getter) (stepsOf : Heap → List (Step Val)) (h : Heap) (data : Val) : Except ApiErr Val :=
  typedDataS g stepsOf h (.doc data)

/-- deprecated `pprop`: read = `get(path, data, default=None)` -/
def ppropGet (stepsOf : Heap → List (Step Val)) (h : Heap) (data : Val) : Except ApiErr Val :=
  match getMatch (wcx h) (stepsOf h).toArray (.doc data) false with
  | .ok (some m) => .ok m.data
  | .ok none => .ok (.atom .null)
  | .error e => .error e

/-- deprecated `mprop`: read = `get_match(path, data, must_match=False)` -/
def mpropGet (stepsOf : Heap → List (Step Val)) (h : Heap) (data : Val) : Except ApiErr (Option (MNode Val)) :=
  getMatch (wcx h) (stepsOf h).toArray (.doc data) false

/-- deprecated `pprop` / `mprop`: assign = `set_(path, value, data, cascade=True)` -/
def ppropSet (stepsOf : Heap → List (Step Val)) (h : Heap) (data : Val) (v : Val) : Heap × Except ApiErr (MNode Val) :=
  setMatch stepsOf (.doc data) true h v

end Treepath
