import Treepath.Model.Path
/-
L1: pointer-faithful model of `MatchTraverser` / `NestedMatchTraverser`.

Every `TraverserMatch` object is a cell of `St.heap`; the three mutable slots
(`remembered_catch_state`, `remembered_on_catch_match`, `remembered_on_catch_action`) are
fields of the cell.  A live Python iterator is represented by the items it has not yet
produced.  Each Python method is transcribed slot for slot (names kept).
-/
namespace Treepath

inductive Act where | init | report | match_ | catch_ | done
  deriving DecidableEq, Repr, Inhabited

/-- one `TraverserMatch` object -/
structure TM (α : Type) where
  node : MNode α
  realParent : Option Nat
  vertex : Nat                                 -- index of `.vertex` in `vertex_path`
  vidx : Nat                                   -- `.vertex_index`
  catchState : Option (List (Name × α)) := none   -- `.remembered_catch_state`
  ocm : Option Nat                             -- `.remembered_on_catch_match`
  oca : Act                                    -- `.remembered_on_catch_action`
  deriving Inhabited

structure St (α : Type) where
  heap : Array (TM α) := #[]
  cur : Option Nat := none                     -- `current_match`
  act : Act := .init                           -- `_invoke_next_action` (after `__iter__`)
  rootPtr : Option Nat := none                 -- `root_match`
  deriving Inhabited

inductive Sig (α : Type) where
  | none
  | result (n : MNode α)
  | stop
  | raised (e : Exc)
  | bug (msg : String)
  deriving Inhabited

variable {α : Type}

/-- allocate a new `TraverserMatch`; its address is the old `heap.size` -/
def push (st : St α) (tm : TM α) : St α := { st with heap := st.heap.push tm }

/-- `remember_on_catch(match, state)` -/
def remember (st : St α) (p : Nat) (its : List (Name × α)) : St α :=
  { st with heap := st.heap.modify p fun tm =>
      { tm with catchState := some its, ocm := some p, oca := .match_ } }

/-- `restore_on_catch(match)` (after the `fix:` commit: the root installs `done_action`). -/
def restore (st : St α) (p : Nat) : St α :=
  if st.rootPtr = some p then
    { st with heap := st.heap.modify p fun tm => { tm with catchState := none, ocm := none, oca := .done } }
  else
    match st.heap[p]? with
    | some tm =>
      match tm.realParent.bind (st.heap[·]?) with
      | some q => { st with heap := st.heap.modify p fun tm =>
                      { tm with catchState := none, ocm := q.ocm, oca := q.oca } }
      | none => st
    | none => st

/-- advance the live iterator parked on `p` -/
def setIts (st : St α) (p : Nat) (its : List (Name × α)) : St α :=
  { st with heap := st.heap.modify p fun tm => { tm with catchState := some its } }

/-- result of `vertex.match(...)` -/
inductive MR (α : Type) where
  | ok (st : St α) (nm : Option Nat) (evs : List (Ev α))
  | abort (st : St α) (sig : Sig α) (evs : List (Ev α))

/-- a new match derived from the match in cell `p` (whose current record is `tm`): it
copies `tm`'s resume pointer -/
def derive (tm : TM α) (p : Nat) (node : MNode α) (vertex vidx : Nat) : TM α :=
  { node := node, realParent := some p, vertex := vertex, vidx := vidx, ocm := tm.ocm, oca := tm.oca }

section
variable (view : α → View α)

/-- the common tail of every multi-valued `match`: `next(iterator)` → new match, or
`StopIteration` → `restore_on_catch`.  `tm` is the record of cell `p` *after* a possible
`remember_on_catch`. -/
def iterStep (st : St α) (p : Nat) (tm : TM α) (vi : Nat) (its : List (Name × α)) : MR α :=
  match its with
  | (nm, x) :: tl =>
    let q := st.heap.size      -- read before the store is updated (keeps the array uniquely referenced)
    .ok (push (setIts st p tl) (derive tm p (.child tm.node nm x) vi vi)) (some q) []
  | [] => .ok (restore st p) none []

def vmatchSingle (st : St α) (p : Nat) (tm : TM α) (vi : Nat) (s : Step α) : MR α :=
  match singleOf view s tm.node with
  | none => .ok st none []
  | some n' =>
    let q := st.heap.size
    .ok (push st (derive tm p n' vi vi)) (some q) []

def vmatchFilter (st : St α) (p : Nat) (tm : TM α) (vi : Nat) (f : Pred α) : MR α :=
  match (f tm.node).res with
  | .val j =>
    if j.truthy then
      let q := st.heap.size
      .ok (push st (derive tm p (.imag tm.node) vi vi)) (some q) (.predCall tm.node :: (f tm.node).evs)
    else .ok st none (.predCall tm.node :: (f tm.node).evs)
  | .raise e =>
    .abort st (.raised (.traversing e)) (.predCall tm.node :: (f tm.node).evs ++ [.raised (.traversing e)])

def parked (tm : TM α) (p : Nat) (its : List (Name × α)) : TM α :=
  { tm with catchState := some its, ocm := some p, oca := .match_ }

def vmatchMulti (st : St α) (p : Nat) (tm : TM α) (vi : Nat) (s : Step α) : MR α :=
  match tm.catchState with
  | some its => iterStep st p tm vi its
  | none =>
    match itemsOf s (view tm.node.data) with
    | .wrongKind => .ok st none []
    | .valueError => .abort st (.raised (.user "ValueError")) [.raised (.user "ValueError")]
    | .ok its => iterStep (remember st p its) p (parked tm p its) vi its

def vmatchRecur (st : St α) (p : Nat) (tm : TM α) (vi : Nat) : MR α :=
  match tm.catchState with
  | none =>
    match allItems (view tm.node.data) with
    | none => .ok st none []
    | some its =>
      let q := st.heap.size
      .ok (push (remember st p its) (derive (parked tm p its) p (.imag tm.node) vi vi)) (some q) []
  | some [] => .ok (restore st p) none []
  | some ((nm, x) :: tl) =>
    -- the child is created with the recursive vertex but `vertex_index - 1`; then the single
    -- self-call `self.match(match, traverser, vertex_index)` on the fresh child
    match allItems (view x) with
    | none =>
      let q := st.heap.size
      .ok (push (setIts st p tl) (derive tm p (.child tm.node nm x) vi (vi - 1))) (some q) []
    | some cits =>
      let q := st.heap.size
      let child : TM α := derive tm p (.child tm.node nm x) vi (vi - 1)
      .ok (push (push (setIts st p tl) (parked child q cits))
                (derive (parked child q cits) q (.imag (.child tm.node nm x)) vi vi))
          (some (q + 1)) []

/-- `next_vertex.match(current_match, traverser, vertex_index)`; `tm` = record of cell `p` -/
def vmatch (st : St α) (p : Nat) (tm : TM α) (vi : Nat) (s : Step α) : MR α :=
  match s with
  | .filter f => vmatchFilter st p tm vi f
  | .recur => vmatchRecur view st p tm vi
  | .key _ | .idx _ | .parent => vmatchSingle view st p tm vi s
  | _ => vmatchMulti view st p tm vi s

variable (steps : Array (Step α))

/-- what `init_action` creates: `RootMatch` over the document, or (nested traverser) an
`ImaginaryMatch` whose real parent is the foreign match the search starts from. -/
inductive Src (α : Type) where
  | doc (d : α)
  | nested (m : MNode α)

def Src.rootNode : Src α → MNode α
  | .doc d => .root d
  | .nested m => .imag m

def initAction (src : Src α) (st : St α) : St α × List (Ev α) × Sig α :=
  ({ heap := st.heap.push { node := src.rootNode, realParent := none, vertex := 0, vidx := 0,
                            ocm := some st.heap.size, oca := .done },
     cur := some st.heap.size, rootPtr := some st.heap.size, act := .report }, [], .none)

def reportAction (st : St α) (tm : TM α) : St α × List (Ev α) × Sig α :=
  if tm.vertex = steps.size then ({ st with act := .catch_ }, [.result tm.node], .result tm.node)
  else ({ st with act := .match_ }, [], .none)

def catchAction (st : St α) (tm : TM α) : St α × List (Ev α) × Sig α :=
  ({ st with cur := tm.ocm, act := tm.oca }, [], .none)

/-- `match_action` with `current_match` in cell `c` (record `tm`) -/
def matchAction (st : St α) (c : Nat) (tm : TM α) : St α × List (Ev α) × Sig α :=
  match steps[tm.vidx]? with
  | none => (st, [], .bug "vertex index out of range")
  | some s =>
    match vmatch view st c tm (tm.vidx + 1) s with
    | .abort st' sig evs => (st', evs, sig)
    | .ok st' (some q) evs =>
      ({ st' with cur := some q, act := .report },
       evs ++ [.attempt tm.node (tm.vidx + 1) ((st'.heap[q]?).map (·.node)) none], .none)
    | .ok st' none evs =>
      match st'.heap[c]? with
      | some tm' => ({ st' with cur := tm'.ocm, act := tm'.oca }, evs ++ [.attempt tm.node (tm.vidx + 1) none none], .none)
      | none => (st', [], .bug "dangling")

/-- the record of `current_match` -/
def curTM (st : St α) : Option (Nat × TM α) :=
  match st.cur with
  | none => none
  | some c => (st.heap[c]?).map fun tm => (c, tm)

/-- one `_invoke_next_action()` -/
def action (src : Src α) (st : St α) : St α × List (Ev α) × Sig α :=
  match st.act with
  | .init => initAction src st
  | .done => (st, [.stop], .stop)
  | .report => match curTM st with
    | some (_, tm) => reportAction steps st tm
    | none => (st, [], .bug "no current match")
  | .catch_ => match curTM st with
    | some (_, tm) => catchAction st tm
    | none => (st, [], .bug "no current match")
  | .match_ => match curTM st with
    | some (c, tm) => matchAction view steps st c tm
    | none => (st, [], .bug "no current match")

/-- `__next__`: at most `limit` actions; when the counter reaches zero
`InfiniteLoopDetected` is raised even if that very action produced a result. -/
def next (src : Src α) : (limit : Nat) → St α → St α × List (Ev α) × Sig α
  | 0, st => (st, [.raised .loopDetected], .raised .loopDetected)
  | limit+1, st =>
    match action view steps src st with
    | (st', evs, .none) =>
      if limit = 0 then (st', evs ++ [.raised .loopDetected], .raised .loopDetected)
      else
        match next src limit st' with
        | (st'', evs', sig') => (st'', evs ++ evs', sig')
    | (st', evs, .result n) =>
      if limit = 0 then (st', evs ++ [.raised .loopDetected], .raised .loopDetected)
      else (st', evs, .result n)
    | r => r

end
end Treepath
