import Treepath.Model.Path
/-
L1: pointer-faithful model of `MatchTraverser` / `NestedMatchTraverser`.

Every `TraverserMatch` object is a cell of `St.heap`; the three mutable slots
(`remembered_catch_state`, `remembered_on_catch_match`, `remembered_on_catch_action`) are
fields of the cell.  A live Python iterator is represented by the items it has not yet
produced.  Each Python method is transcribed slot for slot (names kept).
-/
namespace Treepath

inductive Act where | init | report | match_ | catch_ | done
  deriving DecidableEq, Repr, Inhabited

/-- one `TraverserMatch` object -/
structure TM (α : Type) where
  node : MNode α
  realParent : Option Nat
  vertex : Nat                                 -- index of `.vertex` in `vertex_path`
  vidx : Nat                                   -- `.vertex_index`
  catchState : Option (List (Name × α)) := none   -- `.remembered_catch_state`
  ocm : Option Nat                             -- `.remembered_on_catch_match`
  oca : Act                                    -- `.remembered_on_catch_action`
  deriving Inhabited

structure St (α : Type) where
  heap : Array (TM α) := #[]
  cur : Option Nat := none                     -- `current_match`
  act : Act := .init                           -- `_invoke_next_action` (after `__iter__`)
  rootPtr : Option Nat := none                 -- `root_match`
  deriving Inhabited

inductive Sig (α : Type) where
  | none
  | result (n : MNode α)
  | stop
  | raised (e : Exc)
  | bug (msg : String)
  deriving Inhabited

variable {α : Type}

def alloc (st : St α) (tm : TM α) : St α × Nat :=
  ({ st with heap := st.heap.push tm }, st.heap.size)

/-- `remember_on_catch(match, state)` -/
def remember (st : St α) (p : Nat) (its : List (Name × α)) : St α :=
  { st with heap := st.heap.modify p fun tm =>
      { tm with catchState := some its, ocm := some p, oca := .match_ } }

/-- `restore_on_catch(match)` (after the `fix:` commit: the root installs `done_action`). -/
def restore (st : St α) (p : Nat) : St α :=
  if st.rootPtr == some p then
    { st with heap := st.heap.modify p fun tm => { tm with catchState := none, ocm := none, oca := .done } }
  else
    match st.heap[p]? with
    | some tm =>
      match tm.realParent.bind (st.heap[·]?) with
      | some q => { st with heap := st.heap.modify p fun tm =>
                      { tm with catchState := none, ocm := q.ocm, oca := q.oca } }
      | none => st
    | none => st

/-- advance the live iterator parked on `p` -/
def setIts (st : St α) (p : Nat) (its : List (Name × α)) : St α :=
  { st with heap := st.heap.modify p fun tm => { tm with catchState := some its } }

/-- result of `vertex.match(...)` -/
inductive MR (α : Type) where
  | ok (st : St α) (nm : Option Nat) (evs : List (Ev α))
  | abort (st : St α) (sig : Sig α) (evs : List (Ev α))

section
variable (view : α → View α)

/-- the common tail of every multi-valued `match`: `next(iterator)` → new match, or
`StopIteration` → `restore_on_catch`. -/
def iterStep (st : St α) (p : Nat) (vi : Nat) (its : List (Name × α)) : MR α :=
  match its with
  | (nm, x) :: tl =>
    let st := setIts st p tl
    match st.heap[p]? with
    | some tm =>
      let (st', q) := alloc st { node := .child tm.node nm x, realParent := some p, vertex := vi,
                                 vidx := vi, ocm := tm.ocm, oca := tm.oca }
      .ok st' (some q) []
    | none => .abort st (.bug "dangling") []
  | [] => .ok (restore st p) none []

/-- `next_vertex.match(current_match, traverser, vertex_index)` -/
def vmatch (st : St α) (p : Nat) (vi : Nat) (s : Step α) : MR α :=
  match st.heap[p]? with
  | none => .abort st (.bug "dangling") []
  | some tm =>
  match s.cls with
  | .single =>
    match singleOf view s tm.node with
    | none => .ok st none []
    | some n' =>
      let (st', q) := alloc st { node := n', realParent := some p, vertex := vi, vidx := vi,
                                 ocm := tm.ocm, oca := tm.oca }
      .ok st' (some q) []
  | .filter =>
    match s with
    | .filter f =>
      let out := f tm.node
      match out.res with
      | .val j =>
        if j.truthy then
          let (st', q) := alloc st { node := .imag tm.node, realParent := some p, vertex := vi,
                                     vidx := vi, ocm := tm.ocm, oca := tm.oca }
          .ok st' (some q) (.predCall tm.node :: out.evs)
        else .ok st none (.predCall tm.node :: out.evs)
      | .raise e =>
        .abort st (.raised (.traversing e)) (.predCall tm.node :: out.evs ++ [.raised (.traversing e)])
    | _ => .abort st (.bug "cls") []
  | .multi =>
    match tm.catchState with
    | some its => iterStep st p vi its
    | none =>
      match itemsOf s (view tm.node.data) with
      | .wrongKind => .ok st none []
      | .valueError => .abort st (.raised (.user "ValueError")) [.raised (.user "ValueError")]
      | .ok its => iterStep (remember st p its) p vi its
  | .recur =>
    match tm.catchState with
    | none =>
      match allItems (view tm.node.data) with
      | none => .ok st none []
      | some its =>
        let st := remember st p its
        let (st', q) := alloc st { node := .imag tm.node, realParent := some p, vertex := vi,
                                   vidx := vi, ocm := some p, oca := .match_ }
        .ok st' (some q) []
    | some [] => .ok (restore st p) none []
    | some ((nm, x) :: tl) =>
      let st := setIts st p tl
      let m := MNode.child tm.node nm x
      let (st, q) := alloc st { node := m, realParent := some p, vertex := vi, vidx := vi - 1,
                                ocm := tm.ocm, oca := tm.oca }
      -- the single self-call `self.match(match, traverser, vertex_index)` on the fresh child
      match allItems (view x) with
      | none => .ok st (some q) []
      | some cits =>
        let st := remember st q cits
        let (st, r) := alloc st { node := .imag m, realParent := some q, vertex := vi, vidx := vi,
                                  ocm := some q, oca := .match_ }
        .ok st (some r) []

variable (steps : Array (Step α))

/-- what `init_action` creates: `RootMatch` over the document, or (nested traverser) an
`ImaginaryMatch` whose real parent is the foreign match the search starts from. -/
inductive Src (α : Type) where
  | doc (d : α)
  | nested (m : MNode α)

def Src.rootNode : Src α → MNode α
  | .doc d => .root d
  | .nested m => .imag m

/-- one `_invoke_next_action()` -/
def action (src : Src α) (st : St α) : St α × List (Ev α) × Sig α :=
  match st.act with
  | .init =>
    let (st', r) := alloc st { node := src.rootNode, realParent := none, vertex := 0, vidx := 0,
                               ocm := some st.heap.size, oca := .done }
    ({ st' with cur := some r, rootPtr := some r, act := .report }, [], .none)
  | .report =>
    match st.cur.bind (st.heap[·]?) with
    | some tm =>
      if tm.vertex == steps.size then ({ st with act := .catch_ }, [.result tm.node], .result tm.node)
      else ({ st with act := .match_ }, [], .none)
    | none => (st, [], .bug "report: no current")
  | .match_ =>
    match st.cur, st.cur.bind (st.heap[·]?) with
    | some c, some tm =>
      let nvi := tm.vidx + 1
      match steps[nvi - 1]? with
      | none => (st, [], .bug "vertex index out of range")
      | some s =>
        match vmatch view st c nvi s with
        | .abort st' sig evs => (st', evs, sig)
        | .ok st' (some q) evs =>
          let nn := (st'.heap[q]?).map (·.node)
          ({ st' with cur := some q, act := .report }, evs ++ [.attempt tm.node nvi nn none], .none)
        | .ok st' none evs =>
          match st'.heap[c]? with
          | some tm' => ({ st' with cur := tm'.ocm, act := tm'.oca }, evs ++ [.attempt tm.node nvi none none], .none)
          | none => (st', [], .bug "dangling")
    | _, _ => (st, [], .bug "match: no current")
  | .catch_ =>
    match st.cur.bind (st.heap[·]?) with
    | some tm => ({ st with cur := tm.ocm, act := tm.oca }, [], .none)
    | none => (st, [], .bug "catch: no current")
  | .done => (st, [.stop], .stop)

/-- `__next__`: at most `limit` actions; when the counter reaches zero
`InfiniteLoopDetected` is raised even if that very action produced a result. -/
def next (src : Src α) : (limit : Nat) → St α → St α × List (Ev α) × Sig α
  | 0, st => (st, [.raised .loopDetected], .raised .loopDetected)
  | limit+1, st =>
    let (st', evs, sig) := action view steps src st
    match sig with
    | .none =>
      if limit = 0 then (st', evs ++ [.raised .loopDetected], .raised .loopDetected)
      else
        let (st'', evs', sig') := next src limit st'
        (st'', evs ++ evs', sig')
    | .result n =>
      if limit = 0 then (st', evs ++ [.raised .loopDetected], .raised .loopDetected)
      else (st', evs, .result n)
    | _ => (st', evs, sig)

end
end Treepath
