import Treepath.Model.Machine
import Treepath.Generated.Budget
/-
The has-family predicates (`has_function.py`, `traverser_functions.py`): closures that run a
*nested* traverser from the candidate match and stop at the first success.
-/
namespace Treepath

/-- what the model needs to know about the document type -/
structure Ctx (α : Type) where
  view : α → View α
  toJ : α → J
  limit : Nat := Generated.loopBudget      -- action budget of one `__next__` (generated from the source)
  fuel : Nat := 100000000     -- bound on the number of `next()` calls of one `for` loop

variable {α : Type}

/-- `trace.predicate_match = self` only if it is not set yet (the innermost candidate wins) -/
def Ev.stampIfNone (c : MNode α) : Ev α → Ev α
  | .attempt l vi nx none => .attempt l vi nx (some c)
  | e => e

/-- a conversion function / operator applied to a selected value -/
structure Fn where
  name : String
  run : J → Except Exc J

/-- one application in `f1(...fn(x)...)`, logging the call -/
def applyFnStep {α} (acc : List (Ev α) × Except Exc J) (f : Fn) : List (Ev α) × Except Exc J :=
  match acc with
  | (evs, .ok v) => (evs ++ [Ev.fnCall f.name v], f.run v)
  | (evs, .error e) => (evs, .error e)

/-- apply `f1(...fn(x)...)`: the functions are applied right-to-left -/
def applyFns {α} : List Fn → J → List (Ev α) × Except Exc J
  | [], x => ([], .ok x)
  | fns, x => fns.reverse.foldl applyFnStep ([], .ok x)

/-- not a result / `StopIteration` / raise of the search that emitted it (those belong to the
nested search's own consumer, the has-loop, and are not part of the outer trace) -/
def Ev.isClean : Ev α → Bool
  | .result _ | .stop | .raised _ => false
  | _ => true

/-- `for next_match in nested_find_matches(path, c): if test(next_match.data): return True`
/ `return False`, as a loop over `next()` of a nested traverser rooted at `imag c`. -/
def hasLoop (cx : Ctx α) (steps : Array (Step α)) (c : MNode α)
    (test : J → List (Ev α) × Except Exc J) : Nat → St α → List (Ev α) × PRes
  | 0, _ => ([], .raise (.user "FUEL"))
  | fuel+1, st =>
    let (st', evs, sig) := next cx.view steps (.nested c) cx.limit st
    let evs := evs.filter Ev.isClean
    let evs := evs.map (Ev.stampIfNone c)
    match sig with
    | .result n =>
      let (tevs, r) := test (cx.toJ n.data)
      match r with
      | .ok v => if v.truthy then (evs ++ tevs, .val (.bool true))
                 else
                   let (evs', res) := hasLoop cx steps c test fuel st'
                   (evs ++ tevs ++ evs', res)
      | .error e => (evs ++ tevs, .raise e)
    | .stop => (evs, .val (.bool false))
    | .raised e => (evs, .raise e)
    | .none => (evs, .raise (.user "BUG"))
    | .bug m => (evs, .raise (.user ("BUG:" ++ m)))

/-- the test a has-predicate applies to one selected value: `op (f1 (… (fn x)))`;
with neither functions nor operator, existence alone -/
def hasTest (op : Option Fn) (fns : List Fn) : J → List (Ev α) × Except Exc J := fun x =>
  match op, fns with
  | none, [] => ([], .ok (.bool true))
  | _, _ =>
    let (evs, r) := applyFns fns x
    match r, op with
    | .ok v, some o => (evs, o.run v)
    | .ok v, none => (evs, .ok v)
    | .error e, _ => (evs, .error e)

/-- `has(path)`, `has(path <op> v)`, `has(path, f1, …)`, `has(path <op> v, f1, …)`:
`op` is `none` for a bare path. -/
def has (cx : Ctx α) (steps : List (Step α)) (op : Option Fn) (fns : List Fn) : Pred α := fun c =>
  let (evs, res) := hasLoop cx steps.toArray c (hasTest op fns) cx.fuel {}
  { evs := evs, res := res }

/-- `has_not(...)`: `not predicate(match)` -/
def hasNot (p : Pred α) : Pred α := fun c =>
  let o := p c
  match o.res with
  | .val j => { evs := o.evs, res := .val (.bool (!j.truthy)) }
  | .raise e => { evs := o.evs, res := .raise e }

/-- `has_all(p1, …)`: left-to-right short-circuit `and`; `has_all()` is true -/
def hasAll : List (Pred α) → Pred α
  | [] => fun _ => { evs := [], res := .val (.bool true) }
  | p :: ps => fun c =>
    let o := p c
    match o.res with
    | .val j =>
      if j.truthy then
        let o' := hasAll ps c
        { evs := o.evs ++ o'.evs, res := o'.res }
      else { evs := o.evs, res := .val (.bool false) }
    | .raise e => { evs := o.evs, res := .raise e }

/-- `has_any(p1, …)`: left-to-right short-circuit `or`; `has_any()` is false -/
def hasAny : List (Pred α) → Pred α
  | [] => fun _ => { evs := [], res := .val (.bool false) }
  | p :: ps => fun c =>
    let o := p c
    match o.res with
    | .val j =>
      if j.truthy then { evs := o.evs, res := .val (.bool true) }
      else
        let o' := hasAny ps c
        { evs := o.evs ++ o'.evs, res := o'.res }
    | .raise e => { evs := o.evs, res := .raise e }

end Treepath
