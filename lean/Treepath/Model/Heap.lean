import Treepath.Model.Api
/-
A Python-like object store for the writers: dicts and lists are objects with identity,
values are scalars or references.  `hview` makes the heap an instance of the generic
traverser, so `set_` / `pop` literally run the modelled `get_match`.
-/
namespace Treepath

inductive Val where
  | atom (j : J)        -- a scalar (null, bool, int, float, str)
  | ref (id : Nat)      -- a dict or list object
  deriving Repr, Inhabited

inductive Obj where
  | dict (es : List (String × Val))
  | list (xs : List Val)
  deriving Repr, Inhabited

abbrev Heap := Array Obj

def hview (h : Heap) : Val → View Val
  | .atom _ => .scalar
  | .ref id =>
    match h[id]? with
    | some (.dict es) => .dict es
    | some (.list xs) => .list xs
    | none => .scalar

/-- the JSON value a heap value unfolds to (fuel bounds the depth: cyclic heaps are cut) -/
def unfoldVal (h : Heap) : Nat → Val → J
  | _, .atom j => j
  | 0, .ref _ => .null
  | fuel+1, .ref id =>
    match h[id]? with
    | some (.dict es) => .obj (es.map fun (k, v) => (k, unfoldVal h fuel v))
    | some (.list xs) => .arr (xs.map (unfoldVal h fuel))
    | none => .null

/-- load a JSON tree into the heap: every container becomes a fresh object -/
def allocJ : Heap → J → Heap × Val
  | h, .arr xs =>
    let r := allocList h xs
    (r.1.push (.list r.2), .ref r.1.size)
  | h, .obj kvs =>
    let r := allocKvs h kvs
    (r.1.push (.dict r.2), .ref r.1.size)
  | h, j => (h, .atom j)
where
  allocList : Heap → List J → Heap × List Val
    | h, [] => (h, [])
    | h, x :: xs =>
      let r := allocJ h x
      let r' := allocList r.1 xs
      (r'.1, r.2 :: r'.2)
  allocKvs : Heap → List (String × J) → Heap × List (String × Val)
    | h, [] => (h, [])
    | h, (k, x) :: xs =>
      let r := allocJ h x
      let r' := allocKvs r.1 xs
      (r'.1, (k, r.2) :: r'.2)

/-! ### the container primitives (CPython semantics) -/

/-- `d[k] = v` on a dict: replace in place (position kept) or add at the end -/
def dictSet : List (String × Val) → String → Val → List (String × Val)
  | [], k, v => [(k, v)]
  | (k', v') :: es, k, v => if k' = k then (k, v) :: es else (k', v') :: dictSet es k v

/-- the dict without key `k` (order of the rest kept) -/
def dictErase : List (String × Val) → String → List (String × Val)
  | [], _ => []
  | (k', v') :: es, k => if k' = k then es else (k', v') :: dictErase es k

/-- `del d[k]` / `d.pop(k)`: `none` = `KeyError` -/
def dictDel (es : List (String × Val)) (k : String) : Option (Val × List (String × Val)) :=
  match es.lookup k with
  | some v => some (v, dictErase es k)
  | none => none

/-- normalise a Python index against a length; `none` = `IndexError` -/
def normIndex (len : Nat) (i : Int) : Option Nat :=
  if 0 ≤ i then (if i.toNat < len then some i.toNat else none)
  else if (-i).toNat ≤ len then some (len - (-i).toNat) else none

/-- `l[i] = v`: `none` = `IndexError` -/
def listSet (xs : List Val) (i : Int) (v : Val) : Option (List Val) :=
  (normIndex xs.length i).map fun k => xs.set k v

/-- `del l[i]` / `l.pop(i)`: `none` = `IndexError` -/
def listDel (xs : List Val) (i : Int) : Option (Val × List Val) :=
  match normIndex xs.length i with
  | some k => (xs[k]?).map fun v => (v, xs.eraseIdx k)
  | none => none

end Treepath
