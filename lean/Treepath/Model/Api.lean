import Treepath.Model.Has
/-
The read API on top of the machine: `find_matches` / `find` (iterators), `get_match`, `get`.
An iterator is a machine state; the API functions are transcriptions of
`traverser_functions.py`.
-/
namespace Treepath

inductive ApiErr where
  | matchNotFound
  | nestedMatchNotFound
  | setError
  | popError
  | exc (e : Exc)
  | bug (m : String)
  deriving Repr, Inhabited, DecidableEq

variable {α : Type}

/-- `iter(MatchTraverser(...))`: a fresh iterator -/
def freshIter : St α := {}

/-- `MatchTraverser.__iter__`: the next action is `init_action`; nothing else is touched -/
def reiter (st : St α) : St α := { st with act := .init }

/-- is the data source a `Match` (nested traverser) -/
def Src.isNested : Src α → Bool
  | .doc _ => false
  | .nested _ => true

/-- outcome of one `next()` seen by a caller -/
inductive NextOut (α : Type) where
  | item (n : MNode α)
  | stopIteration
  | error (e : Exc)
  | bug (m : String)

def nextOut (cx : Ctx α) (steps : Array (Step α)) (src : Src α) (st : St α) : St α × List (Ev α) × NextOut α :=
  let (st', evs, sig) := next cx.view steps src cx.limit st
  match sig with
  | .result n => (st', evs, .item n)
  | .stop => (st', evs, .stopIteration)
  | .raised e => (st', evs, .error e)
  | .none => (st', evs, .bug "none")
  | .bug m => (st', evs, .bug m)

/-- `list(itertools.islice(find_matches(...), fuel))`, stopping at `StopIteration` or an error -/
def drain (cx : Ctx α) (steps : Array (Step α)) (src : Src α) : Nat → St α → List (MNode α) × Option Exc
  | 0, _ => ([], none)
  | fuel+1, st =>
    match nextOut cx steps src st with
    | (st', _, .item n) =>
      let r := drain cx steps src fuel st'
      (n :: r.1, r.2)
    | (_, _, .stopIteration) => ([], none)
    | (_, _, .error e) => ([], some e)
    | (_, _, .bug m) => ([], some (.user ("BUG:" ++ m)))

/-- `get_match(expr, data, must_match)` -/
def getMatch (cx : Ctx α) (steps : Array (Step α)) (src : Src α) (mustMatch : Bool) :
    Except ApiErr (Option (MNode α)) :=
  match nextOut cx steps src freshIter with
  | (_, _, .item n) => .ok (some n)
  | (_, _, .stopIteration) =>
    if mustMatch then .error (if src.isNested then .nestedMatchNotFound else .matchNotFound) else .ok none
  | (_, _, .error e) => .error (.exc e)
  | (_, _, .bug m) => .error (.bug m)

/-- the `default` argument of `get` -/
inductive Default (β : Type) where
  | notSet
  | const (v : β)
  | callable (f : Unit → β)

/-- `get(expr, data, default)` without `store_default`; the `Nat` counts calls of a callable
default -/
def get (cx : Ctx α) (steps : Array (Step α)) (src : Src α) (dflt : Default α) : Except ApiErr (α × Nat) :=
  let mustMatch := match dflt with | .notSet => true | _ => false
  match getMatch cx steps src mustMatch with
  | .ok (some n) => .ok (n.data, 0)
  | .ok none =>
    match dflt with
    | .notSet => .error (.bug "unreachable")
    | .const v => .ok (v, 0)
    | .callable f => .ok (f (), 1)
  | .error e => .error e

/-! ### `Match.__eq__` -/

/-- what `Match.__eq__` looks at, along the `.parent` links: `(data_name, data)` of the match,
of its parent, … (`imag` matches forward to the match they stand for; the parent of a `par`
match is the match it was derived from) -/
def MNode.ndChain : MNode J → List (Name × J)
  | .root d => [(.key "$", d)]
  | .child p nm d => (nm, d) :: p.ndChain
  | .imag p => p.ndChain
  | .par r f => (r.dataName, r.data) :: f.ndChain

def ndChainEq : List (Name × J) → List (Name × J) → Bool
  | [], [] => true
  | (n, d) :: as, (n', d') :: bs => J.pyEq d d' && (n == n') && ndChainEq as bs
  | _, _ => false

/-- `a == b` for two matches (identity short-cuts aside: they only matter for values that are
not equal to themselves): `self.data == other.data and self.data_name == other.data_name and
self.parent == other.parent`, where `None == None` and a match never equals `None` -/
def matchEq (a b : MNode J) : Bool := ndChainEq a.ndChain b.ndChain

end Treepath
