import Treepath.Model.Has
/-
The closed set of conversion functions / comparison operators the correspondence harness
uses inside has-predicates, with their CPython behaviour on JSON values, and the
first-match helpers used by custom "neighbour" predicates.
-/
namespace Treepath

def pyIntOfStr (s : String) : Option Int :=
  let t := s.trimAscii.toString
  let (neg, body) :=
    if t.startsWith "-" then (true, (t.drop 1).toString)
    else if t.startsWith "+" then (false, (t.drop 1).toString) else (false, t)
  if body.isEmpty then none
  else if body.all Char.isDigit then
    let v : Int := body.toNat!
    some (if neg then -v else v)
  else none

def fnInt : J → Except Exc J
  | .bool b => .ok (.int (if b then 1 else 0))
  | .int i => .ok (.int i)
  | .half n => .ok (.int (Int.tdiv n 2))
  | .str s => match pyIntOfStr s with | some v => .ok (.int v) | none => .error (.user "ValueError")
  | _ => .error (.user "TypeError")

def fnLen : J → Except Exc J
  | .str s => .ok (.int s.length)
  | .arr xs => .ok (.int xs.length)
  | .obj kvs => .ok (.int kvs.length)
  | _ => .error (.user "TypeError")

def fnNeg : J → Except Exc J
  | .bool b => .ok (.int (if b then -1 else 0))
  | .int i => .ok (.int (-i))
  | .half n => .ok (.half (-n))
  | _ => .error (.user "TypeError")

def fnAbs : J → Except Exc J
  | .bool b => .ok (.int (if b then 1 else 0))
  | .int i => .ok (.int i.natAbs)
  | .half n => .ok (.half n.natAbs)
  | _ => .error (.user "TypeError")

def fnFirst : J → Except Exc J
  | .arr (x :: _) => .ok x
  | .arr [] => .error (.user "IndexError")
  | .str s => match s.toList with
    | c :: _ => .ok (.str (String.singleton c))
    | [] => .error (.user "IndexError")
  | .obj _ => .error (.user "KeyError")
  | _ => .error (.user "TypeError")

def fnBoomIfStr : J → Except Exc J
  | .str _ => .error (.user "Boom")
  | x => .ok x

def fnByName (name : String) : Option Fn :=
  match name with
  | "int" => some ⟨name, fnInt⟩
  | "len" => some ⟨name, fnLen⟩
  | "truth" => some ⟨name, fun x => .ok (.bool x.truthy)⟩
  | "not" => some ⟨name, fun x => .ok (.bool (!x.truthy))⟩
  | "neg" => some ⟨name, fnNeg⟩
  | "abs" => some ⟨name, fnAbs⟩
  | "first" => some ⟨name, fnFirst⟩
  | "boom_if_str" => some ⟨name, fnBoomIfStr⟩
  | "ident" => some ⟨name, fun x => .ok x⟩
  | _ => none

/-- `path <op> const` as a one-argument operation -/
def cmpFn (op : CmpOp) (c : J) : Fn :=
  ⟨"cmp", fun x => match J.pyCmp op x c with
    | some b => .ok (.bool b)
    | none => .error (.user "TypeError")⟩

variable {α : Type}

/-- `nested_get_match(path, c, must_match=False)` run by a custom predicate on its candidate:
the first match of a nested traverser, with the trace stamped by the candidate. -/
def firstNested (cx : Ctx α) (steps : List (Step α)) (c : MNode α) :
    List (Ev α) × Except Exc (Option (MNode α)) :=
  let (_, evs, sig) := next cx.view steps.toArray (.nested c) cx.limit {}
  let evs := evs.filter (fun e => match e with | .result _ | .stop | .raised _ => false | _ => true)
  let evs := evs.map (Ev.stampIfNone c)
  match sig with
  | .result n => (evs, .ok (some n))
  | .stop => (evs, .ok none)
  | .raised e => (evs, .error e)
  | .none => (evs, .error (.user "BUG"))
  | .bug m => (evs, .error (.user ("BUG:" ++ m)))

end Treepath
