/-
L0: documents, names, views, derivation nodes, and the handful of CPython primitives the
library relies on.  Core Lean only (this file is linked into the driver).
-/
namespace Treepath

/-- JSON documents as Python sees them after `json.load`.  `half n` is the float `n/2`
(exactly representable, so no rounding is modelled). -/
inductive J where
  | null
  | bool (b : Bool)
  | int (i : Int)
  | half (n : Int)
  | str (s : String)
  | arr (xs : List J)
  | obj (kvs : List (String × J))
  deriving Repr, Inhabited

/-- `data_name` of a match: a dict key or a list index *as written / as enumerated*. -/
inductive Name where
  | key (s : String)
  | idx (i : Int)
  deriving DecidableEq, Repr, Inhabited

/-- What `isinstance(data, dict)` / `isinstance(data, list)` and iteration can see of a value. -/
inductive View (α : Type) where
  | scalar
  | dict (es : List (String × α))
  | list (xs : List α)

def J.view : J → View J
  | .arr xs => .list xs
  | .obj kvs => .dict kvs
  | _ => .scalar

/-! ### CPython primitives -/

/-- Python list indexing, negative indices included; `none` = `IndexError`. -/
def getPy? {β} (xs : List β) (i : Int) : Option β :=
  if 0 ≤ i then xs[i.toNat]? else
    if (-i).toNat ≤ xs.length then xs[xs.length - (-i).toNat]? else none

def enumFrom {β} : Nat → List β → List (Nat × β)
  | _, [] => []
  | n, x :: xs => (n, x) :: enumFrom (n+1) xs

/-- `slice(a,b,c).indices(len)` — the CPython algorithm (`PySlice_AdjustIndices` after
defaulting); `none` when `c = 0` (`ValueError`). -/
def sliceIndices (a b c : Option Int) (len : Nat) : Option (Int × Int × Int) :=
  let step := c.getD 1
  if step = 0 then none else
  let n : Int := len
  let lower : Int := if step < 0 then -1 else 0
  let upper : Int := if step < 0 then n - 1 else n
  let clamp (v : Int) : Int :=
    if v < 0 then (if v + n < lower then lower else v + n) else (if v > upper then upper else v)
  let start := match a with
    | none => if step < 0 then upper else lower
    | some v => clamp v
  let stop := match b with
    | none => if step < 0 then lower else upper
    | some v => clamp v
  some (start, stop, step)

/-- `list(range(start, stop, step))` for `step ≠ 0`, by counting the length first. -/
def rangeList (start stop step : Int) : List Int :=
  let cnt : Nat :=
    if step > 0 then (if start < stop then ((stop - start + step - 1) / step).toNat else 0)
    else if step < 0 then (if stop < start then ((start - stop + (-step) - 1) / (-step)).toNat else 0)
    else 0
  (List.range cnt).map fun (k : Nat) => start + step * Int.ofNat k

/-- `enumerate_slice(slice, list)`: the `(index, item)` pairs a slice step iterates. -/
def sliceItems {β} (a b c : Option Int) (xs : List β) : Option (List (Int × β)) :=
  match sliceIndices a b c xs.length with
  | none => none
  | some (s, e, st) => some ((rangeList s e st).filterMap fun i => (xs[i.toNat]?).map fun x => (i, x))

/-- Python truthiness of a JSON value. -/
def J.truthy : J → Bool
  | .null => false
  | .bool b => b
  | .int i => i != 0
  | .half n => n != 0
  | .str s => s != ""
  | .arr xs => !xs.isEmpty
  | .obj kvs => !kvs.isEmpty

/-- numeric value ×2 of a number-like JSON value (`bool ⊂ int`). -/
def J.num2? : J → Option Int
  | .bool b => some (if b then 2 else 0)
  | .int i => some (2 * i)
  | .half n => some n
  | _ => none

mutual
/-- Python `==` on JSON values: numeric tower, order-sensitive lists, order-insensitive dicts. -/
def J.pyEq : J → J → Bool
  | .null, .null => true
  | .str a, .str b => a == b
  | .arr xs, .arr ys => J.pyEqList xs ys
  | .obj xs, .obj ys => xs.length == ys.length && J.pyEqDict xs ys
  | a, b =>
    match a.num2?, b.num2? with
    | some x, some y => x == y
    | _, _ => false
def J.pyEqList : List J → List J → Bool
  | [], [] => true
  | x :: xs, y :: ys => J.pyEq x y && J.pyEqList xs ys
  | _, _ => false
/-- every entry of the left dict is present with an equal value in the right one -/
def J.pyEqDict : List (String × J) → List (String × J) → Bool
  | [], _ => true
  | (k, v) :: rest, ys => J.pyEqLookup k v ys && J.pyEqDict rest ys
def J.pyEqLookup (k : String) (v : J) : List (String × J) → Bool
  | [] => false
  | (k', v') :: ys => if k == k' then J.pyEq v v' else J.pyEqLookup k v ys
end

inductive CmpOp where | lt | le | eq | ne | gt | ge
  deriving DecidableEq, Repr, Inhabited

/-- three-way order result or `TypeError` -/
inductive Ord3 where | lt | eq | gt | typeError
  deriving DecidableEq, Repr

def ord3Int (x y : Int) : Ord3 := if x < y then .lt else if x = y then .eq else .gt

mutual
/-- Python rich ordering on JSON values (`<`-family): numbers with numbers, str with str,
list with list lexicographically; anything else is `TypeError`. -/
def J.ord3 : J → J → Ord3
  | .str a, .str b => if a < b then .lt else if a = b then .eq else .gt
  | .arr xs, .arr ys => J.ord3List xs ys
  | a, b =>
    match a.num2?, b.num2? with
    | some x, some y => ord3Int x y
    | _, _ => .typeError
/-- CPython's list comparison: skip the `==`-equal prefix, then order the first differing pair. -/
def J.ord3List : List J → List J → Ord3
  | [], [] => .eq
  | [], _ :: _ => .lt
  | _ :: _, [] => .gt
  | x :: xs, y :: ys => if J.pyEq x y then J.ord3List xs ys else J.ord3 x y
end

/-- `left <op> right` : value or `TypeError` -/
def J.pyCmp (op : CmpOp) (l r : J) : Option Bool :=
  match op with
  | .eq => some (J.pyEq l r)
  | .ne => some (!J.pyEq l r)
  | .lt => match J.ord3 l r with | .lt => some true | .typeError => none | _ => some false
  | .le => match J.ord3 l r with | .lt | .eq => some true | .typeError => none | _ => some false
  | .gt => match J.ord3 l r with | .gt => some true | .typeError => none | _ => some false
  | .ge => match J.ord3 l r with | .gt | .eq => some true | .typeError => none | _ => some false

end Treepath
