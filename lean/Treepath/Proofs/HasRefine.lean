import Treepath.Proofs.Drive
import Treepath.Spec.Has
/- the machine-level has-predicate computes the specification-level one -/
namespace Treepath

section
variable (steps : Array (Step J)) (src : Src J)

theorem Yields.snoc {limit : Nat} {st st' st'' : St J} {rs : List (MNode J)} {E evs : List (Ev J)} {n : MNode J}
    (hy : Yields J.view steps src limit st rs E st')
    (hn : next J.view steps src limit st' = (st'', evs, .result n)) :
    Yields J.view steps src limit st (rs ++ [n]) (E ++ evs) st'' := by
  induction hy with
  | nil st =>
    have := Yields.cons (view := J.view) (steps := steps) (src := src) (limit := limit) st st'' st'' evs n [] [] hn (.nil _)
    simpa using this
  | cons st st1 st2 evs0 m rs E h1 _ ih =>
    have := Yields.cons (view := J.view) (steps := steps) (src := src) (limit := limit) st st1 st'' evs0 m _ _ h1 (ih hn)
    simpa [List.append_assoc] using this

/-- under `Quiet` the only exception `next()` can raise is the loop budget -/
theorem next_raised_quiet (hq : Quiet steps.toList) (limit : Nat) (st st' : St J) (evs : List (Ev J)) (e : Exc)
    (h : next J.view steps src limit st = (st', evs, .raised e)) : e = .loopDetected := by
  induction limit generalizing st evs with
  | zero => simp only [next, Prod.mk.injEq, Sig.raised.injEq] at h; exact h.2.2.symm
  | succ limit ih =>
    unfold next at h
    rcases ha : action J.view steps src st with ⟨s1, e1, sig⟩
    rw [ha] at h
    cases sig with
    | none =>
      simp only at h
      split at h
      · simp only [Prod.mk.injEq, Sig.raised.injEq] at h; exact h.2.2.symm
      · rcases hn : next J.view steps src limit s1 with ⟨s2, e2, sig2⟩
        rw [hn] at h
        simp only [Prod.mk.injEq] at h
        obtain ⟨h1, _, h3⟩ := h
        subst h1; subst h3
        exact ih s1 e2 hn
    | result n =>
      simp only at h
      split at h
      · simp only [Prod.mk.injEq, Sig.raised.injEq] at h; exact h.2.2.symm
      · simp at h
    | raised x =>
      exact (action_no_raise_quiet J.view steps src hq st s1 e1 x ha).elim
    | bug m => simp at h
    | stop => simp at h

/-- outcomes of the has-loop that come from the traverser's budgets or the model's defensive
branches, not from the specification -/
def IsInfra (r : PRes) : Prop :=
  r = .raise .loopDetected ∨ r = .raise (.user "FUEL") ∨ r = .raise (.user "BUG") ∨ ∃ m, r = .raise (.user ("BUG:" ++ m))

theorem firstSuccess_snd_cons_falsy (test : J → List (Ev J) × Except Exc J) (n : MNode J) (ns : List (MNode J))
    (evs : List (Ev J)) (v : J) (h : test n.data = (evs, .ok v)) (hv : v.truthy = false) :
    (firstSuccess test (n :: ns) none).2 = (firstSuccess test ns none).2 := by
  simp [firstSuccess, h, hv]

/-- the loop of a has-predicate over the nested traverser, resumed after `rs` have been
yielded, computes the first-success search over the rest of the definition's answer -/
theorem hasLoop_refines (cx : Ctx J) (hv : cx.view = J.view) (hj : cx.toJ = id) (c : MNode J)
    (hq : Quiet steps.toList) (hp : PredsClean steps) (test : J → List (Ev J) × Except Exc J) :
    ∀ (fuel : Nat) (st : St J) (rs : List (MNode J)) (E : List (Ev J)) (rest : List (MNode J)),
      Yields J.view steps (.nested c) cx.limit freshIter rs E st →
      eval steps.toList (.imag c) = rs ++ rest →
      IsInfra (hasLoop cx steps c test fuel st).2 ∨
        (hasLoop cx steps c test fuel st).2 = (firstSuccess test rest none).2 := by
  intro fuel
  induction fuel with
  | zero => intro st rs E rest _ _; exact .inl (.inr (.inl rfl))
  | succ fuel ih =>
    intro st rs E rest hy hev
    unfold hasLoop
    rw [hv]
    rcases hn : next J.view steps (.nested c) cx.limit st with ⟨st', evs, sig⟩
    cases sig with
    | result n =>
      have hy' := Yields.snoc steps (.nested c) hy hn
      obtain ⟨rest', hr'⟩ := yields_prefix steps (.nested c) hq hp cx.limit st' _ _ hy'
      have hrest : rest = n :: rest' := by
        have h1 : rs ++ rest = rs ++ (n :: rest') := by
          rw [← hev]; simpa [List.append_assoc, Src.rootNode] using hr'
        exact List.append_cancel_left h1
      simp only [hj, id]
      rcases ht : test n.data with ⟨tevs, r⟩
      cases r with
      | ok v =>
        by_cases htr : v.truthy = true
        · simp only [htr, if_true]
          exact .inr (by rw [hrest]; simp [firstSuccess, ht, htr])
        · simp only [htr]
          have hvf : v.truthy = false := by simpa using htr
          have := ih st' (rs ++ [n]) _ rest' hy' (by rw [hev, hrest]; simp)
          rw [hrest, firstSuccess_snd_cons_falsy test n rest' tevs v ht hvf]
          simpa using this
      | error e =>
        exact .inr (by rw [hrest]; simp [firstSuccess, ht])
    | stop =>
      have := exhausted_all steps (.nested c) hq hp cx.limit st st' rs E evs hy hn
      have hrest : rest = [] := by
        have h1 : rs ++ rest = rs ++ [] := by rw [← hev]; simpa [Src.rootNode] using this.symm
        exact List.append_cancel_left h1
      exact .inr (by rw [hrest]; simp [firstSuccess])
    | raised e =>
      have := next_raised_quiet steps (.nested c) hq cx.limit st st' evs e hn
      subst this
      exact .inl (.inl rfl)
    | none => exact .inl (.inr (.inr (.inl rfl)))
    | bug m => exact .inl (.inr (.inr (.inr ⟨m, rfl⟩)))

/-- **the traverser's `has` is the specification's `has`**: unless a budget was exhausted, the
predicate built by `has(path [<op> v] [, f1, …])` over the nested *machine* returns what the
existential first-success search over `evalE` returns -/
theorem has_refines (cx : Ctx J) (hv : cx.view = J.view) (hj : cx.toJ = id) (ss : List (Step J))
    (hq : Quiet ss) (hp : PredsClean ss.toArray) (op : Option Fn) (fns : List Fn) (c : MNode J) :
    IsInfra (has cx ss op fns c).res ∨ (has cx ss op fns c).res = (hasS ss op fns c).res := by
  have hq' : Quiet ss.toArray.toList := by simpa using hq
  have hquiet := evalE_quiet ss hq (.imag c)
  have key := hasLoop_refines ss.toArray cx hv hj c hq' hp (hasTest op fns)
    cx.fuel freshIter [] [] (eval ss (.imag c)) (.nil _) (by simp)
  simp only [has, hasS]
  rcases hE : evalE ss (.imag c) with ⟨ns, e⟩
  rw [hE] at hquiet
  simp only at hquiet
  subst hquiet
  simp only [eval, hE] at key
  exact key

/-! ### the events of a has-predicate -/

theorem applyFns_evs (fns : List Fn) (x : J) : ∀ e ∈ (applyFns (α := J) fns x).1, ∃ nm v, e = Ev.fnCall nm v := by
  cases fns with
  | nil => simp [applyFns]
  | cons f fs =>
    simp only [applyFns]
    generalize (f :: fs).reverse = l
    suffices h : ∀ (l : List Fn) (acc : List (Ev J) × Except Exc J), (∀ e ∈ acc.1, ∃ nm v, e = Ev.fnCall nm v) →
        ∀ e ∈ (l.foldl applyFnStep acc).1, ∃ nm v, e = Ev.fnCall nm v from
      h l ([], .ok x) (by simp)
    intro l
    induction l with
    | nil => intro acc h; simpa using h
    | cons g gs ih =>
      intro acc h
      simp only [List.foldl_cons]
      apply ih
      rcases acc with ⟨evs, r⟩
      cases r with
      | ok v =>
        intro e he
        simp only [applyFnStep, List.mem_append, List.mem_singleton] at he
        rcases he with he | he
        · exact h e he
        · exact ⟨_, _, he⟩
      | error x => exact h

theorem hasTest_evs (op : Option Fn) (fns : List Fn) (x : J) :
    ∀ e ∈ (hasTest (α := J) op fns x).1, ∃ nm v, e = Ev.fnCall nm v := by
  have := applyFns_evs fns x
  unfold hasTest
  rcases h : applyFns (α := J) fns x with ⟨evs, r⟩
  rw [h] at this
  cases op <;> cases fns <;> cases r <;> simp_all

/-- the property of events that has-predicates guarantee: not a result/stop/raise of the
outer search, and every attempt already stamped with a candidate -/
def Ev.inner : Ev J → Bool
  | .result _ | .stop | .raised _ => false
  | .attempt _ _ _ none => false
  | _ => true

theorem stamp_filter_inner (c : MNode J) (evs : List (Ev J)) :
    ∀ e ∈ (evs.filter Ev.isClean).map (Ev.stampIfNone c),
      Ev.inner e = true := by
  intro e he
  simp only [List.mem_map, List.mem_filter] at he
  obtain ⟨e0, ⟨_, hk⟩, rfl⟩ := he
  cases e0 with
  | attempt l vi nx pm => cases pm <;> simp [Ev.stampIfNone, Ev.inner]
  | _ => simp_all [Ev.stampIfNone, Ev.inner, Ev.isClean]

theorem hasLoop_evs (cx : Ctx J) (c : MNode J) (test : J → List (Ev J) × Except Exc J)
    (ht : ∀ x, ∀ e ∈ (test x).1, Ev.inner e = true) :
    ∀ (fuel : Nat) (st : St J), ∀ e ∈ (hasLoop cx steps c test fuel st).1, Ev.inner e = true := by
  intro fuel
  induction fuel with
  | zero => intro st e he; simp [hasLoop] at he
  | succ fuel ih =>
    intro st e he
    unfold hasLoop at he
    rcases hn : next cx.view steps (.nested c) cx.limit st with ⟨st', evs, sig⟩
    rw [hn] at he
    have hf := stamp_filter_inner c evs
    cases sig with
    | result n =>
      simp only at he
      rcases htt : test (cx.toJ n.data) with ⟨tevs, r⟩
      have htn := ht (cx.toJ n.data)
      rw [htt] at he htn
      cases r with
      | ok v =>
        by_cases htr : v.truthy = true
        · simp only [htr, if_true, List.mem_append] at he
          rcases he with he | he
          · exact hf e he
          · exact htn e he
        · have ihh := ih st'
          rcases hrec : hasLoop cx steps c test fuel st' with ⟨evs', res⟩
          rw [hrec] at he ihh
          simp only [htr] at he
          change e ∈ (_ ++ _) ++ _ at he
          simp only [List.mem_append] at he
          rcases he with (he | he) | he
          · exact hf e he
          · exact htn e he
          · exact ihh e he
      | error x =>
        simp only [List.mem_append] at he
        rcases he with he | he
        · exact hf e he
        · exact htn e he
    | stop => exact hf e he
    | raised x => exact hf e he
    | none => exact hf e he
    | bug m => exact hf e he

/-- every event a has-predicate emits is an inner one -/
theorem has_evs_inner (cx : Ctx J) (ss : List (Step J)) (op : Option Fn) (fns : List Fn) (c : MNode J) :
    ∀ e ∈ (has cx ss op fns c).evs, Ev.inner e = true := by
  intro e he
  simp only [has] at he
  refine hasLoop_evs ss.toArray cx c (hasTest op fns) ?_ cx.fuel freshIter e he
  intro x e he
  obtain ⟨nm, v, rfl⟩ := hasTest_evs op fns x e he
  rfl

theorem inner_isClean (e : Ev J) (h : Ev.inner e = true) : e.isClean = true := by
  cases e <;> simp_all [Ev.inner, Ev.isClean]

theorem attemptsTop_of_inner (l : List (Ev J)) (h : ∀ e ∈ l, Ev.inner e = true) : attemptsTop l = 0 := by
  simp only [attemptsTop, List.countP_eq_zero]
  intro e he
  have := h e he
  cases e with
  | attempt l vi nx pm => cases pm <;> simp_all [Ev.inner]
  | _ => simp

end
end Treepath
