import Treepath.Spec.Eval
/- basic algebra of the L3 evaluator -/
namespace Treepath

@[simp] theorem seqFlat_nil (k : MNode J → Res) : seqFlat k [] = ([], none) := rfl

theorem seqFlat_pure (f : MNode J → List (MNode J)) (ns : List (MNode J)) :
    seqFlat (fun m => (f m, none)) ns = (ns.flatMap f, none) := by
  induction ns with
  | nil => rfl
  | cons n ns ih => simp [seqFlat, ih]

theorem seqFlat_single (k : MNode J → Res) (n : MNode J) : seqFlat k [n] = k n := by
  unfold seqFlat
  rcases h : k n with ⟨out, e⟩
  cases e <;> simp [seqFlat]

/-- when no step raises, sequential evaluation is plain `flatMap` -/
theorem seqFlat_noraise (k : MNode J → Res) (ns : List (MNode J)) (h : ∀ n ∈ ns, (k n).2 = none) :
    seqFlat k ns = (ns.flatMap (fun n => (k n).1), none) := by
  induction ns with
  | nil => rfl
  | cons n ns ih =>
    have h1 := h n (by simp)
    have h2 := ih (fun m hm => h m (by simp [hm]))
    unfold seqFlat
    rcases hk : k n with ⟨out, e⟩
    rw [hk] at h1
    simp at h1
    subst h1
    simp [h2, hk]

theorem eval_nil (n : MNode J) : eval [] n = [n] := rfl

end Treepath

namespace Treepath
theorem flatMap_singleton_map {β γ} (f : β → γ) (l : List β) : l.flatMap (fun x => [f x]) = l.map f := by
  induction l with
  | nil => rfl
  | cons x xs ih => simp [List.flatMap_cons, ih]
end Treepath

namespace Treepath

def Step.isRecur {α} : Step α → Bool
  | .recur => true
  | _ => false

/-- the path does not end in a recursive step -/
def notEndsInRecur {α} : List (Step α) → Bool
  | [] => true
  | [s] => !s.isRecur
  | _ :: rest => notEndsInRecur rest

/-- sequencing of two partial answers: the second is appended unless the first raised -/
def Res.append (a b : Res) : Res :=
  match a.2 with
  | some _ => a
  | none => (a.1 ++ b.1, b.2)

theorem Res.append_assoc (a b c : Res) : (a.append b).append c = a.append (b.append c) := by
  rcases a with ⟨a1, a2⟩; rcases b with ⟨b1, b2⟩; rcases c with ⟨c1, c2⟩
  cases a2 <;> cases b2 <;> simp [Res.append, List.append_assoc]

theorem Res.append_raised (a b : Res) (e : Exc) (h : a.2 = some e) : a.append b = a := by
  simp [Res.append, h]

theorem Res.append_nil_none (a : Res) : a.append ([], none) = a := by
  rcases a with ⟨a1, a2⟩; cases a2 <;> simp [Res.append]

theorem seqFlat_cons' (k : MNode J → Res) (n : MNode J) (ns : List (MNode J)) :
    seqFlat k (n :: ns) = (k n).append (seqFlat k ns) := by
  rcases hk : k n with ⟨out, e⟩
  cases e <;> simp [seqFlat, hk, Res.append]

theorem seqFlat_append (k : MNode J → Res) (xs ys : List (MNode J)) :
    seqFlat k (xs ++ ys) = (seqFlat k xs).append (seqFlat k ys) := by
  induction xs with
  | nil => simp [seqFlat, Res.append]
  | cons x xs ih => rw [List.cons_append, seqFlat_cons', seqFlat_cons', ih, Res.append_assoc]

/-- sequential composition: run `k` on every result of `r` in order; the first exception
(met while running `k`, or the one that ended `r`) ends the whole evaluation -/
def bindRes (r : Res) (k : MNode J → Res) : Res := (seqFlat k r.1).append ([], r.2)

theorem bindRes_append (a b : Res) (k : MNode J → Res) :
    bindRes (a.append b) k = (bindRes a k).append (bindRes b k) := by
  rcases a with ⟨a1, a2⟩
  cases a2 with
  | some e =>
    have h1 : (Res.append (a1, some e) b) = (a1, some e) := by simp [Res.append]
    rw [h1]
    apply (Res.append_raised _ _ _ _).symm
    · exact (match (seqFlat k a1).2 with | some x => x | none => e)
    · simp only [bindRes, Res.append]
      rcases seqFlat k a1 with ⟨o, e'⟩
      cases e' <;> simp
  | none =>
    simp only [bindRes, Res.append, seqFlat_append]
    rcases seqFlat k a1 with ⟨o1, e1⟩
    rcases seqFlat k b.1 with ⟨o2, e2⟩
    cases e1 <;> cases e2 <;> simp [Res.append]

/-- associativity of sequential evaluation -/
theorem seqFlat_bind (g k : MNode J → Res) (ns : List (MNode J)) :
    seqFlat (fun m => bindRes (g m) k) ns = bindRes (seqFlat g ns) k := by
  induction ns with
  | nil => simp [seqFlat, bindRes, Res.append]
  | cons n ns ih => rw [seqFlat_cons', ih, seqFlat_cons', bindRes_append]

theorem bindRes_nil (e : Option Exc) (k : MNode J → Res) : bindRes ([], e) k = ([], e) := by
  simp [bindRes, seqFlat, Res.append]

theorem bindRes_assoc (r : Res) (g k : MNode J → Res) :
    bindRes (bindRes r g) k = bindRes r (fun m => bindRes (g m) k) := by
  show bindRes ((seqFlat g r.1).append ([], r.2)) k = (seqFlat (fun m => bindRes (g m) k) r.1).append ([], r.2)
  rw [bindRes_append, bindRes_nil, seqFlat_bind]

theorem bindRes_pure (n : MNode J) (k : MNode J → Res) : bindRes ([n], none) k = k n := by
  simp only [bindRes, seqFlat_single]
  exact Res.append_nil_none _

/-- `evalE` of a non-recursive first step is the sequential composition of the step with
the rest -/
theorem evalE_cons_bind (s : Step J) (rest : List (Step J)) (n : MNode J) (hs : s.isRecur = false) :
    evalE (s :: rest) n = bindRes (evalStep s n) (evalE rest) := by
  cases s <;> simp [Step.isRecur] at hs <;>
  · simp only [evalE]
    rcases hst : evalStep _ n with ⟨ns, e⟩
    simp only [bindRes, Res.append]
    rcases hsf : seqFlat (evalE rest) ns with ⟨o, e'⟩
    cases e <;> cases e' <;> simp [hsf]

/-- **Concatenation law** (C12): for `p` not ending in a recursive step, evaluating `p ++ q`
is evaluating `q` from each result of `p`, in order. -/
theorem evalE_append (p q : List (Step J)) (hp : notEndsInRecur p = true) (n : MNode J) :
    evalE (p ++ q) n = bindRes (evalE p n) (evalE q) := by
  induction p generalizing n with
  | nil => simp [evalE, bindRes_pure]
  | cons s rest ih =>
    by_cases hs : s.isRecur = true
    · -- recursive step: `rest` is not empty
      cases s <;> simp [Step.isRecur] at hs
      cases rest with
      | nil => simp [notEndsInRecur, Step.isRecur] at hp
      | cons t rest' =>
        have hp' : notEndsInRecur (t :: rest') = true := by simpa [notEndsInRecur] using hp
        simp only [List.cons_append, evalE, List.isEmpty_cons]
        have : (fun m : MNode J => if m.data.isContainer = true then evalE (t :: (rest' ++ q)) m.imag
                  else if false = true then ([m], none) else ([], none))
             = fun m => bindRes (if m.data.isContainer = true then evalE (t :: rest') m.imag
                  else if false = true then ([m], none) else ([], none)) (evalE q) := by
          funext m
          by_cases hc : m.data.isContainer = true
          · simp only [hc, if_true]
            exact ih hp' m.imag
          · simp [hc, bindRes_nil]
        rw [this, seqFlat_bind]
    · simp only [Bool.not_eq_true] at hs
      have hp' : notEndsInRecur rest = true := by
        cases rest with
        | nil => rfl
        | cons t r => simpa [notEndsInRecur] using hp
      rw [List.cons_append, evalE_cons_bind _ _ _ hs, evalE_cons_bind _ _ _ hs]
      have : evalE (rest ++ q) = fun m => bindRes (evalE rest m) (evalE q) := by
        funext m; exact ih hp' m
      rw [this, bindRes_assoc]

end Treepath
