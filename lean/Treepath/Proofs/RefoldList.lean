import Treepath.Proofs.RefoldApi
import Treepath.Proofs.DocListLemmas
/-
The list view (`DocumentList`) on the JSON tree: an operation through the view of a list that
sits at location `loc` of a document (a tree: `DocInv`) is the plain-list operation applied to
the JSON list at `loc`, everything else unchanged.
-/
namespace Treepath

/-- keep the entries at the positions marked `true` -/
def maskFilter {β : Type} : List Bool → List β → List β
  | b :: bs, x :: xs => if b then x :: maskFilter bs xs else maskFilter bs xs
  | _, _ => []

theorem filter_eq_mask {β : Type} (p : β → Bool) : ∀ (xs : List β), xs.filter p = maskFilter (xs.map p) xs
  | [] => rfl
  | x :: xs => by
    by_cases h : p x = true
    · simp [List.filter_cons, maskFilter, h, filter_eq_mask p xs]
    · simp only [Bool.not_eq_true] at h
      simp [List.filter_cons, maskFilter, h, filter_eq_mask p xs]

/-- selecting the same positions on both sides keeps the correspondence, the footprints only shrink -/
theorem unfList_mask {h : Heap} : ∀ (m : List Bool) (ys : List J) (xs : List Val), UnfListJ h ys xs →
    UnfListJ h (maskFilter m ys) (maskFilter m xs) ∧
    (∀ x ∈ fpList h (maskFilter m ys) (maskFilter m xs), x ∈ fpList h ys xs) ∧
    ((fpList h ys xs).Nodup → (fpList h (maskFilter m ys) (maskFilter m xs)).Nodup)
  | [], ys, xs, _ => by cases ys <;> cases xs <;> simp [maskFilter, UnfListJ, fpList]
  | b :: bs, [], [], _ => by simp [maskFilter, UnfListJ, fpList]
  | b :: bs, j :: ys, v :: xs, hu => by
    simp only [UnfListJ] at hu
    obtain ⟨q1, q2, q3⟩ := unfList_mask bs ys xs hu.2
    cases b with
    | true =>
      simp only [maskFilter, if_true]
      refine ⟨by simp only [UnfListJ]; exact ⟨hu.1, q1⟩, ?_, ?_⟩
      · intro x hx
        simp only [fpList, List.mem_append] at hx ⊢
        rcases hx with h1 | h1
        · exact .inl h1
        · exact .inr (q2 x h1)
      · intro hn
        simp only [fpList, List.nodup_append] at hn ⊢
        exact ⟨hn.1, q3 hn.2.1, fun a ha b hb => hn.2.2 a ha b (q2 b hb)⟩
    | false =>
      simp only [maskFilter, Bool.false_eq_true, if_false]
      refine ⟨q1, fun x hx => by simp [fpList, q2 x hx], ?_⟩
      intro hn
      simp only [fpList, List.nodup_append] at hn
      exact q3 hn.2.1
  | _ :: _, [], _ :: _, hu => by simp [UnfListJ] at hu
  | _ :: _, _ :: _, [], hu => by simp [UnfListJ] at hu

/-- **an operation on the view's list object, on the tree**: if the list object `id` sits at `loc`
of a document that is a tree, and the operation replaces its items `xs` by `xs'` such that
`F` maps any JSON list `ys ~ xs` to a JSON list `ys' ~ xs'` (items that stay keep their
unfolding; new items bring at most the objects `E`), then the document afterwards unfolds to
the old tree with `F` applied at `loc` — and is again a tree. -/
theorem listobj_refold (h : Heap) (id : Nat) (xs xs' : List Val) (E : List Nat) (F : J → Option J)
    (root : Val) (j : J) (loc : List Name) (hi : DocInv h root j)
    (ho : h[id]? = some (.list xs)) (hw : walk (hview h) root loc = some (.ref id))
    (hE : ∀ x ∈ E, x ∉ fpJ h j root)
    (hstep : ∀ ys, ys.length = xs.length → UnfListJ (hput h id (.list xs')) ys xs →
      ∃ ys', F (.arr ys) = some (.arr ys') ∧ UnfListJ (hput h id (.list xs')) ys' xs' ∧
        (∀ x ∈ fpList (hput h id (.list xs')) ys' xs', x ∈ fpList (hput h id (.list xs')) ys xs ∨ (x ∈ E ∧ x ≠ id)) ∧
        ((fpList (hput h id (.list xs')) ys xs).Nodup → (∀ x ∈ E, x ∉ fpList (hput h id (.list xs')) ys xs) →
          (fpList (hput h id (.list xs')) ys' xs').Nodup)) :
    ∃ j', J.updateAt F j loc = some j' ∧ DocInv (hput h id (.list xs')) root j' := by
  obtain ⟨_, j', g1, g2, g3, _⟩ := refold h id (.list xs') F E (base_list h id xs xs' E F ho hstep) loc root j
    hi.unf hi.sep hE hw
  exact ⟨j', g1, ⟨g2, g3, heapwf_hput hi.wf _ _ (fun es he => by simp at he)⟩⟩

/-- what `view.append(v)` does to a JSON list -/
def jAppend (jv : J) : J → Option J
  | .arr ys => some (.arr (ys ++ [jv]))
  | _ => none

/-- what `del view[i]` / `view.pop(i)` does to a JSON list -/
def jDelIdx (i : Int) : J → Option J
  | .arr ys => (normIndex ys.length i).map fun p => .arr (ys.eraseIdx p)
  | _ => none

/-- what `view[i] = v` does to a JSON list (in range only) -/
def jSetIdx (i : Int) (jv : J) : J → Option J
  | .arr ys => (normIndex ys.length i).map fun p => .arr (ys.set p jv)
  | _ => none

/-- what `keep_all` does to a JSON list, given the answers of the predicate position by position -/
def jKeep (mask : List Bool) : J → Option J
  | .arr ys => some (.arr (maskFilter mask ys))
  | _ => none

/-- **`view.append(v)`** (fresh `v`): the JSON list at the view's location gets `jv` appended -/
theorem lAppend_refines (c : Conv) (h h' : Heap) (id : Nat) (v : Val) (root : Val) (j jv : J) (loc : List Name)
    (hi : DocInv h root j) (hw : walk (hview h) root loc = some (.ref id))
    (hv : UnfJ h jv (c.unwrap v)) (hvn : (fpJ h jv (c.unwrap v)).Nodup)
    (hfresh : ∀ x ∈ fpJ h jv (c.unwrap v), x ∉ fpJ h j root)
    (hop : lAppend c h id v = some h') :
    ∃ j', J.updateAt (jAppend jv) j loc = some j' ∧ DocInv h' root j' := by
  unfold lAppend at hop
  cases hl : listOf h id with
  | none => simp [hl] at hop
  | some xs =>
    simp only [hl, Option.map_some, Option.some.injEq] at hop
    subst hop
    have ho : h[id]? = some (.list xs) := by
      unfold listOf at hl
      split at hl
      · rename_i ys hy; simp only [Option.some.injEq] at hl; subst hl; exact hy
      · simp at hl
    have hidv : id ∉ fpJ h jv (c.unwrap v) := fun hm => hfresh id hm (walk_mem_fp h id loc root j hi.unf hw)
    obtain ⟨r1, r2⟩ := unf_frame h id (.list (xs ++ [c.unwrap v])) jv _ hv hidv
    refine listobj_refold h id xs _ (fpJ h jv (c.unwrap v)) (jAppend jv) root j loc hi ho hw hfresh ?_
    intro ys _ q1
    obtain ⟨u1, u2⟩ := unfList_append r1 ys xs q1
    refine ⟨ys ++ [jv], rfl, u1, ?_, ?_⟩
    · intro x hx
      simp only [u2, List.mem_append] at hx
      rcases hx with h1 | h1
      · exact .inl h1
      · rw [r2] at h1; exact .inr ⟨h1, fun e => hidv (e ▸ h1)⟩
    · intro n1 n2
      simp only [u2, List.nodup_append]
      exact ⟨n1, by rw [r2]; exact hvn, fun a ha b hb e => n2 b (by rw [← r2]; exact hb) (e ▸ ha)⟩

/-- **`del view[i]`**: the JSON list at the view's location loses that item -/
theorem lDel_refines (h h' : Heap) (id : Nat) (i : Int) (root : Val) (j : J) (loc : List Name)
    (hi : DocInv h root j) (hw : walk (hview h) root loc = some (.ref id)) (hop : lDel h id i = some h') :
    ∃ j', J.updateAt (jDelIdx i) j loc = some j' ∧ DocInv h' root j' := by
  unfold lDel at hop
  cases hl : listOf h id with
  | none => simp [hl] at hop
  | some xs =>
    simp only [hl, Option.bind_some] at hop
    have ho : h[id]? = some (.list xs) := by
      unfold listOf at hl
      split at hl
      · rename_i ys hy; simp only [Option.some.injEq] at hl; subst hl; exact hy
      · simp at hl
    simp only [listDel] at hop
    cases hni : normIndex xs.length i with
    | none => simp [hni] at hop
    | some p =>
      simp only [hni] at hop
      cases hg : xs[p]? with
      | none => simp [hg] at hop
      | some c0 =>
        simp only [hg, Option.map_some, Option.some.injEq] at hop
        subst hop
        refine listobj_refold h id xs (xs.eraseIdx p) [] (jDelIdx i) root j loc hi ho hw (by simp) ?_
        intro ys hlen q1
        obtain ⟨u1, u2, u3⟩ := unfList_erase ys xs p q1
        exact ⟨ys.eraseIdx p, by simp [jDelIdx, hlen, hni], u1, fun x hx => .inl (u2 x hx), fun n1 _ => u3 n1⟩

/-- **`keep_all` / `remove_all` with converters that hand the JSON value back unchanged**: the JSON
list at the view's location keeps exactly the items at the positions where the predicate
answered "keep", in their original order — the same operation on a plain list of the JSON values -/
theorem lKeepAll_refines (c : Conv) (hc : ∀ x, c.unwrap (c.wrap x) = x) (keep : Val → Bool) (h h' : Heap) (id : Nat)
    (xs : List Val) (root : Val) (j : J) (loc : List Name)
    (hi : DocInv h root j) (hw : walk (hview h) root loc = some (.ref id)) (ho : h[id]? = some (.list xs))
    (hop : lKeepAll c keep h id = some h') :
    ∃ j', J.updateAt (jKeep (xs.map fun x => keep (c.wrap x))) j loc = some j' ∧ DocInv h' root j' := by
  have hl : listOf h id = some xs := by simp [listOf, ho]
  simp only [lKeepAll, hl, Option.map_some, Option.some.injEq] at hop
  subst hop
  have hkeep : keepAllList (keepFn c keep) xs = maskFilter (xs.map fun x => keep (c.wrap x)) xs := by
    rw [keepAllList_eq]
    have this : ∀ l : List Val, l.filterMap (keepFn c keep) = l.filter (fun x => keep (c.wrap x)) := by
      intro l
      induction l with
      | nil => rfl
      | cons x l ih =>
        by_cases hk : keep (c.wrap x) = true
        · simp [List.filterMap_cons, keepFn, hk, hc, List.filter_cons, ih]
        · simp only [Bool.not_eq_true] at hk
          simp [List.filterMap_cons, keepFn, hk, List.filter_cons, ih]
    rw [this xs, filter_eq_mask]
  rw [hkeep]
  refine listobj_refold h id xs _ [] (jKeep (xs.map fun x => keep (c.wrap x))) root j loc hi ho hw (by simp) ?_
  intro ys _ q1
  obtain ⟨u1, u2, u3⟩ := unfList_mask (xs.map fun x => keep (c.wrap x)) ys xs q1
  exact ⟨_, rfl, u1, fun x hx => .inl (u2 x hx), fun n1 _ => u3 n1⟩

/-- **`view[i] = v`** (fresh `v`, index in range): the JSON list at the view's location holds `jv`
at that position -/
theorem lSet_refines (c : Conv) (h h' : Heap) (id : Nat) (i : Int) (v : Val) (root : Val) (j jv : J) (loc : List Name)
    (hi : DocInv h root j) (hw : walk (hview h) root loc = some (.ref id))
    (hv : UnfJ h jv (c.unwrap v)) (hvn : (fpJ h jv (c.unwrap v)).Nodup)
    (hfresh : ∀ x ∈ fpJ h jv (c.unwrap v), x ∉ fpJ h j root)
    (hop : lSet c h id i v = some h') :
    ∃ j', J.updateAt (jSetIdx i jv) j loc = some j' ∧ DocInv h' root j' := by
  unfold lSet at hop
  cases hl : listOf h id with
  | none => simp [hl] at hop
  | some xs =>
    simp only [hl, Option.bind_some, listSet] at hop
    have ho : h[id]? = some (.list xs) := by
      unfold listOf at hl
      split at hl
      · rename_i ys hy; simp only [Option.some.injEq] at hl; subst hl; exact hy
      · simp at hl
    cases hni : normIndex xs.length i with
    | none => simp [hni] at hop
    | some p =>
      simp only [hni, Option.map_some, Option.some.injEq] at hop
      subst hop
      have hidv : id ∉ fpJ h jv (c.unwrap v) := fun hm => hfresh id hm (walk_mem_fp h id loc root j hi.unf hw)
      obtain ⟨r1, r2⟩ := unf_frame h id (.list (xs.set p (c.unwrap v))) jv _ hv hidv
      refine listobj_refold h id xs _ (fpJ h jv (c.unwrap v)) (jSetIdx i jv) root j loc hi ho hw hfresh ?_
      intro ys hlen q1
      obtain ⟨u1, u2, u3⟩ := unfList_set r1 ys xs p q1
      refine ⟨ys.set p jv, by simp [jSetIdx, hlen, hni], u1, ?_, ?_⟩
      · intro x hx
        rcases u2 x hx with h1 | h1
        · exact .inl h1
        · rw [r2] at h1; exact .inr ⟨h1, fun e => hidv (e ▸ h1)⟩
      · intro n1 n2
        exact u3 n1 (by rw [r2]; exact hvn) (fun x hx => n2 x (by rw [← r2]; exact hx))

/-- **`view.pop(i)`**: the list side is `del view[i]`; the value handed back is the wrapped element -/
theorem lPop_refines (c : Conv) (h h' : Heap) (id : Nat) (i : Int) (r : Val) (root : Val) (j : J) (loc : List Name)
    (hi : DocInv h root j) (hw : walk (hview h) root loc = some (.ref id)) (hop : lPop c h id i = some (h', r)) :
    lDel h id i = some h' ∧ lGet c h id i = some r ∧
      ∃ j', J.updateAt (jDelIdx i) j loc = some j' ∧ DocInv h' root j' := by
  have hd : lDel h id i = some h' ∧ lGet c h id i = some r := by
    unfold lPop at hop
    unfold lDel lGet
    cases hl : listOf h id with
    | none => simp [hl] at hop
    | some xs =>
      simp only [hl, Option.bind_some, listDel] at hop ⊢
      cases hni : normIndex xs.length i with
      | none => simp [hni] at hop
      | some p =>
        simp only [hni] at hop ⊢
        cases hg : xs[p]? with
        | none => simp [hg] at hop
        | some x =>
          simp only [hg, Option.map_some, Option.some.injEq, Prod.mk.injEq] at hop ⊢
          refine ⟨hop.1, ?_⟩
          simp [hg, hop.2]
  exact ⟨hd.1, hd.2, lDel_refines h h' id i root j loc hi hw hd.1⟩

/-- **`remove_all(is_remove)`** = `keep_all(not ∘ is_remove)`, on the tree -/
theorem lRemoveAll_refines (c : Conv) (hc : ∀ x, c.unwrap (c.wrap x) = x) (rm : Val → Bool) (h h' : Heap) (id : Nat)
    (xs : List Val) (root : Val) (j : J) (loc : List Name)
    (hi : DocInv h root j) (hw : walk (hview h) root loc = some (.ref id)) (ho : h[id]? = some (.list xs))
    (hop : lRemoveAll c rm h id = some h') :
    ∃ j', J.updateAt (jKeep (xs.map fun x => !rm (c.wrap x))) j loc = some j' ∧ DocInv h' root j' :=
  lKeepAll_refines c hc (fun x => !rm x) h h' id xs root j loc hi hw ho hop

end Treepath
