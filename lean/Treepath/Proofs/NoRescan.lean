import Treepath.Proofs.Distinct
import Treepath.Proofs.Work
/- "it never re-scans, restarts": on a tree, the match attempts of a search by a path of plain
steps with at most one recursive step are pairwise different — no (step, from-node, to-node)
triple is attempted twice. -/
namespace Treepath

/-- what identifies a match attempt of the search itself: the location of the node the step is
applied to, the index of the step in the path, the location it arrived at (or failure) -/
abbrev AKey := List Name × Nat × Option (List Name)

def topKey : Ev J → Option AKey
  | .attempt l vi nx none => some (l.loc, vi, nx.map MNode.loc)
  | _ => none

def topKeys (evs : List (Ev J)) : List AKey := evs.filterMap topKey

@[simp] theorem topKeys_nil : topKeys [] = [] := rfl
@[simp] theorem topKeys_append (a b : List (Ev J)) : topKeys (a ++ b) = topKeys a ++ topKeys b := by
  simp [topKeys, List.filterMap_append]
@[simp] theorem topKeys_attempt (l : MNode J) (vi : Nat) (nx : Option (MNode J)) (t : List (Ev J)) :
    topKeys (.attempt l vi nx none :: t) = (l.loc, vi, nx.map MNode.loc) :: topKeys t := by
  simp [topKeys, List.filterMap_cons, topKey]
@[simp] theorem topKeys_predCall (c : MNode J) (t : List (Ev J)) : topKeys (.predCall c :: t) = topKeys t := by
  simp [topKeys, List.filterMap_cons, topKey]
@[simp] theorem topKeys_result (c : MNode J) (t : List (Ev J)) : topKeys (.result c :: t) = topKeys t := by
  simp [topKeys, List.filterMap_cons, topKey]
@[simp] theorem topKeys_raised (e : Exc) (t : List (Ev J)) : topKeys (.raised e :: t) = topKeys t := by
  simp [topKeys, List.filterMap_cons, topKey]

/-- a predicate whose attempts are all stamped contributes no attempt of the search itself -/
theorem topKeys_of_stamped (evs : List (Ev J)) (h : attemptsTop evs = 0) : topKeys evs = [] := by
  induction evs with
  | nil => rfl
  | cons e t ih =>
    cases e with
    | attempt l vi nx st =>
      cases st with
      | none => rw [attemptsTop_attempt] at h; omega
      | some s =>
        have : attemptsTop t = 0 := by simpa [attemptsTop, List.countP_cons] using h
        simpa [topKeys, List.filterMap_cons, topKey] using ih this
    | predCall c => rw [attemptsTop_predCall] at h; simpa using ih h
    | result c => rw [attemptsTop_result] at h; simpa using ih h
    | raised x => rw [attemptsTop_raised] at h; simpa using ih h
    | fnCall nm a =>
      have : attemptsTop t = 0 := by simpa [attemptsTop, List.countP_cons] using h
      simpa [topKeys, List.filterMap_cons, topKey] using ih this
    | stop =>
      have : attemptsTop t = 0 := by simpa [attemptsTop, List.countP_cons] using h
      simpa [topKeys, List.filterMap_cons, topKey] using ih this

/-- how many levels below its start node the `j`-th step of a path is applied (filters stay on
their node, every other plain step descends one level); undefined from a recursive step on -/
def dsc : List (Step J) → Nat → Option Nat
  | [], _ => some 0
  | .recur :: _, _ => none
  | _ :: _, 0 => some 0
  | .filter _ :: rest, j+1 => dsc rest j
  | _ :: rest, j+1 => (dsc rest j).map (· + 1)

theorem dsc_plain (p : List (Step J)) (hp : ∀ s ∈ p, s.plain = true) : ∀ j, ∃ d, dsc p j = some d := by
  induction p with
  | nil => intro j; exact ⟨0, rfl⟩
  | cons s rest ih =>
    intro j
    have hs := hp s (by simp)
    have ih' := ih (fun t ht => hp t (List.mem_cons_of_mem _ ht))
    cases j with
    | zero =>
      cases s with
      | recur => simp [Step.plain] at hs
      | parent => simp [Step.plain] at hs
      | tuple ns => simp [Step.plain] at hs
      | _ => exact ⟨0, rfl⟩
    | succ j =>
      obtain ⟨d, hd⟩ := ih' j
      cases s with
      | recur => simp [Step.plain] at hs
      | parent => simp [Step.plain] at hs
      | tuple ns => simp [Step.plain] at hs
      | filter f => exact ⟨d, by simp [dsc, hd]⟩
      | _ => exact ⟨d + 1, by simp [dsc, hd]⟩

/-- every key lies at or below location `l`, belongs to a step after index `vi`, and — where
the depth of that step is determined — sits exactly that deep below `l` -/
def Under (l : List Name) (vi : Nat) (p : List (Step J)) (ks : List AKey) : Prop :=
  ∀ k ∈ ks, l <+: k.1 ∧ vi < k.2.1 ∧ ∀ d, dsc p (k.2.1 - vi - 1) = some d → k.1.length = l.length + d

theorem snoc_not_prefix {β} (l : List β) (a : β) : ¬ (l ++ [a]) <+: l := by
  intro h
  have := h.length_le
  simp only [List.length_append, List.length_singleton] at this
  omega

/-- the keys of the sub-searches below the items of one node, each preceded by the attempt
that reached the item -/
theorem items_keys (l : List Name) (vi : Nat) (sub : Name × J → List AKey) :
    ∀ (its : List (Name × J)), (its.map Prod.fst).Nodup →
      (∀ it ∈ its, (sub it).Nodup ∧ ∀ k ∈ sub it, (l ++ [it.1]) <+: k.1) →
      (its.flatMap fun it : Name × J => ((l, vi+1, some (l ++ [it.1])) : AKey) :: sub it).Nodup ∧
        ∀ k ∈ (its.flatMap fun it : Name × J => ((l, vi+1, some (l ++ [it.1])) : AKey) :: sub it),
          ∃ it ∈ its, k = (l, vi+1, some (l ++ [it.1])) ∨ k ∈ sub it := by
  intro its
  induction its with
  | nil => intro _ _; simp
  | cons it rest ih =>
    intro hnd hsub
    simp only [List.map_cons, List.nodup_cons] at hnd
    obtain ⟨hit, hrest⟩ := hnd
    obtain ⟨ihn, ihm⟩ := ih hrest (fun x hx => hsub x (List.mem_cons_of_mem _ hx))
    obtain ⟨hsn, hsu⟩ := hsub it (by simp)
    have hmem : ∀ k ∈ ((it :: rest).flatMap fun it : Name × J => ((l, vi+1, some (l ++ [it.1])) : AKey) :: sub it),
        ∃ it' ∈ it :: rest, k = (l, vi+1, some (l ++ [it'.1])) ∨ k ∈ sub it' := by
      intro k hk
      simp only [List.flatMap_cons, List.mem_append] at hk
      rcases hk with hk | hk
      · refine ⟨it, by simp, ?_⟩
        simp only [List.mem_cons] at hk
        rcases hk with rfl | hk
        · exact .inl rfl
        · exact .inr hk
      · obtain ⟨it', hi', h'⟩ := ihm k hk
        exact ⟨it', List.mem_cons_of_mem _ hi', h'⟩
    refine ⟨?_, hmem⟩
    simp only [List.flatMap_cons]
    rw [List.nodup_append]
    refine ⟨?_, ihn, ?_⟩
    · rw [List.nodup_cons]
      refine ⟨?_, hsn⟩
      intro hin
      exact snoc_not_prefix l it.1 (hsu _ hin)
    · intro a ha b hb hab
      subst hab
      obtain ⟨it', hi', h'⟩ := ihm a hb
      have hne : it.1 ≠ it'.1 := by
        intro he
        exact hit (List.mem_map.mpr ⟨it', hi', he.symm⟩)
      simp only [List.mem_cons] at ha
      rcases ha with rfl | ha
      · rcases h' with h' | h'
        · simp only [Prod.mk.injEq, Option.some.injEq, List.append_cancel_left_eq, List.cons.injEq, and_true, true_and] at h'
          exact hne h'
        · exact snoc_not_prefix l it'.1 ((hsub it' (List.mem_cons_of_mem _ hi')).2 _ h')
      · have hp := hsu a ha
        rcases h' with h' | h'
        · subst h'; exact snoc_not_prefix l it.1 hp
        · exact loc_ne_of_prefixes l it.1 it'.1 a.1 a.1 hne hp ((hsub it' (List.mem_cons_of_mem _ hi')).2 _ h') rfl

/-- the items a plain multi-valued step selects have distinct names and well-formed values -/
theorem itemsOf_plain (s : Step J) (hp : s.plain = true) (n : MNode J) (hw : n.data.WFK) (its : List (Name × J))
    (h : itemsOf s n.data.view = .ok its) : (its.map Prod.fst).Nodup ∧ ∀ it ∈ its, it.2.WFK := by
  cases hd : n.data with
  | obj es =>
    rw [hd] at hw h
    have key : its = dictItems es → (its.map Prod.fst).Nodup ∧ ∀ it ∈ its, it.2.WFK := by
      intro he; subst he
      refine ⟨dictItems_names es hw.1, ?_⟩
      intro it hit
      simp only [dictItems, List.mem_map] at hit
      obtain ⟨⟨k, x⟩, hkx, rfl⟩ := hit
      exact wfKvs_mem es hw.2 k x hkx
    cases s <;> simp [Step.plain] at hp <;> simp [itemsOf, J.view] at h
    · exact key h.symm
    · exact key h.symm
  | arr xs =>
    rw [hd] at hw h
    have key : its = listItems xs → (its.map Prod.fst).Nodup ∧ ∀ it ∈ its, it.2.WFK := by
      intro he; subst he
      refine ⟨listItems_names xs, ?_⟩
      intro it hit
      simp only [listItems, List.mem_map] at hit
      obtain ⟨p, hp', rfl⟩ := hit
      exact wfList_mem xs hw _ (mem_enumFrom_snd 0 xs p hp')
    cases s <;> simp [Step.plain] at hp <;> simp [itemsOf, J.view] at h
    · rename_i a b c
      split at h
      · simp at h
      · rename_i sl hs
        simp only [Items.ok.injEq] at h
        subst h
        obtain ⟨h1, h2⟩ := sliceItems_names a b c xs sl hs
        refine ⟨by simpa [List.map_map, Function.comp_def] using h1, ?_⟩
        intro it hit
        simp only [List.mem_map] at hit
        obtain ⟨p, hp', rfl⟩ := hit
        exact wfList_mem xs hw _ (h2 p hp')
    · exact key h.symm
    · exact key h.symm
  | _ =>
    rw [hd] at h
    cases s <;> simp [itemsOf, J.view] at h

/-! ### the recursive step -/

/-- what the sub-searches of the rest of the path (step indices after `vi+1`) satisfy -/
def KInv (rest : List (Step J)) (vi : Nat) : Prop :=
  ∀ m : MNode J, m.data.WFK →
    (topKeys (stream rest (vi+1) m)).Nodup ∧ Under m.loc (vi+1) rest (topKeys (stream rest (vi+1) m))

/-- keys produced below location `c` by a recursive step at index `vi+1`: the step's own attempts
(never arriving where they started), and the attempts of the rest of the path started from
some node `L` at or below `c`, at the depth that start and the step index determine -/
def SubInv (rest : List (Step J)) (vi : Nat) (c : List Name) (ks : List AKey) : Prop :=
  ∀ k ∈ ks, c <+: k.1 ∧
    ((k.2.1 = vi+1 ∧ k.2.2 ≠ some k.1) ∨
     (vi+1 < k.2.1 ∧ ∃ L d, c <+: L ∧ L <+: k.1 ∧ dsc rest (k.2.1 - (vi+1) - 1) = some d ∧ k.1.length = L.length + d))

theorem subInv_mono (rest : List (Step J)) (vi : Nat) (c c' : List Name) (ks : List AKey) (hc : c <+: c')
    (h : SubInv rest vi c' ks) : SubInv rest vi c ks := by
  intro k hk
  obtain ⟨h1, h2⟩ := h k hk
  refine ⟨hc.trans h1, ?_⟩
  rcases h2 with h2 | ⟨h2, L, d, a, b, e, f⟩
  · exact .inl h2
  · exact .inr ⟨h2, L, d, hc.trans a, b, e, f⟩

/-- the tail of one child's keys (everything after the attempt that reached the child) -/
def recTail (rest : List (Step J)) (vi : Nat) (n : MNode J) (it : Name × J) : List AKey :=
  (topKeys (recChild (fun m => stream rest (vi+1) m) rest.isEmpty vi n it.1 it.2)).tail

/-- the body of a recursive step at container `m`: the rest of the path at `m`, every child,
exhaustion -/
theorem body_keys (rest : List (Step J)) (hplain : ∀ s ∈ rest, s.plain = true) (vi : Nat) (hk : KInv rest vi)
    (m : MNode J) (hw : m.data.WFK) (its : List (Name × J)) (hnd : (its.map Prod.fst).Nodup)
    (hch : ∀ it ∈ its,
      topKeys (recChild (fun m => stream rest (vi+1) m) rest.isEmpty vi m it.1 it.2) =
        (m.loc, vi+1, some (m.loc ++ [it.1])) :: recTail rest vi m it ∧
      (recTail rest vi m it).Nodup ∧ SubInv rest vi (m.loc ++ [it.1]) (recTail rest vi m it)) :
    let B := topKeys (stream rest (vi+1) (.imag m) ++ recItems (fun m => stream rest (vi+1) m) rest.isEmpty vi m its
                ++ [.attempt m (vi+1) none none])
    B.Nodup ∧ SubInv rest vi m.loc B := by
  intro B
  obtain ⟨hKn, hKu⟩ := hk (.imag m) hw
  have hI : topKeys (recItems (fun m => stream rest (vi+1) m) rest.isEmpty vi m its) =
      its.flatMap fun it : Name × J => ((m.loc, vi+1, some (m.loc ++ [it.1])) : AKey) :: recTail rest vi m it := by
    clear hnd
    induction its with
    | nil => rfl
    | cons a t iht =>
      have ha := (hch a (by simp)).1
      have := iht (fun x hx => hch x (List.mem_cons_of_mem _ hx))
      simp only [recItems, List.flatMap_cons, topKeys_append] at this ⊢
      rw [ha, this]
  obtain ⟨hIn, hIm⟩ := items_keys m.loc vi (recTail rest vi m) its hnd
    (fun it hit => ⟨(hch it hit).2.1, fun k hk' => ((hch it hit).2.2 k hk').1⟩)
  have hB : B = topKeys (stream rest (vi+1) (.imag m)) ++
      (its.flatMap fun it : Name × J => ((m.loc, vi+1, some (m.loc ++ [it.1])) : AKey) :: recTail rest vi m it) ++
      [(m.loc, vi+1, none)] := by
    simp only [B, topKeys_append, hI, topKeys_attempt, topKeys_nil, Option.map_none]
  -- a key of the rest of the path at `m` is not a key of the children
  have hKI : ∀ a ∈ topKeys (stream rest (vi+1) (.imag m)),
      ∀ b ∈ (its.flatMap fun it : Name × J => ((m.loc, vi+1, some (m.loc ++ [it.1])) : AKey) :: recTail rest vi m it), a ≠ b := by
    intro a ha b hb hab
    subst hab
    obtain ⟨_, hidx, hlen⟩ := hKu a ha
    obtain ⟨it, hit, h'⟩ := hIm a hb
    rcases h' with rfl | h'
    · simp at hidx
    · obtain ⟨hpre, h2⟩ := (hch it hit).2.2 a h'
      rcases h2 with ⟨h2, _⟩ | ⟨_, L, d, hcL, hLa, hd, hlen'⟩
      · omega
      · have := hlen d hd
        simp only [MNode.loc] at this
        have h3 := hcL.length_le
        simp at h3
        omega
  have hsub_m : ∀ it ∈ its, ∀ k ∈ recTail rest vi m it, k ≠ (m.loc, vi+1, none) := by
    intro it hit k hk' he
    subst he
    exact snoc_not_prefix m.loc it.1 ((hch it hit).2.2 _ hk').1
  constructor
  · rw [hB, List.nodup_append]
    refine ⟨?_, by simp, ?_⟩
    · rw [List.nodup_append]
      exact ⟨hKn, hIn, hKI⟩
    · intro a ha b hb hab
      subst hab
      simp only [List.mem_singleton] at hb
      simp only [List.mem_append] at ha
      rcases ha with ha | ha
      · have := (hKu a ha).2.1
        rw [hb] at this
        simp at this
      · obtain ⟨it, hit, h'⟩ := hIm a ha
        rcases h' with h' | h'
        · rw [hb] at h'; simp at h'
        · exact hsub_m it hit a h' hb
  · intro k hk'
    rw [hB] at hk'
    simp only [List.mem_append, List.mem_singleton] at hk'
    rcases hk' with (hk' | hk') | rfl
    · obtain ⟨h1, h2, h3⟩ := hKu k hk'
      simp only [MNode.loc] at h1 h3
      obtain ⟨d, hd⟩ := dsc_plain rest hplain (k.2.1 - (vi+1) - 1)
      exact ⟨h1, .inr ⟨h2, m.loc, d, List.prefix_refl _, h1, hd, h3 d hd⟩⟩
    · obtain ⟨it, hit, h'⟩ := hIm k hk'
      rcases h' with rfl | h'
      · refine ⟨List.prefix_refl _, .inl ⟨rfl, ?_⟩⟩
        intro he
        simp only [Option.some.injEq] at he
        have := congrArg List.length he
        simp at this
      · exact subInv_mono rest vi m.loc (m.loc ++ [it.1]) _ (List.prefix_append _ _) (hch it hit).2.2 k h'
    · exact ⟨List.prefix_refl _, .inl ⟨rfl, by simp⟩⟩

/-- one child of a recursive step: the attempt that reaches it, then keys below it -/
theorem child_keys (rest : List (Step J)) (hplain : ∀ s ∈ rest, s.plain = true) (vi : Nat) (hk : KInv rest vi) :
    ∀ (N : Nat) (x : J), J.sz x ≤ N → x.WFK → ∀ (n : MNode J) (nm : Name),
      topKeys (recChild (fun m => stream rest (vi+1) m) rest.isEmpty vi n nm x) =
        (n.loc, vi+1, some (n.loc ++ [nm])) :: recTail rest vi n (nm, x) ∧
      (recTail rest vi n (nm, x)).Nodup ∧ SubInv rest vi (n.loc ++ [nm]) (recTail rest vi n (nm, x)) := by
  intro N
  induction N with
  | zero => intro x hx; cases x <;> simp [J.sz] at hx
  | succ N ihN =>
    intro x hx hwx n nm
    cases hc : allItems x.view with
    | none =>
      have e := recChild_scalar (fun m => stream rest (vi+1) m) rest.isEmpty vi n nm x hc
      by_cases hl : rest.isEmpty = true
      · have : topKeys (recChild (fun m => stream rest (vi+1) m) rest.isEmpty vi n nm x) = [(n.loc, vi+1, some (n.loc ++ [nm]))] := by
          rw [e]; simp [hl, MNode.loc]
        have ht : recTail rest vi n (nm, x) = [] := by simp [recTail, this]
        rw [ht]
        exact ⟨this, by simp, by intro k hk'; simp at hk'⟩
      · have : topKeys (recChild (fun m => stream rest (vi+1) m) rest.isEmpty vi n nm x) =
            [(n.loc, vi+1, some (n.loc ++ [nm])), (n.loc ++ [nm], vi+1, none)] := by
          rw [e]; simp [hl, MNode.loc]
        have ht : recTail rest vi n (nm, x) = [(n.loc ++ [nm], vi+1, none)] := by simp [recTail, this]
        rw [ht]
        refine ⟨this, by simp, ?_⟩
        intro k hk'
        simp only [List.mem_singleton] at hk'
        subst hk'
        exact ⟨List.prefix_refl _, .inl ⟨rfl, by simp⟩⟩
    | some its =>
      have e := recChild_container (fun m => stream rest (vi+1) m) rest.isEmpty vi n nm x its hc
      obtain ⟨hnd, hwf⟩ := allItems_wf x hwx its hc
      have hch : ∀ it ∈ its,
          topKeys (recChild (fun m => stream rest (vi+1) m) rest.isEmpty vi (.child n nm x) it.1 it.2) =
            ((MNode.child n nm x).loc, vi+1, some ((MNode.child n nm x).loc ++ [it.1])) :: recTail rest vi (.child n nm x) it ∧
          (recTail rest vi (.child n nm x) it).Nodup ∧
          SubInv rest vi ((MNode.child n nm x).loc ++ [it.1]) (recTail rest vi (.child n nm x) it) := by
        intro it hit
        obtain ⟨hw', hsz⟩ := hwf it hit
        exact ihN it.2 (by omega) hw' (.child n nm x) it.1
      obtain ⟨hBn, hBs⟩ := body_keys rest hplain vi hk (.child n nm x) hwx its hnd hch
      have : topKeys (recChild (fun m => stream rest (vi+1) m) rest.isEmpty vi n nm x) =
          (n.loc, vi+1, some (n.loc ++ [nm])) ::
            topKeys (stream rest (vi+1) (.imag (.child n nm x)) ++
              recItems (fun m => stream rest (vi+1) m) rest.isEmpty vi (.child n nm x) its ++ [.attempt (.child n nm x) (vi+1) none none]) := by
        rw [e, topKeys_attempt]; simp [MNode.loc]
      have ht : recTail rest vi n (nm, x) = topKeys (stream rest (vi+1) (.imag (.child n nm x)) ++
              recItems (fun m => stream rest (vi+1) m) rest.isEmpty vi (.child n nm x) its ++ [.attempt (.child n nm x) (vi+1) none none]) := by
        simp only [recTail, this, List.tail_cons]
      rw [ht]
      exact ⟨this, hBn, by simpa [MNode.loc] using hBs⟩

/-- plain steps with at most one recursive step -/
def okShape : List (Step J) → Bool
  | [] => true
  | .recur :: rest => rest.all Step.plain
  | s :: rest => s.plain && okShape rest

theorem okShape_of_plain (p : List (Step J)) (h : ∀ s ∈ p, s.plain = true) : okShape p = true := by
  induction p with
  | nil => rfl
  | cons s rest ih =>
    have hs := h s (by simp)
    have hr := ih (fun t ht => h t (List.mem_cons_of_mem _ ht))
    cases s <;> simp [Step.plain] at hs <;> simp [okShape, Step.plain, hr]

/-- **no attempt twice**: on a document whose dicts have unique keys, the attempts of the search
for a path of keys, indices, slices, wildcards and filters (whose predicates' own attempts are
stamped) with at most one recursive step are pairwise different; all lie at or below the start
node and belong to later steps -/
theorem stream_keys (p : List (Step J)) (hp : okShape p = true) (hs : PredsStamped p) :
    ∀ (vi : Nat) (n : MNode J), n.data.WFK →
      (topKeys (stream p vi n)).Nodup ∧ Under n.loc vi p (topKeys (stream p vi n)) := by
  induction p with
  | nil => intro vi n _; simp [stream, Under]
  | cons s rest ih =>
    have hs' : PredsStamped rest := fun t ht => hs t (List.mem_cons_of_mem _ ht)
    intro vi n hw
    by_cases hrec : s = .recur
    · -- the recursive step
      subst hrec
      simp only [okShape] at hp
      have hplain : ∀ t ∈ rest, t.plain = true := by simpa [List.all_eq_true] using hp
      have hk : KInv rest vi := fun m hm => ih (okShape_of_plain rest hplain) hs' (vi+1) m hm
      cases hc : allItems n.data.view with
      | none =>
        have hnc : n.data.isContainer = false := by
          have := allItems_isContainer n.data; rw [hc] at this; simpa using this.symm
        simp only [stream, Step.cls, hnc]
        refine ⟨by simp, ?_⟩
        intro k hk'
        simp only [Bool.false_eq_true, if_false, topKeys_attempt, topKeys_nil, List.mem_singleton] at hk'
        subst hk'
        exact ⟨List.prefix_refl _, by simp, by intro d hd; simp [dsc] at hd⟩
      | some its =>
        have hnc : n.data.isContainer = true := by
          have := allItems_isContainer n.data; rw [hc] at this; simpa using this.symm
        obtain ⟨hnd, hwf⟩ := allItems_wf n.data hw its hc
        have hch : ∀ it ∈ its,
            topKeys (recChild (fun m => stream rest (vi+1) m) rest.isEmpty vi n it.1 it.2) =
              (n.loc, vi+1, some (n.loc ++ [it.1])) :: recTail rest vi n it ∧
            (recTail rest vi n it).Nodup ∧ SubInv rest vi (n.loc ++ [it.1]) (recTail rest vi n it) := by
          intro it hit
          exact child_keys rest hplain vi hk (J.sz it.2) it.2 (Nat.le_refl _) (hwf it hit).1 n it.1
        obtain ⟨hBn, hBs⟩ := body_keys rest hplain vi hk n hw its hnd hch
        simp only [stream, Step.cls, hnc, if_true, recBody_items _ _ _ _ _ its hc, topKeys_attempt]
        constructor
        · rw [List.nodup_cons]
          refine ⟨?_, hBn⟩
          intro hin
          obtain ⟨_, h2⟩ := hBs _ hin
          rcases h2 with ⟨_, h2⟩ | ⟨h2, _⟩
          · simp [MNode.loc] at h2
          · simp at h2
        · intro k hk'
          simp only [List.mem_cons] at hk'
          rcases hk' with rfl | hk'
          · exact ⟨List.prefix_refl _, by simp, by intro d hd; simp [dsc] at hd⟩
          · obtain ⟨h1, h2⟩ := hBs k hk'
            refine ⟨h1, ?_, by intro d hd; simp [dsc] at hd⟩
            rcases h2 with ⟨h2, _⟩ | ⟨h2, _⟩ <;> omega
    · -- a plain step
      have hsp : s.plain = true ∧ okShape rest = true := by
        cases s <;> simp [okShape] at hp hrec ⊢ <;> exact hp
      have IH := ih hsp.2 hs'
      -- one reached node `n'` (a child, or the bookkeeping twin) followed by the rest of the path
      have single : ∀ n' : MNode J, n'.data.WFK → n.loc <+: n'.loc →
          (∀ j d, dsc (s :: rest) (j+1) = some d → ∃ d', dsc rest j = some d' ∧ n'.loc.length + d' = n.loc.length + d) →
          (topKeys (.attempt n (vi+1) (some n') none :: stream rest (vi+1) n')).Nodup ∧
            Under n.loc vi (s :: rest) (topKeys (.attempt n (vi+1) (some n') none :: stream rest (vi+1) n')) := by
        intro n' hw' hpre hdsc
        obtain ⟨h1, h2⟩ := IH (vi+1) n' hw'
        rw [topKeys_attempt]
        constructor
        · rw [List.nodup_cons]
          refine ⟨?_, h1⟩
          intro hin
          have := (h2 _ hin).2.1
          simp at this
        · intro k hk
          simp only [List.mem_cons] at hk
          rcases hk with rfl | hk
          · refine ⟨List.prefix_refl _, by simp, ?_⟩
            intro d hd
            have : dsc (s :: rest) 0 = some 0 := by
              cases s <;> simp [Step.plain] at hsp <;> rfl
            simp only [Nat.add_sub_cancel_left, Nat.sub_self] at hd
            rw [this] at hd
            simp only [Option.some.injEq] at hd
            subst hd; rfl
          · obtain ⟨a, b, c⟩ := h2 k hk
            refine ⟨hpre.trans a, by omega, ?_⟩
            intro d hd
            have hj : k.2.1 - vi - 1 = (k.2.1 - (vi+1) - 1) + 1 := by omega
            rw [hj] at hd
            obtain ⟨d', hd', hlen⟩ := hdsc _ d hd
            have := c d' hd'
            omega
      have fail : (topKeys [Ev.attempt n (vi+1) none none]).Nodup ∧
          Under n.loc vi (s :: rest) (topKeys [Ev.attempt n (vi+1) none none]) := by
        rw [topKeys_attempt]
        refine ⟨by simp, ?_⟩
        intro k hk
        simp only [topKeys_nil, List.mem_singleton] at hk
        subst hk
        refine ⟨List.prefix_refl _, by simp, ?_⟩
        intro d hd
        have : dsc (s :: rest) 0 = some 0 := by
          cases s <;> simp [Step.plain] at hsp <;> rfl
        simp only [Nat.add_sub_cancel_left, Nat.sub_self, Option.map_none] at hd
        rw [this] at hd
        simp only [Option.some.injEq] at hd
        subst hd; rfl
      -- descending steps: the rest of the path starts one level deeper
      have hdesc : s.isFilter = false → ∀ (nm : Name) (x : J) j d, dsc (s :: rest) (j+1) = some d →
          ∃ d', dsc rest j = some d' ∧ (MNode.child n nm x).loc.length + d' = n.loc.length + d := by
        intro hf nm x j d hd
        cases s <;> simp [Step.plain] at hsp <;> simp [Step.isFilter] at hf <;>
          (simp only [dsc, Option.map_eq_some_iff] at hd
           obtain ⟨d', hd', rfl⟩ := hd
           exact ⟨d', hd', by simp [MNode.loc]; omega⟩)
      cases s with
      | key k =>
        simp only [stream, Step.cls]
        cases hso : singleOf J.view (.key k) n with
        | none => exact fail
        | some n' =>
          simp only [singleOf] at hso
          cases hd : n.data with
          | obj es =>
            rw [hd] at hso hw
            simp only [J.view, Option.map_eq_some_iff] at hso
            obtain ⟨x, hx, rfl⟩ := hso
            exact single _ (wfKvs_mem es hw.2 k x (lookup_mem es k x hx)) (by simp [MNode.loc]) (hdesc rfl _ _)
          | _ => rw [hd] at hso; simp [J.view] at hso
      | idx i =>
        simp only [stream, Step.cls]
        cases hso : singleOf J.view (.idx i) n with
        | none => exact fail
        | some n' =>
          simp only [singleOf] at hso
          cases hd : n.data with
          | arr xs =>
            rw [hd] at hso hw
            simp only [J.view, Option.map_eq_some_iff] at hso
            obtain ⟨x, hx, rfl⟩ := hso
            exact single _ (wfList_mem xs hw x (getPy?_mem xs i x hx)) (by simp [MNode.loc]) (hdesc rfl _ _)
          | _ => rw [hd] at hso; simp [J.view] at hso
      | filter f =>
        have hst : topKeys (f n).evs = [] := topKeys_of_stamped _ (hs (.filter f) (by simp) f rfl n)
        simp only [stream, Step.cls, topKeys_predCall, topKeys_append, hst, List.nil_append]
        cases hr : (f n).res with
        | val j =>
          by_cases ht : j.truthy
          · simp only [ht, if_true]
            refine single (.imag n) hw (by simp [MNode.loc]) ?_
            intro j d hd
            exact ⟨d, by simpa [dsc] using hd, by simp [MNode.loc]⟩
          · simp only [ht]
            exact fail
        | raise e => simp [Under]
      | recur => exact absurd rfl hrec
      | parent => simp [Step.plain] at hsp
      | tuple ns => simp [Step.plain] at hsp
      | _ =>
        -- slice, key wildcard, index wildcard, generic wildcard
        all_goals
          simp only [stream, Step.cls]
          split
          · exact fail
          · simp [Under]
          · rename_i its hio
            obtain ⟨hnd, hwf⟩ := itemsOf_plain _ hsp.1 n hw its hio
            have hsub : ∀ it ∈ its, (topKeys (stream rest (vi+1) (.child n it.1 it.2))).Nodup ∧
                Under (n.loc ++ [it.1]) (vi+1) rest (topKeys (stream rest (vi+1) (.child n it.1 it.2))) := by
              intro it hit
              exact IH (vi+1) (.child n it.1 it.2) (hwf it hit)
            obtain ⟨hn, hm⟩ := items_keys n.loc vi (fun it => topKeys (stream rest (vi+1) (.child n it.1 it.2))) its hnd
              (fun it hit => ⟨(hsub it hit).1, fun k hk => ((hsub it hit).2 k hk).1⟩)
            have hfm : topKeys (its.flatMap fun x => Ev.attempt n (vi+1) (some (.child n x.1 x.2)) none :: stream rest (vi+1) (.child n x.1 x.2)) =
                its.flatMap (fun it : Name × J => ((n.loc, vi+1, some (n.loc ++ [it.1])) : AKey) :: topKeys (stream rest (vi+1) (.child n it.1 it.2))) := by
              clear hn hm hsub hwf hnd hio
              induction its with
              | nil => rfl
              | cons a t iht => simp [List.flatMap_cons, iht, MNode.loc]
            rw [topKeys_append, topKeys_attempt, hfm]
            constructor
            · rw [List.nodup_append]
              refine ⟨hn, by simp, ?_⟩
              intro a ha b hb hab
              subst hab
              simp only [topKeys_nil, List.mem_singleton] at hb
              obtain ⟨it, hit, h'⟩ := hm a ha
              rcases h' with h' | h'
              · rw [hb] at h'; simp at h'
              · have := ((hsub it hit).2 a h').2.1
                rw [hb] at this
                simp at this
            · intro k hk
              simp only [List.mem_append, topKeys_nil, List.mem_singleton] at hk
              rcases hk with hk | hk
              · obtain ⟨it, hit, h'⟩ := hm k hk
                rcases h' with rfl | h'
                · refine ⟨List.prefix_refl _, by simp, ?_⟩
                  intro d hd
                  simp only [Nat.add_sub_cancel_left, Nat.sub_self, dsc, Option.some.injEq] at hd
                  subst hd; rfl
                · obtain ⟨a, b, c⟩ := (hsub it hit).2 k h'
                  refine ⟨(List.prefix_append _ _).trans a, by omega, ?_⟩
                  intro d hd
                  have hj : k.2.1 - vi - 1 = (k.2.1 - (vi+1) - 1) + 1 := by omega
                  rw [hj] at hd
                  obtain ⟨d', hd', hlen⟩ := hdesc rfl it.1 it.2 _ d hd
                  have := c d' hd'
                  simp [MNode.loc] at hlen
                  simp at this
                  omega
              · exact fail.2 _ (by simp [hk])

end Treepath
