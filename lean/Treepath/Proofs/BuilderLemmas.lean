import Treepath.Model.Builder
/- the cache invariant of the vertex store -/
namespace Treepath

/-- two stores that agree on every vertex's parent and kind (they may differ in caches) -/
def SameShape (st st' : VStore) : Prop :=
  ∀ v : Nat, (st'[v]?).map (fun n => (n.parent, n.kind)) = (st[v]?).map (fun n => (n.parent, n.kind))

theorem chainOf_sameShape {st st' : VStore} (h : SameShape st st') (fuel v : Nat) :
    chainOf st' fuel v = chainOf st fuel v := by
  induction fuel generalizing v with
  | zero => rfl
  | succ fuel ih =>
    have hv := h v
    simp only [chainOf]
    cases h1 : st[v]? with
    | none =>
      cases h2 : st'[v]? with
      | none => rfl
      | some n' => simp [h1, h2] at hv
    | some n =>
      cases h2 : st'[v]? with
      | none => simp [h1, h2] at hv
      | some n' =>
        simp only [h1, h2, Option.map_some, Option.some.injEq, Prod.mk.injEq] at hv
        simp only [hv.1]
        cases n.parent with
        | none => rfl
        | some p => simp [ih p]

theorem chain_sameShape {st st' : VStore} (h : SameShape st st') (v : Nat) : chain st' v = chain st v :=
  chainOf_sameShape h _ v

theorem kindOfV_sameShape {st st' : VStore} (h : SameShape st st') (v : Nat) : kindOfV st' v = kindOfV st v := by
  have hv := h v
  unfold kindOfV
  cases h1 : st[v]? <;> cases h2 : st'[v]? <;> simp_all

theorem renderPure_sameShape {st st' : VStore} (h : SameShape st st') (v : Nat) : renderPure st' v = renderPure st v := by
  simp only [renderPure, chain_sameShape h, kindOfV_sameShape h]

theorem sameShape_modify_cache (st : VStore) (v : Nat) (f : VNode → VNode)
    (hf : ∀ n, (f n).parent = n.parent ∧ (f n).kind = n.kind) : SameShape st (st.modify v f) := by
  intro u
  rw [Array.getElem?_modify]
  by_cases hu : v = u
  · subst hu
    cases h1 : st[v]? with
    | none => simp
    | some n => simp [(hf n).1, (hf n).2]
  · simp [hu]

/-- well-formed store: parents are older vertices, and every cache that is set holds the value
computed from the vertex's own parent chain -/
structure WF (st : VStore) : Prop where
  parentLt : ∀ (v : Nat) (n : VNode), st[v]? = some n → ∀ p, n.parent = some p → p < v
  listOk : ∀ (v : Nat) (n : VNode) (l : List Nat), st[v]? = some n → n.listCache = some l → l = chain st v
  pathOk : ∀ (v : Nat) (n : VNode) (s : String), st[v]? = some n → n.pathCache = some s → s = renderPure st v

theorem wf_empty : WF #[] := ⟨by simp, by simp, by simp⟩

/-- the chain of an existing vertex does not see a vertex appended later -/
theorem chainOf_push (st : VStore) (hw : WF st) (nn : VNode) (fuel v : Nat) (hv : v < st.size) :
    chainOf (st.push nn) fuel v = chainOf st fuel v := by
  induction fuel generalizing v with
  | zero => rfl
  | succ fuel ih =>
    simp only [chainOf]
    have : (st.push nn)[v]? = st[v]? := by
      rw [Array.getElem?_push]; have : v ≠ st.size := by omega
      simp [this]
    rw [this]
    cases h1 : st[v]? with
    | none => rfl
    | some n =>
      show (match n.parent with | none => [v] | some p => chainOf (st.push nn) fuel p ++ [v])
         = (match n.parent with | none => [v] | some p => chainOf st fuel p ++ [v])
      cases hp : n.parent with
      | none => rfl
      | some p =>
        have := hw.parentLt v n h1 p hp
        show chainOf (st.push nn) fuel p ++ [v] = chainOf st fuel p ++ [v]
        rw [ih p (by omega)]

theorem kindOfV_push (st : VStore) (nn : VNode) (v : Nat) (hv : v < st.size) :
    kindOfV (st.push nn) v = kindOfV st v := by
  unfold kindOfV
  rw [Array.getElem?_push]; have : v ≠ st.size := by omega
  simp [this]

theorem chain_mem_lt (st : VStore) (hw : WF st) (fuel v : Nat) (hv : v < st.size) :
    ∀ u ∈ chainOf st fuel v, u < st.size := by
  induction fuel generalizing v with
  | zero => intro u hu; simp [chainOf] at hu
  | succ fuel ih =>
    intro u hu
    simp only [chainOf] at hu
    cases h1 : st[v]? with
    | none => simp [h1] at hu
    | some n =>
      simp only [h1] at hu
      cases hp : n.parent with
      | none => simp [hp] at hu; omega
      | some p =>
        simp only [hp, List.mem_append, List.mem_singleton] at hu
        have := hw.parentLt v n h1 p hp
        rcases hu with hu | hu
        · exact ih p (by omega) u hu
        · omega

theorem renderPure_push (st : VStore) (hw : WF st) (nn : VNode) (v : Nat) (hv : v < st.size) :
    renderPure (st.push nn) v = renderPure st v := by
  have hc : chain (st.push nn) v = chain st v := chainOf_push st hw nn _ v hv
  simp only [renderPure, hc, kindOfV_push st nn v hv]
  congr 2
  apply List.map_congr_left
  intro u hu
  rw [kindOfV_push st nn u (chain_mem_lt st hw _ v hv u hu)]

/-- allocating a vertex with empty caches whose parent (if any) exists keeps the store
well-formed and writes no field of an existing vertex -/
theorem push_wf (st : VStore) (hw : WF st) (nn : VNode) (hp : ∀ p, nn.parent = some p → p < st.size)
    (hc1 : nn.listCache = none) (hc2 : nn.pathCache = none) :
    WF (st.push nn) ∧ (∀ v : Nat, v < st.size → (st.push nn)[v]? = st[v]?) := by
  have hold : ∀ v : Nat, v < st.size → (st.push nn)[v]? = st[v]? := by
    intro v hv; rw [Array.getElem?_push]; have : v ≠ st.size := by omega
    simp [this]
  have hnew : (st.push nn)[st.size]? = some nn := by
    rw [Array.getElem?_push]; simp
  have hidx : ∀ (v : Nat) (n : VNode), (st.push nn)[v]? = some n → ¬ v < st.size → v = st.size := by
    intro v n hn hv
    have := (Array.getElem?_eq_some_iff.mp hn).1
    simp at this; omega
  refine ⟨⟨?_, ?_, ?_⟩, hold⟩
  all_goals intro v n
  · intro hn p hpp
    by_cases hv : v < st.size
    · rw [hold v hv] at hn; exact hw.parentLt v n hn p hpp
    · have hv' := hidx v n hn hv
      subst hv'
      rw [hnew] at hn
      simp only [Option.some.injEq] at hn; subst hn
      exact hp p hpp
  · intro l hn hl
    by_cases hv : v < st.size
    · rw [hold v hv] at hn
      rw [hw.listOk v n l hn hl]
      exact (chainOf_push st hw _ _ v hv).symm
    · have hv' := hidx v n hn hv
      subst hv'
      rw [hnew] at hn
      simp only [Option.some.injEq] at hn; subst hn
      simp [hc1] at hl
  · intro s hn hs
    by_cases hv : v < st.size
    · rw [hold v hv] at hn
      rw [hw.pathOk v n s hn hs]
      exact (renderPure_push st hw _ v hv).symm
    · have hv' := hidx v n hn hv
      subst hv'
      rw [hnew] at hn
      simp only [Option.some.injEq] at hn; subst hn
      simp [hc2] at hs

/-- extending an expression allocates one new vertex and writes no field of an existing one;
the store stays well-formed -/
theorem extend_wf (st : VStore) (hw : WF st) (e : Expr) (k : VKind) (he : e.v < st.size) :
    WF (extend st e k).1 ∧ (∀ v : Nat, v < st.size → (extend st e k).1[v]? = st[v]?) ∧
    (extend st e k).2.v = st.size ∧ (extend st e k).1.size = st.size + 1 := by
  obtain ⟨h1, h2⟩ := push_wf st hw { parent := some e.v, kind := k }
    (fun p hp => by simp only [Option.some.injEq] at hp; omega) rfl rfl
  exact ⟨h1, h2, rfl, by simp [extend]⟩

theorem newRoot_wf (st : VStore) (hw : WF st) (dash : Bool) :
    WF (newRoot st dash).1 ∧ (∀ v : Nat, v < st.size → (newRoot st dash).1[v]? = st[v]?) ∧
    (newRoot st dash).2.v = st.size ∧ (newRoot st dash).1.size = st.size + 1 := by
  obtain ⟨h1, h2⟩ := push_wf st hw { parent := none, kind := .root } (fun p hp => by simp at hp) rfl rfl
  exact ⟨h1, h2, rfl, by simp [newRoot]⟩

/-- filling a cache with the right value keeps the store well-formed -/
theorem wf_modify_cache (st : VStore) (hw : WF st) (v : Nat) (f : VNode → VNode)
    (hf : ∀ n, (f n).parent = n.parent ∧ (f n).kind = n.kind)
    (hl : ∀ n l, st[v]? = some n → (f n).listCache = some l → l = chain st v)
    (hp : ∀ n s, st[v]? = some n → (f n).pathCache = some s → s = renderPure st v) :
    WF (st.modify v f) := by
  have hs := sameShape_modify_cache st v f hf
  refine ⟨?_, ?_, ?_⟩
  all_goals intro u n
  · intro hn p hpp
    rw [Array.getElem?_modify] at hn
    by_cases hu : v = u
    · subst hu
      cases h1 : st[v]? with
      | none => simp [h1] at hn
      | some m =>
        simp [h1] at hn; subst hn
        exact hw.parentLt v m h1 p (by rw [← (hf m).1]; exact hpp)
    · simp [hu] at hn; exact hw.parentLt u n hn p hpp
  · intro l hn hll
    rw [chain_sameShape hs]
    rw [Array.getElem?_modify] at hn
    by_cases hu : v = u
    · subst hu
      cases h1 : st[v]? with
      | none => simp [h1] at hn
      | some m => simp [h1] at hn; subst hn; exact hl m l h1 hll
    · simp [hu] at hn; exact hw.listOk u n l hn hll
  · intro s hn hss
    rw [renderPure_sameShape hs]
    rw [Array.getElem?_modify] at hn
    by_cases hu : v = u
    · subst hu
      cases h1 : st[v]? with
      | none => simp [h1] at hn
      | some m => simp [h1] at hn; subst hn; exact hp m s h1 hss
    · simp [hu] at hn; exact hw.pathOk u n s hn hss

theorem pathAsList_cached (st : VStore) (v : Nat) (n : VNode) (l : List Nat) (h1 : st[v]? = some n)
    (hc : n.listCache = some l) : pathAsList st v = (st, l) := by simp [pathAsList, h1, hc]

theorem pathAsList_uncached (st : VStore) (v : Nat) (n : VNode) (h1 : st[v]? = some n) (hc : n.listCache = none) :
    pathAsList st v = (st.modify v (VNode.setListCache (chain st v)), chain st v) := by
  simp [pathAsList, h1, hc]

/-- `path_as_list` returns the vertex chain whatever the cache state, and keeps the store
well-formed and of the same shape -/
theorem pathAsList_spec (st : VStore) (hw : WF st) (v : Nat) (hv : v < st.size) :
    (pathAsList st v).2 = chain st v ∧ WF (pathAsList st v).1 ∧ SameShape st (pathAsList st v).1 := by
  cases h1 : st[v]? with
  | none => have := (Array.getElem?_eq_none_iff.mp h1); omega
  | some n =>
    cases hc : n.listCache with
    | some l =>
      rw [pathAsList_cached st v n l h1 hc]
      exact ⟨hw.listOk v n l h1 hc, hw, fun _ => rfl⟩
    | none =>
      rw [pathAsList_uncached st v n h1 hc]
      refine ⟨rfl, ?_, sameShape_modify_cache _ _ _ (fun _ => ⟨rfl, rfl⟩)⟩
      exact wf_modify_cache st hw v (VNode.setListCache (chain st v)) (fun _ => ⟨rfl, rfl⟩)
        (fun m l _ hl => by simp [VNode.setListCache] at hl; exact hl.symm)
        (fun m s hm hs => hw.pathOk v m s hm (by simpa [VNode.setListCache] using hs))

theorem render_recur (st : VStore) (v : Nat) (n : VNode) (h1 : st[v]? = some n) (hk : n.kind = .recur) :
    render st v = ((pathAsList st v).1,
      String.join ((pathAsList st v).2.map fun u => segment (kindOfV (pathAsList st v).1 u)) ++ ".") := by
  simp [render, h1, hk]

theorem render_cached (st : VStore) (v : Nat) (n : VNode) (s : String) (h1 : st[v]? = some n)
    (hk : ¬ n.kind = .recur) (hc : n.pathCache = some s) : render st v = (st, s) := by
  simp [render, h1, hk, hc]

theorem render_uncached (st : VStore) (v : Nat) (n : VNode) (h1 : st[v]? = some n)
    (hk : ¬ n.kind = .recur) (hc : n.pathCache = none) :
    render st v =
      ((pathAsList st v).1.modify v (VNode.setPathCache
          (String.join ((pathAsList st v).2.map fun u => segment (kindOfV (pathAsList st v).1 u)))),
       String.join ((pathAsList st v).2.map fun u => segment (kindOfV (pathAsList st v).1 u))) := by
  simp [render, h1, hk, hc]

/-- **rendering is history-independent**: `str(expr)` equals the pure function of the
expression's own vertex chain, whatever was rendered, evaluated or derived before -/
theorem render_spec (st : VStore) (hw : WF st) (v : Nat) (hv : v < st.size) :
    (render st v).2 = renderPure st v ∧ WF (render st v).1 ∧ SameShape st (render st v).1 := by
  cases h1 : st[v]? with
  | none => have := (Array.getElem?_eq_none_iff.mp h1); omega
  | some n =>
    obtain ⟨hl, hwl, hsl⟩ := pathAsList_spec st hw v hv
    have hjoin : ∀ suffix : String, String.join ((pathAsList st v).2.map fun u => segment (kindOfV (pathAsList st v).1 u)) ++ suffix
        = String.join ((chain st v).map fun u => segment (kindOfV st u)) ++ suffix := by
      intro suffix
      rw [hl]
      congr 2
      apply List.map_congr_left
      intro u _
      rw [kindOfV_sameShape hsl]
    by_cases hk : n.kind = .recur
    · rw [render_recur st v n h1 hk]
      have hkv : kindOfV st v = .recur := by simp [kindOfV, h1, hk]
      refine ⟨?_, hwl, hsl⟩
      simp only [renderPure, hkv, if_true]
      exact hjoin "."
    · have hkv : ¬ kindOfV st v = .recur := by simp [kindOfV, h1, hk]
      have hval : String.join ((pathAsList st v).2.map fun u => segment (kindOfV (pathAsList st v).1 u)) = renderPure st v := by
        have := hjoin ""
        simp only [String.append_empty] at this
        simp only [renderPure, hkv, if_false, String.append_empty]
        exact this
      cases hc : n.pathCache with
      | some s =>
        rw [render_cached st v n s h1 hk hc]
        exact ⟨hw.pathOk v n s h1 hc, hw, fun _ => rfl⟩
      | none =>
        rw [render_uncached st v n h1 hk hc]
        refine ⟨hval, ?_, ?_⟩
        · exact wf_modify_cache _ hwl v _ (fun _ => ⟨rfl, rfl⟩)
            (fun m l hm hll => hwl.listOk v m l hm (by simpa [VNode.setPathCache] using hll))
            (fun m s _ hs => by
              simp only [VNode.setPathCache, Option.some.injEq] at hs
              rw [← hs, hval, renderPure_sameShape hsl])
        · intro u
          have h2 := sameShape_modify_cache (pathAsList st v).1 v
            (VNode.setPathCache (String.join ((pathAsList st v).2.map fun u => segment (kindOfV (pathAsList st v).1 u))))
            (fun _ => ⟨rfl, rfl⟩) u
          exact h2.trans (hsl u)

end Treepath
