import Treepath.Model.DocList
import Treepath.Proofs.HeapLemmas
/- the in-place compaction loop of `keep_all` computes `filterMap` -/
namespace Treepath

theorem keepLoop_spec (f : Val → Option Val) (xs : List Val) :
    ∀ (fuel : Nat) (data : List Val) (r wr : Nat),
      wr ≤ r → r ≤ xs.length → data.length = xs.length → data.drop r = xs.drop r →
      data.take wr = (xs.take r).filterMap f → xs.length - r ≤ fuel →
      (keepLoop f fuel data r wr).1.take (keepLoop f fuel data r wr).2 = xs.filterMap f ∧
      (keepLoop f fuel data r wr).1.length = xs.length := by
  intro fuel
  induction fuel with
  | zero =>
    intro data r wr _ hr hlen _ htake hfuel
    have : r = xs.length := by omega
    subst this
    simp only [keepLoop]
    exact ⟨by simpa using htake, hlen⟩
  | succ fuel ih =>
    intro data r wr hwr hr hlen hdrop htake hfuel
    simp only [keepLoop]
    cases hx : data[r]? with
    | none =>
      have : xs.length ≤ r := by
        have := List.getElem?_eq_none_iff.mp hx; omega
      have : r = xs.length := by omega
      subst this
      exact ⟨by simpa using htake, hlen⟩
    | some x =>
      have hrlt : r < xs.length := by
        have := (List.getElem?_eq_some_iff.mp hx).1; omega
      have hxs : xs[r]? = some x := by
        have h1 : (data.drop r)[0]? = some x := by rw [List.getElem?_drop]; simpa using hx
        rw [hdrop, List.getElem?_drop] at h1
        simpa using h1
      have htk : xs.take (r+1) = xs.take r ++ [x] := by
        rw [List.take_succ, hxs]; rfl
      cases hf : f x with
      | some y =>
        simp only [hf]
        apply ih (data.set wr y) (r+1) (wr+1) (by omega) (by omega) (by simp [hlen])
        · rw [List.drop_set_of_lt (by omega)]
          have : data.drop (r+1) = (data.drop r).drop 1 := by simp [List.drop_drop]
          rw [this, hdrop]; simp [List.drop_drop]
        · rw [List.take_succ, List.take_set_of_le (Nat.le_refl _), htake, htk, List.filterMap_append]
          have : wr < data.length := by omega
          simp [List.getElem?_set_self this, hf]
        · omega
      | none =>
        simp only [hf]
        apply ih data (r+1) wr (by omega) (by omega) hlen
        · have : data.drop (r+1) = (data.drop r).drop 1 := by simp [List.drop_drop]
          rw [this, hdrop]; simp [List.drop_drop]
        · rw [htake, htk, List.filterMap_append]; simp [hf]
        · omega

/-- **keep_all retains exactly the elements satisfying the predicate, in their original
order** (each passed through `to_json_value ∘ to_wrapped_value`) -/
theorem keepAllList_eq (f : Val → Option Val) (xs : List Val) : keepAllList f xs = xs.filterMap f := by
  unfold keepAllList
  exact (keepLoop_spec f xs xs.length xs 0 0 (Nat.le_refl _) (Nat.zero_le _) rfl rfl (by simp) (by omega)).1

end Treepath
