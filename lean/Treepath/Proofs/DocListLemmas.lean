import Treepath.Model.DocList
import Treepath.Proofs.HeapLemmas
/- the in-place compaction loop of `keep_all` computes `filterMap` -/
namespace Treepath

theorem keepLoop_spec (f : Val → Option Val) (xs : List Val) :
    ∀ (fuel : Nat) (data : List Val) (r wr : Nat),
      wr ≤ r → r ≤ xs.length → data.length = xs.length → data.drop r = xs.drop r →
      data.take wr = (xs.take r).filterMap f → xs.length - r ≤ fuel →
      (keepLoop f fuel data r wr).1.take (keepLoop f fuel data r wr).2 = xs.filterMap f ∧
      (keepLoop f fuel data r wr).1.length = xs.length := by
  intro fuel
  induction fuel with
  | zero =>
    intro data r wr _ hr hlen _ htake hfuel
    have : r = xs.length := by omega
    subst this
    simp only [keepLoop]
    exact ⟨by simpa using htake, hlen⟩
  | succ fuel ih =>
    intro data r wr hwr hr hlen hdrop htake hfuel
    simp only [keepLoop]
    cases hx : data[r]? with
    | none =>
      have : xs.length ≤ r := by
        have := List.getElem?_eq_none_iff.mp hx; omega
      have : r = xs.length := by omega
      subst this
      exact ⟨by simpa using htake, hlen⟩
    | some x =>
      have hrlt : r < xs.length := by
        have := (List.getElem?_eq_some_iff.mp hx).1; omega
      have hxs : xs[r]? = some x := by
        have h1 : (data.drop r)[0]? = some x := by rw [List.getElem?_drop]; simpa using hx
        rw [hdrop, List.getElem?_drop] at h1
        simpa using h1
      have htk : xs.take (r+1) = xs.take r ++ [x] := by
        rw [List.take_succ, hxs]; rfl
      cases hf : f x with
      | some y =>
        simp only [hf]
        apply ih (data.set wr y) (r+1) (wr+1) (by omega) (by omega) (by simp [hlen])
        · rw [List.drop_set_of_lt (by omega)]
          have : data.drop (r+1) = (data.drop r).drop 1 := by simp [List.drop_drop]
          rw [this, hdrop]; simp [List.drop_drop]
        · rw [List.take_succ, List.take_set_of_le (Nat.le_refl _), htake, htk, List.filterMap_append]
          have : wr < data.length := by omega
          simp [List.getElem?_set_self this, hf]
        · omega
      | none =>
        simp only [hf]
        apply ih data (r+1) wr (by omega) (by omega) hlen
        · have : data.drop (r+1) = (data.drop r).drop 1 := by simp [List.drop_drop]
          rw [this, hdrop]; simp [List.drop_drop]
        · rw [htake, htk, List.filterMap_append]; simp [hf]
        · omega

/-- **keep_all retains exactly the elements satisfying the predicate, in their original
order** (each passed through `to_json_value ∘ to_wrapped_value`) -/
theorem keepAllList_eq (f : Val → Option Val) (xs : List Val) : keepAllList f xs = xs.filterMap f := by
  unfold keepAllList
  exact (keepLoop_spec f xs xs.length xs 0 0 (Nat.le_refl _) (Nat.zero_le _) rfl rfl (by simp) (by omega)).1

/-! ### predicates with memory -/

theorem filterMapS_append {σ : Type} (f : σ → Val → σ × Option Val) (s : σ) (a b : List Val) :
    filterMapS f s (a ++ b) =
      ((filterMapS f s a).1 ++ (filterMapS f (filterMapS f s a).2 b).1, (filterMapS f (filterMapS f s a).2 b).2) := by
  induction a generalizing s with
  | nil => simp [filterMapS]
  | cons x a ih =>
    simp only [List.cons_append, filterMapS]
    rcases hf : f s x with ⟨s', _ | y⟩
    · simp only [ih s']
    · simp only [ih s', List.cons_append]

/-- the in-place loop with a stateful predicate computes the stateful `filterMap`: the same
elements, written in the same order, the predicate asked exactly once per element front to
back (its final state is the plain-list reading's final state) -/
theorem keepLoopS_spec {σ : Type} (f : σ → Val → σ × Option Val) (s0 : σ) (xs : List Val) :
    ∀ (fuel : Nat) (s : σ) (data : List Val) (r wr : Nat),
      wr ≤ r → r ≤ xs.length → data.length = xs.length → data.drop r = xs.drop r →
      data.take wr = (filterMapS f s0 (xs.take r)).1 → s = (filterMapS f s0 (xs.take r)).2 → xs.length - r ≤ fuel →
      (keepLoopS f fuel s data r wr).1.take (keepLoopS f fuel s data r wr).2.1 = (filterMapS f s0 xs).1 ∧
      (keepLoopS f fuel s data r wr).2.2 = (filterMapS f s0 xs).2 ∧
      (keepLoopS f fuel s data r wr).1.length = xs.length := by
  intro fuel
  induction fuel with
  | zero =>
    intro s data r wr _ hr hlen _ htake hs hfuel
    have : r = xs.length := by omega
    subst this
    simp only [keepLoopS]
    simp only [List.take_length] at htake hs
    exact ⟨htake, hs, hlen⟩
  | succ fuel ih =>
    intro s data r wr hwr hr hlen hdrop htake hs hfuel
    simp only [keepLoopS]
    cases hx : data[r]? with
    | none =>
      have : xs.length ≤ r := by
        have := List.getElem?_eq_none_iff.mp hx; omega
      have : r = xs.length := by omega
      subst this
      simp only [List.take_length] at htake hs
      exact ⟨htake, hs, hlen⟩
    | some x =>
      have hrlt : r < xs.length := by
        have := (List.getElem?_eq_some_iff.mp hx).1; omega
      have hxs : xs[r]? = some x := by
        have h1 : (data.drop r)[0]? = some x := by rw [List.getElem?_drop]; simpa using hx
        rw [hdrop, List.getElem?_drop] at h1
        simpa using h1
      have htk : xs.take (r+1) = xs.take r ++ [x] := by
        rw [List.take_succ, hxs]; rfl
      have hstep := filterMapS_append f s0 (xs.take r) [x]
      rw [← htk, ← hs] at hstep
      rcases hf : f s x with ⟨s', _ | y⟩
      · simp only [hf]
        have hsx : filterMapS f s [x] = ([], s') := by simp [filterMapS, hf]
        rw [hsx] at hstep
        apply ih s' data (r+1) wr (by omega) (by omega) hlen
        · have : data.drop (r+1) = (data.drop r).drop 1 := by simp [List.drop_drop]
          rw [this, hdrop]; simp [List.drop_drop]
        · rw [hstep]; simpa using htake
        · rw [hstep]
        · omega
      · simp only [hf]
        have hsx : filterMapS f s [x] = ([y], s') := by simp [filterMapS, hf]
        rw [hsx] at hstep
        apply ih s' (data.set wr y) (r+1) (wr+1) (by omega) (by omega) (by simp [hlen])
        · rw [List.drop_set_of_lt (by omega)]
          have : data.drop (r+1) = (data.drop r).drop 1 := by simp [List.drop_drop]
          rw [this, hdrop]; simp [List.drop_drop]
        · rw [hstep, List.take_succ, List.take_set_of_le (Nat.le_refl _), htake]
          have : wr < data.length := by omega
          simp [List.getElem?_set_self this]
        · rw [hstep]
        · omega

/-- **keep_all with a predicate that remembers**: exactly what asking the predicate once per
element, front to back, on a plain list keeps -/
theorem keepAllListS_eq {σ : Type} (f : σ → Val → σ × Option Val) (s : σ) (xs : List Val) :
    keepAllListS f s xs = (filterMapS f s xs).1 := by
  unfold keepAllListS
  exact (keepLoopS_spec f s xs xs.length s xs 0 0 (Nat.le_refl _) (Nat.zero_le _) rfl rfl
    (by simp [filterMapS]) (by simp [filterMapS]) (by omega)).1

/-- a predicate without memory is the special case of the unit state -/
theorem filterMapS_unit (g : Val → Option Val) (xs : List Val) :
    (filterMapS (fun (_ : Unit) x => ((), g x)) () xs).1 = xs.filterMap g := by
  induction xs with
  | nil => rfl
  | cons x xs ih =>
    simp only [filterMapS, List.filterMap_cons]
    cases g x <;> simp [ih]

end Treepath
