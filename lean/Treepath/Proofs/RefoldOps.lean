import Treepath.Proofs.Refold
/-
The base cases of `refold` for the writers' primitive stores (`d[k] = v`, `l[i] = v`,
`l.append(v)`, `del d[k]`, `del l[i]`) and the resulting tree-level theorems for
`vertex.set` / `vertex.pop`.
-/
namespace Treepath

theorem lt_of_get {h : Heap} {id : Nat} {o : Obj} (ho : h[id]? = some o) : id < h.size :=
  (Array.getElem?_eq_some_iff.mp ho).1

/-- the shape shared by the base cases: object `id` is a dict with entries `es`; the new
entries `es'` / `kvs'` are related in `h'` -/
theorem base_dict (h : Heap) (id : Nat) (es es' : List (String × Val)) (E : List Nat) (F : J → Option J)
    (ho : h[id]? = some (.dict es))
    (hstep : ∀ kvs, es.map Prod.fst = kvs.map Prod.fst → UnfListJ (hput h id (.dict es')) (kvs.map Prod.snd) (es.map Prod.snd) →
      ∃ kvs', F (.obj kvs) = some (.obj kvs') ∧ es'.map Prod.fst = kvs'.map Prod.fst ∧
        UnfListJ (hput h id (.dict es')) (kvs'.map Prod.snd) (es'.map Prod.snd) ∧
        (∀ x ∈ fpList (hput h id (.dict es')) (kvs'.map Prod.snd) (es'.map Prod.snd),
            x ∈ fpList (hput h id (.dict es')) (kvs.map Prod.snd) (es.map Prod.snd) ∨ (x ∈ E ∧ x ≠ id)) ∧
        ((fpList (hput h id (.dict es')) (kvs.map Prod.snd) (es.map Prod.snd)).Nodup →
          (∀ x ∈ E, x ∉ fpList (hput h id (.dict es')) (kvs.map Prod.snd) (es.map Prod.snd)) →
          (fpList (hput h id (.dict es')) (kvs'.map Prod.snd) (es'.map Prod.snd)).Nodup)) :
    ∀ jsub, UnfJ h jsub (.ref id) → (fpJ h jsub (.ref id)).Nodup → (∀ x ∈ E, x ∉ fpJ h jsub (.ref id)) →
      ∃ jsub', F jsub = some jsub' ∧ UnfJ (hput h id (.dict es')) jsub' (.ref id) ∧
        (fpJ (hput h id (.dict es')) jsub' (.ref id)).Nodup ∧
        ∀ x ∈ fpJ (hput h id (.dict es')) jsub' (.ref id), x ∈ fpJ h jsub (.ref id) ∨ x ∈ E := by
  intro jsub hu hnd hE
  cases jsub with
  | obj kvs =>
    simp only [UnfJ, ho, Option.some.injEq, Obj.dict.injEq] at hu
    obtain ⟨es0, he0, hkv⟩ := hu
    subst he0
    obtain ⟨hkeys, hul⟩ := (unfKvs_iff h kvs es).mp hkv
    simp only [fpJ, ho, fpKvs_eq, List.nodup_cons] at hnd
    obtain ⟨q1, q2⟩ := frames_list (frames_hput h id (.dict es')) _ _ hul hnd.1
    obtain ⟨kvs', f1, f2, f3, f4, f5⟩ := hstep kvs hkeys q1
    have hself : (hput h id (.dict es'))[id]? = some (.dict es') := hput_self _ _ _ (lt_of_get ho)
    have hE' : ∀ x ∈ E, x ∉ fpList h (kvs.map Prod.snd) (es.map Prod.snd) := fun x hx hm =>
      hE x hx (by simp [fpJ, ho, fpKvs_eq, hm])
    refine ⟨.obj kvs', f1, ?_, ?_, ?_⟩
    · simp only [UnfJ]; exact ⟨es', hself, map_fst_snd_unfKvs _ _ _ f2 f3⟩
    · simp only [fpJ, hself, fpKvs_eq, List.nodup_cons]
      refine ⟨fun hm => ?_, f5 (by rw [q2]; exact hnd.2) (by rw [q2]; exact hE')⟩
      rcases f4 id hm with h1 | h1
      · rw [q2] at h1; exact hnd.1 h1
      · exact h1.2 rfl
    · intro x hx
      simp only [fpJ, hself, fpKvs_eq, List.mem_cons] at hx
      rcases hx with rfl | hx
      · left; simp [fpJ]
      · rcases f4 x hx with h1 | h1
        · rw [q2] at h1; left; simp [fpJ, ho, fpKvs_eq, h1]
        · right; exact h1.1
  | arr ys => simp [UnfJ, ho] at hu
  | null => simp [UnfJ] at hu
  | bool b => simp [UnfJ] at hu
  | int n => simp [UnfJ] at hu
  | half n => simp [UnfJ] at hu
  | str s => simp [UnfJ] at hu

/-- the same for a list object -/
theorem base_list (h : Heap) (id : Nat) (xs xs' : List Val) (E : List Nat) (F : J → Option J)
    (ho : h[id]? = some (.list xs))
    (hstep : ∀ ys, ys.length = xs.length → UnfListJ (hput h id (.list xs')) ys xs →
      ∃ ys', F (.arr ys) = some (.arr ys') ∧ UnfListJ (hput h id (.list xs')) ys' xs' ∧
        (∀ x ∈ fpList (hput h id (.list xs')) ys' xs', x ∈ fpList (hput h id (.list xs')) ys xs ∨ (x ∈ E ∧ x ≠ id)) ∧
        ((fpList (hput h id (.list xs')) ys xs).Nodup → (∀ x ∈ E, x ∉ fpList (hput h id (.list xs')) ys xs) →
          (fpList (hput h id (.list xs')) ys' xs').Nodup)) :
    ∀ jsub, UnfJ h jsub (.ref id) → (fpJ h jsub (.ref id)).Nodup → (∀ x ∈ E, x ∉ fpJ h jsub (.ref id)) →
      ∃ jsub', F jsub = some jsub' ∧ UnfJ (hput h id (.list xs')) jsub' (.ref id) ∧
        (fpJ (hput h id (.list xs')) jsub' (.ref id)).Nodup ∧
        ∀ x ∈ fpJ (hput h id (.list xs')) jsub' (.ref id), x ∈ fpJ h jsub (.ref id) ∨ x ∈ E := by
  intro jsub hu hnd hE
  cases jsub with
  | arr ys =>
    simp only [UnfJ, ho, Option.some.injEq, Obj.list.injEq] at hu
    obtain ⟨xs0, he0, hul⟩ := hu
    subst he0
    simp only [fpJ, ho, List.nodup_cons] at hnd
    obtain ⟨q1, q2⟩ := frames_list (frames_hput h id (.list xs')) _ _ hul hnd.1
    obtain ⟨ys', f1, f3, f4, f5⟩ := hstep ys (unfList_length hul) q1
    have hself : (hput h id (.list xs'))[id]? = some (.list xs') := hput_self _ _ _ (lt_of_get ho)
    have hE' : ∀ x ∈ E, x ∉ fpList h ys xs := fun x hx hm => hE x hx (by simp [fpJ, ho, hm])
    refine ⟨.arr ys', f1, ?_, ?_, ?_⟩
    · simp only [UnfJ]; exact ⟨xs', hself, f3⟩
    · simp only [fpJ, hself, List.nodup_cons]
      refine ⟨fun hm => ?_, f5 (by rw [q2]; exact hnd.2) (by rw [q2]; exact hE')⟩
      rcases f4 id hm with h1 | h1
      · rw [q2] at h1; exact hnd.1 h1
      · exact h1.2 rfl
    · intro x hx
      simp only [fpJ, hself, List.mem_cons] at hx
      rcases hx with rfl | hx
      · left; simp [fpJ]
      · rcases f4 x hx with h1 | h1
        · rw [q2] at h1; left; simp [fpJ, ho, h1]
        · right; exact h1.1
  | obj kvs => simp [UnfJ, ho] at hu
  | null => simp [UnfJ] at hu
  | bool b => simp [UnfJ] at hu
  | int n => simp [UnfJ] at hu
  | half n => simp [UnfJ] at hu
  | str s => simp [UnfJ] at hu

/-- the object a walk arrives at is in the footprint of where it started -/
theorem walk_mem_fp (h : Heap) (id : Nat) : ∀ (loc : List Name) (root : Val) (j : J), UnfJ h j root →
    walk (hview h) root loc = some (.ref id) → id ∈ fpJ h j root
  | [], root, j, hu, hw => by
    simp only [walk, Option.some.injEq] at hw
    subst hw
    cases j <;> simp [UnfJ] at hu <;> simp [fpJ]
  | nm :: l, root, j, hu, hw => by
    simp only [walk] at hw
    cases hc : childAt (hview h root) nm with
    | none => simp [hc] at hw
    | some c =>
      simp only [hc] at hw
      cases root with
      | atom a => cases nm <;> simp [childAt, hview] at hc
      | ref rid =>
        cases j with
        | obj kvs =>
          simp only [UnfJ] at hu
          obtain ⟨es, ho, hkv⟩ := hu
          obtain ⟨hkeys, hul⟩ := (unfKvs_iff h kvs es).mp hkv
          rw [hview_ref_dict ho] at hc
          cases nm with
          | idx i => simp [childAt] at hc
          | key k =>
            simp only [childAt] at hc
            obtain ⟨p, _, p1, _⟩ := kvs_pos kvs es k c hkeys hc
            obtain ⟨jc, _, g2, g3⟩ := unfList_get hul p1
            have := g3 id (walk_mem_fp h id l c jc g2 hw)
            simp [fpJ, ho, fpKvs_eq, this]
        | arr ys =>
          simp only [UnfJ] at hu
          obtain ⟨xs, ho, hul⟩ := hu
          rw [hview_ref_list ho] at hc
          cases nm with
          | key k => simp [childAt] at hc
          | idx i =>
            simp only [childAt, getPy?_eq_norm] at hc
            cases hni : normIndex xs.length i with
            | none => simp [hni] at hc
            | some p =>
              simp only [hni, Option.bind_some] at hc
              obtain ⟨jc, _, g2, g3⟩ := unfList_get hul hc
              have := g3 id (walk_mem_fp h id l c jc g2 hw)
              simp [fpJ, ho, this]
        | null => simp [UnfJ] at hu
        | bool b => simp [UnfJ] at hu
        | int n => simp [UnfJ] at hu
        | half n => simp [UnfJ] at hu
        | str s => simp [UnfJ] at hu

def nameStepV : Name → Step Val
  | .key k => .key k
  | .idx i => .idx i

/-- **`vertex.set` on the tree**: when the parent match sits at `pm.loc` of a store without
aliasing and the assigned value is fresh (shares no object with the document), the document
afterwards unfolds to the old tree with `jv` assigned under the last name inside the node at
`pm.loc` — and nothing else changed; the store is still free of aliasing. -/
theorem vertexSet_refold (h h' : Heap) (s : Step Val) (pm m : MNode Val) (v : Val) (root : Val) (j jv : J)
    (hs : vertexSet h s pm v = .ok (h', m))
    (hu : UnfJ h j root) (hsep : (fpJ h j root).Nodup)
    (hv : UnfJ h jv v) (hvn : (fpJ h jv v).Nodup) (hfresh : ∀ x ∈ fpJ h jv v, x ∉ fpJ h j root)
    (hloc : walk (hview h) root pm.loc = some pm.data) :
    ∃ nm j', s = nameStepV nm ∧ m = .child pm nm v ∧ J.setAt j pm.loc nm jv = some j' ∧ UnfJ h' j' root ∧
      (fpJ h' j' root).Nodup ∧ ∀ x ∈ fpJ h' j' root, x ∈ fpJ h j root ∨ x ∈ fpJ h jv v := by
  unfold vertexSet at hs
  split at hs
  · -- key on a dict
    rename_i k id hd
    split at hs
    · rename_i es ho
      simp only [Except.ok.injEq, Prod.mk.injEq] at hs
      obtain ⟨rfl, rfl⟩ := hs
      rw [hd] at hloc
      have hidv : id ∉ fpJ h jv v := fun hm => hfresh id hm (walk_mem_fp h id pm.loc root j hu hloc)
      obtain ⟨r1, r2⟩ := unf_frame h id (.dict (dictSet es k v)) jv v hv hidv
      have hb := base_dict h id es (dictSet es k v) (fpJ h jv v) (fun c => c.setName (.key k) jv) ho (by
        intro kvs hkeys q1
        cases hl : es.lookup k with
        | some c =>
          obtain ⟨p, _, _, _, _, p4, p5, _⟩ := kvs_pos kvs es k c hkeys hl
          obtain ⟨u1, u2, u3⟩ := unfList_set r1 (kvs.map Prod.snd) (es.map Prod.snd) p q1
          refine ⟨kvsSet kvs k jv, rfl, by rw [(p4 jv).2, (p5 v).2]; exact hkeys, by rw [(p4 jv).1, (p5 v).1]; exact u1, ?_, ?_⟩
          · intro x hx
            rw [(p4 jv).1, (p5 v).1] at hx
            rcases u2 x hx with h1 | h1
            · left; exact h1
            · rw [r2] at h1; right; exact ⟨h1, fun e => hidv (e ▸ h1)⟩
          · intro n1 n2
            rw [(p4 jv).1, (p5 v).1]
            exact u3 n1 (by rw [r2]; exact hvn) (by rw [r2]; exact n2)
        | none =>
          obtain ⟨_, k2, k3⟩ := kvs_new kvs es k hkeys hl
          have e2 := k2 jv
          have e3 := k3 v
          rw [e3] at r1 r2 q1 ⊢
          obtain ⟨u1, u2⟩ := unfList_append r1 (kvs.map Prod.snd) (es.map Prod.snd) q1
          refine ⟨kvs ++ [(k, jv)], by simp [J.setName, e2], by simp [hkeys], by simpa using u1, ?_, ?_⟩
          · intro x hx
            simp only [List.map_append, List.map_cons, List.map_nil, u2, List.mem_append] at hx
            rcases hx with h1 | h1
            · left; exact h1
            · rw [r2] at h1; right; exact ⟨h1, fun e => hidv (e ▸ h1)⟩
          · intro n1 n2
            simp only [List.map_append, List.map_cons, List.map_nil, u2, List.nodup_append]
            exact ⟨n1, by rw [r2]; exact hvn, fun a ha b hb e => n2 b (by rw [← r2]; exact hb) (e ▸ ha)⟩)
      obtain ⟨_, j', g1, g2, g3, g4⟩ := refold h id _ _ _ hb pm.loc root j hu hsep hfresh hloc
      exact ⟨.key k, j', rfl, rfl, g1, g2, g3, g4⟩
    · simp at hs
  · -- index on a list
    rename_i i id hd
    split at hs
    · rename_i xs ho
      rw [hd] at hloc
      have hidv : id ∉ fpJ h jv v := fun hm => hfresh id hm (walk_mem_fp h id pm.loc root j hu hloc)
      split at hs
      · -- in range
        rename_i xs' hls
        simp only [Except.ok.injEq, Prod.mk.injEq] at hs
        obtain ⟨rfl, rfl⟩ := hs
        simp only [listSet] at hls
        cases hni : normIndex xs.length i with
        | none => simp [hni] at hls
        | some p =>
          simp only [hni, Option.map_some, Option.some.injEq] at hls
          subst hls
          obtain ⟨r1, r2⟩ := unf_frame h id (.list (xs.set p v)) jv v hv hidv
          have hb := base_list h id xs (xs.set p v) (fpJ h jv v) (fun c => c.setName (.idx i) jv) ho (by
            intro ys hlen q1
            obtain ⟨u1, u2, u3⟩ := unfList_set r1 ys xs p q1
            refine ⟨ys.set p jv, by simp [J.setName, hlen, hni], u1, ?_, ?_⟩
            · intro x hx
              rcases u2 x hx with h1 | h1
              · left; exact h1
              · rw [r2] at h1; right; exact ⟨h1, fun e => hidv (e ▸ h1)⟩
            · intro n1 n2
              exact u3 n1 (by rw [r2]; exact hvn) (by rw [r2]; exact n2))
          obtain ⟨_, j', g1, g2, g3, g4⟩ := refold h id _ _ _ hb pm.loc root j hu hsep hfresh hloc
          exact ⟨.idx i, j', rfl, rfl, g1, g2, g3, g4⟩
      · -- IndexError: append iff the index equals the length
        rename_i hls
        split at hs
        · rename_i hil
          simp only [Except.ok.injEq, Prod.mk.injEq] at hs
          obtain ⟨rfl, rfl⟩ := hs
          have hni : normIndex xs.length i = none := by
            simp only [listSet] at hls
            cases hq : normIndex xs.length i with
            | none => rfl
            | some p => simp [hq] at hls
          obtain ⟨r1, r2⟩ := unf_frame h id (.list (xs ++ [v])) jv v hv hidv
          have hb := base_list h id xs (xs ++ [v]) (fpJ h jv v) (fun c => c.setName (.idx i) jv) ho (by
            intro ys hlen q1
            obtain ⟨u1, u2⟩ := unfList_append r1 ys xs q1
            refine ⟨ys ++ [jv], by simp only [J.setName, hlen, hni]; rw [if_pos hil], u1, ?_, ?_⟩
            · intro x hx
              simp only [u2, List.mem_append] at hx
              rcases hx with h1 | h1
              · left; exact h1
              · rw [r2] at h1; right; exact ⟨h1, fun e => hidv (e ▸ h1)⟩
            · intro n1 n2
              simp only [u2, List.nodup_append]
              exact ⟨n1, by rw [r2]; exact hvn, fun a ha b hb e => n2 b (by rw [← r2]; exact hb) (e ▸ ha)⟩)
          obtain ⟨_, j', g1, g2, g3, g4⟩ := refold h id _ _ _ hb pm.loc root j hu hsep hfresh hloc
          exact ⟨.idx i, j', rfl, rfl, g1, g2, g3, g4⟩
        · simp at hs
    · simp at hs
  · simp at hs

/-- **`vertex.pop` on the tree**: the document afterwards unfolds to the old tree without the
entry, at the location of the match's parent; nothing else changed, no aliasing appears -/
theorem vertexPop_refold (h h' : Heap) (last : Option (Step Val)) (m : MNode Val) (root : Val) (j : J)
    (hp : vertexPop h last m = .ok h') (hu : UnfJ h j root) (hsep : (fpJ h j root).Nodup)
    (hloc : ∀ p, m.parent = some p → walk (hview h) root p.loc = some p.data) :
    ∃ p nm j', m.parent = some p ∧ last = some (nameStepV nm) ∧ J.popAt j p.loc nm = some j' ∧ UnfJ h' j' root ∧
      (fpJ h' j' root).Nodup ∧ ∀ x ∈ fpJ h' j' root, x ∈ fpJ h j root := by
  unfold vertexPop at hp
  cases hpar : m.parent with
  | none => simp [hpar] at hp
  | some p =>
    have hl := hloc p hpar
    simp only [hpar, Option.map_some] at hp
    split at hp
    · -- key
      rename_i k id hd
      simp only [Option.some.injEq] at hd
      rw [hd] at hl
      split at hp
      · rename_i es ho
        split at hp
        · rename_i w es' hdel
          simp only [Except.ok.injEq] at hp
          subst hp
          simp only [dictDel] at hdel
          cases hlk : es.lookup k with
          | none => simp [hlk] at hdel
          | some c =>
            simp only [hlk, Option.some.injEq, Prod.mk.injEq] at hdel
            obtain ⟨_, rfl⟩ := hdel
            have hb := base_dict h id es (dictErase es k) [] (fun c => c.delName (.key k)) ho (by
              intro kvs hkeys q1
              obtain ⟨pp, jc, _, p2, _, _, _, p6, p7, p8, p9⟩ := kvs_pos kvs es k c hkeys hlk
              obtain ⟨u1, u2, u3⟩ := unfList_erase (kvs.map Prod.snd) (es.map Prod.snd) pp q1
              refine ⟨kvsErase kvs k, by simp [J.delName, p2], by rw [p7, p9, hkeys], by rw [p6, p8]; exact u1, ?_, ?_⟩
              · intro x hx; rw [p6, p8] at hx; left; exact u2 x hx
              · intro n1 _; rw [p6, p8]; exact u3 n1)
            obtain ⟨_, j', g1, g2, g3, g4⟩ := refold h id _ _ _ hb p.loc root j hu hsep (by simp) hl
            exact ⟨p, .key k, j', rfl, rfl, g1, g2, g3, fun x hx => by simpa using g4 x hx⟩
        · simp at hp
      · simp at hp
    · -- index
      rename_i i id hd
      simp only [Option.some.injEq] at hd
      rw [hd] at hl
      split at hp
      · rename_i xs ho
        split at hp
        · rename_i w xs' hdel
          simp only [Except.ok.injEq] at hp
          subst hp
          simp only [listDel] at hdel
          cases hni : normIndex xs.length i with
          | none => simp [hni] at hdel
          | some pp =>
            simp only [hni] at hdel
            cases hg : xs[pp]? with
            | none => simp [hg] at hdel
            | some c =>
              simp only [hg, Option.map_some, Option.some.injEq, Prod.mk.injEq] at hdel
              obtain ⟨_, rfl⟩ := hdel
              have hb := base_list h id xs (xs.eraseIdx pp) [] (fun c => c.delName (.idx i)) ho (by
                intro ys hlen q1
                obtain ⟨u1, u2, u3⟩ := unfList_erase ys xs pp q1
                refine ⟨ys.eraseIdx pp, by simp [J.delName, hlen, hni], u1, ?_, ?_⟩
                · intro x hx; left; exact u2 x hx
                · intro n1 _; exact u3 n1)
              obtain ⟨_, j', g1, g2, g3, g4⟩ := refold h id _ _ _ hb p.loc root j hu hsep (by simp) hl
              exact ⟨p, .idx i, j', rfl, rfl, g1, g2, g3, fun x hx => by simpa using g4 x hx⟩
        · simp at hp
      · simp at hp
    · simp at hp

end Treepath
