import Treepath.Proofs.NaturalNext
/-
Loading a JSON tree into the object store (`allocJ`, what the driver does with every
document of the writer families) produces a value that unfolds to that very tree — the
premise `Unf h root j` of the transport theorems is met by every document the correspondence
runs on, and it survives allocation of further objects.
-/
namespace Treepath

/-- `h'` has every object of `h` at the same address -/
def Ext (h h' : Heap) : Prop := ∀ (id : Nat) (o : Obj), h[id]? = some o → h'[id]? = some o

theorem Ext.refl (h : Heap) : Ext h h := fun _ _ hx => hx
theorem Ext.trans {a b c : Heap} (h1 : Ext a b) (h2 : Ext b c) : Ext a c := fun id o hx => h2 id o (h1 id o hx)

theorem ext_push (h : Heap) (o : Obj) : Ext h (h.push o) := by
  intro id o' hx
  have hlt : id < h.size := by
    by_cases hl : id < h.size
    · exact hl
    · rw [Array.getElem?_eq_none (by omega)] at hx; simp at hx
  rw [Array.getElem?_push]
  have : id ≠ h.size := by omega
  simp [this, hx]

mutual
theorem unf_mono (h h' : Heap) (he : Ext h h') : ∀ (j : J) (v : Val), UnfJ h j v → UnfJ h' j v
  | .obj kvs, .ref id, hx => by
    simp only [UnfJ] at hx ⊢
    obtain ⟨es, h1, h2⟩ := hx
    exact ⟨es, he _ _ h1, unfKvs_mono h h' he kvs es h2⟩
  | .arr ys, .ref id, hx => by
    simp only [UnfJ] at hx ⊢
    obtain ⟨xs, h1, h2⟩ := hx
    exact ⟨xs, he _ _ h1, unfList_mono h h' he ys xs h2⟩
  | .obj _, .atom _, hx => by simp [UnfJ] at hx
  | .arr _, .atom _, hx => by simp [UnfJ] at hx
  | .null, v, hx => by simpa [UnfJ] using hx
  | .bool b, v, hx => by simpa [UnfJ] using hx
  | .int i, v, hx => by simpa [UnfJ] using hx
  | .half i, v, hx => by simpa [UnfJ] using hx
  | .str s, v, hx => by simpa [UnfJ] using hx
theorem unfKvs_mono (h h' : Heap) (he : Ext h h') : ∀ (kvs : List (String × J)) (es : List (String × Val)),
    UnfKvsJ h kvs es → UnfKvsJ h' kvs es
  | [], [], _ => by simp [UnfKvsJ]
  | (k, j) :: kvs, (k', v) :: es, hx => by
    simp only [UnfKvsJ] at hx ⊢
    exact ⟨hx.1, unf_mono h h' he j v hx.2.1, unfKvs_mono h h' he kvs es hx.2.2⟩
  | [], _ :: _, hx => by simp [UnfKvsJ] at hx
  | _ :: _, [], hx => by simp [UnfKvsJ] at hx
theorem unfList_mono (h h' : Heap) (he : Ext h h') : ∀ (ys : List J) (xs : List Val),
    UnfListJ h ys xs → UnfListJ h' ys xs
  | [], [], _ => by simp [UnfListJ]
  | j :: ys, v :: xs, hx => by
    simp only [UnfListJ] at hx ⊢
    exact ⟨unf_mono h h' he j v hx.1, unfList_mono h h' he ys xs hx.2⟩
  | [], _ :: _, hx => by simp [UnfListJ] at hx
  | _ :: _, [], hx => by simp [UnfListJ] at hx
end

mutual
theorem allocJ_spec : ∀ (h : Heap) (j : J), Ext h (allocJ h j).1 ∧ UnfJ (allocJ h j).1 j (allocJ h j).2
  | h, .arr xs => by
    obtain ⟨e1, u1⟩ := allocList_spec h xs
    simp only [allocJ]
    refine ⟨e1.trans (ext_push _ _), ?_⟩
    simp only [UnfJ]
    exact ⟨_, by simp, unfList_mono _ _ (ext_push _ _) _ _ u1⟩
  | h, .obj kvs => by
    obtain ⟨e1, u1⟩ := allocKvs_spec h kvs
    simp only [allocJ]
    refine ⟨e1.trans (ext_push _ _), ?_⟩
    simp only [UnfJ]
    exact ⟨_, by simp, unfKvs_mono _ _ (ext_push _ _) _ _ u1⟩
  | h, .null => ⟨Ext.refl h, by simp [allocJ, UnfJ]⟩
  | h, .bool b => ⟨Ext.refl h, by simp [allocJ, UnfJ]⟩
  | h, .int i => ⟨Ext.refl h, by simp [allocJ, UnfJ]⟩
  | h, .half i => ⟨Ext.refl h, by simp [allocJ, UnfJ]⟩
  | h, .str s => ⟨Ext.refl h, by simp [allocJ, UnfJ]⟩
theorem allocList_spec : ∀ (h : Heap) (xs : List J),
    Ext h (allocJ.allocList h xs).1 ∧ UnfListJ (allocJ.allocList h xs).1 xs (allocJ.allocList h xs).2
  | h, [] => ⟨Ext.refl h, by simp [allocJ.allocList, UnfListJ]⟩
  | h, x :: xs => by
    obtain ⟨e1, u1⟩ := allocJ_spec h x
    obtain ⟨e2, u2⟩ := allocList_spec (allocJ h x).1 xs
    simp only [allocJ.allocList]
    exact ⟨e1.trans e2, by simp only [UnfListJ]; exact ⟨unf_mono _ _ e2 _ _ u1, u2⟩⟩
theorem allocKvs_spec : ∀ (h : Heap) (kvs : List (String × J)),
    Ext h (allocJ.allocKvs h kvs).1 ∧ UnfKvsJ (allocJ.allocKvs h kvs).1 kvs (allocJ.allocKvs h kvs).2
  | h, [] => ⟨Ext.refl h, by simp [allocJ.allocKvs, UnfKvsJ]⟩
  | h, (k, x) :: kvs => by
    obtain ⟨e1, u1⟩ := allocJ_spec h x
    obtain ⟨e2, u2⟩ := allocKvs_spec (allocJ h x).1 kvs
    simp only [allocJ.allocKvs]
    exact ⟨e1.trans e2, by simp only [UnfKvsJ]; exact ⟨trivial, unf_mono _ _ e2 _ _ u1, u2⟩⟩
end

/-- **a loaded document unfolds to the tree it was loaded from** -/
theorem loaded_document_unfolds (h : Heap) (j : J) : Unf (allocJ h j).1 (allocJ h j).2 j :=
  (allocJ_spec h j).2

/-- … and keeps doing so while further objects are allocated (not while it is written to:
after a write it unfolds to the *new* tree, which is what the frame theorems describe) -/
theorem unf_survives_allocation (h h' : Heap) (v : Val) (j : J) (he : Ext h h') (hu : Unf h v j) : Unf h' v j :=
  unf_mono h h' he j v hu

/-! ### filter-free paths are the same path over any document type -/

/-- a step without a predicate, independent of the document type -/
inductive PStep where
  | key (k : String) | idx (i : Int) | slice (a b c : Option Int) | tuple (ns : List Name)
  | keyWc | idxWc | gwc | recur | parent

def PStep.toStep {α : Type} : PStep → Step α
  | .key k => .key k
  | .idx i => .idx i
  | .slice a b c => .slice a b c
  | .tuple ns => .tuple ns
  | .keyWc => .keyWc
  | .idxWc => .idxWc
  | .gwc => .gwc
  | .recur => .recur
  | .parent => .parent

theorem pstep_rel {α β : Type} (Rel : α → β → Prop) (p : PStep) : StepRel Rel (p.toStep (α := α)) (p.toStep (α := β)) := by
  cases p <;> constructor

theorem psteps_rel {α β : Type} (Rel : α → β → Prop) (ps : List PStep) :
    LRel (StepRel Rel) (ps.map (PStep.toStep (α := α))) (ps.map (PStep.toStep (α := β))) := by
  induction ps with
  | nil => exact .nil
  | cons p ps ih => exact .cons (pstep_rel Rel p) ih

theorem psteps_clean (ps : List PStep) : PredsClean (ps.map (PStep.toStep (α := J))).toArray := by
  intro s hs f hf
  simp only [List.toList_toArray, List.mem_map] at hs
  obtain ⟨p, _, rfl⟩ := hs
  cases p <;> simp [PStep.toStep] at hf

/-- for a document loaded from the tree `j` and a filter-free path, with nothing left to
assume: what `get_match` finds in the object store is the first result of the definition on
`j`, at the same location, holding a value that unfolds to the definition's -/
theorem loaded_getMatch_is_definition (h0 : Heap) (j : J) (ps : List PStep) (mm : Bool) (m : MNode Val)
    (hg : getMatch (wcx (allocJ h0 j).1) (ps.map PStep.toStep).toArray (.doc (allocJ h0 j).2) mm = .ok (some m)) :
    ∃ m', NodeRel (Unf (allocJ h0 j).1) m m' ∧ (evalE (ps.map PStep.toStep) (.root j)).1.head? = some m' := by
  have := getMatch_heap_found (allocJ h0 j).1 (allocJ h0 j).2 j (loaded_document_unfolds h0 j)
    (ps.map PStep.toStep).toArray (ps.map PStep.toStep).toArray (by simpa using psteps_rel _ ps) (psteps_clean ps) mm m hg
  simpa using this

end Treepath
