import Treepath.Proofs.RefoldOps
import Treepath.Proofs.Distinct
/-
The invariant of the writer histories — the store unfolds to a tree, without aliasing, with
unique keys per dict — is established by loading a document, and kept by allocation.
-/
namespace Treepath

/-- every dict object has unique keys (what Python dicts guarantee) -/
def HeapWF (h : Heap) : Prop :=
  ∀ (id : Nat) (es : List (String × Val)), h[id]? = some (Obj.dict es) → (es.map Prod.fst).Nodup

theorem heapwf_keysUniq {h : Heap} (hw : HeapWF h) : KeysUniq (hview h) := by
  intro a es hv
  cases a with
  | atom x => simp [hview] at hv
  | ref id =>
    simp only [hview] at hv
    split at hv
    · rename_i es' ho; simp only [View.dict.injEq] at hv; subst hv; exact hw id _ ho
    · simp at hv
    · simp at hv

theorem dictSet_nodup (es : List (String × Val)) (k : String) (v : Val) (hn : (es.map Prod.fst).Nodup) :
    ((dictSet es k v).map Prod.fst).Nodup := by
  rw [dictSet_keys]
  split
  · exact hn
  · rename_i hk
    exact List.nodup_append.mpr ⟨hn, by simp, fun a ha b hb e => hk (by simp at hb; subst hb; exact e ▸ ha)⟩

theorem dictErase_keys_sublist (es : List (String × Val)) (k : String) :
    ((dictErase es k).map Prod.fst).Sublist (es.map Prod.fst) := by
  induction es with
  | nil => simp [dictErase]
  | cons e es ih =>
    obtain ⟨k', v'⟩ := e
    simp only [dictErase]
    split
    · simp
    · simpa using ih

theorem dictErase_nodup (es : List (String × Val)) (k : String) (hn : (es.map Prod.fst).Nodup) :
    ((dictErase es k).map Prod.fst).Nodup := (dictErase_keys_sublist es k).nodup hn

theorem heapwf_hput {h : Heap} (hw : HeapWF h) (id : Nat) (o : Obj)
    (ho : ∀ es, o = .dict es → (es.map Prod.fst).Nodup) : HeapWF (hput h id o) := by
  intro i es hi
  by_cases he : i = id
  · subst he
    by_cases hlt : i < h.size
    · rw [hput_self _ _ _ hlt] at hi
      exact ho es (by simpa using (Option.some.inj hi))
    · have : (hput h i o)[i]? = none := by
        rw [Array.getElem?_eq_none]; rw [hput_size]; omega
      rw [this] at hi; simp at hi
  · rw [hput_other _ _ _ _ he] at hi
    exact hw i es hi

theorem heapwf_push {h : Heap} (hw : HeapWF h) (o : Obj)
    (ho : ∀ es, o = .dict es → (es.map Prod.fst).Nodup) : HeapWF (h.push o) := by
  intro i es hi
  rw [Array.getElem?_push] at hi
  split at hi
  · exact ho es (by simpa using (Option.some.inj hi))
  · exact hw i es hi

theorem vertexSet_wf {h h' : Heap} (hw : HeapWF h) (s : Step Val) (pm m : MNode Val) (v : Val)
    (hs : vertexSet h s pm v = .ok (h', m)) : HeapWF h' := by
  unfold vertexSet at hs
  split at hs
  · split at hs
    · rename_i id _ _ es ho
      simp only [Except.ok.injEq, Prod.mk.injEq] at hs
      obtain ⟨rfl, _⟩ := hs
      exact heapwf_hput hw _ _ (fun es' he => by
        simp only [Obj.dict.injEq] at he; subst he; exact dictSet_nodup _ _ _ (hw _ _ ho))
    · simp at hs
  · split at hs
    · split at hs
      · simp only [Except.ok.injEq, Prod.mk.injEq] at hs
        obtain ⟨rfl, _⟩ := hs
        exact heapwf_hput hw _ _ (fun es' he => by simp at he)
      · split at hs
        · simp only [Except.ok.injEq, Prod.mk.injEq] at hs
          obtain ⟨rfl, _⟩ := hs
          exact heapwf_hput hw _ _ (fun es' he => by simp at he)
        · simp at hs
    · simp at hs
  · simp at hs

theorem vertexPop_wf {h h' : Heap} (hw : HeapWF h) (last : Option (Step Val)) (m : MNode Val)
    (hp : vertexPop h last m = .ok h') : HeapWF h' := by
  unfold vertexPop at hp
  split at hp
  · split at hp
    · rename_i es ho
      split at hp
      · rename_i w es' hdel
        simp only [Except.ok.injEq] at hp
        subst hp
        simp only [dictDel] at hdel
        split at hdel
        · simp only [Option.some.injEq, Prod.mk.injEq] at hdel
          obtain ⟨_, rfl⟩ := hdel
          exact heapwf_hput hw _ _ (fun es' he => by
            simp only [Obj.dict.injEq] at he; subst he; exact dictErase_nodup _ _ (hw _ _ ho))
        · simp at hdel
      · simp at hp
    · simp at hp
  · split at hp
    · split at hp
      · simp only [Except.ok.injEq] at hp
        subst hp
        exact heapwf_hput hw _ _ (fun es' he => by simp at he)
      · simp at hp
    · simp at hp
  · simp at hp

/-! ### footprints under allocation -/

theorem fp_lt (h : Heap) : ∀ (j : J) (v : Val), UnfJ h j v → ∀ x ∈ fpJ h j v, x < h.size := by
  intro j v hu x hx
  -- a member of the footprint is reached by unfolding, hence is an allocated object
  suffices H : ∀ (n : Nat) (j : J) (v : Val), sizeOf j ≤ n → UnfJ h j v → ∀ x ∈ fpJ h j v, x < h.size from
    H (sizeOf j) j v (Nat.le_refl _) hu x hx
  intro n
  induction n with
  | zero => intro j v hs; cases j <;> simp at hs <;> omega
  | succ n ih =>
    intro j v hs hu x hx
    cases j with
    | obj kvs =>
      cases v with
      | atom a => simp [UnfJ] at hu
      | ref id =>
        simp only [UnfJ] at hu
        obtain ⟨es, ho, hkv⟩ := hu
        simp only [fpJ, ho, List.mem_cons] at hx
        rcases hx with rfl | hx
        · exact lt_of_get ho
        · -- inside one of the entries
          have hlist : ∀ (kvs' : List (String × J)) (es' : List (String × Val)), sizeOf kvs' ≤ n →
              UnfKvsJ h kvs' es' → x ∈ fpKvs h kvs' es' → x < h.size := by
            intro kvs'
            induction kvs' with
            | nil => intro es' _ _ hm; cases es' <;> simp [fpKvs] at hm
            | cons kv kvs' ih2 =>
              intro es' hs' hu' hm
              obtain ⟨k, jc⟩ := kv
              cases es' with
              | nil => simp [fpKvs] at hm
              | cons e es' =>
                obtain ⟨k', c⟩ := e
                simp only [UnfKvsJ] at hu'
                simp only [fpKvs, List.mem_append] at hm
                simp only [List.cons.sizeOf_spec, Prod.mk.sizeOf_spec] at hs'
                rcases hm with hm | hm
                · exact ih jc c (by omega) hu'.2.1 x hm
                · exact ih2 es' (by omega) hu'.2.2 hm
          exact hlist kvs es (by simp only [J.obj.sizeOf_spec] at hs; omega) hkv hx
    | arr ys =>
      cases v with
      | atom a => simp [UnfJ] at hu
      | ref id =>
        simp only [UnfJ] at hu
        obtain ⟨xs, ho, hl⟩ := hu
        simp only [fpJ, ho, List.mem_cons] at hx
        rcases hx with rfl | hx
        · exact lt_of_get ho
        · have hlist : ∀ (ys' : List J) (xs' : List Val), sizeOf ys' ≤ n →
              UnfListJ h ys' xs' → x ∈ fpList h ys' xs' → x < h.size := by
            intro ys'
            induction ys' with
            | nil => intro xs' _ _ hm; cases xs' <;> simp [fpList] at hm
            | cons jc ys' ih2 =>
              intro xs' hs' hu' hm
              cases xs' with
              | nil => simp [fpList] at hm
              | cons c xs' =>
                simp only [UnfListJ] at hu'
                simp only [fpList, List.mem_append] at hm
                simp only [List.cons.sizeOf_spec] at hs'
                rcases hm with hm | hm
                · exact ih jc c (by omega) hu'.1 x hm
                · exact ih2 xs' (by omega) hu'.2 hm
          exact hlist ys xs (by simp only [J.arr.sizeOf_spec] at hs; omega) hl hx
    | null => simp [fpJ] at hx
    | bool b => simp [fpJ] at hx
    | int i => simp [fpJ] at hx
    | half i => simp [fpJ] at hx
    | str s => simp [fpJ] at hx

mutual
theorem fp_ext (h h' : Heap) (he : Ext h h') : ∀ (j : J) (v : Val), UnfJ h j v → fpJ h' j v = fpJ h j v
  | .obj kvs, .ref id, hx => by
    simp only [UnfJ] at hx
    obtain ⟨es, h1, h2⟩ := hx
    simp only [fpJ, h1, he _ _ h1, fpKvs_ext h h' he kvs es h2]
  | .arr ys, .ref id, hx => by
    simp only [UnfJ] at hx
    obtain ⟨xs, h1, h2⟩ := hx
    simp only [fpJ, h1, he _ _ h1, fpList_ext h h' he ys xs h2]
  | .obj _, .atom _, _ => by simp [fpJ]
  | .arr _, .atom _, _ => by simp [fpJ]
  | .null, v, _ => by simp [fpJ]
  | .bool b, v, _ => by simp [fpJ]
  | .int i, v, _ => by simp [fpJ]
  | .half i, v, _ => by simp [fpJ]
  | .str s, v, _ => by simp [fpJ]
theorem fpKvs_ext (h h' : Heap) (he : Ext h h') : ∀ (kvs : List (String × J)) (es : List (String × Val)),
    UnfKvsJ h kvs es → fpKvs h' kvs es = fpKvs h kvs es
  | [], [], _ => by simp [fpKvs]
  | (k, j) :: kvs, (k', v) :: es, hx => by
    simp only [UnfKvsJ] at hx
    simp only [fpKvs, fp_ext h h' he j v hx.2.1, fpKvs_ext h h' he kvs es hx.2.2]
  | [], _ :: _, hx => by simp [UnfKvsJ] at hx
  | _ :: _, [], hx => by simp [UnfKvsJ] at hx
theorem fpList_ext (h h' : Heap) (he : Ext h h') : ∀ (ys : List J) (xs : List Val),
    UnfListJ h ys xs → fpList h' ys xs = fpList h ys xs
  | [], [], _ => by simp [fpList]
  | j :: ys, v :: xs, hx => by
    simp only [UnfListJ] at hx
    simp only [fpList, fp_ext h h' he j v hx.1, fpList_ext h h' he ys xs hx.2]
  | [], _ :: _, hx => by simp [UnfListJ] at hx
  | _ :: _, [], hx => by simp [UnfListJ] at hx
end

theorem ext_size {h h' : Heap} (he : Ext h h') : h.size ≤ h'.size := by
  by_cases hz : h.size = 0
  · omega
  · have hlt : h.size - 1 < h.size := by omega
    have := he (h.size - 1) h[h.size - 1] (by simp [hlt])
    have := lt_of_get this
    omega

/-- the objects `allocJ` creates for a value are new, distinct, and nothing else -/
def FreshFp (h h1 : Heap) (fp : List Nat) : Prop := fp.Nodup ∧ ∀ x ∈ fp, h.size ≤ x ∧ x < h1.size

theorem freshFp_append {a b c : Heap} {f1 f2 : List Nat} (h1 : FreshFp a b f1) (h2 : FreshFp b c f2)
    (hbc : b.size ≤ c.size) (hab : a.size ≤ b.size) : FreshFp a c (f1 ++ f2) := by
  refine ⟨List.nodup_append.mpr ⟨h1.1, h2.1, fun x hx y hy e => ?_⟩, fun x hx => ?_⟩
  · have := (h1.2 x hx).2; have := (h2.2 y hy).1; omega
  · rcases List.mem_append.mp hx with hx | hx
    · have := h1.2 x hx; omega
    · have := h2.2 x hx; omega

mutual
theorem allocJ_fp : ∀ (h : Heap) (j : J), FreshFp h (allocJ h j).1 (fpJ (allocJ h j).1 j (allocJ h j).2)
  | h, .arr xs => by
    obtain ⟨e1, u1⟩ := allocList_spec h xs
    obtain ⟨n1, n2⟩ := allocList_fp h xs
    have hsz := ext_size e1
    simp only [allocJ]
    have hg : ((allocJ.allocList h xs).1.push (Obj.list (allocJ.allocList h xs).2))[(allocJ.allocList h xs).1.size]? =
        some (Obj.list (allocJ.allocList h xs).2) := by simp
    simp only [fpJ, hg, fpList_ext _ _ (ext_push _ _) xs _ u1]
    refine ⟨List.nodup_cons.mpr ⟨fun hm => ?_, n1⟩, fun x hx => ?_⟩
    · have := (n2 _ hm).2; omega
    · rcases List.mem_cons.mp hx with rfl | hx
      · simp only [Array.size_push]; omega
      · have := n2 x hx; simp only [Array.size_push]; omega
  | h, .obj kvs => by
    obtain ⟨e1, u1⟩ := allocKvs_spec h kvs
    obtain ⟨n1, n2⟩ := allocKvs_fp h kvs
    have hsz := ext_size e1
    simp only [allocJ]
    have hg : ((allocJ.allocKvs h kvs).1.push (Obj.dict (allocJ.allocKvs h kvs).2))[(allocJ.allocKvs h kvs).1.size]? =
        some (Obj.dict (allocJ.allocKvs h kvs).2) := by simp
    simp only [fpJ, hg, fpKvs_ext _ _ (ext_push _ _) kvs _ u1]
    refine ⟨List.nodup_cons.mpr ⟨fun hm => ?_, n1⟩, fun x hx => ?_⟩
    · have := (n2 _ hm).2; omega
    · rcases List.mem_cons.mp hx with rfl | hx
      · simp only [Array.size_push]; omega
      · have := n2 x hx; simp only [Array.size_push]; omega
  | h, .null => by simp [allocJ, fpJ, FreshFp]
  | h, .bool b => by simp [allocJ, fpJ, FreshFp]
  | h, .int i => by simp [allocJ, fpJ, FreshFp]
  | h, .half i => by simp [allocJ, fpJ, FreshFp]
  | h, .str s => by simp [allocJ, fpJ, FreshFp]
theorem allocList_fp : ∀ (h : Heap) (xs : List J),
    FreshFp h (allocJ.allocList h xs).1 (fpList (allocJ.allocList h xs).1 xs (allocJ.allocList h xs).2)
  | h, [] => by simp [allocJ.allocList, fpList, FreshFp]
  | h, x :: xs => by
    obtain ⟨e1, u1⟩ := allocJ_spec h x
    obtain ⟨e2, _⟩ := allocList_spec (allocJ h x).1 xs
    have f1 := allocJ_fp h x
    have f2 := allocList_fp (allocJ h x).1 xs
    simp only [allocJ.allocList, fpList, fp_ext _ _ e2 x _ u1]
    exact freshFp_append (b := (allocJ h x).1) ⟨f1.1, f1.2⟩ f2 (ext_size e2) (ext_size e1)
theorem allocKvs_fp : ∀ (h : Heap) (kvs : List (String × J)),
    FreshFp h (allocJ.allocKvs h kvs).1 (fpKvs (allocJ.allocKvs h kvs).1 kvs (allocJ.allocKvs h kvs).2)
  | h, [] => by simp [allocJ.allocKvs, fpKvs, FreshFp]
  | h, (k, x) :: kvs => by
    obtain ⟨e1, u1⟩ := allocJ_spec h x
    obtain ⟨e2, _⟩ := allocKvs_spec (allocJ h x).1 kvs
    have f1 := allocJ_fp h x
    have f2 := allocKvs_fp (allocJ h x).1 kvs
    simp only [allocJ.allocKvs, fpKvs, fp_ext _ _ e2 x _ u1]
    exact freshFp_append (b := (allocJ h x).1) ⟨f1.1, f1.2⟩ f2 (ext_size e2) (ext_size e1)
end

mutual
theorem allocJ_wf : ∀ (h : Heap) (j : J), HeapWF h → j.WFK → HeapWF (allocJ h j).1
  | h, .arr xs, hw, hj => by
    simp only [allocJ]
    exact heapwf_push (allocList_wf h xs hw (by simpa [J.WFK] using hj)) _ (fun es he => by simp at he)
  | h, .obj kvs, hw, hj => by
    simp only [J.WFK] at hj
    simp only [allocJ]
    refine heapwf_push (allocKvs_wf h kvs hw hj.2) _ (fun es he => ?_)
    simp only [Obj.dict.injEq] at he
    subst he
    obtain ⟨_, u1⟩ := allocKvs_spec h kvs
    rw [((unfKvs_iff _ kvs _).mp u1).1]
    exact hj.1
  | h, .null, hw, _ => by simpa [allocJ] using hw
  | h, .bool b, hw, _ => by simpa [allocJ] using hw
  | h, .int i, hw, _ => by simpa [allocJ] using hw
  | h, .half i, hw, _ => by simpa [allocJ] using hw
  | h, .str s, hw, _ => by simpa [allocJ] using hw
theorem allocList_wf : ∀ (h : Heap) (xs : List J), HeapWF h → J.WFList xs → HeapWF (allocJ.allocList h xs).1
  | h, [], hw, _ => by simpa [allocJ.allocList] using hw
  | h, x :: xs, hw, hj => by
    simp only [J.WFList] at hj
    simp only [allocJ.allocList]
    exact allocList_wf _ xs (allocJ_wf h x hw hj.1) hj.2
theorem allocKvs_wf : ∀ (h : Heap) (kvs : List (String × J)), HeapWF h → J.WFKvs kvs → HeapWF (allocJ.allocKvs h kvs).1
  | h, [], hw, _ => by simpa [allocJ.allocKvs] using hw
  | h, (k, x) :: kvs, hw, hj => by
    simp only [J.WFKvs] at hj
    simp only [allocJ.allocKvs]
    exact allocKvs_wf _ kvs (allocJ_wf h x hw hj.1) hj.2
end

/-! ### the invariant -/

/-- the document `root` of store `h` *is* the tree `j`: it unfolds to it, through objects met
once each (no aliasing), and dicts have unique keys -/
structure DocInv (h : Heap) (root : Val) (j : J) : Prop where
  unf : UnfJ h j root
  sep : (fpJ h j root).Nodup
  wf : HeapWF h

theorem heapwf_empty : HeapWF #[] := by intro id es h; simp at h

/-- **loading a JSON document establishes the invariant** -/
theorem loaded_inv (j : J) (hj : j.WFK) : DocInv (allocJ #[] j).1 (allocJ #[] j).2 j :=
  ⟨(allocJ_spec #[] j).2, (allocJ_fp #[] j).1, allocJ_wf #[] j heapwf_empty hj⟩

/-- allocating a fresh value keeps the invariant, and the value shares nothing with the document -/
theorem alloc_inv (h : Heap) (root : Val) (j jv : J) (hi : DocInv h root j) (hjv : jv.WFK) :
    DocInv (allocJ h jv).1 root j ∧ UnfJ (allocJ h jv).1 jv (allocJ h jv).2 ∧
    (fpJ (allocJ h jv).1 jv (allocJ h jv).2).Nodup ∧
    ∀ x ∈ fpJ (allocJ h jv).1 jv (allocJ h jv).2, x ∉ fpJ (allocJ h jv).1 j root := by
  obtain ⟨e1, u1⟩ := allocJ_spec h jv
  obtain ⟨n1, n2⟩ := allocJ_fp h jv
  have hfp := fp_ext h _ e1 j root hi.unf
  refine ⟨⟨unf_mono h _ e1 j root hi.unf, by rw [hfp]; exact hi.sep, allocJ_wf h jv hi.wf hjv⟩, u1, n1, ?_⟩
  intro x hx hm
  rw [hfp] at hm
  have := fp_lt h j root hi.unf x hm
  have := (n2 x hx).1
  omega

end Treepath
