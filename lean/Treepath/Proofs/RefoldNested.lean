import Treepath.Proofs.RefoldApi
/-
Writes through a *nested document* (the object a typed attribute hands out wraps the JSON node
the attribute's path selects, by reference): an assignment / deletion made through an attribute
of the nested document is an update of the original document's tree at the concatenated
location.
-/
namespace Treepath

/-- a bookkeeping-free node with a given (reversed) location and value -/
def nodeAtRev : List Name → Val → MNode Val
  | [], d => .root d
  | nm :: rl, d => .child (nodeAtRev rl (.atom .null)) nm d

theorem nodeAtRev_loc : ∀ (rl : List Name) (d : Val), (nodeAtRev rl d).loc = rl.reverse
  | [], _ => rfl
  | nm :: rl, d => by simp [nodeAtRev, MNode.loc, nodeAtRev_loc rl]

theorem nodeAtRev_data (rl : List Name) (d : Val) : (nodeAtRev rl d).data = d := by
  cases rl <;> rfl

/-- `vertex.set` looks at the parent match's value only: from any match holding the same value it
writes the same store -/
theorem vertexSet_heap_congr (h h' : Heap) (s : Step Val) (pm pm' m : MNode Val) (v : Val) (hd : pm'.data = pm.data)
    (hs : vertexSet h s pm v = .ok (h', m)) : ∃ m', vertexSet h s pm' v = .ok (h', m') := by
  unfold vertexSet at hs ⊢
  rw [hd]
  split at hs
  · rename_i k id heq
    split at hs
    · rename_i es ho
      simp only [Except.ok.injEq, Prod.mk.injEq] at hs
      exact ⟨.child pm' (.key k) v, by simp [hs.1]⟩
    · simp at hs
  · rename_i i id heq
    split at hs
    · rename_i xs ho
      split at hs
      · rename_i xs' hl
        simp only [Except.ok.injEq, Prod.mk.injEq] at hs
        exact ⟨.child pm' (.idx i) v, by simp [hl, hs.1]⟩
      · rename_i hl
        split at hs
        · rename_i hlen
          simp only [Except.ok.injEq, Prod.mk.injEq] at hs
          exact ⟨.child pm' (.idx i) v, by simp [hl, hlen, hs.1]⟩
        · simp at hs
    · simp at hs
  · simp at hs

/-- **assignment through a nested document, on the original tree**: the outer attribute selected
the node `mo` of the document (a genuine match: `Gen`); the nested document wraps `mo.data`
itself; a successful non-cascading `set_` of a fresh value on the nested document writes the
outer document's tree at `mo.loc ++ pm.loc` — the location of the inner parent path's first
match *inside* the node, appended to the node's own location — and nothing else. -/
theorem nested_set_refines (inner : Heap → List (Step Val)) (root : Val) (j jv : J) (n : Nat) (h h' : Heap)
    (v : Val) (mo m : MNode Val) (hi : DocInv h root j) (hmo : Gen (hview h) root mo)
    (hv : UnfJ h jv v) (hvn : (fpJ h jv v).Nodup) (hfresh : ∀ x ∈ fpJ h jv v, x ∉ fpJ h j root)
    (hset : setMatchN inner (.doc mo.data) false (n+1) h v = (h', .ok m)) :
    ∃ pm nm j', getMatch (wcx h) ((inner h).take n).toArray (.doc mo.data) true = .ok (some pm) ∧
      J.setAt j (mo.loc ++ pm.loc) nm jv = some j' ∧ DocInv h' root j' ∧
      ∀ x ∈ fpJ h' j' root, x ∈ fpJ h j root ∨ x ∈ fpJ h jv v := by
  simp only [setMatchN] at hset
  split at hset
  · simp at hset
  · rename_i last _
    split at hset
    · rename_i pm hg
      split at hset
      · rename_i h2 m2 hvs
        simp only [Prod.mk.injEq, Except.ok.injEq] at hset
        obtain ⟨rfl, rfl⟩ := hset
        have hgen := getMatch_gen (wcx h) (heapwf_keysUniq hi.wf) _ mo.data true pm hg
        have hw_pm := gen_walk (hview h) mo.data pm hgen
        have hw_mo := gen_walk (hview h) root mo hmo
        have hloc' : walk (hview h) root (nodeAtRev (mo.loc ++ pm.loc).reverse pm.data).loc =
            some (nodeAtRev (mo.loc ++ pm.loc).reverse pm.data).data := by
          rw [nodeAtRev_loc, nodeAtRev_data, List.reverse_reverse, walk_append, hw_mo]
          simpa using hw_pm
        obtain ⟨m', hvs'⟩ := vertexSet_heap_congr h h2 last pm (nodeAtRev (mo.loc ++ pm.loc).reverse pm.data) m2 v
          (nodeAtRev_data _ _) hvs
        obtain ⟨nm, j', _, _, e2, e3, e4, e5⟩ :=
          vertexSet_refold h h2 last _ m' v root j jv hvs' hi.unf hi.sep hv hvn hfresh hloc'
        rw [nodeAtRev_loc, List.reverse_reverse] at e2
        exact ⟨pm, nm, j', hg, e2, ⟨e3, e4, vertexSet_wf hi.wf last pm m2 v hvs⟩, e5⟩
      · simp at hset
    · simp at hset
    · split at hset <;> simp at hset

/-- `vertex.pop` looks at the value of the match's parent only -/
theorem vertexPop_congr (h : Heap) (last : Option (Step Val)) (m m' : MNode Val)
    (hd : m'.parent.map MNode.data = m.parent.map MNode.data) : vertexPop h last m' = vertexPop h last m := by
  unfold vertexPop
  rw [hd]

/-- **deletion through a nested document, on the original tree**: `del nested.attr` /
`pop(inner, nested.data)` removes the entry at `mo.loc ++ p.loc` of the outer document's tree -/
theorem nested_pop_refines (inner : Heap → List (Step Val)) (root : Val) (j : J) (h h' : Heap) (mm : Bool)
    (mo m : MNode Val) (hi : DocInv h root j) (hmo : Gen (hview h) root mo)
    (hpop : popMatch inner (.doc mo.data) mm h = (h', .ok (some m))) :
    ∃ p nm j', m.parent = some p ∧ (inner h).getLast? = some (nameStepV nm) ∧
      J.popAt j (mo.loc ++ p.loc) nm = some j' ∧ DocInv h' root j' ∧ ∀ x ∈ fpJ h' j' root, x ∈ fpJ h j root := by
  simp only [popMatch] at hpop
  split at hpop
  · simp at hpop
  · rename_i m0 hg
    split at hpop
    · rename_i h2 hvp
      simp only [Prod.mk.injEq, Except.ok.injEq, Option.some.injEq] at hpop
      obtain ⟨rfl, rfl⟩ := hpop
      have hgen := getMatch_gen (wcx h) (heapwf_keysUniq hi.wf) _ mo.data mm m0 hg
      have hw_mo := gen_walk (hview h) root mo hmo
      cases hpar : m0.parent with
      | none => simp [vertexPop, hpar] at hvp
      | some p =>
        have hw_p := gen_walk (hview h) mo.data p (gen_parent (hview h) mo.data m0 p hgen hpar)
        have hvp' : vertexPop h (inner h).getLast? (.child (nodeAtRev (mo.loc ++ p.loc).reverse p.data) (.key "") (.atom .null)) = .ok h2 := by
          rw [vertexPop_congr h _ m0 _ (by simp [MNode.parent, hpar, nodeAtRev_data])]
          exact hvp
        obtain ⟨p', nm, j', e1, e0, e2, e3, e4, e5⟩ := vertexPop_refold h h2 _ _ root j hvp' hi.unf hi.sep
          (fun q hq => by
            simp only [MNode.parent, Option.some.injEq] at hq
            subst hq
            rw [nodeAtRev_loc, nodeAtRev_data, List.reverse_reverse, walk_append, hw_mo]
            simpa using hw_p)
        simp only [MNode.parent, Option.some.injEq] at e1
        subst e1
        rw [nodeAtRev_loc, List.reverse_reverse] at e2
        exact ⟨p, nm, j', rfl, e0, e2, ⟨e3, e4, vertexPop_wf hi.wf _ m0 hvp⟩, e5⟩
    · simp at hpop
  · simp at hpop

end Treepath
