import Treepath.Proofs.EvalLemmas
import Treepath.Proofs.NodeLemmas
/- `get_match(m.path, document)` finds `m` again -/
namespace Treepath

/-- `match_to_path`: one key / index step per element of `path_match_list` below the root -/
def nameStep : Name → Step J
  | .key k => .key k
  | .idx i => .idx i

def toPath (n : MNode J) : List (Step J) := n.loc.map nameStep

/-- reading `container[name]` -/
def lookupName (j : J) (nm : Name) : Option J :=
  match j, nm with
  | .obj es, .key k => es.lookup k
  | .arr xs, .idx i => getPy? xs i
  | _, _ => none

/-- the match chain is *consistent* with the document: every link's value is what reading the
parent's value at the link's name gives (no parent steps) -/
def Consistent : MNode J → Prop
  | .root _ => True
  | .child p nm d => Consistent p ∧ lookupName p.data nm = some d
  | .imag p => Consistent p
  | .par _ _ => False

/-- the root of a parent-free chain -/
def rootOf : MNode J → MNode J
  | .root d => .root d
  | .child p _ _ => rootOf p
  | .imag p => rootOf p
  | .par _ f => rootOf f

theorem notEndsInRecur_nameSteps (l : List Name) : notEndsInRecur (l.map nameStep) = true := by
  induction l with
  | nil => rfl
  | cons a as ih =>
    cases as with
    | nil => cases a <;> rfl
    | cons b bs => simpa [notEndsInRecur] using ih

theorem evalE_nameStep (n : MNode J) (nm : Name) (d : J) (h : lookupName n.data nm = some d) :
    evalE [nameStep nm] n = ([.child n nm d], none) := by
  cases nm with
  | key k =>
    cases hd : n.data <;> simp [lookupName, hd] at h
    simp [nameStep, evalE, evalStep, Step.cls, singleOf, J.view, hd, h, seqFlat]
  | idx i =>
    cases hd : n.data <;> simp [lookupName, hd] at h
    simp [nameStep, evalE, evalStep, Step.cls, singleOf, J.view, hd, h, seqFlat]

/-- **round trip**: evaluating the explicit path of a consistent, parent-free match from its
own root finds exactly that location, holding the same value -/
theorem roundtrip (n : MNode J) (hc : Consistent n) :
    evalE (toPath n) (rootOf n) = ([n.erase], none) := by
  induction n with
  | root d => rfl
  | child p nm d ih =>
    obtain ⟨hp, hl⟩ := hc
    have : toPath (.child p nm d) = toPath p ++ [nameStep nm] := by simp [toPath, MNode.loc]
    rw [this, evalE_append (toPath p) [nameStep nm] (notEndsInRecur_nameSteps p.loc)]
    simp only [rootOf, ih hp, bindRes_pure]
    rw [evalE_nameStep p.erase nm d (by rw [MNode.data_erase]; exact hl)]
    rfl
  | imag p ih => simpa [toPath, rootOf] using ih hc
  | par r f _ _ => exact absurd hc (by simp [Consistent])

/-- every node a child step selects from a consistent node is consistent (dicts without
duplicate keys, as Python dicts are) -/
def J.KeysNodup : J → Prop
  | .obj es => (es.map Prod.fst).Nodup
  | _ => True

theorem lookup_of_mem_nodup (es : List (String × J)) (k : String) (x : J) (hm : (k, x) ∈ es)
    (hn : (es.map Prod.fst).Nodup) : es.lookup k = some x := by
  induction es with
  | nil => simp at hm
  | cons e es ih =>
    obtain ⟨k', v⟩ := e
    simp only [List.map_cons, List.nodup_cons] at hn
    rcases List.mem_cons.mp hm with h | h
    · simp only [Prod.mk.injEq] at h; obtain ⟨rfl, rfl⟩ := h; simp [List.lookup]
    · have hne : k ≠ k' := by
        intro he; subst he
        exact hn.1 (List.mem_map.mpr ⟨(k, x), h, rfl⟩)
      have : (k == k') = false := by simp [hne]
      simp only [List.lookup, this]
      exact ih h hn.2

end Treepath
