import Treepath.Proofs.Stack
/-
Naturality of the traverser in the document type.  The machine is generic in `α` and looks
at documents only through `view : α → View α`.  Given a relation `Rel : α → β → Prop` that the
two views respect (related values have related views: same kind, same keys / length, related
members), related stack-machine states take related steps: same kind of state, same names,
same indices, related nodes and values — so the run on one document type is the image of the
run on the other.  Instantiated with "heap value `v` unfolds to tree `j`" this transports
everything proved about JSON trees to the object store the writers work on.
-/
namespace Treepath

/-- pointwise relation of two lists -/
inductive LRel {γ δ : Type} (R : γ → δ → Prop) : List γ → List δ → Prop where
  | nil : LRel R [] []
  | cons {a b l l'} : R a b → LRel R l l' → LRel R (a :: l) (b :: l')

def ORel {γ δ : Type} (R : γ → δ → Prop) : Option γ → Option δ → Prop
  | none, none => True
  | some a, some b => R a b
  | _, _ => False

theorem ORel.map {γ δ γ' δ' : Type} {R : γ → δ → Prop} {S : γ' → δ' → Prop} {f : γ → γ'} {g : δ → δ'}
    {o : Option γ} {o' : Option δ} (h : ORel R o o') (hf : ∀ a b, R a b → S (f a) (g b)) :
    ORel S (o.map f) (o'.map g) := by
  cases o <;> cases o' <;> simp [ORel] at h ⊢
  exact hf _ _ h

namespace LRel
variable {γ δ γ' δ' : Type} {R : γ → δ → Prop}

theorem length_eq {l : List γ} {l' : List δ} (h : LRel R l l') : l.length = l'.length := by
  induction h with
  | nil => rfl
  | cons _ _ ih => simp [ih]

theorem getElem? {l : List γ} {l' : List δ} (h : LRel R l l') (i : Nat) : ORel R l[i]? l'[i]? := by
  induction h generalizing i with
  | nil => simp [ORel]
  | cons hab _ ih =>
    cases i with
    | zero => simpa [ORel] using hab
    | succ i => simpa using ih i

theorem map {S : γ' → δ' → Prop} {f : γ → γ'} {g : δ → δ'} {l : List γ} {l' : List δ}
    (h : LRel R l l') (hf : ∀ a b, R a b → S (f a) (g b)) : LRel S (l.map f) (l'.map g) := by
  induction h with
  | nil => exact .nil
  | cons hab _ ih => exact .cons (hf _ _ hab) ih

theorem append {l1 l2 : List γ} {m1 m2 : List δ} (h1 : LRel R l1 m1) (h2 : LRel R l2 m2) :
    LRel R (l1 ++ l2) (m1 ++ m2) := by
  induction h1 with
  | nil => exact h2
  | cons hab _ ih => exact .cons hab ih

theorem filterMap {S : γ' → δ' → Prop} {ι : Type} (xs : List ι) (f : ι → Option γ') (g : ι → Option δ')
    (h : ∀ i, ORel S (f i) (g i)) : LRel S (xs.filterMap f) (xs.filterMap g) := by
  induction xs with
  | nil => exact .nil
  | cons x xs ih =>
    have hx := h x
    simp only [List.filterMap_cons]
    cases hf : f x <;> cases hg : g x <;> rw [hf, hg] at hx <;> simp [ORel] at hx
    · exact ih
    · exact .cons hx ih

end LRel

section
variable {α β : Type} (Rel : α → β → Prop)

def KvRel (a : String × α) (b : String × β) : Prop := a.1 = b.1 ∧ Rel a.2 b.2
def ItemRel (a : Name × α) (b : Name × β) : Prop := a.1 = b.1 ∧ Rel a.2 b.2

inductive ViewRel : View α → View β → Prop where
  | scalar : ViewRel .scalar .scalar
  | dict {es es'} : LRel (KvRel Rel) es es' → ViewRel (.dict es) (.dict es')
  | list {xs xs'} : LRel Rel xs xs' → ViewRel (.list xs) (.list xs')

/-- related nodes: same derivation shape, same names, related values -/
inductive NodeRel : MNode α → MNode β → Prop where
  | root {a b} : Rel a b → NodeRel (.root a) (.root b)
  | child {p q nm a b} : NodeRel p q → Rel a b → NodeRel (.child p nm a) (.child q nm b)
  | imag {p q} : NodeRel p q → NodeRel (.imag p) (.imag q)
  | par {r r' f f'} : NodeRel r r' → NodeRel f f' → NodeRel (.par r f) (.par r' f')

variable {Rel}

theorem NodeRel.data {n : MNode α} {m : MNode β} (h : NodeRel Rel n m) : Rel n.data m.data := by
  induction h with
  | root h => exact h
  | child _ h _ => exact h
  | imag _ ih => exact ih
  | par _ _ ih _ => exact ih

theorem NodeRel.remParent {n : MNode α} {m : MNode β} (h : NodeRel Rel n m) :
    ORel (NodeRel Rel) n.remParent m.remParent := by
  induction h with
  | root _ => simp [MNode.remParent, ORel]
  | child hp _ _ => simpa [MNode.remParent, ORel] using hp
  | imag _ ih => exact ih
  | par _ _ ih _ => exact ih

theorem NodeRel.loc {n : MNode α} {m : MNode β} (h : NodeRel Rel n m) : n.loc = m.loc := by
  induction h with
  | root _ => rfl
  | child _ _ ih => simp [MNode.loc, ih]
  | imag _ ih => exact ih
  | par _ _ ih _ => exact ih

theorem NodeRel.dataName {n : MNode α} {m : MNode β} (h : NodeRel Rel n m) : n.dataName = m.dataName := by
  induction h with
  | root _ => rfl
  | child _ _ _ => rfl
  | imag _ ih => exact ih
  | par _ _ ih _ => exact ih

theorem NodeRel.segs {n : MNode α} {m : MNode β} (h : NodeRel Rel n m) : n.segs = m.segs := by
  induction h with
  | root _ => rfl
  | child _ _ ih => simp [MNode.segs, ih]
  | imag _ ih => exact ih
  | par hr _ _ ihf => simp [MNode.segs, ihf, hr.dataName]

theorem NodeRel.pathStr {n : MNode α} {m : MNode β} (h : NodeRel Rel n m) : n.pathStr = m.pathStr := by
  simp [MNode.pathStr, h.segs]

variable (Rel)

inductive EvRel : Ev α → Ev β → Prop where
  | attempt {l l' vi nx nx' st st'} : NodeRel Rel l l' → ORel (NodeRel Rel) nx nx' → ORel (NodeRel Rel) st st' →
      EvRel (.attempt l vi nx st) (.attempt l' vi nx' st')
  | predCall {c c'} : NodeRel Rel c c' → EvRel (.predCall c) (.predCall c')
  | fnCall (nm : String) (v : J) : EvRel (.fnCall nm v) (.fnCall nm v)
  | result {n n'} : NodeRel Rel n n' → EvRel (.result n) (.result n')
  | raised (e : Exc) : EvRel (.raised e) (.raised e)
  | stop : EvRel .stop .stop

inductive SigRel : Sig α → Sig β → Prop where
  | none : SigRel .none .none
  | result {n n'} : NodeRel Rel n n' → SigRel (.result n) (.result n')
  | stop : SigRel .stop .stop
  | raised (e : Exc) : SigRel (.raised e) (.raised e)
  | bug (m : String) : SigRel (.bug m) (.bug m)

/-- related predicates: on related candidates the same outcome and related events -/
def PredRel (f : Pred α) (g : Pred β) : Prop :=
  ∀ n m, NodeRel Rel n m → (f n).res = (g m).res ∧ LRel (EvRel Rel) (f n).evs (g m).evs

inductive StepRel : Step α → Step β → Prop where
  | key (k : String) : StepRel (.key k) (.key k)
  | idx (i : Int) : StepRel (.idx i) (.idx i)
  | slice (a b c : Option Int) : StepRel (.slice a b c) (.slice a b c)
  | tuple (ns : List Name) : StepRel (.tuple ns) (.tuple ns)
  | keyWc : StepRel .keyWc .keyWc
  | idxWc : StepRel .idxWc .idxWc
  | gwc : StepRel .gwc .gwc
  | recur : StepRel .recur .recur
  | parent : StepRel .parent .parent
  | filter {f g} : PredRel Rel f g → StepRel (.filter f) (.filter g)

structure FrameRel (a : Frame α) (b : Frame β) : Prop where
  owner : NodeRel Rel a.owner b.owner
  vidx : a.vidx = b.vidx
  items : LRel (ItemRel Rel) a.items b.items

inductive ASRel : AS α → AS β → Prop where
  | init : ASRel .init .init
  | report {n n' v i s s'} : NodeRel Rel n n' → LRel (FrameRel Rel) s s' → ASRel (.report n v i s) (.report n' v i s')
  | catch_ {s s'} : LRel (FrameRel Rel) s s' → ASRel (.catch_ s) (.catch_ s')
  | attempt {n n' i s s'} : NodeRel Rel n n' → LRel (FrameRel Rel) s s' → ASRel (.attempt n i s) (.attempt n' i s')
  | parked {s s'} : LRel (FrameRel Rel) s s' → ASRel (.parked s) (.parked s')
  | done : ASRel .done .done

variable {Rel}

theorem resume_rel {s : List (Frame α)} {s' : List (Frame β)} (h : LRel (FrameRel Rel) s s') :
    ASRel Rel (resume s) (resume s') := by
  cases h with
  | nil => exact .done
  | cons a b => exact .parked (.cons a b)

/-! ### the views' primitives respect the relation -/

theorem lookup_rel {es : List (String × α)} {es' : List (String × β)} (h : LRel (KvRel Rel) es es') (k : String) :
    ORel Rel (es.lookup k) (es'.lookup k) := by
  induction h with
  | nil => simp [ORel]
  | @cons a b l l' hab _ ih =>
    obtain ⟨ka, va⟩ := a
    obtain ⟨kb, vb⟩ := b
    obtain ⟨hk, hv⟩ := hab
    simp only at hk
    subst hk
    simp only [List.lookup]
    split
    · simpa [ORel] using hv
    · exact ih

theorem getPy?_rel {xs : List α} {xs' : List β} (h : LRel Rel xs xs') (i : Int) :
    ORel Rel (getPy? xs i) (getPy? xs' i) := by
  simp only [getPy?, h.length_eq]
  split
  · exact h.getElem? _
  · split
    · exact h.getElem? _
    · simp [ORel]

theorem dictItems_rel {es : List (String × α)} {es' : List (String × β)} (h : LRel (KvRel Rel) es es') :
    LRel (ItemRel Rel) (dictItems es) (dictItems es') := by
  simp only [dictItems]
  exact h.map (fun a b hab => ⟨by simp [hab.1], hab.2⟩)

theorem enumFrom_rel {xs : List α} {xs' : List β} (h : LRel Rel xs xs') (i : Nat) :
    LRel (fun (a : Nat × α) (b : Nat × β) => a.1 = b.1 ∧ Rel a.2 b.2) (enumFrom i xs) (enumFrom i xs') := by
  induction h generalizing i with
  | nil => exact .nil
  | cons hab _ ih => exact .cons ⟨rfl, hab⟩ (ih (i+1))

theorem listItems_rel {xs : List α} {xs' : List β} (h : LRel Rel xs xs') :
    LRel (ItemRel Rel) (listItems xs) (listItems xs') := by
  simp only [listItems]
  exact (enumFrom_rel h 0).map (fun a b hab => ⟨by simp [hab.1], hab.2⟩)

theorem allItems_rel {v : View α} {w : View β} (h : ViewRel Rel v w) :
    ORel (LRel (ItemRel Rel)) (allItems v) (allItems w) := by
  cases h with
  | scalar => simp [allItems, ORel]
  | dict h => simpa [allItems, ORel] using dictItems_rel h
  | list h => simpa [allItems, ORel] using listItems_rel h

/-- the outcome of `itemsOf`, related -/
inductive ItemsRel : Items α → Items β → Prop where
  | wrongKind : ItemsRel .wrongKind .wrongKind
  | valueError : ItemsRel .valueError .valueError
  | ok {a b} : LRel (ItemRel Rel) a b → ItemsRel (.ok a) (.ok b)

theorem sliceItems_rel {xs : List α} {xs' : List β} (h : LRel Rel xs xs') (a b c : Option Int) :
    ORel (LRel (fun (p : Int × α) (q : Int × β) => p.1 = q.1 ∧ Rel p.2 q.2)) (sliceItems a b c xs) (sliceItems a b c xs') := by
  simp only [sliceItems, h.length_eq]
  split
  · simp [ORel]
  · simp only [ORel]
    apply LRel.filterMap
    intro i
    have := h.getElem? i.toNat
    cases h1 : xs[i.toNat]? <;> cases h2 : xs'[i.toNat]? <;> rw [h1, h2] at this <;> simp [ORel] at this ⊢
    exact this

theorem itemsOf_rel {s : Step α} {t : Step β} (hs : StepRel Rel s t) {v : View α} {w : View β} (h : ViewRel Rel v w) :
    ItemsRel (Rel := Rel) (itemsOf s v) (itemsOf t w) := by
  cases hs <;> cases h <;> simp only [itemsOf] <;> try exact .wrongKind
  case slice.list a b c xs xs' hx =>
    have := sliceItems_rel hx a b c
    cases h1 : sliceItems a b c xs <;> cases h2 : sliceItems a b c xs' <;> rw [h1, h2] at this <;> simp [ORel] at this
    · exact .valueError
    · exact .ok (this.map (fun p q hpq => ⟨by simp [hpq.1], hpq.2⟩))
  case tuple.dict ns es es' he =>
    refine .ok (LRel.filterMap ns _ _ ?_)
    intro n
    cases n with
    | key k => exact (lookup_rel he k).map (fun a b hab => ⟨rfl, hab⟩)
    | idx i => simp [ORel]
  case tuple.list ns xs xs' hx =>
    refine .ok (LRel.filterMap ns _ _ ?_)
    intro n
    cases n with
    | key k => simp [ORel]
    | idx i => exact (getPy?_rel hx i).map (fun a b hab => ⟨rfl, hab⟩)
  case keyWc.dict es es' he => exact .ok (dictItems_rel he)
  case idxWc.list xs xs' hx => exact .ok (listItems_rel hx)
  case gwc.dict es es' he => exact .ok (dictItems_rel he)
  case gwc.list xs xs' hx => exact .ok (listItems_rel hx)

theorem singleOf_rel (va : α → View α) (vb : β → View β) (hview : ∀ a b, Rel a b → ViewRel Rel (va a) (vb b))
    {s : Step α} {t : Step β} (hs : StepRel Rel s t) {n : MNode α} {m : MNode β} (hn : NodeRel Rel n m) :
    ORel (NodeRel Rel) (singleOf va s n) (singleOf vb t m) := by
  have hv := hview _ _ hn.data
  cases hs <;> simp only [singleOf] <;> try (simp [ORel]; done)
  case key k =>
    generalize va n.data = v at hv ⊢
    generalize vb m.data = w at hv ⊢
    cases hv with
    | scalar => simp [ORel]
    | list _ => simp [ORel]
    | dict he => exact (lookup_rel he k).map (fun a b hab => .child hn hab)
  case idx i =>
    generalize va n.data = v at hv ⊢
    generalize vb m.data = w at hv ⊢
    cases hv with
    | scalar => simp [ORel]
    | dict _ => simp [ORel]
    | list hx => exact (getPy?_rel hx i).map (fun a b hab => .child hn hab)
  case parent => exact hn.remParent.map (fun a b hab => .par hab hn)

/-- related outcomes of one action -/
def OutRel (x : AS α × List (Ev α) × Sig α) (y : AS β × List (Ev β) × Sig β) : Prop :=
  ASRel Rel x.1 y.1 ∧ LRel (EvRel Rel) x.2.1 y.2.1 ∧ SigRel Rel x.2.2 y.2.2

theorem aIter_rel {n : MNode α} {m : MNode β} (hn : NodeRel Rel n m) (vi : Nat)
    {its : List (Name × α)} {its' : List (Name × β)} (hi : LRel (ItemRel Rel) its its')
    {s : List (Frame α)} {s' : List (Frame β)} (hs : LRel (FrameRel Rel) s s') :
    OutRel (Rel := Rel) (aIter n vi its s) (aIter m vi its' s') := by
  cases hi with
  | nil => exact ⟨resume_rel hs, .cons (.attempt hn (by simp [ORel]) (by simp [ORel])) .nil, .none⟩
  | @cons a b l l' hab hl =>
    obtain ⟨nm, x⟩ := a
    obtain ⟨nm', x'⟩ := b
    obtain ⟨hnm, hx⟩ := hab
    simp only at hnm hx
    subst hnm
    have hc : NodeRel Rel (.child n nm x) (.child m nm x') := .child hn hx
    exact ⟨.report hc (.cons ⟨hn, rfl, hl⟩ hs), .cons (.attempt hn (by simpa [ORel] using hc) (by simp [ORel])) .nil, .none⟩

theorem aRecIter_rel (va : α → View α) (vb : β → View β) (hview : ∀ a b, Rel a b → ViewRel Rel (va a) (vb b))
    {n : MNode α} {m : MNode β} (hn : NodeRel Rel n m) (vi : Nat)
    {its : List (Name × α)} {its' : List (Name × β)} (hi : LRel (ItemRel Rel) its its')
    {s : List (Frame α)} {s' : List (Frame β)} (hs : LRel (FrameRel Rel) s s') :
    OutRel (Rel := Rel) (aRecIter va n vi its s) (aRecIter vb m vi its' s') := by
  cases hi with
  | nil => exact ⟨resume_rel hs, .cons (.attempt hn (by simp [ORel]) (by simp [ORel])) .nil, .none⟩
  | @cons a b l l' hab hl =>
    obtain ⟨nm, x⟩ := a
    obtain ⟨nm', x'⟩ := b
    obtain ⟨hnm, hx⟩ := hab
    simp only at hnm hx
    subst hnm
    have hc : NodeRel Rel (.child n nm x) (.child m nm x') := .child hn hx
    have hall := allItems_rel (hview x x' hx)
    simp only [aRecIter]
    cases h1 : allItems (va x) <;> cases h2 : allItems (vb x') <;> rw [h1, h2] at hall <;> simp [ORel] at hall
    · exact ⟨.report hc (.cons ⟨hn, rfl, hl⟩ hs), .cons (.attempt hn (by simpa [ORel] using hc) (by simp [ORel])) .nil, .none⟩
    · exact ⟨.report (.imag hc) (.cons ⟨hc, rfl, hall⟩ (.cons ⟨hn, rfl, hl⟩ hs)),
        .cons (.attempt hn (by simpa [ORel] using NodeRel.imag hc) (by simp [ORel])) .nil, .none⟩

/-- what a multi-valued step does with the outcome of `itemsOf` -/
def multiOut (n : MNode α) (vi : Nat) (s : List (Frame α)) : Items α → AS α × List (Ev α) × Sig α
  | .wrongKind => (resume s, [Ev.attempt n (vi+1) none none], Sig.none)
  | .valueError => (AS.attempt n vi s, [Ev.raised (.user "ValueError")], Sig.raised (.user "ValueError"))
  | .ok its => aIter n vi its s

theorem aAttempt_multiOut (view : α → View α) (steps : Array (Step α)) (st : Step α) (hm : st.cls = .multi)
    (n : MNode α) (vi : Nat) (s : List (Frame α)) (hs : steps[vi]? = some st) :
    aAttempt view steps n vi s = multiOut n vi s (itemsOf st (view n.data)) := by
  rw [aAttempt_multi' view steps st hm n vi s hs]
  cases itemsOf st (view n.data) <;> rfl

theorem multi_out_rel {n : MNode α} {m : MNode β} (hn : NodeRel Rel n m) (vi : Nat)
    {s : List (Frame α)} {s' : List (Frame β)} (hs : LRel (FrameRel Rel) s s')
    {ia : Items α} {ib : Items β} (h : ItemsRel (Rel := Rel) ia ib) :
    OutRel (Rel := Rel) (multiOut n vi s ia) (multiOut m vi s' ib) := by
  cases h with
  | wrongKind => exact ⟨resume_rel hs, .cons (.attempt hn (by simp [ORel]) (by simp [ORel])) .nil, .none⟩
  | valueError => exact ⟨.attempt hn hs, .cons (.raised _) .nil, .raised _⟩
  | ok hi => exact aIter_rel hn vi hi hs

section machine
variable (va : α → View α) (vb : β → View β) (hview : ∀ a b, Rel a b → ViewRel Rel (va a) (vb b))
  (sa : Array (Step α)) (sb : Array (Step β)) (hsteps : LRel (StepRel Rel) sa.toList sb.toList)
  (srca : Src α) (srcb : Src β) (hsrc : NodeRel Rel srca.rootNode srcb.rootNode)
include hview hsteps hsrc

omit hview hsrc in
theorem steps_get (i : Nat) : ORel (StepRel Rel) sa[i]? sb[i]? := by
  have := hsteps.getElem? i
  simpa [Array.getElem?_toList] using this

theorem aAttempt_rel {n : MNode α} {m : MNode β} (hn : NodeRel Rel n m) (vi : Nat)
    {s : List (Frame α)} {s' : List (Frame β)} (hs : LRel (FrameRel Rel) s s') :
    OutRel (Rel := Rel) (aAttempt va sa n vi s) (aAttempt vb sb m vi s') := by
  have hg := steps_get (Rel := Rel) sa sb hsteps vi
  cases h1 : sa[vi]? <;> cases h2 : sb[vi]? <;> rw [h1, h2] at hg <;> simp [ORel] at hg
  · simp only [aAttempt, h1, h2]
    exact ⟨.attempt hn hs, .nil, .bug _⟩
  rename_i st tt
  have hmulti : ∀ (hm : st.cls = .multi) (hm' : tt.cls = .multi),
      OutRel (Rel := Rel) (aAttempt va sa n vi s) (aAttempt vb sb m vi s') := by
    intro hm hm'
    rw [aAttempt_multiOut va sa st hm n vi s h1, aAttempt_multiOut vb sb tt hm' m vi s' h2]
    exact multi_out_rel hn vi hs (itemsOf_rel hg (hview _ _ hn.data))
  simp only [aAttempt, h1, h2]
  have hnone : LRel (EvRel Rel) [Ev.attempt n (vi+1) none none] [Ev.attempt m (vi+1) none none] :=
    .cons (.attempt hn (by simp [ORel]) (by simp [ORel])) .nil
  cases hg with
  | @filter f g hp =>
    obtain ⟨hres, hevs⟩ := hp n m hn
    simp only
    rw [hres]
    cases hr : (g m).res with
    | val j =>
      by_cases ht : j.truthy = true
      · simp only [ht, if_true]
        refine ⟨.report (.imag hn) hs, ?_, .none⟩
        exact LRel.append (.cons (.predCall hn) hevs) (.cons (.attempt hn (by simpa [ORel] using NodeRel.imag hn) (by simp [ORel])) .nil)
      · simp only [ht]
        refine ⟨resume_rel hs, ?_, .none⟩
        exact LRel.append (.cons (.predCall hn) hevs) hnone
    | raise e =>
      refine ⟨.attempt hn hs, ?_, .raised _⟩
      exact .cons (.predCall hn) (LRel.append hevs (.cons (.raised _) .nil))
  | recur =>
    simp only
    have hall := allItems_rel (hview _ _ hn.data)
    cases h3 : allItems (va n.data) <;> cases h4 : allItems (vb m.data) <;> rw [h3, h4] at hall <;> simp [ORel] at hall
    · exact ⟨resume_rel hs, hnone, .none⟩
    · exact ⟨.report (.imag hn) (.cons ⟨hn, rfl, hall⟩ hs),
        .cons (.attempt hn (by simpa [ORel] using NodeRel.imag hn) (by simp [ORel])) .nil, .none⟩
  | key k =>
    simp only
    have := singleOf_rel va vb hview (.key k) hn
    cases h3 : singleOf va (.key k) n <;> cases h4 : singleOf vb (.key k) m <;> rw [h3, h4] at this <;> simp [ORel] at this
    · exact ⟨resume_rel hs, hnone, .none⟩
    · exact ⟨.report this hs, .cons (.attempt hn (by simpa [ORel] using this) (by simp [ORel])) .nil, .none⟩
  | idx i =>
    simp only
    have := singleOf_rel va vb hview (.idx i) hn
    cases h3 : singleOf va (.idx i) n <;> cases h4 : singleOf vb (.idx i) m <;> rw [h3, h4] at this <;> simp [ORel] at this
    · exact ⟨resume_rel hs, hnone, .none⟩
    · exact ⟨.report this hs, .cons (.attempt hn (by simpa [ORel] using this) (by simp [ORel])) .nil, .none⟩
  | parent =>
    simp only
    have := singleOf_rel va vb hview .parent hn
    cases h3 : singleOf va .parent n <;> cases h4 : singleOf vb .parent m <;> rw [h3, h4] at this <;> simp [ORel] at this
    · exact ⟨resume_rel hs, hnone, .none⟩
    · exact ⟨.report this hs, .cons (.attempt hn (by simpa [ORel] using this) (by simp [ORel])) .nil, .none⟩
  | slice a b c => simpa [aAttempt, h1, h2] using hmulti rfl rfl
  | tuple ns => simpa [aAttempt, h1, h2] using hmulti rfl rfl
  | keyWc => simpa [aAttempt, h1, h2] using hmulti rfl rfl
  | idxWc => simpa [aAttempt, h1, h2] using hmulti rfl rfl
  | gwc => simpa [aAttempt, h1, h2] using hmulti rfl rfl

/-- **one action, related**: related states take related steps -/
theorem astep_rel {as : AS α} {bs : AS β} (h : ASRel Rel as bs) :
    OutRel (Rel := Rel) (astep va sa srca as) (astep vb sb srcb bs) := by
  have hsize : sa.size = sb.size := by
    have := hsteps.length_eq; simpa using this
  cases h with
  | init => exact ⟨.report hsrc .nil, .nil, .none⟩
  | done => exact ⟨.done, .cons .stop .nil, .stop⟩
  | @report n n' v i s s' hn hs =>
    simp only [astep, hsize]
    split
    · exact ⟨.catch_ hs, .cons (.result hn) .nil, .result hn⟩
    · exact ⟨.attempt hn hs, .nil, .none⟩
  | catch_ hs => exact ⟨resume_rel hs, .nil, .none⟩
  | attempt hn hs => exact aAttempt_rel va vb hview sa sb hsteps srca srcb hsrc hn _ hs
  | parked hs =>
    cases hs with
    | nil => exact ⟨.done, .nil, .bug _⟩
    | @cons fr fr' stk stk' hfr hstk =>
      obtain ⟨ho, hv, hi⟩ := hfr
      have hg := steps_get (Rel := Rel) sa sb hsteps fr.vidx
      simp only [astep, ← hv]
      cases h1 : sa[fr.vidx]? <;> cases h2 : sb[fr.vidx]? <;> rw [h1, h2] at hg <;> simp [ORel] at hg
      · exact ⟨.parked (.cons ⟨ho, hv, hi⟩ hstk), .nil, .bug _⟩
      · cases hg <;> first
          | exact aRecIter_rel va vb hview ho _ hi hstk
          | exact aIter_rel ho _ hi hstk

/-- runs of any length, related -/
theorem arun_rel (k : Nat) {as : AS α} {bs : AS β} (h : ASRel Rel as bs) :
    ASRel Rel (arun va sa srca k as).1 (arun vb sb srcb k bs).1 ∧
    LRel (EvRel Rel) (arun va sa srca k as).2 (arun vb sb srcb k bs).2 := by
  induction k generalizing as bs with
  | zero => exact ⟨h, .nil⟩
  | succ k ih =>
    obtain ⟨h1, h2, _⟩ := astep_rel va vb hview sa sb hsteps srca srcb hsrc h
    obtain ⟨h3, h4⟩ := ih h1
    exact ⟨h3, LRel.append h2 h4⟩

end machine

end
end Treepath
