import Treepath.Model.Path
/- bookkeeping (`imag`) nodes are invisible to every public observable -/
namespace Treepath
namespace MNode
variable {α : Type}

@[simp] theorem data_imag (p : MNode α) : (imag p).data = p.data := rfl
@[simp] theorem dataName_imag (p : MNode α) : (imag p).dataName = p.dataName := rfl
@[simp] theorem parent_imag (p : MNode α) : (imag p).parent = p.parent := rfl
@[simp] theorem remParent_imag (p : MNode α) : (imag p).remParent = p.remParent := rfl
@[simp] theorem segs_imag (p : MNode α) : (imag p).segs = p.segs := rfl
@[simp] theorem pathStr_imag (p : MNode α) : (imag p).pathStr = p.pathStr := rfl
@[simp] theorem pathMatchList_imag (p : MNode α) : (imag p).pathMatchList = p.pathMatchList := rfl
@[simp] theorem erase_imag (p : MNode α) : (imag p).erase = p.erase := rfl
@[simp] theorem loc_imag (p : MNode α) : (imag p).loc = p.loc := rfl

theorem data_erase (n : MNode α) : n.erase.data = n.data := by
  induction n with
  | root d => rfl
  | child p nm d _ => rfl
  | imag p ih => simpa using ih
  | par r f ihr _ => simpa [erase, data] using ihr

theorem dataName_erase (n : MNode α) : n.erase.dataName = n.dataName := by
  induction n with
  | root d => rfl
  | child p nm d _ => rfl
  | imag p ih => simpa using ih
  | par r f ihr _ => simpa [erase, dataName] using ihr

theorem segs_erase (n : MNode α) : n.erase.segs = n.segs := by
  induction n with
  | root d => rfl
  | child p nm d ih => simp [erase, segs, ih]
  | imag p ih => simpa using ih
  | par r f ihr ihf => simp [erase, segs, ihf, dataName_erase]

theorem pathStr_erase (n : MNode α) : n.erase.pathStr = n.pathStr := by
  simp [pathStr, segs_erase]

theorem loc_erase (n : MNode α) : n.erase.loc = n.loc := by
  induction n with
  | root d => rfl
  | child p nm d ih => simp [erase, loc, ih]
  | imag p ih => simpa using ih
  | par r f ihr _ => simpa [erase, loc] using ihr

theorem erase_erase (n : MNode α) : n.erase.erase = n.erase := by
  induction n with
  | root d => rfl
  | child p nm d ih => simp [erase, ih]
  | imag p ih => simpa using ih
  | par r f ihr ihf => simp [erase, ihr, ihf]

end MNode
end Treepath
