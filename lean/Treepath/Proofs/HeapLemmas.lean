import Treepath.Model.Mutate
/- container primitives and frame lemmas of the object store -/
namespace Treepath

theorem hput_other (h : Heap) (id j : Nat) (o : Obj) (hj : j ≠ id) : (hput h id o)[j]? = h[j]? := by
  simp [hput, Array.getElem?_setIfInBounds, Ne.symm hj]

theorem hput_size (h : Heap) (id : Nat) (o : Obj) : (hput h id o).size = h.size := by
  simp [hput]

theorem hput_self (h : Heap) (id : Nat) (o : Obj) (hlt : id < h.size) : (hput h id o)[id]? = some o := by
  simp [hput, Array.getElem?_setIfInBounds, hlt]

/-! ### `d[k] = v` -/

theorem lookup_cons_eq (k : String) (v : Val) (es : List (String × Val)) :
    List.lookup k ((k, v) :: es) = some v := by simp [List.lookup]

theorem lookup_cons_ne (k k' : String) (v : Val) (es : List (String × Val)) (h : k ≠ k') :
    List.lookup k ((k', v) :: es) = List.lookup k es := by
  have : (k == k') = false := by simp [h]
  simp [List.lookup, this]

theorem dictSet_lookup_self (es : List (String × Val)) (k : String) (v : Val) :
    (dictSet es k v).lookup k = some v := by
  induction es with
  | nil => simp [dictSet, lookup_cons_eq]
  | cons e es ih =>
    obtain ⟨k', v'⟩ := e
    by_cases hk : k' = k
    · simp [dictSet, hk, lookup_cons_eq]
    · simp only [dictSet, hk, if_false]
      rw [lookup_cons_ne _ _ _ _ (Ne.symm hk)]
      exact ih

theorem dictSet_lookup_other (es : List (String × Val)) (k k' : String) (v : Val) (hk : k' ≠ k) :
    (dictSet es k v).lookup k' = es.lookup k' := by
  induction es with
  | nil => simp [dictSet, lookup_cons_ne _ _ _ _ hk]
  | cons e es ih =>
    obtain ⟨k0, v0⟩ := e
    by_cases h0 : k0 = k
    · subst h0
      simp only [dictSet, if_true]
      rw [lookup_cons_ne _ _ _ _ hk, lookup_cons_ne _ _ _ _ hk]
    · simp only [dictSet, h0, if_false]
      by_cases h1 : k' = k0
      · subst h1; rw [lookup_cons_eq, lookup_cons_eq]
      · rw [lookup_cons_ne _ _ _ _ h1, lookup_cons_ne _ _ _ _ h1]; exact ih

/-- the keys keep their positions; a new key goes to the end -/
theorem dictSet_keys (es : List (String × Val)) (k : String) (v : Val) :
    (dictSet es k v).map Prod.fst =
      if k ∈ es.map Prod.fst then es.map Prod.fst else es.map Prod.fst ++ [k] := by
  induction es with
  | nil => simp [dictSet]
  | cons e es ih =>
    obtain ⟨k0, v0⟩ := e
    by_cases h0 : k0 = k
    · subst h0; simp [dictSet]
    · simp only [dictSet, h0, if_false, List.map_cons, ih, List.mem_cons]
      have : ¬ k = k0 := fun h => h0 h.symm
      by_cases hm : k ∈ es.map Prod.fst <;> simp [hm, this]

/-- every other entry keeps its value and position: erasing `k` from both sides gives the
same list -/
theorem dictSet_erase (es : List (String × Val)) (k : String) (v : Val) :
    dictErase (dictSet es k v) k = dictErase es k := by
  induction es with
  | nil => simp [dictSet, dictErase]
  | cons e es ih =>
    obtain ⟨k0, v0⟩ := e
    by_cases h0 : k0 = k
    · subst h0; simp [dictSet, dictErase]
    · simp [dictSet, dictErase, h0, ih]

theorem dictErase_lookup_other (es : List (String × Val)) (k k' : String) (hk : k' ≠ k) :
    (dictErase es k).lookup k' = es.lookup k' := by
  induction es with
  | nil => rfl
  | cons e es ih =>
    obtain ⟨k0, v0⟩ := e
    by_cases h0 : k0 = k
    · subst h0; simp only [dictErase, if_true]; rw [lookup_cons_ne _ _ _ _ hk]
    · simp only [dictErase, h0, if_false]
      by_cases h1 : k' = k0
      · subst h1; rw [lookup_cons_eq, lookup_cons_eq]
      · rw [lookup_cons_ne _ _ _ _ h1, lookup_cons_ne _ _ _ _ h1]; exact ih

/-! ### lists -/

theorem normIndex_lt (len : Nat) (i : Int) (k : Nat) (h : normIndex len i = some k) : k < len := by
  unfold normIndex at h
  split at h
  · split at h
    · simp at h; omega
    · simp at h
  · split at h
    · simp at h
      have : 0 < (-i).toNat := by omega
      omega
    · simp at h

theorem listSet_length (xs xs' : List Val) (i : Int) (v : Val) (h : listSet xs i v = some xs') :
    xs'.length = xs.length := by
  unfold listSet at h
  cases hn : normIndex xs.length i with
  | none => simp [hn] at h
  | some k => simp [hn] at h; subst h; simp

theorem listSet_get (xs xs' : List Val) (i : Int) (v : Val) (k : Nat) (h : listSet xs i v = some xs')
    (hk : normIndex xs.length i = some k) : xs'[k]? = some v ∧ ∀ j, j ≠ k → xs'[j]? = xs[j]? := by
  unfold listSet at h
  simp [hk] at h
  subst h
  have := normIndex_lt _ _ _ hk
  constructor
  · simp [this]
  · intro j hj; simp [List.getElem?_set, Ne.symm hj]

theorem listDel_spec (xs xs' : List Val) (i : Int) (v : Val) (h : listDel xs i = some (v, xs')) :
    ∃ k, normIndex xs.length i = some k ∧ xs[k]? = some v ∧ xs' = xs.eraseIdx k := by
  unfold listDel at h
  cases hn : normIndex xs.length i with
  | none => simp [hn] at h
  | some k =>
    simp [hn] at h
    obtain ⟨a, ha, hv, hx⟩ := h
    exact ⟨k, rfl, by rw [ha, hv], hx.symm⟩

theorem dictDel_spec (es es' : List (String × Val)) (k : String) (v : Val) (h : dictDel es k = some (v, es')) :
    es.lookup k = some v ∧ es' = dictErase es k := by
  unfold dictDel at h
  cases hl : es.lookup k with
  | none => simp [hl] at h
  | some w => simp [hl] at h; exact ⟨by rw [h.1], h.2.symm⟩

end Treepath
