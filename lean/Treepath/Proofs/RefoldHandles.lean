import Treepath.Proofs.RefoldApi
/-
`Match.data = v`, `del m.data`, `m.pop()` as updates of the JSON tree: the handle of a genuine
match writes at that match's location.  Also: every match of a whole iteration is genuine.
-/
namespace Treepath

section drain
variable {α : Type} (cx : Ctx α) (r : α) (steps : Array (Step α)) (src : Src α)

/-- every match an iteration yields is genuine (not only the first) -/
theorem drain_gen (hu : KeysUniq cx.view) (hsrc : Gen cx.view r src.rootNode) (fuel : Nat) (st : St α) (as : AS α)
    (h1 : R steps st as) (hg : GenAS cx.view r as) : ∀ n ∈ (drain cx steps src fuel st).1, Gen cx.view r n := by
  induction fuel generalizing st as with
  | zero => intro n hn; simp [drain] at hn
  | succ fuel ih =>
    obtain ⟨ea, ra⟩ := next_anext cx.view steps src cx.limit st as h1
    obtain ⟨g1, g2⟩ := anext_gen cx.view r steps src hu hsrc cx.limit as hg
    simp only [drain, nextOut]
    rcases hna : next cx.view steps src cx.limit st with ⟨ta, eva, sga⟩
    rw [hna] at ea ra
    rcases haa : anext cx.view steps src cx.limit as with ⟨ua, fa, ga⟩
    rw [haa] at ea ra g1 g2
    simp only [Prod.mk.injEq] at ea
    obtain ⟨_, rfl⟩ := ea
    simp only at ra g1 g2
    cases sga with
    | result m =>
      intro n hn
      simp only [List.mem_cons] at hn
      rcases hn with rfl | hn
      · exact g2
      · exact ih ta ua ra g1 n hn
    | none => intro n hn; simp at hn
    | stop => intro n hn; simp at hn
    | raised e => intro n hn; simp at hn
    | bug m => intro n hn; simp at hn

theorem drain_fresh_gen (hu : KeysUniq cx.view) (hsrc : Gen cx.view r src.rootNode) (fuel : Nat) :
    ∀ n ∈ (drain cx steps src fuel freshIter).1, Gen cx.view r n :=
  drain_gen cx r steps src hu hsrc fuel freshIter .init (.init _ rfl) trivial

end drain

/-- a successful assignment through a handle is the `vertex.set` of its name at its parent -/
theorem assign_is_vertexSet (h h' : Heap) (hd hd' : Handle) (v : Val) (pm : MNode Val) (hp : pm.data = hd.parent)
    (ha : hd.assign h v = .ok (h', hd')) :
    vertexSet h (nameStepV hd.name) pm v = .ok (h', .child pm hd.name v) := by
  unfold Handle.assign at ha
  split at ha
  · rename_i id k hpar hn
    split at ha
    · rename_i es ho
      simp only [Except.ok.injEq, Prod.mk.injEq] at ha
      simp [vertexSet, nameStepV, hn, hp, hpar, ho, ha.1]
    · simp at ha
  · rename_i id i hpar hn
    split at ha
    · rename_i xs ho
      split at ha
      · rename_i xs' hls
        simp only [Except.ok.injEq, Prod.mk.injEq] at ha
        simp [vertexSet, nameStepV, hn, hp, hpar, ho, hls, ha.1]
      · simp at ha
    · simp at ha
  · simp at ha

/-- a successful `del m.data` is the `vertex.pop` of its name at its parent -/
theorem del_is_vertexPop (h h' : Heap) (hd hd' : Handle) (m : MNode Val) (p : MNode Val) (hm : m.parent = some p)
    (hp : p.data = hd.parent) (ha : hd.del h = .ok (h', hd')) :
    vertexPop h (some (nameStepV hd.name)) m = .ok h' := by
  unfold Handle.del at ha
  split at ha
  · rename_i id k hpar hn
    split at ha
    · rename_i es ho
      split at ha
      · rename_i w es' hdel
        simp only [Except.ok.injEq, Prod.mk.injEq] at ha
        simp [vertexPop, nameStepV, hn, hm, hp, hpar, ho, hdel, ha.1]
      · simp at ha
    · simp at ha
  · rename_i id i hpar hn
    split at ha
    · rename_i xs ho
      split at ha
      · rename_i w xs' hdel
        simp only [Except.ok.injEq, Prod.mk.injEq] at ha
        simp [vertexPop, nameStepV, hn, hm, hp, hpar, ho, hdel, ha.1]
      · simp at ha
    · simp at ha
  · simp at ha

/-- **`m.data = v` on the tree**: for the handle of a genuine match `m` (any match of any
search over the document), assigning a value that shares nothing with the document makes the
document unfold to `j` with `jv` at `m`'s own slot — the name `m.data_name` inside the node at
the location of `m.parent` — and nothing else changed -/
theorem assign_refines (h h' : Heap) (root : Val) (j jv : J) (m p : MNode Val) (hd hd' : Handle) (v : Val)
    (hi : DocInv h root j) (hgen : Gen (hview h) root m) (hm : m.parent = some p)
    (hh : Handle.ofNode m = some hd)
    (hv : UnfJ h jv v) (hvn : (fpJ h jv v).Nodup) (hfresh : ∀ x ∈ fpJ h jv v, x ∉ fpJ h j root)
    (ha : hd.assign h v = .ok (h', hd')) :
    ∃ j', J.setAt j p.loc m.dataName jv = some j' ∧ DocInv h' root j' := by
  simp only [Handle.ofNode, hm, Option.map_some, Option.some.injEq] at hh
  subst hh
  have hvs := assign_is_vertexSet h h' _ hd' v p rfl ha
  have hw := gen_walk (hview h) root p (gen_parent (hview h) root m p hgen hm)
  obtain ⟨nm, j', _, e1, e2, e3, e4, _⟩ := vertexSet_refold h h' _ p _ v root j jv hvs hi.unf hi.sep hv hvn hfresh hw
  simp only [MNode.child.injEq, true_and] at e1
  obtain ⟨rfl, _⟩ := e1
  exact ⟨j', e2, ⟨e3, e4, vertexSet_wf hi.wf _ p _ v hvs⟩⟩

/-- **`del m.data` on the tree**: the document unfolds to `j` without `m`'s own entry -/
theorem del_refines (h h' : Heap) (root : Val) (j : J) (m p : MNode Val) (hd hd' : Handle)
    (hi : DocInv h root j) (hgen : Gen (hview h) root m) (hm : m.parent = some p)
    (hh : Handle.ofNode m = some hd) (ha : hd.del h = .ok (h', hd')) :
    ∃ j', J.popAt j p.loc m.dataName = some j' ∧ DocInv h' root j' := by
  simp only [Handle.ofNode, hm, Option.map_some, Option.some.injEq] at hh
  subst hh
  have hvp := del_is_vertexPop h h' _ hd' m p hm rfl ha
  obtain ⟨p', nm, j', e1, e0, e2, e3, e4, _⟩ := vertexPop_refold h h' _ m root j hvp hi.unf hi.sep
    (fun q hq => gen_walk (hview h) root q (gen_parent (hview h) root m q hgen hq))
  rw [hm] at e1
  obtain rfl := Option.some.inj e1
  have hnm : nm = m.dataName := by
    simp only [Option.some.injEq] at e0
    cases hn : m.dataName <;> cases nm <;> simp_all [nameStepV]
  subst hnm
  exact ⟨j', e2, ⟨e3, e4, vertexPop_wf hi.wf _ m hvp⟩⟩

end Treepath
