import Treepath.Proofs.NaturalNext
/-
Every match the traverser produces is *genuine*: walking its `data_name`s from the document
root, by the very lookups Python performs (`d[k]`, `l[i]` with negative indices), arrives at
the value the match holds.  Proved once on the stack machine, for every document type with
unique dict keys, every step kind (wildcards, slices, comma lists, recursion, parent steps,
filters), and carried to `next()` / `get_match` of the pointer machine through the
bisimulation.  This is what lets the frame theorems of the writers speak about *locations*.
-/
namespace Treepath
variable {α : Type}

/-- dicts have unique keys (what Python dicts guarantee) -/
def KeysUniq (view : α → View α) : Prop := ∀ a es, view a = .dict es → (es.map Prod.fst).Nodup

section
variable (view : α → View α) (r : α)

/-- a match whose chain of names really leads from the root `r` to its value -/
def Gen : MNode α → Prop
  | .root d => d = r
  | .child p nm d => Gen p ∧ childAt (view p.data) nm = some d
  | .imag p => Gen p
  | .par rm f => Gen rm ∧ Gen f

/-- **a genuine match sits where it says**: walking its location from the root finds its value -/
theorem gen_walk (n : MNode α) (h : Gen view r n) : walk view r n.loc = some n.data := by
  induction n with
  | root d => simp [Gen] at h; simp [MNode.loc, walk, MNode.data, h]
  | child p nm d ih =>
    obtain ⟨hp, hc⟩ := h
    simp only [MNode.loc, walk_append, ih hp, Option.bind_some, walk, hc, MNode.data]
  | imag p ih => exact ih h
  | par rm f ih _ => exact ih h.1

theorem gen_remParent (n t : MNode α) (h : Gen view r n) (ht : n.remParent = some t) : Gen view r t := by
  induction n with
  | root d => simp [MNode.remParent] at ht
  | child p nm d _ => simp only [MNode.remParent, Option.some.injEq] at ht; subst ht; exact h.1
  | imag p ih => exact ih h ht
  | par rm f ih _ => exact ih h.1 ht

theorem singleOf_gen (s : Step α) (n n' : MNode α) (h : Gen view r n) (hs : singleOf view s n = some n') :
    Gen view r n' := by
  cases s <;> simp only [singleOf] at hs
  case key k =>
    split at hs
    · rename_i es hv
      cases hl : es.lookup k with
      | none => simp [hl] at hs
      | some x =>
        simp only [hl, Option.map_some, Option.some.injEq] at hs
        subst hs
        exact ⟨h, by simp [childAt, hv, hl]⟩
    · simp at hs
  case idx i =>
    split at hs
    · rename_i xs hv
      cases hl : getPy? xs i with
      | none => simp [hl] at hs
      | some x =>
        simp only [hl, Option.map_some, Option.some.injEq] at hs
        subst hs
        exact ⟨h, by simp [childAt, hv, hl]⟩
    · simp at hs
  case parent =>
    cases ht : n.remParent with
    | none => simp [ht] at hs
    | some t =>
      simp only [ht, Option.map_some, Option.some.injEq] at hs
      subst hs
      exact ⟨gen_remParent view r n t h ht, h⟩
  all_goals simp at hs

end

/-! ### the items of the iterating steps are members at their names -/

theorem lookup_of_mem_uniq {β} (es : List (String × β)) (k : String) (x : β) (hm : (k, x) ∈ es)
    (hn : (es.map Prod.fst).Nodup) : es.lookup k = some x := by
  induction es with
  | nil => simp at hm
  | cons e es ih =>
    obtain ⟨k', v⟩ := e
    simp only [List.map_cons, List.nodup_cons] at hn
    rcases List.mem_cons.mp hm with h | h
    · simp only [Prod.mk.injEq] at h; obtain ⟨rfl, rfl⟩ := h; simp [List.lookup]
    · have hne : k ≠ k' := by
        intro he; subst he
        exact hn.1 (List.mem_map.mpr ⟨(k, x), h, rfl⟩)
      have : (k == k') = false := by simp [hne]
      simp only [List.lookup, this]
      exact ih h hn.2

theorem enumFrom_mem {β} (xs : List β) (n i : Nat) (x : β) (h : (i, x) ∈ enumFrom n xs) :
    n ≤ i ∧ xs[i - n]? = some x := by
  induction xs generalizing n with
  | nil => simp [enumFrom] at h
  | cons y ys ih =>
    simp only [enumFrom, List.mem_cons, Prod.mk.injEq] at h
    rcases h with ⟨rfl, rfl⟩ | h
    · simp
    · obtain ⟨h1, h2⟩ := ih (n+1) h
      refine ⟨by omega, ?_⟩
      have : i - n = (i - (n+1)) + 1 := by omega
      rw [this]; simpa using h2

theorem getPy?_ofNat {β} (xs : List β) (i : Nat) : getPy? xs (i : Int) = xs[i]? := by
  simp [getPy?]

theorem dictItems_mem (es : List (String × α)) (nm : Name) (x : α) (h : (nm, x) ∈ dictItems es)
    (hn : (es.map Prod.fst).Nodup) : childAt (.dict es) nm = some x := by
  simp only [dictItems, List.mem_map] at h
  obtain ⟨⟨k, y⟩, hm, he⟩ := h
  simp only [Prod.mk.injEq] at he
  obtain ⟨rfl, rfl⟩ := he
  simp [childAt, lookup_of_mem_uniq es k y hm hn]

theorem listItems_mem (xs : List α) (nm : Name) (x : α) (h : (nm, x) ∈ listItems xs) :
    childAt (.list xs) nm = some x := by
  simp only [listItems, List.mem_map] at h
  obtain ⟨⟨i, y⟩, hm, he⟩ := h
  simp only [Prod.mk.injEq] at he
  obtain ⟨rfl, rfl⟩ := he
  obtain ⟨_, h2⟩ := enumFrom_mem xs 0 i y hm
  simp only [childAt, getPy?_ofNat]
  simpa using h2

/-- `slice.indices` normalises both ends into `[-1, len]`; the indices `range` then produces
are never negative -/
theorem rangeList_nonneg (a b c : Option Int) (len : Nat) (s e st : Int)
    (h : sliceIndices a b c len = some (s, e, st)) : ∀ i ∈ rangeList s e st, 0 ≤ i := by
  simp only [sliceIndices] at h
  generalize c.getD 1 = st0 at h
  split at h
  · simp at h
  · rename_i hst
    simp only [Option.some.injEq, Prod.mk.injEq] at h
    obtain ⟨hs, he, rfl⟩ := h
    intro i hi
    simp only [rangeList, List.mem_map, List.mem_range, Int.ofNat_eq_natCast] at hi
    obtain ⟨k, hk, rfl⟩ := hi
    by_cases hpos : st0 > 0
    · have hs0 : 0 ≤ s := by
        rw [← hs]
        cases a with
        | none => simp only; split <;> (try split) <;> omega
        | some v => simp only; split <;> split <;> (try split) <;> (try split) <;> omega
      have : 0 ≤ st0 * (k : Int) := Int.mul_nonneg (by omega) (by omega)
      omega
    · have hneg : st0 < 0 := by omega
      have he0 : -1 ≤ e := by
        rw [← he]
        cases b with
        | none => simp only; split <;> (try split) <;> omega
        | some v => simp only; split <;> split <;> (try split) <;> (try split) <;> omega
      simp only [hpos, if_false, hneg, if_true] at hk
      split at hk
      · rename_i hlt
        have hd : 0 < -st0 := by omega
        have h1 : (-st0) * ((s - e + -st0 - 1) / -st0) ≤ s - e + -st0 - 1 := Int.mul_ediv_self_le (by omega)
        have hnn : 0 ≤ (s - e + -st0 - 1) / -st0 := Int.ediv_nonneg (by omega) (by omega)
        have hk' : (k : Int) + 1 ≤ (s - e + -st0 - 1) / -st0 := by omega
        have h2 : (-st0) * ((k : Int) + 1) ≤ (-st0) * ((s - e + -st0 - 1) / -st0) :=
          Int.mul_le_mul_of_nonneg_left hk' (by omega)
        have h3 : (-st0) * ((k : Int) + 1) = -(st0 * (k : Int)) + -st0 := by
          rw [Int.mul_add, Int.mul_one, Int.neg_mul]
        omega
      · simp at hk
theorem sliceItems_mem (a b c : Option Int) (xs : List α) (its : List (Int × α))
    (h : sliceItems a b c xs = some its) : ∀ p ∈ its, getPy? xs p.1 = some p.2 := by
  simp only [sliceItems] at h
  split at h
  · simp at h
  · rename_i s e st hsi
    simp only [Option.some.injEq] at h
    subst h
    intro p hp
    simp only [List.mem_filterMap] at hp
    obtain ⟨i, hi, hx⟩ := hp
    have h0 := rangeList_nonneg a b c xs.length s e st hsi i hi
    cases hg : xs[i.toNat]? with
    | none => simp [hg] at hx
    | some x =>
      simp only [hg, Option.map_some, Option.some.injEq] at hx
      subst hx
      simp [getPy?, h0, hg]

theorem itemsOf_mem (view : α → View α) (hu : KeysUniq view) (s : Step α) (a : α) (its : List (Name × α))
    (h : itemsOf s (view a) = .ok its) : ∀ p ∈ its, childAt (view a) p.1 = some p.2 := by
  intro p hp
  obtain ⟨nm, x⟩ := p
  cases hv : view a with
  | scalar => cases s <;> simp [itemsOf, hv] at h
  | dict es =>
    have hn := hu a es hv
    cases s <;> simp only [itemsOf, hv] at h <;> try (simp at h; done)
    case keyWc => simp only [Items.ok.injEq] at h; subst h; exact dictItems_mem es nm x hp hn
    case gwc => simp only [Items.ok.injEq] at h; subst h; exact dictItems_mem es nm x hp hn
    case tuple ns =>
      simp only [Items.ok.injEq] at h; subst h
      simp only [List.mem_filterMap] at hp
      obtain ⟨n, _, hx⟩ := hp
      cases n with
      | key k =>
        cases hl : es.lookup k with
        | none => simp [hl] at hx
        | some y =>
          simp only [hl, Option.map_some, Option.some.injEq, Prod.mk.injEq] at hx
          obtain ⟨rfl, rfl⟩ := hx
          simp [childAt, hl]
      | idx i => simp at hx
  | list xs =>
    cases s <;> simp only [itemsOf, hv] at h <;> try (simp at h; done)
    case idxWc => simp only [Items.ok.injEq] at h; subst h; exact listItems_mem xs nm x hp
    case gwc => simp only [Items.ok.injEq] at h; subst h; exact listItems_mem xs nm x hp
    case slice sa sb sc =>
      cases hsl : sliceItems sa sb sc xs with
      | none => simp [hsl] at h
      | some its0 =>
        simp only [hsl, Items.ok.injEq] at h; subst h
        simp only [List.mem_map] at hp
        obtain ⟨⟨i, y⟩, hm, he⟩ := hp
        simp only [Prod.mk.injEq] at he
        obtain ⟨rfl, rfl⟩ := he
        simpa [childAt] using sliceItems_mem sa sb sc xs its0 hsl (i, y) hm
    case tuple ns =>
      simp only [Items.ok.injEq] at h; subst h
      simp only [List.mem_filterMap] at hp
      obtain ⟨n, _, hx⟩ := hp
      cases n with
      | idx i =>
        cases hl : getPy? xs i with
        | none => simp [hl] at hx
        | some y =>
          simp only [hl, Option.map_some, Option.some.injEq, Prod.mk.injEq] at hx
          obtain ⟨rfl, rfl⟩ := hx
          simp [childAt, hl]
      | key k => simp at hx

theorem allItems_mem (view : α → View α) (hu : KeysUniq view) (a : α) (its : List (Name × α))
    (h : allItems (view a) = some its) : ∀ p ∈ its, childAt (view a) p.1 = some p.2 := by
  intro p hp
  obtain ⟨nm, x⟩ := p
  cases hv : view a with
  | scalar => simp [allItems, hv] at h
  | dict es =>
    simp only [allItems, hv, Option.some.injEq] at h; subst h
    exact dictItems_mem es nm x hp (hu a es hv)
  | list xs =>
    simp only [allItems, hv, Option.some.injEq] at h; subst h
    exact listItems_mem xs nm x hp

/-! ### the invariant on the stack machine -/
section machine
variable (view : α → View α) (r : α) (steps : Array (Step α)) (src : Src α)

def GenFrame (fr : Frame α) : Prop :=
  Gen view r fr.owner ∧ ∀ p ∈ fr.items, childAt (view fr.owner.data) p.1 = some p.2

def GenStk (stk : List (Frame α)) : Prop := ∀ fr ∈ stk, GenFrame view r fr

def GenAS : AS α → Prop
  | .init => True
  | .report n _ _ stk => Gen view r n ∧ GenStk view r stk
  | .catch_ stk => GenStk view r stk
  | .attempt n _ stk => Gen view r n ∧ GenStk view r stk
  | .parked stk => GenStk view r stk
  | .done => True

def GenSig : Sig α → Prop
  | .result n => Gen view r n
  | _ => True

theorem resume_gen (stk : List (Frame α)) (h : GenStk view r stk) : GenAS view r (resume stk) := by
  cases stk with
  | nil => trivial
  | cons fr stk => exact h

theorem genStk_cons (fr : Frame α) (stk : List (Frame α)) (h1 : GenFrame view r fr) (h : GenStk view r stk) :
    GenStk view r (fr :: stk) := by
  intro x hx
  rcases List.mem_cons.mp hx with rfl | hx
  · exact h1
  · exact h x hx

theorem aIter_gen (n : MNode α) (vi : Nat) (its : List (Name × α)) (stk : List (Frame α))
    (hn : Gen view r n) (hits : ∀ p ∈ its, childAt (view n.data) p.1 = some p.2) (h : GenStk view r stk) :
    GenAS view r (aIter n vi its stk).1 ∧ GenSig view r (aIter n vi its stk).2.2 := by
  cases its with
  | nil => exact ⟨resume_gen view r stk h, trivial⟩
  | cons it tl =>
    obtain ⟨nm, x⟩ := it
    refine ⟨?_, trivial⟩
    simp only [aIter, GenAS]
    exact ⟨⟨hn, hits (nm, x) (by simp)⟩,
      genStk_cons view r _ _ ⟨hn, fun p hp => hits p (List.mem_cons_of_mem _ hp)⟩ h⟩

theorem aRecIter_gen (hu : KeysUniq view) (n : MNode α) (vi : Nat) (its : List (Name × α)) (stk : List (Frame α))
    (hn : Gen view r n) (hits : ∀ p ∈ its, childAt (view n.data) p.1 = some p.2) (h : GenStk view r stk) :
    GenAS view r (aRecIter view n vi its stk).1 ∧ GenSig view r (aRecIter view n vi its stk).2.2 := by
  cases its with
  | nil => exact ⟨resume_gen view r stk h, trivial⟩
  | cons it tl =>
    obtain ⟨nm, x⟩ := it
    have hc : Gen view r (.child n nm x) := ⟨hn, hits (nm, x) (by simp)⟩
    have hfr : GenFrame view r ⟨n, vi, tl⟩ := ⟨hn, fun p hp => hits p (List.mem_cons_of_mem _ hp)⟩
    simp only [aRecIter]
    split
    · exact ⟨⟨hc, genStk_cons view r _ _ hfr h⟩, trivial⟩
    · rename_i cits hci
      refine ⟨⟨hc, genStk_cons view r _ _ ⟨hc, ?_⟩ (genStk_cons view r _ _ hfr h)⟩, trivial⟩
      exact allItems_mem view hu x cits hci

/-- the invariant is kept by every action, and a reported result is genuine -/
theorem astep_gen (hu : KeysUniq view) (hsrc : Gen view r src.rootNode) (as : AS α) (hg : GenAS view r as) :
    GenAS view r (astep view steps src as).1 ∧ GenSig view r (astep view steps src as).2.2 := by
  cases as with
  | init => exact ⟨⟨hsrc, by intro x hx; simp at hx⟩, trivial⟩
  | done => exact ⟨trivial, trivial⟩
  | report n vertex vidx stk =>
    obtain ⟨h1, h2⟩ := hg
    simp only [astep]
    split
    · exact ⟨h2, h1⟩
    · exact ⟨⟨h1, h2⟩, trivial⟩
  | catch_ stk => exact ⟨resume_gen view r stk hg, trivial⟩
  | parked stk =>
    cases stk with
    | nil => exact ⟨trivial, trivial⟩
    | cons fr stk =>
      have hfr := hg fr (by simp)
      have hstk : GenStk view r stk := fun x hx => hg x (List.mem_cons_of_mem _ hx)
      simp only [astep]
      split
      · exact aRecIter_gen view r hu fr.owner fr.vidx fr.items stk hfr.1 hfr.2 hstk
      · exact aIter_gen view r fr.owner fr.vidx fr.items stk hfr.1 hfr.2 hstk
      · exact ⟨hg, trivial⟩
  | attempt n vidx stk =>
    obtain ⟨hn, hs⟩ := hg
    simp only [astep, aAttempt]
    split
    · exact ⟨⟨hn, hs⟩, trivial⟩
    · rename_i s _
      split
      · -- filter
        split
        · split
          · exact ⟨⟨hn, hs⟩, trivial⟩
          · exact ⟨resume_gen view r stk hs, trivial⟩
        · exact ⟨⟨hn, hs⟩, trivial⟩
      · -- recur
        split
        · exact ⟨resume_gen view r stk hs, trivial⟩
        · rename_i its hi
          exact ⟨⟨hn, genStk_cons view r _ _ ⟨hn, allItems_mem view hu n.data its hi⟩ hs⟩, trivial⟩
      · split
        · exact ⟨resume_gen view r stk hs, trivial⟩
        · rename_i n' hs'
          exact ⟨⟨singleOf_gen view r _ n n' hn hs', hs⟩, trivial⟩
      · split
        · exact ⟨resume_gen view r stk hs, trivial⟩
        · rename_i n' hs'
          exact ⟨⟨singleOf_gen view r _ n n' hn hs', hs⟩, trivial⟩
      · split
        · exact ⟨resume_gen view r stk hs, trivial⟩
        · rename_i n' hs'
          exact ⟨⟨singleOf_gen view r _ n n' hn hs', hs⟩, trivial⟩
      · split
        · exact ⟨resume_gen view r stk hs, trivial⟩
        · exact ⟨⟨hn, hs⟩, trivial⟩
        · rename_i its hi
          exact aIter_gen view r n vidx its stk hn (itemsOf_mem view hu _ n.data its hi) hs

theorem anext_gen (hu : KeysUniq view) (hsrc : Gen view r src.rootNode) (limit : Nat) (as : AS α)
    (hg : GenAS view r as) :
    GenAS view r (anext view steps src limit as).1 ∧ GenSig view r (anext view steps src limit as).2.2 := by
  induction limit generalizing as with
  | zero => exact ⟨hg, trivial⟩
  | succ limit ih =>
    obtain ⟨h1, h2⟩ := astep_gen view r steps src hu hsrc as hg
    unfold anext
    rcases hb : astep view steps src as with ⟨t, ev, sg⟩
    rw [hb] at h1 h2
    cases sg with
    | none =>
      simp only
      split
      · exact ⟨h1, trivial⟩
      · exact ih t h1
    | result n =>
      simp only
      split
      · exact ⟨h1, trivial⟩
      · exact ⟨h1, h2⟩
    | stop => exact ⟨h1, trivial⟩
    | raised e => exact ⟨h1, trivial⟩
    | bug m => exact ⟨h1, trivial⟩

/-- **what `next()` of a fresh iterator yields is genuine** -/
theorem next_fresh_gen (hu : KeysUniq view) (hsrc : Gen view r src.rootNode) (limit : Nat) (n : MNode α)
    (h : (next view steps src limit freshIter).2.2 = .result n) : Gen view r n := by
  obtain ⟨e, _⟩ := next_anext view steps src limit freshIter .init (.init _ rfl)
  have hg := (anext_gen view r steps src hu hsrc limit .init trivial).2
  rw [← e, h] at hg
  exact hg

end machine

/-- the same from any data source whose root match is genuine (a search from a `Match`) -/
theorem getMatch_gen_src (cx : Ctx α) (hu : KeysUniq cx.view) (steps : Array (Step α)) (r : α) (src : Src α)
    (hsrc : Gen cx.view r src.rootNode) (mm : Bool) (m : MNode α)
    (h : getMatch cx steps src mm = .ok (some m)) : Gen cx.view r m := by
  simp only [getMatch, nextOut] at h
  rcases hn : next cx.view steps src cx.limit freshIter with ⟨st', evs, sig⟩
  rw [hn] at h
  cases sig with
  | result n =>
    simp only [Except.ok.injEq, Option.some.injEq] at h
    subst h
    exact next_fresh_gen cx.view r steps src hu hsrc cx.limit n (by rw [hn])
  | stop => simp only at h; split at h <;> simp at h
  | none => simp at h
  | raised e => simp at h
  | bug msg => simp at h

/-- **the match `get_match` returns is genuine**: its names lead from the document to its value -/
theorem getMatch_gen (cx : Ctx α) (hu : KeysUniq cx.view) (steps : Array (Step α)) (d : α) (mm : Bool) (m : MNode α)
    (h : getMatch cx steps (.doc d) mm = .ok (some m)) : Gen cx.view d m := by
  simp only [getMatch, nextOut] at h
  rcases hn : next cx.view steps (.doc d) cx.limit freshIter with ⟨st', evs, sig⟩
  rw [hn] at h
  cases sig with
  | result n =>
    simp only [Except.ok.injEq, Option.some.injEq] at h
    subst h
    exact next_fresh_gen cx.view d steps (.doc d) hu rfl cx.limit n (by rw [hn])
  | stop => simp only at h; split at h <;> simp at h
  | none => simp at h
  | raised e => simp at h
  | bug msg => simp at h

end Treepath
