import Treepath.Proofs.StreamEval
/- the number of match attempts of a search is at most twice the number of node/step
examinations its definition requires -/
namespace Treepath

@[simp] theorem attemptsTop_nil {α} : attemptsTop ([] : List (Ev α)) = 0 := rfl
theorem attemptsTop_append {α} (a b : List (Ev α)) : attemptsTop (a ++ b) = attemptsTop a + attemptsTop b := by
  simp [attemptsTop, List.countP_append]
theorem sum_map_two_mul {β} (g : β → Nat) (l : List β) : (l.map fun x => 2 * g x).sum = 2 * (l.map g).sum := by
  induction l with
  | nil => rfl
  | cons x xs ih => simp only [List.map_cons, List.sum_cons, ih]; omega
theorem attemptsTop_attempt {α} (l : MNode α) (vi : Nat) (nx : Option (MNode α)) (t : List (Ev α)) :
    attemptsTop (.attempt l vi nx none :: t) = 1 + attemptsTop t := by
  simp [attemptsTop, List.countP_cons]; omega
theorem attemptsTop_result {α} (n : MNode α) (t : List (Ev α)) : attemptsTop (.result n :: t) = attemptsTop t := by
  simp [attemptsTop, List.countP_cons]
theorem attemptsTop_predCall {α} (n : MNode α) (t : List (Ev α)) : attemptsTop (.predCall n :: t) = attemptsTop t := by
  simp [attemptsTop, List.countP_cons]
theorem attemptsTop_raised {α} (e : Exc) (t : List (Ev α)) : attemptsTop (.raised e :: t) = attemptsTop t := by
  simp [attemptsTop, List.countP_cons]

theorem sum_one_two_le {β} (g : β → Nat) (l : List β) :
    (l.map fun x => 1 + 2 * g x).sum ≤ 2 * (l.map fun x => 1 + g x).sum := by
  induction l with
  | nil => simp
  | cons x xs ih => simp only [List.map_cons, List.sum_cons]; omega

/-- every attempt event a predicate emits is stamped with its candidate (true of the
has-family: the nested search's events carry `predicate_match`) -/
def PredsStamped (ss : List (Step J)) : Prop :=
  ∀ s ∈ ss, ∀ f, s = .filter f → ∀ n, attemptsTop (f n).evs = 0

/-- examinations charged to one pre-order node by a recursive step -/
def recW (rest : List (Step J)) (m : MNode J) : Nat :=
  1 + (if m.data.isContainer then exams rest (.imag m) else 0)

theorem sum_flatMap_map {β} (f : β → List (MNode J)) (g : MNode J → Nat) (l : List β) :
    ((l.flatMap f).map g).sum = (l.map fun x => ((f x).map g).sum).sum := by
  induction l with
  | nil => rfl
  | cons x xs ih => simp [List.flatMap_cons, ih]

theorem attemptsTop_flatMap_le {β} (f : β → List (Ev J)) (g : β → Nat) (l : List β)
    (h : ∀ x ∈ l, attemptsTop (f x) ≤ g x) : attemptsTop (l.flatMap f) ≤ (l.map g).sum := by
  induction l with
  | nil => simp
  | cons x xs ih =>
    simp only [List.flatMap_cons, attemptsTop_append, List.map_cons, List.sum_cons]
    have := h x (by simp)
    have := ih (fun y hy => h y (List.mem_cons_of_mem _ hy))
    omega

/-- one child of a recursive step costs at most twice the examinations of its sub-tree -/
theorem work_recChild (rest : List (Step J)) (vi : Nat)
    (ih : ∀ m : MNode J, attemptsTop (stream rest (vi+1) m) ≤ 2 * exams rest m) :
    ∀ (N : Nat) (x : J), J.sz x ≤ N → ∀ (n : MNode J) (nm : Name),
      attemptsTop (recChild (fun m => stream rest (vi+1) m) rest.isEmpty vi n nm x) ≤
        2 * ((preNodes (.child n nm x) x).map (recW rest)).sum := by
  intro N
  induction N with
  | zero => intro x hx; cases x <;> simp [J.sz] at hx
  | succ N ihN =>
    intro x hx n nm
    cases hc : allItems x.view with
    | none =>
      have hnc : x.isContainer = false := by
        have := allItems_isContainer x; rw [hc] at this; simpa using this.symm
      rw [recChild_scalar _ _ _ _ _ _ hc, preNodes_scalar _ _ hc]
      by_cases hl : rest.isEmpty = true <;>
        simp [hl, attemptsTop_attempt, attemptsTop_result, recW, MNode.data, hnc]
    | some its =>
      have hnc : x.isContainer = true := by
        have := allItems_isContainer x; rw [hc] at this; simpa using this.symm
      rw [recChild_container _ _ _ _ _ _ its hc, preNodes_container _ _ its hc]
      have hsmall : ∀ nm' x', (nm', x') ∈ its → J.sz x' ≤ N := by
        intro nm' x' hm
        cases x <;> simp [J.view, allItems] at hc
        · subst hc; have := sz_mem_listItems _ nm' x' hm; omega
        · subst hc; have := sz_mem_dictItems _ nm' x' hm; omega
      have hitems : attemptsTop (recItems (fun m => stream rest (vi+1) m) rest.isEmpty vi (.child n nm x) its) ≤
          2 * ((preItems (.child n nm x) its).map (recW rest)).sum := by
        simp only [recItems, preItems, sum_flatMap_map]
        have := attemptsTop_flatMap_le
          (fun it : Name × J => recChild (fun m => stream rest (vi+1) m) rest.isEmpty vi (.child n nm x) it.1 it.2)
          (fun it => 2 * ((preNodes (.child (.child n nm x) it.1 it.2) it.2).map (recW rest)).sum) its
          (fun it hit => ihN it.2 (hsmall it.1 it.2 hit) (.child n nm x) it.1)
        exact Nat.le_trans this (Nat.le_of_eq (sum_map_two_mul _ _))
      have hk := ih (.imag (.child n nm x))
      simp only [attemptsTop_attempt, attemptsTop_append, attemptsTop_nil, List.map_cons, List.sum_cons, recW, MNode.data, hnc, if_true]
      omega

/-- **work bound**: match attempts ≤ 2 × examinations, for every tree and every path whose
predicates' own events are stamped -/
theorem work_bound (p : List (Step J)) (hp : PredsStamped p) :
    ∀ (vi : Nat) (n : MNode J), attemptsTop (stream p vi n) ≤ 2 * exams p n := by
  induction p with
  | nil => intro vi n; simp [stream, exams, attemptsTop_result]
  | cons s rest ih =>
    intro vi n
    have hp' : PredsStamped rest := fun t ht => hp t (List.mem_cons_of_mem _ ht)
    have ih' := ih hp'
    by_cases hm : s.cls = .multi
    · have hex : exams (s :: rest) n = 1 + ((evalStep s n).1.map fun m => 1 + exams rest m).sum := by
        cases s <;> simp [Step.cls] at hm <;> rfl
      rw [hex]
      cases hio : itemsOf s n.data.view with
      | wrongKind => simp [stream, evalStep, hm, hio, attemptsTop_attempt]
      | valueError => simp [stream, evalStep, hm, hio, attemptsTop_raised]
      | ok its =>
        simp only [stream, evalStep, hm, hio, attemptsTop_append, List.map_map]
        have := attemptsTop_flatMap_le
          (fun it : Name × J => Ev.attempt n (vi+1) (some (MNode.child n it.1 it.2)) none :: stream rest (vi+1) (MNode.child n it.1 it.2))
          (fun it => 1 + 2 * exams rest (MNode.child n it.1 it.2)) its
          (fun it _ => by rw [attemptsTop_attempt]; have := ih' (vi+1) (MNode.child n it.1 it.2); omega)
        have h1 : attemptsTop ([Ev.attempt n (vi + 1) none none] : List (Ev J)) = 1 := by simp [attemptsTop]
        rw [h1]
        have hsum := sum_one_two_le (fun it : Name × J => exams rest (MNode.child n it.1 it.2)) its
        have heq : (its.map ((fun m => 1 + exams rest m) ∘ fun x => MNode.child n x.1 x.2)).sum
            = (its.map fun it => 1 + exams rest (MNode.child n it.1 it.2)).sum := rfl
        rw [heq]
        omega
    cases s with
    | recur =>
      simp only [exams]
      cases hc : allItems n.data.view with
      | none =>
        have hnc : n.data.isContainer = false := by
          have := allItems_isContainer n.data; rw [hc] at this; simpa using this.symm
        simp [stream, Step.cls, hnc, recNodes, attemptsTop_attempt]
      | some its =>
        have hnc : n.data.isContainer = true := by
          have := allItems_isContainer n.data; rw [hc] at this; simpa using this.symm
        have hitems : attemptsTop (recItems (fun m => stream rest (vi+1) m) rest.isEmpty vi n its) ≤
            2 * ((preItems n its).map (recW rest)).sum := by
          simp only [recItems, preItems, sum_flatMap_map]
          have := attemptsTop_flatMap_le
            (fun it : Name × J => recChild (fun m => stream rest (vi+1) m) rest.isEmpty vi n it.1 it.2)
            (fun it => 2 * ((preNodes (.child n it.1 it.2) it.2).map (recW rest)).sum) its
            (fun it _ => work_recChild rest vi (ih' (vi+1)) (J.sz it.2) it.2 (Nat.le_refl _) n it.1)
          exact Nat.le_trans this (Nat.le_of_eq (sum_map_two_mul _ _))
        have hk := ih' (vi+1) (.imag n)
        have h1 : attemptsTop ([Ev.attempt n (vi + 1) none none] : List (Ev J)) = 1 := by simp [attemptsTop]
        simp only [stream, Step.cls, hnc, if_true, recNodes, recBody_items _ _ _ _ _ its hc, preNodes_container _ _ its hc,
          attemptsTop_attempt, attemptsTop_append, h1, List.map_cons, List.sum_cons]
        have : (List.map (fun m => 1 + if m.data.isContainer = true then exams rest m.imag else 0) (preItems n its)).sum
            = ((preItems n its).map (recW rest)).sum := rfl
        simp only [this]
        omega
    | filter f =>
      have hst := hp (.filter f) (by simp) f rfl n
      cases hres : (f n).res with
      | val j =>
        by_cases ht : j.truthy = true
        · have := ih' (vi+1) (.imag n)
          simp [stream, exams, evalStep, Step.cls, hres, ht, attemptsTop_predCall, attemptsTop_append, hst, attemptsTop_attempt]
          omega
        · simp [stream, exams, evalStep, Step.cls, hres, ht, attemptsTop_predCall, attemptsTop_append, hst, attemptsTop_attempt]
      | raise e =>
        simp [stream, exams, evalStep, Step.cls, hres, attemptsTop_predCall, attemptsTop_append, hst, attemptsTop_raised]
    | key k =>
      cases hso : singleOf J.view (.key k) n with
      | none => simp [stream, exams, evalStep, Step.cls, hso, attemptsTop_attempt]
      | some n' =>
        have := ih' (vi+1) n'
        simp [stream, exams, evalStep, Step.cls, hso, attemptsTop_attempt]; omega
    | idx i =>
      cases hso : singleOf J.view (.idx i) n with
      | none => simp [stream, exams, evalStep, Step.cls, hso, attemptsTop_attempt]
      | some n' =>
        have := ih' (vi+1) n'
        simp [stream, exams, evalStep, Step.cls, hso, attemptsTop_attempt]; omega
    | parent =>
      cases hso : singleOf J.view .parent n with
      | none => simp [stream, exams, evalStep, Step.cls, hso, attemptsTop_attempt]
      | some n' =>
        have := ih' (vi+1) n'
        simp [stream, exams, evalStep, Step.cls, hso, attemptsTop_attempt]; omega
    | slice a b c => simp [Step.cls] at hm
    | tuple ns => simp [Step.cls] at hm
    | keyWc => simp [Step.cls] at hm
    | idxWc => simp [Step.cls] at hm
    | gwc => simp [Step.cls] at hm

end Treepath
