import Treepath.Spec.Eval
/- structure of the specification stream: sizes for tree induction, the item form of the
recursive step's events -/
namespace Treepath

mutual
def J.sz : J → Nat
  | .arr xs => 1 + J.szList xs
  | .obj kvs => 1 + J.szKvs kvs
  | _ => 1
def J.szList : List J → Nat
  | [] => 0
  | x :: xs => J.sz x + J.szList xs
def J.szKvs : List (String × J) → Nat
  | [] => 0
  | (_, x) :: kvs => J.sz x + J.szKvs kvs
end

theorem sz_mem_dictItems (kvs : List (String × J)) (nm : Name) (x : J) (h : (nm, x) ∈ dictItems kvs) :
    J.sz x < J.sz (.obj kvs) := by
  simp only [J.sz]
  induction kvs with
  | nil => simp [dictItems] at h
  | cons kv kvs ih =>
    obtain ⟨k, v⟩ := kv
    simp only [dictItems, List.map_cons, List.mem_cons, Prod.mk.injEq] at h
    simp only [J.szKvs]
    rcases h with ⟨_, rfl⟩ | h
    · omega
    · have := ih (by simpa [dictItems] using h); omega

theorem mem_enumFrom_map {β} (f : Nat × β → Name × β) (hf : ∀ p, (f p).2 = p.2) (i : Nat) (xs : List β) (nm : Name) (x : β)
    (h : (nm, x) ∈ (enumFrom i xs).map f) : x ∈ xs := by
  induction xs generalizing i with
  | nil => simp [enumFrom] at h
  | cons y ys ih =>
    simp only [enumFrom, List.map_cons, List.mem_cons] at h
    rcases h with h | h
    · have := hf (i, y); rw [← h] at this; simp at this; simp [this]
    · exact List.mem_cons_of_mem _ (ih (i+1) h)

theorem sz_mem_list (xs : List J) (x : J) (h : x ∈ xs) : J.sz x < J.sz (.arr xs) := by
  simp only [J.sz]
  induction xs with
  | nil => simp at h
  | cons y ys ih =>
    simp only [J.szList]
    rcases List.mem_cons.mp h with rfl | h
    · omega
    · have := ih h; omega

theorem sz_mem_listItems (xs : List J) (nm : Name) (x : J) (h : (nm, x) ∈ listItems xs) :
    J.sz x < J.sz (.arr xs) :=
  sz_mem_list xs x (mem_enumFrom_map _ (fun _ => rfl) 0 xs nm x h)

/-- the events of a recursive step for the remaining children `its` of container `n` -/
def recItems (k : MNode J → List (Ev J)) (last : Bool) (vi : Nat) (n : MNode J) (its : List (Name × J)) : List (Ev J) :=
  its.flatMap fun it => recChild k last vi n it.1 it.2

theorem recKvs_eq (k : MNode J → List (Ev J)) (last : Bool) (vi : Nat) (n : MNode J) (kvs : List (String × J)) :
    recKvs k last vi n kvs = recItems k last vi n (dictItems kvs) := by
  induction kvs with
  | nil => simp [recKvs, recItems, dictItems]
  | cons kv kvs ih =>
    obtain ⟨key, v⟩ := kv
    simp only [recKvs, ih, recItems, dictItems, List.map_cons, List.flatMap_cons]

theorem recXs_eq (k : MNode J → List (Ev J)) (last : Bool) (vi : Nat) (n : MNode J) (i : Nat) (xs : List J) :
    recXs k last vi n i xs = recItems k last vi n ((enumFrom i xs).map fun p => (Name.idx p.1, p.2)) := by
  induction xs generalizing i with
  | nil => simp [recXs, recItems, enumFrom]
  | cons x xs ih =>
    simp only [recXs, ih, recItems, enumFrom, List.map_cons, List.flatMap_cons]

/-- the body of a recursive step below container `m`, in item form -/
theorem recBody_items (k : MNode J → List (Ev J)) (last : Bool) (vi : Nat) (m : MNode J) (j : J)
    (its : List (Name × J)) (h : allItems j.view = some its) :
    recBody k last vi m j = k (.imag m) ++ recItems k last vi m its ++ [.attempt m (vi+1) none none] := by
  cases j <;> simp [J.view, allItems] at h
  · subst h; simp [recBody, recXs_eq, listItems]
  · subst h; simp [recBody, recKvs_eq]

/-- one child of a recursive step, by the kind of its value -/
theorem recChild_scalar (k : MNode J → List (Ev J)) (last : Bool) (vi : Nat) (n : MNode J) (nm : Name) (x : J)
    (h : allItems x.view = none) :
    recChild k last vi n nm x = .attempt n (vi+1) (some (.child n nm x)) none
      :: (if last then [.result (.child n nm x)] else [.attempt (.child n nm x) (vi+1) none none]) := by
  cases x <;> simp [J.view, allItems] at h <;> simp [recChild]

theorem recChild_container (k : MNode J → List (Ev J)) (last : Bool) (vi : Nat) (n : MNode J) (nm : Name) (x : J)
    (its : List (Name × J)) (h : allItems x.view = some its) :
    recChild k last vi n nm x = .attempt n (vi+1) (some (.imag (.child n nm x))) none
      :: (k (.imag (.child n nm x)) ++ recItems k last vi (.child n nm x) its ++ [.attempt (.child n nm x) (vi+1) none none]) := by
  cases x <;> simp [J.view, allItems] at h
  · subst h; simp [recChild, recXs_eq, listItems]
  · subst h; simp [recChild, recKvs_eq]

theorem allItems_isContainer (j : J) : (allItems j.view).isSome = j.isContainer := by
  cases j <;> simp [J.view, allItems, J.isContainer]

end Treepath
