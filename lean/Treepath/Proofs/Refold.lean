import Treepath.Proofs.Genuine
import Treepath.Proofs.AllocUnf
import Treepath.Proofs.MutateLemmas
import Treepath.Spec.TreeWrite
/-
The object store of the writers refines the JSON tree: on a store without aliasing (every
container object reachable along one path only — what loading a JSON document gives, and what
assigning fresh values keeps), writing one object changes the tree the document unfolds to at
exactly one location, namely the location of that object.
-/
namespace Treepath

/-- no aliasing below `v`: every object is met once -/
def Sep (h : Heap) (j : J) (v : Val) : Prop := (fpJ h j v).Nodup

theorem fpKvs_eq (h : Heap) : ∀ (kvs : List (String × J)) (es : List (String × Val)),
    fpKvs h kvs es = fpList h (kvs.map Prod.snd) (es.map Prod.snd)
  | [], _ => by simp [fpKvs, fpList]
  | _ :: _, [] => by simp [fpKvs, fpList]
  | (_, j) :: kvs, (_, v) :: es => by simp [fpKvs, fpList, fpKvs_eq h kvs es]

theorem unfKvs_iff (h : Heap) : ∀ (kvs : List (String × J)) (es : List (String × Val)),
    UnfKvsJ h kvs es ↔ (es.map Prod.fst = kvs.map Prod.fst ∧ UnfListJ h (kvs.map Prod.snd) (es.map Prod.snd))
  | [], [] => by simp [UnfKvsJ, UnfListJ]
  | [], _ :: _ => by simp [UnfKvsJ]
  | _ :: _, [] => by simp [UnfKvsJ]
  | (k, j) :: kvs, (k', v) :: es => by
    simp only [UnfKvsJ, UnfListJ, List.map_cons, List.cons.injEq, unfKvs_iff h kvs es]
    constructor
    · rintro ⟨h1, h2, h3, h4⟩; exact ⟨⟨h1, h3⟩, h2, h4⟩
    · rintro ⟨⟨h1, h3⟩, h2, h4⟩; exact ⟨h1, h2, h3, h4⟩

/-! ### writes outside the footprint are invisible -/
mutual
theorem unf_frame (h : Heap) (id : Nat) (o : Obj) : ∀ (j : J) (v : Val), UnfJ h j v → id ∉ fpJ h j v →
    UnfJ (hput h id o) j v ∧ fpJ (hput h id o) j v = fpJ h j v
  | .obj kvs, .ref rid, hu, hn => by
    simp only [UnfJ] at hu
    obtain ⟨es, h1, h2⟩ := hu
    simp only [fpJ, h1, List.mem_cons, not_or] at hn
    have hne : rid ≠ id := fun e => hn.1 e.symm
    obtain ⟨q1, q2⟩ := unfKvs_frame h id o kvs es h2 hn.2
    have hg : (hput h id o)[rid]? = some (.dict es) := by rw [hput_other _ _ _ _ hne]; exact h1
    exact ⟨by simp only [UnfJ]; exact ⟨es, hg, q1⟩, by simp only [fpJ, hg, h1, q2]⟩
  | .arr ys, .ref rid, hu, hn => by
    simp only [UnfJ] at hu
    obtain ⟨xs, h1, h2⟩ := hu
    simp only [fpJ, h1, List.mem_cons, not_or] at hn
    have hne : rid ≠ id := fun e => hn.1 e.symm
    obtain ⟨q1, q2⟩ := unfList_frame h id o ys xs h2 hn.2
    have hg : (hput h id o)[rid]? = some (.list xs) := by rw [hput_other _ _ _ _ hne]; exact h1
    exact ⟨by simp only [UnfJ]; exact ⟨xs, hg, q1⟩, by simp only [fpJ, hg, h1, q2]⟩
  | .obj _, .atom _, hu, _ => by simp [UnfJ] at hu
  | .arr _, .atom _, hu, _ => by simp [UnfJ] at hu
  | .null, v, hu, _ => ⟨by simpa [UnfJ] using hu, by simp [fpJ]⟩
  | .bool _, v, hu, _ => ⟨by simpa [UnfJ] using hu, by simp [fpJ]⟩
  | .int _, v, hu, _ => ⟨by simpa [UnfJ] using hu, by simp [fpJ]⟩
  | .half _, v, hu, _ => ⟨by simpa [UnfJ] using hu, by simp [fpJ]⟩
  | .str _, v, hu, _ => ⟨by simpa [UnfJ] using hu, by simp [fpJ]⟩
theorem unfKvs_frame (h : Heap) (id : Nat) (o : Obj) : ∀ (kvs : List (String × J)) (es : List (String × Val)),
    UnfKvsJ h kvs es → id ∉ fpKvs h kvs es →
    UnfKvsJ (hput h id o) kvs es ∧ fpKvs (hput h id o) kvs es = fpKvs h kvs es
  | [], [], _, _ => by simp [UnfKvsJ, fpKvs]
  | (k, j) :: kvs, (k', v) :: es, hu, hn => by
    simp only [UnfKvsJ] at hu
    simp only [fpKvs, List.mem_append, not_or] at hn
    obtain ⟨q1, q2⟩ := unf_frame h id o j v hu.2.1 hn.1
    obtain ⟨q3, q4⟩ := unfKvs_frame h id o kvs es hu.2.2 hn.2
    exact ⟨by simp only [UnfKvsJ]; exact ⟨hu.1, q1, q3⟩, by simp only [fpKvs, q2, q4]⟩
  | [], _ :: _, hu, _ => by simp [UnfKvsJ] at hu
  | _ :: _, [], hu, _ => by simp [UnfKvsJ] at hu
theorem unfList_frame (h : Heap) (id : Nat) (o : Obj) : ∀ (ys : List J) (xs : List Val),
    UnfListJ h ys xs → id ∉ fpList h ys xs →
    UnfListJ (hput h id o) ys xs ∧ fpList (hput h id o) ys xs = fpList h ys xs
  | [], [], _, _ => by simp [UnfListJ, fpList]
  | j :: ys, v :: xs, hu, hn => by
    simp only [UnfListJ] at hu
    simp only [fpList, List.mem_append, not_or] at hn
    obtain ⟨q1, q2⟩ := unf_frame h id o j v hu.1 hn.1
    obtain ⟨q3, q4⟩ := unfList_frame h id o ys xs hu.2 hn.2
    exact ⟨by simp only [UnfListJ]; exact ⟨q1, q3⟩, by simp only [fpList, q2, q4]⟩
  | [], _ :: _, hu, _ => by simp [UnfListJ] at hu
  | _ :: _, [], hu, _ => by simp [UnfListJ] at hu
end

/-! ### positional lemmas on a container's entries -/

/-- `h'` agrees with `h` on everything that does not unfold through object `id` -/
def Frames (h h' : Heap) (id : Nat) : Prop :=
  ∀ j v, UnfJ h j v → id ∉ fpJ h j v → UnfJ h' j v ∧ fpJ h' j v = fpJ h j v

theorem frames_hput (h : Heap) (id : Nat) (o : Obj) : Frames h (hput h id o) id :=
  fun j v => unf_frame h id o j v

theorem frames_list {h h' : Heap} {id : Nat} (hf : Frames h h' id) : ∀ (ys : List J) (xs : List Val),
    UnfListJ h ys xs → id ∉ fpList h ys xs → UnfListJ h' ys xs ∧ fpList h' ys xs = fpList h ys xs
  | [], [], _, _ => by simp [UnfListJ, fpList]
  | j :: ys, v :: xs, hu, hn => by
    simp only [UnfListJ] at hu
    simp only [fpList, List.mem_append, not_or] at hn
    obtain ⟨q1, q2⟩ := hf j v hu.1 hn.1
    obtain ⟨q3, q4⟩ := frames_list hf ys xs hu.2 hn.2
    exact ⟨by simp only [UnfListJ]; exact ⟨q1, q3⟩, by simp only [fpList, q2, q4]⟩
  | [], _ :: _, hu, _ => by simp [UnfListJ] at hu
  | _ :: _, [], hu, _ => by simp [UnfListJ] at hu

theorem unfList_length {h : Heap} : ∀ {ys : List J} {xs : List Val}, UnfListJ h ys xs → ys.length = xs.length
  | [], [], _ => rfl
  | _ :: ys, _ :: xs, hu => by simp only [UnfListJ] at hu; simp [unfList_length hu.2]
  | [], _ :: _, hu => by simp [UnfListJ] at hu
  | _ :: _, [], hu => by simp [UnfListJ] at hu

/-- the entry at a position, with its footprint inside the container's -/
theorem unfList_get {h : Heap} : ∀ {ys : List J} {xs : List Val} {p : Nat} {c : Val}, UnfListJ h ys xs → xs[p]? = some c →
    ∃ jc, ys[p]? = some jc ∧ UnfJ h jc c ∧ ∀ x ∈ fpJ h jc c, x ∈ fpList h ys xs
  | j :: ys, v :: xs, 0, c, hu, hp => by
    simp only [UnfListJ] at hu
    simp only [List.getElem?_cons_zero, Option.some.injEq] at hp; subst hp
    exact ⟨j, rfl, hu.1, fun x hx => by simp [fpList, hx]⟩
  | j :: ys, v :: xs, p+1, c, hu, hp => by
    simp only [UnfListJ] at hu
    simp only [List.getElem?_cons_succ] at hp
    obtain ⟨jc, h1, h2, h3⟩ := unfList_get hu.2 hp
    exact ⟨jc, by simpa using h1, h2, fun x hx => by simp [fpList, h3 x hx]⟩
  | [], [], _, _, _, hp => by simp at hp
  | [], _ :: _, _, _, hu, _ => by simp [UnfListJ] at hu
  | _ :: _, [], _, _, hu, _ => by simp [UnfListJ] at hu

/-- **an update inside one entry**: the other entries are untouched -/
theorem refold_list (h h' : Heap) (id : Nat) (E : List Nat) (hf : Frames h h' id) (G : J → Option J) (c : Val)
    (hchild : ∀ jc, UnfJ h jc c → (fpJ h jc c).Nodup → (∀ x ∈ E, x ∉ fpJ h jc c) →
      id ∈ fpJ h jc c ∧ ∃ jc', G jc = some jc' ∧ UnfJ h' jc' c ∧ (fpJ h' jc' c).Nodup ∧
        ∀ x ∈ fpJ h' jc' c, x ∈ fpJ h jc c ∨ x ∈ E) :
    ∀ (ys : List J) (xs : List Val) (p : Nat), UnfListJ h ys xs → (fpList h ys xs).Nodup →
      (∀ x ∈ E, x ∉ fpList h ys xs) → xs[p]? = some c →
      id ∈ fpList h ys xs ∧ ∃ jc jc', ys[p]? = some jc ∧ G jc = some jc' ∧ UnfListJ h' (ys.set p jc') xs ∧
        (fpList h' (ys.set p jc') xs).Nodup ∧ ∀ x ∈ fpList h' (ys.set p jc') xs, x ∈ fpList h ys xs ∨ x ∈ E
  | j :: ys, v :: xs, 0, hu, hnd, hE, hp => by
    simp only [UnfListJ] at hu
    simp only [List.getElem?_cons_zero, Option.some.injEq] at hp; subst hp
    simp only [fpList, List.nodup_append] at hnd
    obtain ⟨n1, n2, n3⟩ := hnd
    obtain ⟨hid, jc', g1, g2, g3, g4⟩ := hchild j hu.1 n1 (fun x hx hm => hE x hx (by simp [fpList, hm]))
    have hrest : id ∉ fpList h ys xs := fun hm => n3 id hid id hm rfl
    obtain ⟨q1, q2⟩ := frames_list hf ys xs hu.2 hrest
    refine ⟨by simp [fpList, hid], j, jc', rfl, g1, ?_, ?_, ?_⟩
    · simp only [List.set_cons_zero, UnfListJ]; exact ⟨g2, q1⟩
    · simp only [List.set_cons_zero, fpList, q2, List.nodup_append]
      refine ⟨g3, n2, fun a ha b hb => ?_⟩
      rcases g4 a ha with h1 | h1
      · exact n3 a h1 b hb
      · intro e; subst e; exact hE a h1 (by simp [fpList, hb])
    · intro x hx
      simp only [List.set_cons_zero, fpList, q2, List.mem_append] at hx
      rcases hx with h1 | h1
      · rcases g4 x h1 with h2 | h2
        · left; simp [fpList, h2]
        · right; exact h2
      · left; simp [fpList, h1]
  | j :: ys, v :: xs, p+1, hu, hnd, hE, hp => by
    simp only [UnfListJ] at hu
    simp only [List.getElem?_cons_succ] at hp
    simp only [fpList, List.nodup_append] at hnd
    obtain ⟨n1, n2, n3⟩ := hnd
    obtain ⟨hid, jc, jc', g0, g1, g2, g3, g4⟩ :=
      refold_list h h' id E hf G c hchild ys xs p hu.2 n2 (fun x hx hm => hE x hx (by simp [fpList, hm])) hp
    have hhead : id ∉ fpJ h j v := fun hm => n3 id hm id hid rfl
    obtain ⟨q1, q2⟩ := hf j v hu.1 hhead
    refine ⟨by simp [fpList, hid], jc, jc', by simpa using g0, g1, ?_, ?_, ?_⟩
    · simp only [List.set_cons_succ, UnfListJ]; exact ⟨q1, g2⟩
    · simp only [List.set_cons_succ, fpList, q2, List.nodup_append]
      refine ⟨n1, g3, fun a ha b hb => ?_⟩
      rcases g4 b hb with h1 | h1
      · exact n3 a ha b h1
      · intro e; subst e; exact hE a h1 (by simp [fpList, ha])
    · intro x hx
      simp only [List.set_cons_succ, fpList, q2, List.mem_append] at hx
      rcases hx with h1 | h1
      · left; simp [fpList, h1]
      · rcases g4 x h1 with h2 | h2
        · left; simp [fpList, h2]
        · right; exact h2
  | [], [], _, _, _, _, hp => by simp at hp
  | [], _ :: _, _, hu, _, _, _ => by simp [UnfListJ] at hu
  | _ :: _, [], _, hu, _, _, _ => by simp [UnfListJ] at hu

/-- replacing the entry at a position by a new value (in a fixed heap) -/
theorem unfList_set {h : Heap} {jv : J} {v : Val} (hv : UnfJ h jv v) : ∀ (ys : List J) (xs : List Val) (p : Nat),
    UnfListJ h ys xs → UnfListJ h (ys.set p jv) (xs.set p v) ∧
      (∀ x ∈ fpList h (ys.set p jv) (xs.set p v), x ∈ fpList h ys xs ∨ x ∈ fpJ h jv v) ∧
      ((fpList h ys xs).Nodup → (fpJ h jv v).Nodup → (∀ x ∈ fpJ h jv v, x ∉ fpList h ys xs) →
        (fpList h (ys.set p jv) (xs.set p v)).Nodup)
  | [], [], _, _ => by simp [UnfListJ, fpList]
  | j :: ys, w :: xs, 0, hu => by
    simp only [UnfListJ] at hu
    refine ⟨by simp only [List.set_cons_zero, UnfListJ]; exact ⟨hv, hu.2⟩, ?_, ?_⟩
    · intro x hx
      simp only [List.set_cons_zero, fpList, List.mem_append] at hx
      rcases hx with h1 | h1
      · right; exact h1
      · left; simp [fpList, h1]
    · intro hn hnv hd
      simp only [fpList, List.nodup_append] at hn
      simp only [List.set_cons_zero, fpList, List.nodup_append]
      exact ⟨hnv, hn.2.1, fun a ha b hb e => hd a ha (by subst e; simp [fpList, hb])⟩
  | j :: ys, w :: xs, p+1, hu => by
    simp only [UnfListJ] at hu
    obtain ⟨q1, q2, q3⟩ := unfList_set hv ys xs p hu.2
    refine ⟨by simp only [List.set_cons_succ, UnfListJ]; exact ⟨hu.1, q1⟩, ?_, ?_⟩
    · intro x hx
      simp only [List.set_cons_succ, fpList, List.mem_append] at hx
      rcases hx with h1 | h1
      · left; simp [fpList, h1]
      · rcases q2 x h1 with h2 | h2
        · left; simp [fpList, h2]
        · right; exact h2
    · intro hn hnv hd
      simp only [fpList, List.nodup_append] at hn
      simp only [List.set_cons_succ, fpList, List.nodup_append]
      refine ⟨hn.1, q3 hn.2.1 hnv (fun x hx hm => hd x hx (by simp [fpList, hm])), fun a ha b hb => ?_⟩
      rcases q2 b hb with h2 | h2
      · exact hn.2.2 a ha b h2
      · intro e; subst e; exact hd a h2 (by simp [fpList, ha])
  | [], _ :: _, _, hu => by simp [UnfListJ] at hu
  | _ :: _, [], _, hu => by simp [UnfListJ] at hu

/-- appending a new value -/
theorem unfList_append {h : Heap} {jv : J} {v : Val} (hv : UnfJ h jv v) : ∀ (ys : List J) (xs : List Val),
    UnfListJ h ys xs → UnfListJ h (ys ++ [jv]) (xs ++ [v]) ∧
      fpList h (ys ++ [jv]) (xs ++ [v]) = fpList h ys xs ++ fpJ h jv v
  | [], [], _ => by simp [UnfListJ, fpList, hv]
  | j :: ys, w :: xs, hu => by
    simp only [UnfListJ] at hu
    obtain ⟨q1, q2⟩ := unfList_append hv ys xs hu.2
    exact ⟨by simp only [List.cons_append, UnfListJ]; exact ⟨hu.1, q1⟩,
      by simp only [List.cons_append, fpList, q2, List.append_assoc]⟩
  | [], _ :: _, hu => by simp [UnfListJ] at hu
  | _ :: _, [], hu => by simp [UnfListJ] at hu

/-- removing the entry at a position -/
theorem unfList_erase {h : Heap} : ∀ (ys : List J) (xs : List Val) (p : Nat),
    UnfListJ h ys xs → UnfListJ h (ys.eraseIdx p) (xs.eraseIdx p) ∧
      (∀ x ∈ fpList h (ys.eraseIdx p) (xs.eraseIdx p), x ∈ fpList h ys xs) ∧
      ((fpList h ys xs).Nodup → (fpList h (ys.eraseIdx p) (xs.eraseIdx p)).Nodup)
  | [], [], _, _ => by simp [UnfListJ, fpList]
  | j :: ys, w :: xs, 0, hu => by
    simp only [UnfListJ] at hu
    refine ⟨by simpa using hu.2, fun x hx => by simp only [List.eraseIdx_cons_zero] at hx; simp [fpList, hx], ?_⟩
    intro hn
    simp only [fpList, List.nodup_append] at hn
    simpa using hn.2.1
  | j :: ys, w :: xs, p+1, hu => by
    simp only [UnfListJ] at hu
    obtain ⟨q1, q2, q3⟩ := unfList_erase ys xs p hu.2
    refine ⟨by simp only [List.eraseIdx_cons_succ, UnfListJ]; exact ⟨hu.1, q1⟩, ?_, ?_⟩
    · intro x hx
      simp only [List.eraseIdx_cons_succ, fpList, List.mem_append] at hx
      rcases hx with h1 | h1
      · simp [fpList, h1]
      · simp [fpList, q2 x h1]
    · intro hn
      simp only [fpList, List.nodup_append] at hn
      simp only [List.eraseIdx_cons_succ, fpList, List.nodup_append]
      exact ⟨hn.1, q3 hn.2.1, fun a ha b hb => hn.2.2 a ha b (q2 b hb)⟩
  | [], _ :: _, _, hu => by simp [UnfListJ] at hu
  | _ :: _, [], _, hu => by simp [UnfListJ] at hu

/-! ### dict entries by position; Python indices by position -/

theorem getPy?_eq_norm {β} (xs : List β) (i : Int) : getPy? xs i = (normIndex xs.length i).bind (xs[·]?) := by
  unfold getPy? normIndex
  by_cases h0 : 0 ≤ i
  · simp only [h0, if_true]
    by_cases hl : i.toNat < xs.length
    · simp [hl]
    · simp only [hl, if_false, Option.bind_none]
      exact List.getElem?_eq_none (by omega)
  · simp only [h0, if_false]
    by_cases hl : (-i).toNat ≤ xs.length
    · simp [hl]
    · simp [hl]

/-- a successful lookup, by position: the same position serves the tree side (equal key
lists), where `kvsSet` is `set` at that position -/
theorem kvs_pos : ∀ (kvs : List (String × J)) (es : List (String × Val)) (k : String) (c : Val),
    es.map Prod.fst = kvs.map Prod.fst → es.lookup k = some c →
    ∃ p jc, (es.map Prod.snd)[p]? = some c ∧ kvs.lookup k = some jc ∧ (kvs.map Prod.snd)[p]? = some jc ∧
      (∀ x, (kvsSet kvs k x).map Prod.snd = (kvs.map Prod.snd).set p x ∧ (kvsSet kvs k x).map Prod.fst = kvs.map Prod.fst) ∧
      (∀ v, (dictSet es k v).map Prod.snd = (es.map Prod.snd).set p v ∧ (dictSet es k v).map Prod.fst = es.map Prod.fst) ∧
      (kvsErase kvs k).map Prod.snd = (kvs.map Prod.snd).eraseIdx p ∧ (kvsErase kvs k).map Prod.fst = (kvs.map Prod.fst).eraseIdx p ∧
      (dictErase es k).map Prod.snd = (es.map Prod.snd).eraseIdx p ∧ (dictErase es k).map Prod.fst = (es.map Prod.fst).eraseIdx p
  | [], [], _, _, _, hl => by simp at hl
  | [], _ :: _, _, _, hk, _ => by simp at hk
  | _ :: _, [], _, _, hk, _ => by simp at hk
  | (k1, j) :: kvs, (k2, v) :: es, k, c, hk, hl => by
    simp only [List.map_cons, List.cons.injEq] at hk
    obtain ⟨rfl, hk⟩ := hk
    by_cases he : k2 = k
    · subst he
      simp only [List.lookup, beq_self_eq_true, Option.some.injEq] at hl
      subst hl
      exact ⟨0, j, by simp, by simp [List.lookup], by simp,
        fun x => by simp [kvsSet], fun w => by simp [dictSet], by simp [kvsErase], by simp [kvsErase],
        by simp [dictErase], by simp [dictErase]⟩
    · have hb : (k == k2) = false := by simp [Ne.symm he]
      simp only [List.lookup, hb] at hl
      obtain ⟨p, jc, h1, h2, h3, h4, h5, h6, h7, h8, h9⟩ := kvs_pos kvs es k c hk hl
      refine ⟨p+1, jc, by simpa using h1, by simp [List.lookup, hb, h2], by simpa using h3,
        fun x => ?_, fun w => ?_, ?_, ?_, ?_, ?_⟩
      · simp [kvsSet, he, (h4 x).1, (h4 x).2]
      · simp [dictSet, he, (h5 w).1, (h5 w).2]
      · simp [kvsErase, he, h6]
      · simp [kvsErase, he, h7]
      · simp [dictErase, he, h8]
      · simp [dictErase, he, h9]

/-- a failed lookup: `d[k] = v` appends, on both sides -/
theorem kvs_new : ∀ (kvs : List (String × J)) (es : List (String × Val)) (k : String),
    es.map Prod.fst = kvs.map Prod.fst → es.lookup k = none →
    kvs.lookup k = none ∧ (∀ x, kvsSet kvs k x = kvs ++ [(k, x)]) ∧ (∀ v, dictSet es k v = es ++ [(k, v)])
  | [], [], _, _, _ => by simp [kvsSet, dictSet]
  | [], _ :: _, _, hk, _ => by simp at hk
  | _ :: _, [], _, hk, _ => by simp at hk
  | (k1, j) :: kvs, (k2, v) :: es, k, hk, hl => by
    simp only [List.map_cons, List.cons.injEq] at hk
    obtain ⟨rfl, hk⟩ := hk
    by_cases he : k2 = k
    · subst he; simp [List.lookup] at hl
    · have hb : (k == k2) = false := by simp [Ne.symm he]
      simp only [List.lookup, hb] at hl
      obtain ⟨h1, h2, h3⟩ := kvs_new kvs es k hk hl
      exact ⟨by simp [List.lookup, hb, h1], fun x => by simp [kvsSet, he, h2 x], fun w => by simp [dictSet, he, h3 w]⟩

theorem map_fst_snd_unfKvs (h : Heap) (kvs : List (String × J)) (es : List (String × Val))
    (hk : es.map Prod.fst = kvs.map Prod.fst) (hu : UnfListJ h (kvs.map Prod.snd) (es.map Prod.snd)) : UnfKvsJ h kvs es :=
  (unfKvs_iff h kvs es).mpr ⟨hk, hu⟩

/-! ### the main lemma: a write to one object is an update at that object's location -/

theorem hview_ref_dict {h : Heap} {id : Nat} {es : List (String × Val)} (ho : h[id]? = some (.dict es)) :
    hview h (.ref id) = .dict es := by simp [hview, ho]
theorem hview_ref_list {h : Heap} {id : Nat} {xs : List Val} (ho : h[id]? = some (.list xs)) :
    hview h (.ref id) = .list xs := by simp [hview, ho]

/-- Let `h' = hput h id o`.  If, for the sub-tree `jsub` the object `id` unfolds to, `F jsub`
is what it unfolds to in `h'` (`hbase`), then for every document root that reaches `id` by
walking `loc`, without aliasing: in `h'` the root unfolds to the old tree *updated by `F` at
`loc`* — every other part of the document is what it was.  `E` bounds the objects the new
sub-tree may bring in (the footprint of an assigned value); aliasing stays excluded. -/
theorem refold (h : Heap) (id : Nat) (o : Obj) (F : J → Option J) (E : List Nat)
    (hbase : ∀ jsub, UnfJ h jsub (.ref id) → (fpJ h jsub (.ref id)).Nodup → (∀ x ∈ E, x ∉ fpJ h jsub (.ref id)) →
      ∃ jsub', F jsub = some jsub' ∧ UnfJ (hput h id o) jsub' (.ref id) ∧ (fpJ (hput h id o) jsub' (.ref id)).Nodup ∧
        ∀ x ∈ fpJ (hput h id o) jsub' (.ref id), x ∈ fpJ h jsub (.ref id) ∨ x ∈ E) :
    ∀ (loc : List Name) (root : Val) (j : J), UnfJ h j root → (fpJ h j root).Nodup → (∀ x ∈ E, x ∉ fpJ h j root) →
      walk (hview h) root loc = some (.ref id) →
      id ∈ fpJ h j root ∧ ∃ j', J.updateAt F j loc = some j' ∧ UnfJ (hput h id o) j' root ∧
        (fpJ (hput h id o) j' root).Nodup ∧ ∀ x ∈ fpJ (hput h id o) j' root, x ∈ fpJ h j root ∨ x ∈ E
  | [], root, j, hu, hnd, hE, hw => by
    simp only [walk, Option.some.injEq] at hw
    subst hw
    have hid : id ∈ fpJ h j (.ref id) := by
      cases j <;> simp [UnfJ] at hu <;> simp [fpJ]
    exact ⟨hid, by simpa [J.updateAt] using hbase j hu hnd hE⟩
  | nm :: l, root, j, hu, hnd, hE, hw => by
    simp only [walk] at hw
    cases hc : childAt (hview h root) nm with
    | none => simp [hc] at hw
    | some c =>
      simp only [hc] at hw
      cases root with
      | atom a => cases nm <;> simp [childAt, hview] at hc
      | ref rid =>
        cases j with
        | obj kvs =>
          simp only [UnfJ] at hu
          obtain ⟨es, ho, hkv⟩ := hu
          obtain ⟨hkeys, hul⟩ := (unfKvs_iff h kvs es).mp hkv
          rw [hview_ref_dict ho] at hc
          cases nm with
          | idx i => simp [childAt] at hc
          | key k =>
            simp only [childAt] at hc
            obtain ⟨p, jc0, p1, p2, p3, p4, _, _⟩ := kvs_pos kvs es k c hkeys hc
            simp only [fpJ, ho, List.nodup_cons, fpKvs_eq] at hnd
            have hE' : ∀ x ∈ E, x ∉ fpList h (kvs.map Prod.snd) (es.map Prod.snd) := fun x hx hm =>
              hE x hx (by simp [fpJ, ho, fpKvs_eq, hm])
            obtain ⟨hid, jc, jc', g0, g1, g2, g3, g4⟩ :=
              refold_list h (hput h id o) id E (frames_hput h id o) (fun jc => J.updateAt F jc l) c
                (fun jc q1 q2 q3 => refold h id o F E hbase l c jc q1 q2 q3 hw)
                (kvs.map Prod.snd) (es.map Prod.snd) p hul hnd.2 hE' p1
            have hjc : jc = jc0 := by rw [p3] at g0; exact (Option.some.inj g0).symm
            subst hjc
            have hne : rid ≠ id := fun e => hnd.1 (e ▸ hid)
            have hg : (hput h id o)[rid]? = some (.dict es) := by rw [hput_other _ _ _ _ hne]; exact ho
            refine ⟨by simp [fpJ, ho, fpKvs_eq, hid], .obj (kvsSet kvs k jc'), ?_, ?_, ?_, ?_⟩
            · simp [J.updateAt, childAt, J.view, p2, g1, J.putChild]
            · simp only [UnfJ]
              refine ⟨es, hg, map_fst_snd_unfKvs _ _ _ (by rw [(p4 jc').2]; exact hkeys) (by rw [(p4 jc').1]; exact g2)⟩
            · simp only [fpJ, hg, fpKvs_eq, (p4 jc').1, List.nodup_cons]
              refine ⟨fun hm => ?_, g3⟩
              rcases g4 rid hm with h1 | h1
              · exact hnd.1 h1
              · exact hE rid h1 (by simp [fpJ])
            · intro x hx
              simp only [fpJ, hg, fpKvs_eq, (p4 jc').1, List.mem_cons] at hx
              rcases hx with rfl | hx
              · left; simp [fpJ]
              · rcases g4 x hx with h1 | h1
                · left; simp [fpJ, ho, fpKvs_eq, h1]
                · right; exact h1
        | arr ys =>
          simp only [UnfJ] at hu
          obtain ⟨xs, ho, hul⟩ := hu
          rw [hview_ref_list ho] at hc
          cases nm with
          | key k => simp [childAt] at hc
          | idx i =>
            simp only [childAt, getPy?_eq_norm] at hc
            cases hni : normIndex xs.length i with
            | none => simp [hni] at hc
            | some p =>
              simp only [hni, Option.bind_some] at hc
              simp only [fpJ, ho, List.nodup_cons] at hnd
              have hE' : ∀ x ∈ E, x ∉ fpList h ys xs := fun x hx hm => hE x hx (by simp [fpJ, ho, hm])
              obtain ⟨hid, jc, jc', g0, g1, g2, g3, g4⟩ :=
                refold_list h (hput h id o) id E (frames_hput h id o) (fun jc => J.updateAt F jc l) c
                  (fun jc q1 q2 q3 => refold h id o F E hbase l c jc q1 q2 q3 hw) ys xs p hul hnd.2 hE' hc
              have hlen := unfList_length hul
              have hne : rid ≠ id := fun e => hnd.1 (e ▸ hid)
              have hg : (hput h id o)[rid]? = some (.list xs) := by rw [hput_other _ _ _ _ hne]; exact ho
              refine ⟨by simp [fpJ, ho, hid], .arr (ys.set p jc'), ?_, ?_, ?_, ?_⟩
              · simp [J.updateAt, childAt, J.view, getPy?_eq_norm, hlen, hni, g0, g1, J.putChild]
              · simp only [UnfJ]; exact ⟨xs, hg, g2⟩
              · simp only [fpJ, hg, List.nodup_cons]
                refine ⟨fun hm => ?_, g3⟩
                rcases g4 rid hm with h1 | h1
                · exact hnd.1 h1
                · exact hE rid h1 (by simp [fpJ])
              · intro x hx
                simp only [fpJ, hg, List.mem_cons] at hx
                rcases hx with rfl | hx
                · left; simp [fpJ]
                · rcases g4 x hx with h1 | h1
                  · left; simp [fpJ, ho, h1]
                  · right; exact h1
        | null => simp [UnfJ] at hu
        | bool b => simp [UnfJ] at hu
        | int n => simp [UnfJ] at hu
        | half n => simp [UnfJ] at hu
        | str s => simp [UnfJ] at hu

end Treepath
