import Treepath.Model.Machine
/-
The pointer-free *stack machine*: the traverser's control state as a focus plus a stack of
suspended iterations.  `Proofs/Bisim.lean` shows the heap machine (`Machine.lean`) runs in
lock step with it; `Proofs/Sim.lean` shows it emits the specification's event stream.
-/
namespace Treepath
variable {α : Type}

/-- a suspended iteration: the match the iterator is parked on, that match's `vertex_index`
(the iterating step is `steps[vidx]`), and the items not produced yet -/
structure Frame (α : Type) where
  owner : MNode α
  vidx : Nat
  items : List (Name × α)

inductive AS (α : Type) where
  | init
  | report (n : MNode α) (vertex vidx : Nat) (stk : List (Frame α))
  | catch_ (stk : List (Frame α))
  | attempt (n : MNode α) (vidx : Nat) (stk : List (Frame α))   -- an un-parked focus at `match_action`
  | parked (stk : List (Frame α))                                -- focus = owner of the top frame
  | done

/-- where control goes after a result or a failed attempt: the innermost suspended iteration -/
def resume : List (Frame α) → AS α
  | [] => .done
  | stk => .parked stk

/-- does the step park an iterator (wildcards, slice, comma list, generic wildcard, rec) -/
def Step.iterates : Step α → Bool
  | .key _ | .idx _ | .parent | .filter _ => false
  | _ => true

section
variable (view : α → View α) (steps : Array (Step α)) (src : Src α)

/-- take the next item of a (non-recursive) multi-valued step -/
def aIter (n : MNode α) (vidx : Nat) (its : List (Name × α)) (stk : List (Frame α)) : AS α × List (Ev α) × Sig α :=
  match its with
  | [] => (resume stk, [.attempt n (vidx+1) none none], .none)
  | (nm, x) :: tl =>
    (.report (.child n nm x) (vidx+1) (vidx+1) (⟨n, vidx, tl⟩ :: stk),
     [.attempt n (vidx+1) (some (.child n nm x)) none], .none)

/-- take the next child of a recursive step -/
def aRecIter (n : MNode α) (vidx : Nat) (its : List (Name × α)) (stk : List (Frame α)) : AS α × List (Ev α) × Sig α :=
  match its with
  | [] => (resume stk, [.attempt n (vidx+1) none none], .none)
  | (nm, x) :: tl =>
    match allItems (view x) with
    | none =>
      (.report (.child n nm x) (vidx+1) vidx (⟨n, vidx, tl⟩ :: stk),
       [.attempt n (vidx+1) (some (.child n nm x)) none], .none)
    | some cits =>
      (.report (.imag (.child n nm x)) (vidx+1) (vidx+1) (⟨.child n nm x, vidx, cits⟩ :: ⟨n, vidx, tl⟩ :: stk),
       [.attempt n (vidx+1) (some (.imag (.child n nm x))) none], .none)

/-- `match_action` on an un-parked focus -/
def aAttempt (n : MNode α) (vidx : Nat) (stk : List (Frame α)) : AS α × List (Ev α) × Sig α :=
  match steps[vidx]? with
  | none => (.attempt n vidx stk, [], .bug "vertex index out of range")
  | some s =>
    match s with
    | .filter f =>
      match (f n).res with
      | .val j =>
        if j.truthy then
          (.report (.imag n) (vidx+1) (vidx+1) stk,
           (.predCall n :: (f n).evs) ++ [.attempt n (vidx+1) (some (.imag n)) none], .none)
        else (resume stk, (.predCall n :: (f n).evs) ++ [.attempt n (vidx+1) none none], .none)
      | .raise e =>
        (.attempt n vidx stk, .predCall n :: (f n).evs ++ [.raised (.traversing e)], .raised (.traversing e))
    | .recur =>
      match allItems (view n.data) with
      | none => (resume stk, [.attempt n (vidx+1) none none], .none)
      | some its =>
        (.report (.imag n) (vidx+1) (vidx+1) (⟨n, vidx, its⟩ :: stk),
         [.attempt n (vidx+1) (some (.imag n)) none], .none)
    | .key _ | .idx _ | .parent =>
      match singleOf view s n with
      | none => (resume stk, [.attempt n (vidx+1) none none], .none)
      | some n' => (.report n' (vidx+1) (vidx+1) stk, [.attempt n (vidx+1) (some n') none], .none)
    | _ =>
      match itemsOf s (view n.data) with
      | .wrongKind => (resume stk, [.attempt n (vidx+1) none none], .none)
      | .valueError => (.attempt n vidx stk, [.raised (.user "ValueError")], .raised (.user "ValueError"))
      | .ok its => aIter n vidx its stk

/-- one action of the stack machine -/
def astep : AS α → AS α × List (Ev α) × Sig α
  | .init => (.report src.rootNode 0 0 [], [], .none)
  | .done => (.done, [.stop], .stop)
  | .report n vertex vidx stk =>
    if vertex = steps.size then (.catch_ stk, [.result n], .result n)   -- the focus is dropped: only its resume pointer matters
    else (.attempt n vidx stk, [], .none)
  | .catch_ stk => (resume stk, [], .none)
  | .attempt n vidx stk => aAttempt view steps n vidx stk
  | .parked [] => (.done, [], .bug "parked on an empty stack")
  | .parked (fr :: stk) =>
    match steps[fr.vidx]? with
    | some .recur => aRecIter view fr.owner fr.vidx fr.items stk
    | some _ => aIter fr.owner fr.vidx fr.items stk
    | none => (.parked (fr :: stk), [], .bug "vertex index out of range")

/-- run `k` actions, collecting the events (signals ignored) -/
def arun : Nat → AS α → AS α × List (Ev α)
  | 0, s => (s, [])
  | k+1, s =>
    let r := astep view steps src s
    let r' := arun k r.1
    (r'.1, r.2.1 ++ r'.2)

theorem arun_add (a b : Nat) (s : AS α) :
    arun view steps src (a + b) s =
      ((arun view steps src b (arun view steps src a s).1).1,
       (arun view steps src a s).2 ++ (arun view steps src b (arun view steps src a s).1).2) := by
  induction a generalizing s with
  | zero => simp [arun]
  | succ a ih =>
    have : a + 1 + b = (a + b) + 1 := by omega
    rw [this]
    simp only [arun]
    rw [ih]
    simp [List.append_assoc]

/-- on a multi-valued step the attempt is the iterator protocol of `aIter` -/
theorem aAttempt_multi' (s : Step α) (hm : s.cls = .multi) (n : MNode α) (vi : Nat) (stk : List (Frame α))
    (hs : steps[vi]? = some s) :
    aAttempt view steps n vi stk =
      match itemsOf s (view n.data) with
      | .wrongKind => (resume stk, [.attempt n (vi+1) none none], .none)
      | .valueError => (.attempt n vi stk, [.raised (.user "ValueError")], .raised (.user "ValueError"))
      | .ok its => aIter n vi its stk := by
  cases s <;> simp [Step.cls] at hm <;> simp only [aAttempt, hs] <;> split <;> simp_all

theorem vmatch_multi (s : Step α) (hm : s.cls = .multi) (st : St α) (p : Nat) (tm : TM α) (vi : Nat) :
    vmatch view st p tm vi s = vmatchMulti view st p tm vi s := by
  cases s <;> simp [Step.cls] at hm <;> rfl

theorem astep_parked_multi (s : Step α) (hm : s.cls = .multi) (fr : Frame α) (stk : List (Frame α))
    (hs : steps[fr.vidx]? = some s) :
    astep view steps src (.parked (fr :: stk)) = aIter fr.owner fr.vidx fr.items stk := by
  simp only [astep, hs]
  cases s <;> simp [Step.cls] at hm <;> rfl

theorem astep_parked_recur (fr : Frame α) (stk : List (Frame α)) (hs : steps[fr.vidx]? = some .recur) :
    astep view steps src (.parked (fr :: stk)) = aRecIter view fr.owner fr.vidx fr.items stk := by
  simp only [astep, hs]

theorem arun_one (s : AS α) : arun view steps src 1 s = ((astep view steps src s).1, (astep view steps src s).2.1) := by
  simp [arun]

end
end Treepath
