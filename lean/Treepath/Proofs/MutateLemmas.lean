import Treepath.Proofs.HeapLemmas
/- frame lemmas for the writers -/
namespace Treepath

/-- `vertex.set` writes exactly one slot of exactly one object — the container the parent
match holds — and returns a match of that slot carrying `v` itself -/
theorem vertexSet_frame (h h' : Heap) (s : Step Val) (pm m : MNode Val) (v : Val)
    (hs : vertexSet h s pm v = .ok (h', m)) :
    ∃ (id : Nat) (nm : Name), pm.data = .ref id ∧ m = .child pm nm v ∧ h'.size = h.size ∧ ∀ j : Nat, j ≠ id → h'[j]? = h[j]? := by
  unfold vertexSet at hs
  split at hs
  · rename_i k id hd
    split at hs
    · simp only [Except.ok.injEq, Prod.mk.injEq] at hs
      obtain ⟨h1, h2⟩ := hs
      subst h1; subst h2
      exact ⟨id, .key k, hd, rfl, hput_size _ _ _, fun j hj => hput_other _ _ _ _ hj⟩
    · simp at hs
  · rename_i i id hd
    split at hs
    · split at hs
      · simp only [Except.ok.injEq, Prod.mk.injEq] at hs
        obtain ⟨h1, h2⟩ := hs
        subst h1; subst h2
        exact ⟨id, .idx i, hd, rfl, hput_size _ _ _, fun j hj => hput_other _ _ _ _ hj⟩
      · split at hs
        · simp only [Except.ok.injEq, Prod.mk.injEq] at hs
          obtain ⟨h1, h2⟩ := hs
          subst h1; subst h2
          exact ⟨id, .idx i, hd, rfl, hput_size _ _ _, fun j hj => hput_other _ _ _ _ hj⟩
        · simp at hs
    · simp at hs
  · simp at hs

/-- without cascade a failing `set_match` leaves the whole store untouched, and a successful
one changes a single object and returns a match holding `v` itself -/
theorem setMatchN_nocascade (stepsOf : Heap → List (Step Val)) (src : Src Val) (n : Nat) (h h' : Heap) (v : Val)
    (r : Except ApiErr (MNode Val)) (hr : setMatchN stepsOf src false n h v = (h', r)) :
    (∀ e, r = .error e → h' = h) ∧
    (∀ m, r = .ok m → m.data = v ∧ h'.size = h.size ∧ ∃ id : Nat, ∀ j : Nat, j ≠ id → h'[j]? = h[j]?) := by
  cases n with
  | zero =>
    simp only [setMatchN, Prod.mk.injEq] at hr
    obtain ⟨h1, h2⟩ := hr
    subst h1; subst h2
    exact ⟨fun _ _ => rfl, fun m hm => by simp at hm⟩
  | succ n =>
    simp only [setMatchN] at hr
    split at hr
    · simp only [Prod.mk.injEq] at hr; obtain ⟨h1, h2⟩ := hr; subst h1; subst h2
      exact ⟨fun _ _ => rfl, fun m hm => by simp at hm⟩
    · split at hr
      · split at hr
        · rename_i hv
          simp only [Prod.mk.injEq] at hr; obtain ⟨h1, h2⟩ := hr; subst h1; subst h2
          obtain ⟨id, nm, _, hm, hsz, hfr⟩ := vertexSet_frame _ _ _ _ _ _ hv
          refine ⟨fun e he => by simp at he, fun m hm' => ?_⟩
          simp only [Except.ok.injEq] at hm'
          subst hm'
          exact ⟨by rw [hm]; rfl, hsz, id, hfr⟩
        · simp only [Prod.mk.injEq] at hr; obtain ⟨h1, h2⟩ := hr; subst h1; subst h2
          exact ⟨fun _ _ => rfl, fun m hm => by simp at hm⟩
      · simp only [Prod.mk.injEq] at hr; obtain ⟨h1, h2⟩ := hr; subst h1; subst h2
        exact ⟨fun _ _ => rfl, fun m hm => by simp at hm⟩
      · split at hr
        · simp only [Bool.false_eq_true, if_false, Prod.mk.injEq] at hr
          obtain ⟨h1, h2⟩ := hr; subst h1; subst h2
          exact ⟨fun _ _ => rfl, fun m hm => by simp at hm⟩
        · simp only [Prod.mk.injEq] at hr; obtain ⟨h1, h2⟩ := hr; subst h1; subst h2
          exact ⟨fun _ _ => rfl, fun m hm => by simp at hm⟩

theorem defaultValueFor_spec (h : Heap) (s : Step Val) :
    (∀ j : Nat, j < h.size → (defaultValueFor h s).1[j]? = h[j]?) ∧ h.size ≤ (defaultValueFor h s).1.size ∧
    (∀ id : Nat, (defaultValueFor h s).2 = .ref id → id = h.size ∧
       ((defaultValueFor h s).1[id]? = some (.dict []) ∨ (defaultValueFor h s).1[id]? = some (.list []))) := by
  cases s <;> simp [defaultValueFor, Array.getElem?_push] <;> intros <;> omega

/-- **Cascade frame**: whatever the outcome, at most one pre-existing object is written (the
deepest container that already existed, which receives the new entry); every other
pre-existing object is untouched, no object is ever removed, and on success the returned
match holds `v` itself. -/
theorem setMatchN_cascade_frame (stepsOf : Heap → List (Step Val)) (src : Src Val) (n : Nat) :
    ∀ (h h' : Heap) (v : Val) (r : Except ApiErr (MNode Val)), setMatchN stepsOf src true n h v = (h', r) →
      h.size ≤ h'.size ∧ (∃ id0 : Nat, ∀ j : Nat, j < h.size → j ≠ id0 → h'[j]? = h[j]?) ∧ (∀ m, r = .ok m → m.data = v) := by
  induction n with
  | zero =>
    intro h h' v r hr
    simp only [setMatchN, Prod.mk.injEq] at hr
    obtain ⟨h1, h2⟩ := hr; subst h1; subst h2
    exact ⟨Nat.le_refl _, ⟨0, fun _ _ _ => rfl⟩, fun m hm => by simp at hm⟩
  | succ n ih =>
    intro h h' v r hr
    have triv : ∀ (r' : Except ApiErr (MNode Val)), (h, r') = (h', r) → (∀ m, r = .ok m → False) →
        h.size ≤ h'.size ∧ (∃ id0 : Nat, ∀ j : Nat, j < h.size → j ≠ id0 → h'[j]? = h[j]?) ∧ (∀ m, r = .ok m → m.data = v) := by
      intro r' he hno
      simp only [Prod.mk.injEq] at he
      obtain ⟨h1, _⟩ := he; subst h1
      exact ⟨Nat.le_refl _, ⟨0, fun _ _ _ => rfl⟩, fun m hm => (hno m hm).elim⟩
    simp only [setMatchN] at hr
    split at hr
    · exact triv _ hr (fun m hm => by simp only [Prod.mk.injEq] at hr; rw [← hr.2] at hm; simp at hm)
    · rename_i last hlast
      split at hr
      · split at hr
        · rename_i hv
          simp only [Prod.mk.injEq] at hr; obtain ⟨h1, h2⟩ := hr; subst h1; subst h2
          obtain ⟨id, nm, _, hm, hsz, hfr⟩ := vertexSet_frame _ _ _ _ _ _ hv
          refine ⟨by omega, ⟨id, fun j _ hj => hfr j hj⟩, fun m hm' => ?_⟩
          simp only [Except.ok.injEq] at hm'
          subst hm'; rw [hm]; rfl
        · exact triv _ hr (fun m hm => by simp only [Prod.mk.injEq] at hr; rw [← hr.2] at hm; simp at hm)
      · exact triv _ hr (fun m hm => by simp only [Prod.mk.injEq] at hr; rw [← hr.2] at hm; simp at hm)
      · split at hr
        · simp only [if_true] at hr
          -- cascade: allocate the default container, recurse on the parent path, then set
          obtain ⟨hd1, hd2, hd3⟩ := defaultValueFor_spec h last
          rcases hrec : setMatchN stepsOf src true n (defaultValueFor h last).1 (defaultValueFor h last).2 with ⟨h2, r2⟩
          obtain ⟨ihsz, ⟨id0, ihfr⟩, ihdata⟩ := ih _ _ _ _ hrec
          simp only [hrec] at hr
          cases r2 with
          | error e =>
            simp only [Prod.mk.injEq] at hr; obtain ⟨h1, hr2⟩ := hr; subst h1
            refine ⟨by omega, ⟨id0, fun j hj hne => ?_⟩, fun m hm => by rw [← hr2] at hm; simp at hm⟩
            rw [ihfr j (by omega) hne, hd1 j hj]
          | ok pm =>
            have hpm := ihdata pm rfl
            simp only at hr
            split at hr
            · rename_i hv
              simp only [Prod.mk.injEq] at hr; obtain ⟨h1, hr2⟩ := hr; subst h1
              obtain ⟨id, nm, hpd, hm, hsz, hfr⟩ := vertexSet_frame _ _ _ _ _ _ hv
              -- the object written last is the fresh container
              have hid : id = h.size := by
                rw [hpm] at hpd
                exact (hd3 id hpd).1
              refine ⟨by omega, ⟨id0, fun j hj hne => ?_⟩, fun m hm' => ?_⟩
              · rw [hfr j (by omega), ihfr j (by omega) hne, hd1 j hj]
              · rw [← hr2] at hm'
                simp only [Except.ok.injEq] at hm'
                subst hm'; rw [hm]; rfl
            · simp only [Prod.mk.injEq] at hr; obtain ⟨h1, hr2⟩ := hr; subst h1
              refine ⟨by omega, ⟨id0, fun j hj hne => ?_⟩, fun m hm => by rw [← hr2] at hm; simp at hm⟩
              rw [ihfr j (by omega) hne, hd1 j hj]
        · exact triv _ hr (fun m hm => by simp only [Prod.mk.injEq] at hr; rw [← hr.2] at hm; simp at hm)

theorem getPy?_of_normIndex (xs : List Val) (i : Int) (k : Nat) (h : normIndex xs.length i = some k) :
    getPy? xs i = xs[k]? := by
  unfold normIndex at h
  unfold getPy?
  split at h
  · rename_i h0
    split at h
    · simp only [Option.some.injEq] at h; subst h; simp [h0]
    · simp at h
  · rename_i h0
    split at h
    · rename_i h1
      simp only [Option.some.injEq] at h; subst h; simp [h0, h1]
    · simp at h

theorem get_of_some_lt (h : Heap) (id : Nat) (o : Obj) (hx : h[id]? = some o) : id < h.size := by
  by_cases hl : id < h.size
  · exact hl
  · rw [Array.getElem?_eq_none (by omega)] at hx; simp at hx

/-- **the written slot reads back**: after a successful `vertex.set`, applying the same last
step to the same parent match in the new store finds the new match, holding `v` -/
theorem vertexSet_reads_back (h h' : Heap) (s : Step Val) (pm m : MNode Val) (v : Val)
    (hs : vertexSet h s pm v = .ok (h', m)) : singleOf (hview h') s pm = some m := by
  unfold vertexSet at hs
  split at hs
  · rename_i k id hd
    split at hs
    · rename_i es he
      simp only [Except.ok.injEq, Prod.mk.injEq] at hs
      obtain ⟨h1, h2⟩ := hs
      subst h1; subst h2
      have hlt := get_of_some_lt h id _ he
      simp [singleOf, hd, hview, hput_self h id _ hlt, dictSet_lookup_self]
    · simp at hs
  · rename_i i id hd
    split at hs
    · rename_i xs he
      have hlt := get_of_some_lt h id _ he
      split at hs
      · rename_i xs' hl
        simp only [Except.ok.injEq, Prod.mk.injEq] at hs
        obtain ⟨h1, h2⟩ := hs
        subst h1; subst h2
        have hn : ∃ k, normIndex xs.length i = some k := by
          unfold listSet at hl
          cases hn : normIndex xs.length i with
          | none => simp [hn] at hl
          | some k => exact ⟨k, rfl⟩
        obtain ⟨k, hk⟩ := hn
        have hg := (listSet_get xs xs' i v k hl hk).1
        have hlen := listSet_length xs xs' i v hl
        have : getPy? xs' i = some v := by
          rw [getPy?_of_normIndex xs' i k (by rw [hlen]; exact hk), hg]
        simp [singleOf, hd, hview, hput_self h id _ hlt, this]
      · split at hs
        · rename_i hi
          simp only [Except.ok.injEq, Prod.mk.injEq] at hs
          obtain ⟨h1, h2⟩ := hs
          subst h1; subst h2
          have : getPy? (xs ++ [v]) i = some v := by
            subst hi
            simp [getPy?]
          simp [singleOf, hd, hview, hput_self h id _ hlt, this]
        · simp at hs
    · simp at hs
  · simp at hs

end Treepath
