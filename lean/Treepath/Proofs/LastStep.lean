import Treepath.Proofs.EvalLemmas
import Treepath.Proofs.RoundTrip
import Treepath.Proofs.RefoldApi
import Treepath.Proofs.ErrorLemmas
/-
What the last step of a path says about its results: a path ending in a key (index) step only
yields children named by that key (index).  Used to show that `pop` never meets a missing entry
on the match it has just found (its `KeyError` / `IndexError` branches are dead on a tree).
-/
namespace Treepath

theorem mem_seqFlat (k : MNode J → Res) : ∀ (ns : List (MNode J)) (m : MNode J),
    m ∈ (seqFlat k ns).1 → ∃ a ∈ ns, m ∈ (k a).1
  | [], m, h => by simp [seqFlat] at h
  | n :: ns, m, h => by
    simp only [seqFlat] at h
    rcases hk : k n with ⟨out, e⟩
    rw [hk] at h
    cases e with
    | some e => exact ⟨n, by simp, by rw [hk]; exact h⟩
    | none =>
      simp only [List.mem_append] at h
      rcases h with h | h
      · exact ⟨n, by simp, by rw [hk]; exact h⟩
      · obtain ⟨a, ha, hm⟩ := mem_seqFlat k ns m h
        exact ⟨a, List.mem_cons_of_mem _ ha, hm⟩

/-- the results of a path whose last step is the name step `nm` are children called `nm`, read
out of their parent's container -/
theorem last_name_results (nm : Name) : ∀ (p : List (Step J)), p.getLast? = some (nameStep nm) →
    ∀ (n m : MNode J), m ∈ (evalE p n).1 →
      ∃ q x, m = .child q nm x ∧ childAt q.data.view nm = some x := by
  intro p
  induction p with
  | nil => intro h; simp at h
  | cons s rest ih =>
    intro hl n m hm
    cases rest with
    | nil =>
      simp only [List.getLast?_singleton, Option.some.injEq] at hl
      subst hl
      cases nm with
      | key k =>
        simp only [nameStep, evalE, evalStep, Step.cls] at hm
        cases hso : singleOf J.view (.key k) n with
        | none => simp [hso, seqFlat] at hm
        | some n' =>
          simp only [hso, Option.toList, seqFlat_single, evalE, List.mem_singleton] at hm
          subst hm
          simp only [singleOf] at hso
          cases hd : n.data.view with
          | dict es =>
            rw [hd] at hso
            simp only [Option.map_eq_some_iff] at hso
            obtain ⟨x, hx, rfl⟩ := hso
            exact ⟨n, x, rfl, by simp [childAt, hd, hx]⟩
          | _ => rw [hd] at hso; simp at hso
      | idx i =>
        simp only [nameStep, evalE, evalStep, Step.cls] at hm
        cases hso : singleOf J.view (.idx i) n with
        | none => simp [hso, seqFlat] at hm
        | some n' =>
          simp only [hso, Option.toList, seqFlat_single, evalE, List.mem_singleton] at hm
          subst hm
          simp only [singleOf] at hso
          cases hd : n.data.view with
          | list xs =>
            rw [hd] at hso
            simp only [Option.map_eq_some_iff] at hso
            obtain ⟨x, hx, rfl⟩ := hso
            exact ⟨n, x, rfl, by simp [childAt, hd, hx]⟩
          | _ => rw [hd] at hso; simp at hso
    | cons r rs =>
      have hl' : (r :: rs).getLast? = some (nameStep nm) := by simpa [List.getLast?_cons_cons] using hl
      have IH := ih hl'
      by_cases hrec : s = .recur
      · subst hrec
        simp only [evalE] at hm
        obtain ⟨a, _, ha⟩ := mem_seqFlat _ _ m hm
        by_cases hc : a.data.isContainer = true
        · simp only [hc, if_true] at ha
          exact IH _ m ha
        · simp [hc] at ha
      · have hm' : m ∈ (seqFlat (evalE (r :: rs)) (evalStep s n).1).1 := by
          cases s <;> first
            | exact absurd rfl hrec
            | (simp only [evalE] at hm
               rcases hes : evalStep _ n with ⟨ns, e⟩
               rw [hes] at hm
               cases e with
               | none => simpa using hm
               | some e =>
                 simp only at hm
                 rcases hsf : seqFlat (evalE (r :: rs)) ns with ⟨out, e'⟩
                 rw [hsf] at hm
                 cases e' <;> simpa using hm)
        obtain ⟨a, _, ha⟩ := mem_seqFlat _ _ m hm'
        exact IH a m ha

theorem lrel_getLast {α β} {R : α → β → Prop} : ∀ {la : List α} {lb : List β}, LRel R la lb →
    ORel R la.getLast? lb.getLast?
  | [], [], .nil => by simp [ORel]
  | [a], [b], .cons h .nil => by simpa [ORel] using h
  | a :: a' :: l, b :: b' :: l', .cons _ t => by
    simpa [List.getLast?_cons_cons] using lrel_getLast t

theorem getPy_normIndex {β} (xs : List β) (i : Int) (a : β) (h : getPy? xs i = some a) :
    ∃ k, normIndex xs.length i = some k ∧ xs[k]? = some a := by
  unfold getPy? at h
  unfold normIndex
  by_cases h0 : 0 ≤ i
  · simp only [h0, if_true] at h ⊢
    have hlt : i.toNat < xs.length := by
      rcases List.getElem?_eq_some_iff.mp h with ⟨hl, _⟩
      exact hl
    exact ⟨i.toNat, by simp [hlt], h⟩
  · simp only [h0, if_false] at h ⊢
    by_cases h1 : (-i).toNat ≤ xs.length
    · simp only [h1, if_true] at h ⊢
      exact ⟨_, rfl, h⟩
    · simp [h1] at h

/-- on a tree the match `pop` has just found still holds its entry: `vertex.pop` fails only with
PopError (last step not a key / index, or aimed at the root) — the `KeyError` / `IndexError` it would
turn into PopError never arise -/
theorem vertexPop_on_found (h : Heap) (root : Val) (j : J) (hu : Unf h root j) (hwf : HeapWF h)
    (sa : Array (Step Val)) (sb : Array (Step J)) (hsteps : LRel (StepRel (Unf h)) sa.toList sb.toList)
    (hp : PredsClean sb) (mm : Bool) (m : MNode Val)
    (hg : getMatch (wcx h) sa (.doc root) mm = .ok (some m)) (e : ApiErr)
    (hv : vertexPop h sa.toList.getLast? m = .error e) : e = .popError := by
  obtain ⟨m', hrel, hhead⟩ := getMatch_heap_found h root j hu sa sb hsteps hp mm m hg
  have hgen := getMatch_gen (wcx h) (heapwf_keysUniq hwf) sa root mm m hg
  have hmem : m' ∈ (evalE sb.toList (.root j)).1 := List.mem_of_mem_head? hhead
  have hlast := lrel_getLast hsteps
  unfold vertexPop at hv
  split at hv
  · -- key
    rename_i k id hl hd
    rw [hl] at hlast
    cases hlb : sb.toList.getLast? with
    | none => rw [hlb] at hlast; simp [ORel] at hlast
    | some sl =>
      rw [hlb] at hlast
      simp only [ORel] at hlast
      cases hlast
      obtain ⟨q, x, hm', _⟩ := last_name_results (.key k) sb.toList (by simpa [nameStep] using hlb) (.root j) m' hmem
      subst hm'
      cases hrel with
      | child hpq hab =>
        rename_i p a
        simp only [Gen] at hgen
        simp only [MNode.parent, Option.map_some, Option.some.injEq] at hd
        have hc := hgen.2
        simp only [childAt] at hc
        split at hv
        · rename_i es ho
          have hview : (wcx h).view p.data = .dict es := by
            show hview h p.data = .dict es
            simp [hview, hd, ho]
          rw [hview] at hc
          simp only [dictDel, hc] at hv
          simp at hv
        · simp at hv; exact hv.symm
  · -- index
    rename_i i id hl hd
    rw [hl] at hlast
    cases hlb : sb.toList.getLast? with
    | none => rw [hlb] at hlast; simp [ORel] at hlast
    | some sl =>
      rw [hlb] at hlast
      simp only [ORel] at hlast
      cases hlast
      obtain ⟨q, x, hm', _⟩ := last_name_results (.idx i) sb.toList (by simpa [nameStep] using hlb) (.root j) m' hmem
      subst hm'
      cases hrel with
      | child hpq hab =>
        rename_i p a
        simp only [Gen] at hgen
        simp only [MNode.parent, Option.map_some, Option.some.injEq] at hd
        have hc := hgen.2
        simp only [childAt] at hc
        cases ho : h[id]? with
        | none => simp [ho] at hv; exact hv.symm
        | some o =>
          cases o with
          | dict es => simp [ho] at hv; exact hv.symm
          | list xs =>
            have hview : (wcx h).view p.data = .list xs := by
              show hview h p.data = .list xs
              simp [hview, hd, ho]
            rw [hview] at hc
            obtain ⟨kk, hn, hx⟩ := getPy_normIndex xs i a hc
            simp [ho, listDel, hn, hx] at hv
  · simp at hv; exact hv.symm

end Treepath
