import Treepath.Proofs.Natural
import Treepath.Proofs.Bisim
import Treepath.Model.Heap
import Treepath.Model.Mutate
import Treepath.Proofs.DriveX
/-
`next()` is natural in the document type, and the object store is related to the JSON tree
it unfolds to.  Hence a search over the heap — the searches `set_`, `pop`, `Match` handles,
descriptors and list views start — finds matches at exactly the locations, in exactly the
order, that the same search over the unfolded tree finds them.
-/
namespace Treepath

section anext
variable {α : Type} (view : α → View α) (steps : Array (Step α)) (src : Src α)

/-- `__next__` on the stack machine (same budget discipline as `next`) -/
def anext : Nat → AS α → AS α × List (Ev α) × Sig α
  | 0, as => (as, [.raised .loopDetected], .raised .loopDetected)
  | limit+1, as =>
    match astep view steps src as with
    | (as', evs, .none) =>
      if limit = 0 then (as', evs ++ [.raised .loopDetected], .raised .loopDetected)
      else
        match anext limit as' with
        | (as'', evs', sig') => (as'', evs ++ evs', sig')
    | (as', evs, .result n) =>
      if limit = 0 then (as', evs ++ [.raised .loopDetected], .raised .loopDetected)
      else (as', evs, .result n)
    | r => r

/-- the heap machine's `next()` is the stack machine's, through the bisimulation -/
theorem next_anext (limit : Nat) (st : St α) (as : AS α) (hR : R steps st as) :
    (next view steps src limit st).2 = (anext view steps src limit as).2 ∧
    R steps (next view steps src limit st).1 (anext view steps src limit as).1 := by
  induction limit generalizing st as with
  | zero => exact ⟨rfl, hR⟩
  | succ limit ih =>
    obtain ⟨r1, e1⟩ := bisim steps view src st as hR
    rcases ha : action view steps src st with ⟨t, ev, sg⟩
    rcases hb : astep view steps src as with ⟨t', ev', sg'⟩
    rw [ha, hb] at e1 r1
    simp only [Prod.mk.injEq] at e1
    obtain ⟨rfl, rfl⟩ := e1
    unfold next anext
    rw [ha, hb]
    cases sg with
    | none =>
      simp only
      split
      · exact ⟨rfl, r1⟩
      · obtain ⟨hq, hr⟩ := ih t t' r1
        rcases hn1 : next view steps src limit t with ⟨u1, f1, g1⟩
        rcases hn2 : anext view steps src limit t' with ⟨u2, f2, g2⟩
        rw [hn1, hn2] at hq
        rw [hn1] at hr
        rw [hn2] at hr
        simp only [Prod.mk.injEq] at hq
        obtain ⟨rfl, rfl⟩ := hq
        exact ⟨rfl, hr⟩
    | result n => simp only; split <;> exact ⟨rfl, r1⟩
    | raised e => exact ⟨rfl, r1⟩
    | bug m => exact ⟨rfl, r1⟩
    | stop => exact ⟨rfl, r1⟩

end anext

section natural
variable {α β : Type} {Rel : α → β → Prop}
  (va : α → View α) (vb : β → View β) (hview : ∀ a b, Rel a b → ViewRel Rel (va a) (vb b))
  (sa : Array (Step α)) (sb : Array (Step β)) (hsteps : LRel (StepRel Rel) sa.toList sb.toList)
  (srca : Src α) (srcb : Src β) (hsrc : NodeRel Rel srca.rootNode srcb.rootNode)
include hview hsteps hsrc

/-- `__next__` on related states: related outcomes -/
theorem anext_rel (limit : Nat) {as : AS α} {bs : AS β} (h : ASRel Rel as bs) :
    OutRel (Rel := Rel) (anext va sa srca limit as) (anext vb sb srcb limit bs) := by
  induction limit generalizing as bs with
  | zero => exact ⟨h, .cons (.raised _) .nil, .raised _⟩
  | succ limit ih =>
    obtain ⟨h1, h2, h3⟩ := astep_rel va vb hview sa sb hsteps srca srcb hsrc h
    rcases ha : astep va sa srca as with ⟨t, ev, sg⟩
    rcases hb : astep vb sb srcb bs with ⟨t', ev', sg'⟩
    rw [ha, hb] at h1 h2 h3
    simp only at h1 h2 h3
    unfold anext
    rw [ha, hb]
    cases h3 with
    | none =>
      simp only
      split
      · exact ⟨h1, LRel.append h2 (.cons (.raised _) .nil), .raised _⟩
      · obtain ⟨q1, q2, q3⟩ := ih h1
        exact ⟨q1, LRel.append h2 q2, q3⟩
    | result hn =>
      simp only
      split
      · exact ⟨h1, LRel.append h2 (.cons (.raised _) .nil), .raised _⟩
      · exact ⟨h1, h2, .result hn⟩
    | stop => exact ⟨h1, h2, .stop⟩
    | raised e => exact ⟨h1, h2, .raised e⟩
    | bug m => exact ⟨h1, h2, .bug m⟩

/-- **`next()` of fresh iterators over related documents**: related signals — a result on
one side is a result on the other at the same location holding a related value; the same
`StopIteration`, the same exception -/
theorem next_fresh_rel (limit : Nat) :
    SigRel Rel (next va sa srca limit freshIter).2.2 (next vb sb srcb limit freshIter).2.2 ∧
    LRel (EvRel Rel) (next va sa srca limit freshIter).2.1 (next vb sb srcb limit freshIter).2.1 := by
  obtain ⟨ea, _⟩ := next_anext va sa srca limit freshIter .init (.init _ rfl)
  obtain ⟨eb, _⟩ := next_anext vb sb srcb limit freshIter .init (.init _ rfl)
  obtain ⟨_, q2, q3⟩ := anext_rel va vb hview sa sb hsteps srca srcb hsrc limit (ASRel.init (Rel := Rel))
  rw [ea, eb]
  exact ⟨q3, q2⟩

end natural

section drain
variable {α β : Type} {Rel : α → β → Prop}
  (cxa : Ctx α) (cxb : Ctx β) (hlim : cxa.limit = cxb.limit)
  (hview : ∀ a b, Rel a b → ViewRel Rel (cxa.view a) (cxb.view b))
  (sa : Array (Step α)) (sb : Array (Step β)) (hsteps : LRel (StepRel Rel) sa.toList sb.toList)
  (srca : Src α) (srcb : Src β) (hsrc : NodeRel Rel srca.rootNode srcb.rootNode)
include hlim hview hsteps hsrc

/-- **the whole iteration, related**: draining iterators whose states are related (through
the two bisimulations and the naturality relation) yields related matches, one for one and in
the same order, and ends the same way -/
theorem drain_rel (fuel : Nat) (st : St α) (st' : St β) (as : AS α) (bs : AS β)
    (h1 : R sa st as) (h2 : R sb st' bs) (h3 : ASRel Rel as bs) :
    LRel (NodeRel Rel) (drain cxa sa srca fuel st).1 (drain cxb sb srcb fuel st').1 ∧
    (drain cxa sa srca fuel st).2 = (drain cxb sb srcb fuel st').2 := by
  induction fuel generalizing st st' as bs with
  | zero => exact ⟨.nil, rfl⟩
  | succ fuel ih =>
    obtain ⟨ea, ra⟩ := next_anext cxa.view sa srca cxb.limit st as h1
    obtain ⟨eb, rb⟩ := next_anext cxb.view sb srcb cxb.limit st' bs h2
    obtain ⟨q1, _, q3⟩ := anext_rel cxa.view cxb.view hview sa sb hsteps srca srcb hsrc cxb.limit h3
    simp only [drain, nextOut, hlim]
    rcases hna : next cxa.view sa srca cxb.limit st with ⟨ta, eva, sga⟩
    rcases hnb : next cxb.view sb srcb cxb.limit st' with ⟨tb, evb, sgb⟩
    rw [hna] at ea ra
    rw [hnb] at eb rb
    rcases haa : anext cxa.view sa srca cxb.limit as with ⟨ua, fa, ga⟩
    rcases hab : anext cxb.view sb srcb cxb.limit bs with ⟨ub, fb, gb⟩
    rw [haa] at ea ra q1 q3
    rw [hab] at eb rb q1 q3
    simp only [Prod.mk.injEq] at ea eb
    obtain ⟨_, rfl⟩ := ea
    obtain ⟨_, rfl⟩ := eb
    simp only at q1 q3 ra rb
    cases q3 with
    | result hn =>
      obtain ⟨i1, i2⟩ := ih ta tb ua ub ra rb q1
      exact ⟨.cons hn i1, i2⟩
    | none => exact ⟨.nil, rfl⟩
    | stop => exact ⟨.nil, rfl⟩
    | raised e => exact ⟨.nil, rfl⟩
    | bug m => exact ⟨.nil, rfl⟩

theorem drain_fresh_rel (fuel : Nat) :
    LRel (NodeRel Rel) (drain cxa sa srca fuel freshIter).1 (drain cxb sb srcb fuel freshIter).1 ∧
    (drain cxa sa srca fuel freshIter).2 = (drain cxb sb srcb fuel freshIter).2 :=
  drain_rel cxa cxb hlim hview sa sb hsteps srca srcb hsrc fuel freshIter freshIter .init .init
    (.init _ rfl) (.init _ rfl) .init

end drain

/-! ### the object store and the tree it unfolds to -/

mutual
/-- heap value `v` unfolds to the JSON tree `j` (first argument) -/
def UnfJ (h : Heap) : J → Val → Prop
  | .obj kvs, .ref id => ∃ es, h[id]? = some (.dict es) ∧ UnfKvsJ h kvs es
  | .arr ys, .ref id => ∃ xs, h[id]? = some (.list xs) ∧ UnfListJ h ys xs
  | .obj _, .atom _ => False
  | .arr _, .atom _ => False
  | .null, v => v = .atom .null
  | .bool b, v => v = .atom (.bool b)
  | .int i, v => v = .atom (.int i)
  | .half i, v => v = .atom (.half i)
  | .str s, v => v = .atom (.str s)
def UnfKvsJ (h : Heap) : List (String × J) → List (String × Val) → Prop
  | [], [] => True
  | (k, j) :: kvs, (k', v) :: es => k' = k ∧ UnfJ h j v ∧ UnfKvsJ h kvs es
  | [], _ :: _ => False
  | _ :: _, [] => False
def UnfListJ (h : Heap) : List J → List Val → Prop
  | [], [] => True
  | j :: ys, v :: xs => UnfJ h j v ∧ UnfListJ h ys xs
  | [], _ :: _ => False
  | _ :: _, [] => False
end

/-- the relation in the direction the traverser theorems use: heap value ~ tree -/
def Unf (h : Heap) (v : Val) (j : J) : Prop := UnfJ h j v

theorem unfKvs_lrel (h : Heap) : ∀ (kvs : List (String × J)) (es : List (String × Val)),
    UnfKvsJ h kvs es → LRel (KvRel (Unf h)) es kvs
  | [], [], _ => .nil
  | (k, j) :: kvs, (k', v) :: es, hx => by
    simp only [UnfKvsJ] at hx
    exact .cons ⟨hx.1, hx.2.1⟩ (unfKvs_lrel h kvs es hx.2.2)
  | [], _ :: _, hx => by simp [UnfKvsJ] at hx
  | _ :: _, [], hx => by simp [UnfKvsJ] at hx

theorem unfList_lrel (h : Heap) : ∀ (ys : List J) (xs : List Val),
    UnfListJ h ys xs → LRel (Unf h) xs ys
  | [], [], _ => .nil
  | j :: ys, v :: xs, hx => by
    simp only [UnfListJ] at hx
    exact .cons hx.1 (unfList_lrel h ys xs hx.2)
  | [], _ :: _, hx => by simp [UnfListJ] at hx
  | _ :: _, [], hx => by simp [UnfListJ] at hx

/-- the heap's view of a value and the tree's view of what it unfolds to are related -/
theorem unf_view (h : Heap) (v : Val) (j : J) (hu : Unf h v j) : ViewRel (Unf h) (hview h v) (J.view j) := by
  cases j with
  | obj kvs =>
    cases v with
    | atom a => simp [Unf, UnfJ] at hu
    | ref id =>
      simp only [Unf, UnfJ] at hu
      obtain ⟨es, he, hk⟩ := hu
      simp only [hview, he, J.view]
      exact .dict (unfKvs_lrel h kvs es hk)
  | arr ys =>
    cases v with
    | atom a => simp [Unf, UnfJ] at hu
    | ref id =>
      simp only [Unf, UnfJ] at hu
      obtain ⟨xs, he, hk⟩ := hu
      simp only [hview, he, J.view]
      exact .list (unfList_lrel h ys xs hk)
  | null => simp only [Unf, UnfJ] at hu; subst hu; exact .scalar
  | bool b => simp only [Unf, UnfJ] at hu; subst hu; exact .scalar
  | int i => simp only [Unf, UnfJ] at hu; subst hu; exact .scalar
  | half i => simp only [Unf, UnfJ] at hu; subst hu; exact .scalar
  | str s => simp only [Unf, UnfJ] at hu; subst hu; exact .scalar

/-- **searching the object store is searching the tree**: for a heap value that unfolds to
the tree `j`, and steps that are the same on both sides (filters: related predicates), the
first `next()` of a fresh iterator over the heap and over the tree give related signals — a
match at the same location holding a value that unfolds to the tree's, the same
`StopIteration`, the same exception -/
theorem heap_search_is_tree_search (h : Heap) (v : Val) (j : J) (hu : Unf h v j)
    (sa : Array (Step Val)) (sb : Array (Step J)) (hsteps : LRel (StepRel (Unf h)) sa.toList sb.toList) (limit : Nat) :
    SigRel (Unf h) (next (hview h) sa (.doc v) limit freshIter).2.2 (next J.view sb (.doc j) limit freshIter).2.2 :=
  (next_fresh_rel (hview h) J.view (unf_view h) sa sb hsteps (.doc v) (.doc j) (.root hu) limit).1

/-- **the match a writer starts from is the definition's first result**: when `get_match` over
the object store (what `set_`, `pop`, `get(store_default)`, descriptors and list views call
for their target) finds a match, the step-by-step definition evaluated on the unfolded tree
has a first result, at the same location, holding the tree the match's value unfolds to -/
theorem getMatch_heap_found (h : Heap) (v : Val) (j : J) (hu : Unf h v j)
    (sa : Array (Step Val)) (sb : Array (Step J)) (hsteps : LRel (StepRel (Unf h)) sa.toList sb.toList)
    (hp : PredsClean sb) (mm : Bool) (m : MNode Val)
    (hg : getMatch (wcx h) sa (.doc v) mm = .ok (some m)) :
    ∃ m', NodeRel (Unf h) m m' ∧ (evalE sb.toList (.root j)).1.head? = some m' := by
  have hsig := heap_search_is_tree_search h v j hu sa sb hsteps (wcx h).limit
  simp only [getMatch, nextOut] at hg
  have hview : (wcx h).view = hview h := rfl
  rw [hview] at hg
  rcases hn : next (Treepath.hview h) sa (.doc v) (wcx h).limit freshIter with ⟨st', evs, sig⟩
  rw [hn] at hg hsig
  simp only at hsig
  cases sig with
  | result n =>
    simp only [Except.ok.injEq, Option.some.injEq] at hg
    subst hg
    rcases hn2 : next J.view sb (.doc j) (wcx h).limit freshIter with ⟨st2, evs2, sig2⟩
    rw [hn2] at hsig
    simp only at hsig
    cases hsig with
    | result hnm =>
      rename_i m'
      obtain ⟨rest, hr⟩ := yields_prefix_x sb (.doc j) hp (wcx h).limit st2 [m'] (evs2 ++ [])
        (.cons _ _ _ _ _ _ _ hn2 (.nil _))
      exact ⟨m', hnm, by rw [show (Src.doc j).rootNode = MNode.root j from rfl] at hr; rw [hr]; rfl⟩
  | stop => simp only at hg; split at hg <;> simp at hg
  | raised e => simp at hg
  | none => simp at hg
  | bug msg => simp at hg

/-- … and when it finds nothing, the definition finds nothing -/
theorem getMatch_heap_notfound (h : Heap) (v : Val) (j : J) (hu : Unf h v j)
    (sa : Array (Step Val)) (sb : Array (Step J)) (hsteps : LRel (StepRel (Unf h)) sa.toList sb.toList)
    (hp : PredsClean sb) (mm : Bool)
    (hg : getMatch (wcx h) sa (.doc v) mm = .ok none ∨ getMatch (wcx h) sa (.doc v) mm = .error .matchNotFound) :
    evalE sb.toList (.root j) = ([], none) := by
  have hsig := heap_search_is_tree_search h v j hu sa sb hsteps (wcx h).limit
  have hview : (wcx h).view = hview h := rfl
  rcases hn : next (Treepath.hview h) sa (.doc v) (wcx h).limit freshIter with ⟨st', evs, sig⟩
  rw [hn] at hsig
  simp only at hsig
  have hstop : sig = .stop := by
    rcases hg with hg | hg <;>
    · simp only [getMatch, nextOut, hview, hn] at hg
      cases sig <;> simp at hg ⊢
      all_goals (split at hg <;> simp at hg)
  subst hstop
  rcases hn2 : next J.view sb (.doc j) (wcx h).limit freshIter with ⟨st2, evs2, sig2⟩
  rw [hn2] at hsig
  simp only at hsig
  cases hsig with
  | stop => exact exhausted_all_x sb (.doc j) hp (wcx h).limit freshIter st2 [] [] evs2 (.nil _) hn2

/-- **`find_matches` over the object store is `find_matches` over the tree**: the matches
the writers' searches, `Match` handles (`h.new` = the k-th match), descriptors' `find` getter
and iterator-typed attributes enumerate are, one for one and in order, at the locations of
the matches of the same search over the unfolded tree, holding values that unfold to theirs;
and the iteration ends the same way -/
theorem heap_drain_is_tree_drain (h : Heap) (v : Val) (j : J) (hu : Unf h v j)
    (sa : Array (Step Val)) (sb : Array (Step J)) (hsteps : LRel (StepRel (Unf h)) sa.toList sb.toList) (fuel : Nat) :
    LRel (NodeRel (Unf h)) (drain (wcx h) sa (.doc v) fuel freshIter).1
      (drain ({ view := J.view, toJ := id } : Ctx J) sb (.doc j) fuel freshIter).1 ∧
    (drain (wcx h) sa (.doc v) fuel freshIter).2 =
      (drain ({ view := J.view, toJ := id } : Ctx J) sb (.doc j) fuel freshIter).2 :=
  drain_fresh_rel (wcx h) { view := J.view, toJ := id } rfl (unf_view h) sa sb hsteps (.doc v) (.doc j) (.root hu) fuel

end Treepath
