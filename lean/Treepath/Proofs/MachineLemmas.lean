import Treepath.Model.Machine
/- small facts about single machine actions -/
namespace Treepath
variable {α : Type}

theorem iterStep_ok (st : St α) (p : Nat) (tm : TM α) (vi : Nat) (its : List (Name × α)) :
    ∃ st' q evs, iterStep st p tm vi its = .ok st' q evs := by
  cases its with
  | nil => exact ⟨_, _, _, rfl⟩
  | cons it tl => obtain ⟨nm, x⟩ := it; exact ⟨_, _, _, rfl⟩

/-- `vertex.match` aborts only by raising (a predicate's exception, or `ValueError` from a
zero slice step) -/
theorem vmatch_abort (view : α → View α) (st : St α) (p : Nat) (tm : TM α) (vi : Nat) (s : Step α)
    (st' : St α) (sig : Sig α) (evs : List (Ev α)) (h : vmatch view st p tm vi s = .abort st' sig evs) :
    st' = st ∧ ∃ e, sig = .raised e := by
  have hm : ∀ s', vmatchMulti view st p tm vi s' = .abort st' sig evs → st' = st ∧ ∃ e, sig = .raised e := by
    intro s' h
    unfold vmatchMulti at h
    split at h
    · obtain ⟨a, b, c, hk⟩ := iterStep_ok st p tm vi ‹_›
      rw [hk] at h; simp at h
    · split at h
      · simp at h
      · simp only [MR.abort.injEq] at h; exact ⟨h.1.symm, _, h.2.1.symm⟩
      · obtain ⟨a, b, c, hk⟩ := iterStep_ok (remember st p ‹_›) p (parked tm p ‹_›) vi ‹_›
        rw [hk] at h; simp at h
  have hs : ∀ s', vmatchSingle view st p tm vi s' = .abort st' sig evs → st' = st ∧ ∃ e, sig = .raised e := by
    intro s' h
    unfold vmatchSingle at h
    split at h <;> simp at h
  cases s with
  | filter f =>
    simp only [vmatch, vmatchFilter] at h
    split at h
    · split at h <;> simp at h
    · simp only [MR.abort.injEq] at h; exact ⟨h.1.symm, _, h.2.1.symm⟩
  | recur =>
    simp only [vmatch, vmatchRecur] at h
    split at h
    · split at h <;> simp at h
    · simp at h
    · split at h <;> simp at h
  | key k => exact hs _ h
  | idx i => exact hs _ h
  | parent => exact hs _ h
  | slice a b c => exact hm _ h
  | tuple ns => exact hm _ h
  | keyWc => exact hm _ h
  | idxWc => exact hm _ h
  | gwc => exact hm _ h

/-- the `stop` signal comes only from the `done` action, which changes nothing -/
theorem action_stop (view : α → View α) (steps : Array (Step α)) (src : Src α) (st s1 : St α)
    (e1 : List (Ev α)) (h : action view steps src st = (s1, e1, .stop)) : st.act = .done ∧ s1 = st := by
  unfold action at h
  split at h
  · simp [initAction] at h
  · rename_i hact
    simp only [Prod.mk.injEq] at h
    exact ⟨hact, h.1.symm⟩
  · split at h
    · simp only [reportAction] at h; split at h <;> simp at h
    · simp at h
  · split at h
    · simp [catchAction] at h
    · simp at h
  · split at h
    · simp only [matchAction] at h
      split at h
      · simp at h
      · split at h
        · rename_i hv
          simp only [Prod.mk.injEq] at h
          obtain ⟨_, e, he⟩ := vmatch_abort _ _ _ _ _ _ _ _ _ hv
          rw [he] at h; simp at h
        · simp at h
        · split at h <;> simp at h
    · simp at h

/-- an exception leaves the traverser exactly as it was before the action -/
theorem action_raised_state (view : α → View α) (steps : Array (Step α)) (src : Src α) (st s1 : St α)
    (e1 : List (Ev α)) (e : Exc) (h : action view steps src st = (s1, e1, .raised e)) : s1 = st := by
  unfold action at h
  split at h
  · simp [initAction] at h
  · simp at h
  · split at h
    · simp only [reportAction] at h; split at h <;> simp at h
    · simp at h
  · split at h
    · simp [catchAction] at h
    · simp at h
  · split at h
    · simp only [matchAction] at h
      split at h
      · simp at h
      · split at h
        · rename_i hv
          simp only [Prod.mk.injEq] at h
          obtain ⟨hst, _⟩ := vmatch_abort _ _ _ _ _ _ _ _ _ hv
          rw [← h.1, hst]
        · simp at h
        · split at h <;> simp at h
    · simp at h

/-- `StopIteration` is only ever produced by the `done` action, which leaves the state as it is -/
theorem next_stop_done (view : α → View α) (steps : Array (Step α)) (src : Src α) (limit : Nat)
    (st st' : St α) (evs : List (Ev α)) (h : next view steps src limit st = (st', evs, .stop)) :
    st'.act = .done := by
  induction limit generalizing st evs with
  | zero => simp [next] at h
  | succ limit ih =>
    unfold next at h
    rcases ha : action view steps src st with ⟨s1, e1, sig⟩
    rw [ha] at h
    cases sig with
    | none =>
      simp only at h
      split at h
      · simp at h
      · rcases hn : next view steps src limit s1 with ⟨s2, e2, sig2⟩
        rw [hn] at h
        simp only [Prod.mk.injEq] at h
        obtain ⟨h1, _, h3⟩ := h
        subst h1
        subst h3
        exact ih s1 e2 hn
    | result n => simp only at h; split at h <;> simp at h
    | raised e => simp at h
    | bug m => simp at h
    | stop =>
      simp only [Prod.mk.injEq] at h
      obtain ⟨h1, _, _⟩ := h
      subst h1
      obtain ⟨hd, hs⟩ := action_stop _ _ _ _ _ _ ha
      rw [hs]; exact hd


end Treepath
