import Treepath.Proofs.Stack
/-
Pointer half of the refinement: the heap machine of `Machine.lean` (cells with the three
mutable slots, `remember_on_catch` / `restore_on_catch`) runs in lock step with the stack
machine of `Stack.lean`, action for action, with equal events and signals.  Generic in `α`.
-/
namespace Treepath
variable {α : Type}

abbrev Hp (α : Type) := Array (TM α)

theorem push_old {β} (h : Array β) (x : β) (i : Nat) (hi : i < h.size) : (h.push x)[i]? = h[i]? := by
  rw [Array.getElem?_push]; have : i ≠ h.size := by omega
  simp [this]

theorem push_new {β} (h : Array β) (x : β) : (h.push x)[h.size]? = some x := by
  rw [Array.getElem?_push]; simp

theorem modify_self {β} (h : Array β) (i : Nat) (f : β → β) (t : β) (hi : h[i]? = some t) :
    (h.modify i f)[i]? = some (f t) := by
  simp [Array.getElem?_modify, hi]

theorem modify_other {β} (h : Array β) (i j : Nat) (f : β → β) (hij : i ≠ j) : (h.modify i f)[j]? = h[j]? := by
  simp [Array.getElem?_modify, hij]

theorem lt_size_of_get {β} {h : Array β} {i : Nat} {t : β} (hi : h[i]? = some t) : i < h.size :=
  (Array.getElem?_eq_some_iff.mp hi).1

section
variable (steps : Array (Step α)) (rp : Option Nat)

/-- the resume pointer `(ocm, oca)` denotes the stack of suspended iterations -/
inductive Resume : Hp α → Option Nat → Act → List (Frame α) → Prop where
  | done (h : Hp α) (x : Option Nat) : Resume h x .done []
  | frameRoot (h : Hp α) (m : Nat) (tm : TM α) (fr : Frame α) :
      h[m]? = some tm → tm.catchState = some fr.items → tm.ocm = some m → tm.oca = .match_ →
      tm.node = fr.owner → tm.vidx = fr.vidx →
      (∃ s, steps[tm.vidx]? = some s ∧ s.iterates = true) →
      tm.realParent = none → rp = some m →
      Resume h (some m) .match_ [fr]
  | frameInner (h : Hp α) (m : Nat) (tm : TM α) (fr : Frame α) (q : Nat) (tq : TM α) (stk : List (Frame α)) :
      h[m]? = some tm → tm.catchState = some fr.items → tm.ocm = some m → tm.oca = .match_ →
      tm.node = fr.owner → tm.vidx = fr.vidx →
      (∃ s, steps[tm.vidx]? = some s ∧ s.iterates = true) →
      tm.realParent = some q → q < m → rp ≠ some m → h[q]? = some tq → (∀ x, tq.ocm = some x → x ≤ q) →
      Resume h tq.ocm tq.oca stk →
      Resume h (some m) .match_ (fr :: stk)

/-- `Resume` only reads cells at or below its pointer -/
theorem Resume.congr {h h' : Hp α} {o : Option Nat} {a : Act} {stk : List (Frame α)} (b : Nat)
    (hb : ∀ i, i ≤ b → h'[i]? = h[i]?) (hr : Resume steps rp h o a stk) (ho : ∀ m, o = some m → m ≤ b) :
    Resume steps rp h' o a stk := by
  induction hr generalizing b with
  | done => exact .done _ _
  | frameRoot m tm fr h1 h2 h3 h4 h5 h6 hs h7 h8 =>
    have hm := ho m rfl
    exact .frameRoot h' m tm fr (by rw [hb m hm]; exact h1) h2 h3 h4 h5 h6 hs h7 h8
  | frameInner m tm fr q tq stk h1 h2 h3 h4 h5 h6 hs h7 h8 h8' h9 h10 _ ih =>
    have hm := ho m rfl
    refine .frameInner h' m tm fr q tq stk (by rw [hb m hm]; exact h1) h2 h3 h4 h5 h6 hs h7 h8 h8'
      (by rw [hb q (by omega)]; exact h9) h10 ?_
    exact ih q (fun i hi => hb i (by omega)) h10

theorem Resume.done_nil {h : Hp α} {o : Option Nat} {stk : List (Frame α)} (hr : Resume steps rp h o .done stk) :
    stk = [] := by
  cases hr; rfl

/-- what lies below the top frame parked on cell `m` (record `tm`) -/
def Below (h : Hp α) (m : Nat) (tm : TM α) (stk : List (Frame α)) : Prop :=
  match tm.realParent with
  | none => rp = some m ∧ stk = []
  | some q => q < m ∧ rp ≠ some m ∧ ∃ tq, h[q]? = some tq ∧ (∀ x, tq.ocm = some x → x ≤ q) ∧
      Resume steps rp h tq.ocm tq.oca stk

theorem Below.congr {h h' : Hp α} {m : Nat} {tm : TM α} {stk : List (Frame α)}
    (hb : ∀ i, i < m → h'[i]? = h[i]?) (hbl : Below steps rp h m tm stk) : Below steps rp h' m tm stk := by
  unfold Below at *
  cases hrp : tm.realParent with
  | none => simpa [hrp] using hbl
  | some q =>
    simp only [hrp] at hbl ⊢
    obtain ⟨hq, hne, tq, htq, hbd, hres⟩ := hbl
    exact ⟨hq, hne, tq, by rw [hb q hq]; exact htq, hbd,
      Resume.congr steps rp q (fun i hi => hb i (by omega)) hres hbd⟩

/-- assembling a top frame -/
theorem Resume.mk {h : Hp α} {m : Nat} {tm : TM α} {fr : Frame α} {stk : List (Frame α)}
    (h1 : h[m]? = some tm) (h2 : tm.catchState = some fr.items) (h3 : tm.ocm = some m) (h4 : tm.oca = .match_)
    (h5 : tm.node = fr.owner) (h6 : tm.vidx = fr.vidx) (hs : ∃ s, steps[tm.vidx]? = some s ∧ s.iterates = true)
    (hbl : Below steps rp h m tm stk) : Resume steps rp h (some m) .match_ (fr :: stk) := by
  unfold Below at hbl
  cases hrp : tm.realParent with
  | none =>
    simp only [hrp] at hbl
    obtain ⟨h8, h9⟩ := hbl
    subst h9
    exact .frameRoot h m tm fr h1 h2 h3 h4 h5 h6 hs hrp h8
  | some q =>
    simp only [hrp] at hbl
    obtain ⟨hq, hne, tq, htq, hbd, hres⟩ := hbl
    exact .frameInner h m tm fr q tq stk h1 h2 h3 h4 h5 h6 hs hrp hq hne htq hbd hres

/-- taking a top frame apart -/
theorem Resume.top {h : Hp α} {m : Nat} {stk : List (Frame α)} (hr : Resume steps rp h (some m) .match_ stk) :
    ∃ fr stk' tm, stk = fr :: stk' ∧ h[m]? = some tm ∧ tm.catchState = some fr.items ∧ tm.ocm = some m ∧
      tm.oca = .match_ ∧ tm.node = fr.owner ∧ tm.vidx = fr.vidx ∧
      (∃ s, steps[tm.vidx]? = some s ∧ s.iterates = true) ∧ Below steps rp h m tm stk' := by
  cases hr with
  | frameRoot _ tm fr h1 h2 h3 h4 h5 h6 hs h7 h8 =>
    exact ⟨fr, [], tm, rfl, h1, h2, h3, h4, h5, h6, hs, by simp [Below, h7, h8]⟩
  | frameInner _ tm fr q tq stk' h1 h2 h3 h4 h5 h6 hs h7 h8 h8' h9 h10 h11 =>
    exact ⟨fr, stk', tm, rfl, h1, h2, h3, h4, h5, h6, hs, by
      simp only [Below, h7]; exact ⟨h8, h8', tq, h9, h10, h11⟩⟩

/-- an un-parked focus in cell `c`: it holds the same resume pointer as the match it was
derived from (this is why `restore_on_catch` may copy the parent's *current* pointer) -/
def Unparked (h : Hp α) (c : Nat) (tm : TM α) (stk : List (Frame α)) : Prop :=
  tm.catchState = none ∧ (∀ x, tm.ocm = some x → x ≤ c) ∧ Resume steps rp h tm.ocm tm.oca stk ∧
  match tm.realParent with
  | none => rp = some c ∧ tm.oca = .done
  | some q => q < c ∧ rp ≠ some c ∧ ∃ tq, h[q]? = some tq ∧ tm.ocm = tq.ocm ∧ tm.oca = tq.oca ∧
      (∀ x, tq.ocm = some x → x ≤ q)

theorem Unparked.below {h : Hp α} {c : Nat} {tm : TM α} {stk : List (Frame α)}
    (hu : Unparked steps rp h c tm stk) : Below steps rp h c tm stk := by
  obtain ⟨_, _, hres, hinv⟩ := hu
  unfold Below
  cases hrp : tm.realParent with
  | none =>
    simp only [hrp] at hinv ⊢
    rw [hinv.2] at hres
    exact ⟨hinv.1, Resume.done_nil steps rp hres⟩
  | some q =>
    simp only [hrp] at hinv ⊢
    obtain ⟨hq, hne, tq, htq, ho1, ho2, hbq⟩ := hinv
    rw [ho1, ho2] at hres
    exact ⟨hq, hne, tq, htq, hbq, hres⟩

end

/-- the root cell exists -/
def RootOK (st : St α) : Prop := ∃ r, st.rootPtr = some r ∧ r < st.heap.size

variable (steps : Array (Step α))

/-- the simulation relation between heap-machine states and stack-machine states -/
inductive R : St α → AS α → Prop where
  | init (st : St α) : st.act = .init → R st .init
  | done (st : St α) : st.act = .done → R st .done
  | report (st : St α) (c : Nat) (tm : TM α) (stk : List (Frame α)) :
      st.cur = some c → st.heap[c]? = some tm → st.act = .report →
      Unparked steps st.rootPtr st.heap c tm stk → RootOK st →
      R st (.report tm.node tm.vertex tm.vidx stk)
  | attempt (st : St α) (c : Nat) (tm : TM α) (stk : List (Frame α)) :
      st.cur = some c → st.heap[c]? = some tm → st.act = .match_ →
      Unparked steps st.rootPtr st.heap c tm stk → RootOK st →
      R st (.attempt tm.node tm.vidx stk)
  | catch_ (st : St α) (c : Nat) (tm : TM α) (stk : List (Frame α)) :
      st.cur = some c → st.heap[c]? = some tm → st.act = .catch_ →
      Resume steps st.rootPtr st.heap tm.ocm tm.oca stk → RootOK st →
      R st (.catch_ stk)
  | parked (st : St α) (c : Nat) (stk : List (Frame α)) :
      st.cur = some c → st.act = .match_ →
      Resume steps st.rootPtr st.heap (some c) .match_ stk → RootOK st →
      R st (.parked stk)

/-- jumping to a resume pointer -/
theorem R_resume (st : St α) (o : Option Nat) (a : Act) (stk : List (Frame α))
    (hr : Resume steps st.rootPtr st.heap o a stk) (hroot : RootOK st) :
    R steps { st with cur := o, act := a } (resume stk) := by
  cases hr with
  | done => exact .done _ rfl
  | frameRoot m tm fr h1 h2 h3 h4 h5 h6 hs h7 h8 =>
    exact .parked _ m [fr] rfl rfl (.frameRoot _ m tm fr h1 h2 h3 h4 h5 h6 hs h7 h8) hroot
  | frameInner m tm fr q tq stk h1 h2 h3 h4 h5 h6 hs h7 h8 h8' h9 h10 h11 =>
    exact .parked _ m (fr :: stk) rfl rfl (.frameInner _ m tm fr q tq stk h1 h2 h3 h4 h5 h6 hs h7 h8 h8' h9 h10 h11) hroot

/-- `restore_on_catch` on an exhausted parked cell, then the jump of `match_action` -/
theorem restore_R (st : St α) (hroot : RootOK st) (p : Nat) (tmP : TM α) (stk : List (Frame α))
    (hp : st.heap[p]? = some tmP)
    (hbl : Below steps st.rootPtr st.heap p tmP stk) :
    ∃ tm', (restore st p).heap[p]? = some tm' ∧
      R steps { restore st p with cur := tm'.ocm, act := tm'.oca } (resume stk) := by
  unfold Below at hbl
  cases hrp : tmP.realParent with
  | none =>
    simp only [hrp] at hbl
    obtain ⟨hr, hstk⟩ := hbl
    subst hstk
    refine ⟨{ tmP with catchState := none, ocm := none, oca := .done }, ?_, ?_⟩
    · simp [restore, hr, modify_self _ _ _ _ hp]
    · exact .done _ rfl
  | some q =>
    simp only [hrp] at hbl
    obtain ⟨hq, hne, tq, htq, hbd, hres⟩ := hbl
    have hrs : restore st p = { st with heap := st.heap.modify p fun tm => { tm with catchState := none, ocm := tq.ocm, oca := tq.oca } } := by
      simp [restore, hne, hp, hrp, htq]
    refine ⟨{ tmP with catchState := none, ocm := tq.ocm, oca := tq.oca }, ?_, ?_⟩
    · rw [hrs]; exact modify_self _ _ _ _ hp
    · rw [hrs]
      have hroot' : RootOK ({ st with heap := st.heap.modify p fun tm => { tm with catchState := none, ocm := tq.ocm, oca := tq.oca } } : St α) := by
        obtain ⟨r, h1, h2⟩ := hroot
        exact ⟨r, h1, by simpa using h2⟩
      apply R_resume steps _ _ _ _ _ hroot'
      apply Resume.congr steps _ q _ hres hbd
      intro i hi
      exact modify_other _ _ _ _ (by omega)

/-! ### building blocks -/

theorem rootOK_heap (st : St α) (h' : Hp α) (hsz : st.heap.size ≤ h'.size) (hr : RootOK st) :
    RootOK ({ st with heap := h' } : St α) := by
  obtain ⟨r, h1, h2⟩ := hr
  exact ⟨r, h1, by simp only; omega⟩

/-- the parked cell after its iterator advanced to `tl` -/
theorem setIts_Res (st : St α) (p : Nat) (tmP : TM α) (tl : List (Name × α)) (stk : List (Frame α))
    (hp : st.heap[p]? = some tmP) (hocm : tmP.ocm = some p) (hoca : tmP.oca = .match_)
    (hs : ∃ s, steps[tmP.vidx]? = some s ∧ s.iterates = true)
    (hbl : Below steps st.rootPtr st.heap p tmP stk) :
    Resume steps st.rootPtr (setIts st p tl).heap (some p) .match_ (⟨tmP.node, tmP.vidx, tl⟩ :: stk) ∧
    (setIts st p tl).heap[p]? = some { tmP with catchState := some tl } := by
  have hself : (setIts st p tl).heap[p]? = some { tmP with catchState := some tl } := modify_self _ _ _ _ hp
  refine ⟨?_, hself⟩
  apply Resume.mk steps st.rootPtr hself rfl hocm hoca rfl rfl hs
  apply Below.congr steps st.rootPtr _ hbl
  intro i hi
  exact modify_other _ _ _ _ (by omega)

/-- deriving a new focus from the parked cell `p` -/
theorem derive_R (st : St α) (hroot : RootOK st) (p : Nat) (tmP : TM α) (frames : List (Frame α))
    (hp : st.heap[p]? = some tmP) (hocm : tmP.ocm = some p) (hoca : tmP.oca = .match_)
    (hres : Resume steps st.rootPtr st.heap (some p) .match_ frames) (node : MNode α) (vertex vidx : Nat) :
    R steps { push st (derive tmP p node vertex vidx) with cur := some st.heap.size, act := .report }
      (.report node vertex vidx frames) := by
  have hplt : p < st.heap.size := lt_size_of_get hp
  have hnew : (st.heap.push (derive tmP p node vertex vidx))[st.heap.size]? = some (derive tmP p node vertex vidx) :=
    push_new _ _
  have := R.report (steps := steps) { push st (derive tmP p node vertex vidx) with cur := some st.heap.size, act := .report }
    st.heap.size (derive tmP p node vertex vidx) frames rfl hnew rfl
    (by
      refine ⟨rfl, ?_, ?_, ?_⟩
      · intro x hx; simp only [derive, hocm, Option.some.injEq] at hx; omega
      · simp only [derive, hocm, hoca]
        exact Resume.congr steps _ p (fun i hi => push_old _ _ _ (by omega)) hres (by intro m hm; cases hm; exact Nat.le_refl _)
      · simp only [derive]
        obtain ⟨r, h1, h2⟩ := hroot
        refine ⟨hplt, ?_, tmP, ?_, rfl, rfl, ?_⟩
        · show st.rootPtr ≠ some st.heap.size
          rw [h1]; intro h; cases h; omega
        · show (st.heap.push _)[p]? = some tmP
          rw [push_old _ _ _ hplt]; exact hp
        · intro x hx; rw [hocm] at hx; cases hx; exact Nat.le_refl _)
    (by
      obtain ⟨r, h1, h2⟩ := hroot
      exact ⟨r, h1, by show r < (st.heap.push _).size; simp; omega⟩)
  simpa [derive] using this

/-- deriving a new focus from an un-parked focus `c` (single-valued steps, filters) -/
theorem derive_unparked_R (st : St α) (hroot : RootOK st) (c : Nat) (tm : TM α) (stk : List (Frame α))
    (hc : st.heap[c]? = some tm) (hu : Unparked steps st.rootPtr st.heap c tm stk)
    (node : MNode α) (vertex vidx : Nat) :
    R steps { push st (derive tm c node vertex vidx) with cur := some st.heap.size, act := .report }
      (.report node vertex vidx stk) := by
  have hclt : c < st.heap.size := lt_size_of_get hc
  obtain ⟨_, hbd, hres, _⟩ := hu
  have hnew : (st.heap.push (derive tm c node vertex vidx))[st.heap.size]? = some (derive tm c node vertex vidx) :=
    push_new _ _
  have := R.report (steps := steps) { push st (derive tm c node vertex vidx) with cur := some st.heap.size, act := .report }
    st.heap.size (derive tm c node vertex vidx) stk rfl hnew rfl
    (by
      refine ⟨rfl, ?_, ?_, ?_⟩
      · intro x hx; have := hbd x hx; omega
      · exact Resume.congr steps _ c (fun i hi => push_old _ _ _ (by omega)) hres hbd
      · simp only [derive]
        obtain ⟨r, h1, h2⟩ := hroot
        refine ⟨hclt, ?_, tm, ?_, rfl, rfl, hbd⟩
        · show st.rootPtr ≠ some st.heap.size
          rw [h1]; intro h; cases h; omega
        · show (st.heap.push _)[c]? = some tm
          rw [push_old _ _ _ hclt]; exact hc)
    (by
      obtain ⟨r, h1, h2⟩ := hroot
      exact ⟨r, h1, by show r < (st.heap.push _).size; simp; omega⟩)
  simpa [derive] using this

/-- `remember_on_catch` on an un-parked focus -/
theorem remember_facts (st : St α) (c : Nat) (tm : TM α) (its : List (Name × α)) (stk : List (Frame α))
    (hc : st.heap[c]? = some tm) (hu : Unparked steps st.rootPtr st.heap c tm stk) :
    (remember st c its).heap[c]? = some (parked tm c its) ∧
    (remember st c its).heap.size = st.heap.size ∧ (remember st c its).rootPtr = st.rootPtr ∧
    Below steps st.rootPtr (remember st c its).heap c (parked tm c its) stk := by
  refine ⟨modify_self _ _ _ _ hc, by simp [remember], rfl, ?_⟩
  have hb := Unparked.below steps st.rootPtr hu
  have : Below steps st.rootPtr (remember st c its).heap c tm stk :=
    Below.congr steps st.rootPtr (fun i hi => modify_other _ _ _ _ (by omega)) hb
  simpa [Below, parked] using this

/-! ### `match_action` -/

/-- what `match_action` does with the outcome of `vertex.match` -/
def maTail (c : Nat) (node : MNode α) (vidx : Nat) : MR α → St α × List (Ev α) × Sig α
  | .abort st' sig evs => (st', evs, sig)
  | .ok st' (some q) evs =>
    ({ st' with cur := some q, act := .report },
     evs ++ [.attempt node (vidx + 1) ((st'.heap[q]?).map (·.node)) none], .none)
  | .ok st' none evs =>
    match st'.heap[c]? with
    | some tm' => ({ st' with cur := tm'.ocm, act := tm'.oca }, evs ++ [.attempt node (vidx + 1) none none], .none)
    | none => (st', [], .bug "dangling")

theorem matchAction_eq (view : α → View α) (st : St α) (c : Nat) (tm : TM α) :
    matchAction view steps st c tm =
      match steps[tm.vidx]? with
      | none => (st, [], .bug "vertex index out of range")
      | some s => maTail c tm.node tm.vidx (vmatch view st c tm (tm.vidx + 1) s) := by
  unfold matchAction
  cases hs : steps[tm.vidx]? with
  | none => rfl
  | some s =>
    simp only []
    cases hv : vmatch view st c tm (tm.vidx + 1) s with
    | abort st' sig evs => rfl
    | ok st' nm evs => cases nm <;> rfl

/-- the iterator protocol shared by every (non-recursive) multi-valued step -/
theorem iter_tail (st : St α) (hroot : RootOK st) (p : Nat) (tmP : TM α) (its : List (Name × α)) (stk : List (Frame α))
    (hp : st.heap[p]? = some tmP) (hocm : tmP.ocm = some p) (hoca : tmP.oca = .match_)
    (hs : ∃ s, steps[tmP.vidx]? = some s ∧ s.iterates = true)
    (hbl : Below steps st.rootPtr st.heap p tmP stk) :
    R steps (maTail p tmP.node tmP.vidx (iterStep st p tmP (tmP.vidx + 1) its)).1 (aIter tmP.node tmP.vidx its stk).1 ∧
    (maTail p tmP.node tmP.vidx (iterStep st p tmP (tmP.vidx + 1) its)).2 = (aIter tmP.node tmP.vidx its stk).2 := by
  cases its with
  | nil =>
    obtain ⟨tm', htm', hr⟩ := restore_R steps st hroot p tmP stk hp hbl
    simp only [iterStep, maTail, htm', aIter]
    exact ⟨hr, by simp⟩
  | cons it tl =>
    obtain ⟨nm, x⟩ := it
    obtain ⟨hres, hself⟩ := setIts_Res steps st p tmP tl stk hp hocm hoca hs hbl
    have hsz : (setIts st p tl).heap.size = st.heap.size := by simp [setIts]
    have hroot1 : RootOK (setIts st p tl) := by
      obtain ⟨r, h1, h2⟩ := hroot
      exact ⟨r, h1, by rw [hsz]; exact h2⟩
    have key := derive_R steps (setIts st p tl) hroot1 p { tmP with catchState := some tl }
      (⟨tmP.node, tmP.vidx, tl⟩ :: stk) hself hocm hoca hres (.child tmP.node nm x) (tmP.vidx + 1) (tmP.vidx + 1)
    rw [hsz] at key
    have hnode : ((push (setIts st p tl) (derive tmP p (.child tmP.node nm x) (tmP.vidx+1) (tmP.vidx+1))).heap[st.heap.size]?).map (·.node)
        = some (.child tmP.node nm x) := by
      show ((setIts st p tl).heap.push _)[st.heap.size]?.map _ = _
      rw [← hsz, push_new]; rfl
    simp only [iterStep, maTail, aIter, hnode]
    exact ⟨key, by simp⟩

/-- the recursive step resumed on its parked cell: exhaustion, a scalar child (returned
itself, with `vertex_index - 1`), or a container child (parked at once, its imaginary match
returned) -/
theorem rec_iter_tail (view : α → View α) (st : St α) (hroot : RootOK st) (p : Nat) (tmP : TM α)
    (its : List (Name × α)) (stk : List (Frame α))
    (hp : st.heap[p]? = some tmP) (hcs : tmP.catchState = some its) (hocm : tmP.ocm = some p) (hoca : tmP.oca = .match_)
    (hs : steps[tmP.vidx]? = some .recur)
    (hbl : Below steps st.rootPtr st.heap p tmP stk) :
    R steps (maTail p tmP.node tmP.vidx (vmatchRecur view st p tmP (tmP.vidx + 1))).1 (aRecIter view tmP.node tmP.vidx its stk).1 ∧
    (maTail p tmP.node tmP.vidx (vmatchRecur view st p tmP (tmP.vidx + 1))).2 = (aRecIter view tmP.node tmP.vidx its stk).2 := by
  have hsi : ∃ s, steps[tmP.vidx]? = some s ∧ s.iterates = true := ⟨.recur, hs, rfl⟩
  cases its with
  | nil =>
    obtain ⟨tm', htm', hr⟩ := restore_R steps st hroot p tmP stk hp hbl
    simp only [vmatchRecur, hcs, maTail, htm', aRecIter]
    exact ⟨hr, by simp⟩
  | cons it tl =>
    obtain ⟨nm, x⟩ := it
    obtain ⟨hres, hself⟩ := setIts_Res steps st p tmP tl stk hp hocm hoca hsi hbl
    have hsz : (setIts st p tl).heap.size = st.heap.size := by simp [setIts]
    have hplt : p < st.heap.size := lt_size_of_get hp
    have hroot1 : RootOK (setIts st p tl) := by
      obtain ⟨r, h1, h2⟩ := hroot
      exact ⟨r, h1, by rw [hsz]; exact h2⟩
    cases hc : allItems (view x) with
    | none =>
      have key := derive_R steps (setIts st p tl) hroot1 p { tmP with catchState := some tl }
        (⟨tmP.node, tmP.vidx, tl⟩ :: stk) hself hocm hoca hres (.child tmP.node nm x) (tmP.vidx + 1) tmP.vidx
      rw [hsz] at key
      have hnode : ((push (setIts st p tl) (derive tmP p (.child tmP.node nm x) (tmP.vidx+1) (tmP.vidx+1-1))).heap[st.heap.size]?).map (·.node)
          = some (.child tmP.node nm x) := by
        show ((setIts st p tl).heap.push _)[st.heap.size]?.map _ = _
        rw [← hsz, push_new]; rfl
      simp only [vmatchRecur, hcs, hc, maTail, aRecIter, hnode]
      simp only [Nat.add_sub_cancel]
      exact ⟨key, by simp⟩
    | some cits =>
      -- the child cell `q`, parked at once, and its imaginary match `q+1`
      let child : TM α := derive tmP p (.child tmP.node nm x) (tmP.vidx + 1) tmP.vidx
      let st2 : St α := push (setIts st p tl) (parked child st.heap.size cits)
      have hq2 : st2.heap[st.heap.size]? = some (parked child st.heap.size cits) := by
        show ((setIts st p tl).heap.push _)[st.heap.size]? = _
        rw [← hsz, push_new]
      have hsz2 : st2.heap.size = st.heap.size + 1 := by
        show ((setIts st p tl).heap.push _).size = _
        simp [hsz]
      have hroot2 : RootOK st2 := by
        obtain ⟨r, h1, h2⟩ := hroot
        exact ⟨r, h1, by rw [hsz2]; omega⟩
      have hres2 : Resume steps st2.rootPtr st2.heap (some st.heap.size) .match_
          (⟨.child tmP.node nm x, tmP.vidx, cits⟩ :: ⟨tmP.node, tmP.vidx, tl⟩ :: stk) := by
        apply Resume.mk steps st.rootPtr hq2 rfl rfl rfl rfl rfl ⟨.recur, hs, rfl⟩
        show Below steps st.rootPtr st2.heap st.heap.size (parked child st.heap.size cits) _
        simp only [Below, parked, child, derive]
        obtain ⟨r, h1, h2⟩ := hroot
        refine ⟨hplt, by rw [h1]; intro h; cases h; omega, { tmP with catchState := some tl }, ?_, ?_, ?_⟩
        · show ((setIts st p tl).heap.push _)[p]? = _
          rw [push_old _ _ _ (by rw [hsz]; exact hplt)]; exact hself
        · intro y hy; simp only [hocm, Option.some.injEq] at hy; omega
        · simp only [hocm, hoca]
          exact Resume.congr steps _ p (fun i hi => push_old _ _ _ (by rw [hsz]; omega)) hres
            (by intro m hm; cases hm; exact Nat.le_refl _)
      have key := derive_R steps st2 hroot2 st.heap.size (parked child st.heap.size cits)
        (⟨.child tmP.node nm x, tmP.vidx, cits⟩ :: ⟨tmP.node, tmP.vidx, tl⟩ :: stk) hq2 rfl rfl hres2
        (.imag (.child tmP.node nm x)) (tmP.vidx + 1) (tmP.vidx + 1)
      rw [hsz2] at key
      have hnode : ((push st2 (derive (parked child st.heap.size cits) st.heap.size (.imag (.child tmP.node nm x)) (tmP.vidx+1) (tmP.vidx+1))).heap[st.heap.size + 1]?).map (·.node)
          = some (.imag (.child tmP.node nm x)) := by
        show (st2.heap.push _)[st.heap.size + 1]?.map _ = _
        rw [← hsz2, push_new]; rfl
      simp only [vmatchRecur, hcs, hc, maTail, aRecIter]
      simp only [Nat.add_sub_cancel]
      refine ⟨?_, ?_⟩
      · simpa [st2, child] using key
      · simp only [st2, child] at hnode
        simp [hnode]

/-- a failed attempt on an un-parked focus: jump to its resume pointer -/
theorem fail_tail (st : St α) (hroot : RootOK st) (c : Nat) (tm : TM α) (stk : List (Frame α)) (evs : List (Ev α))
    (hc : st.heap[c]? = some tm) (hu : Unparked steps st.rootPtr st.heap c tm stk) :
    R steps (maTail c tm.node tm.vidx (.ok st none evs)).1 (resume stk) ∧
    (maTail c tm.node tm.vidx (.ok st none evs)).2 = (evs ++ [.attempt tm.node (tm.vidx + 1) none none], .none) := by
  simp only [maTail, hc]
  exact ⟨R_resume steps st _ _ _ hu.2.2.1 hroot, trivial⟩

/-- a successful single-valued attempt on an un-parked focus -/
theorem succ_tail (st : St α) (hroot : RootOK st) (c : Nat) (tm : TM α) (stk : List (Frame α)) (evs : List (Ev α))
    (hc : st.heap[c]? = some tm) (hu : Unparked steps st.rootPtr st.heap c tm stk) (node : MNode α) :
    R steps (maTail c tm.node tm.vidx (.ok (push st (derive tm c node (tm.vidx+1) (tm.vidx+1))) (some st.heap.size) evs)).1
      (.report node (tm.vidx+1) (tm.vidx+1) stk) ∧
    (maTail c tm.node tm.vidx (.ok (push st (derive tm c node (tm.vidx+1) (tm.vidx+1))) (some st.heap.size) evs)).2 =
      (evs ++ [.attempt tm.node (tm.vidx + 1) (some node) none], .none) := by
  have hnode : ((push st (derive tm c node (tm.vidx+1) (tm.vidx+1))).heap[st.heap.size]?).map (·.node) = some node := by
    show (st.heap.push _)[st.heap.size]?.map _ = _
    rw [push_new]; rfl
  simp only [maTail, hnode]
  exact ⟨derive_unparked_R steps st hroot c tm stk hc hu node _ _, trivial⟩

/-- `match_action` on an un-parked focus agrees with the stack machine's attempt -/
theorem attempt_bisim (view : α → View α) (st : St α) (hroot : RootOK st) (c : Nat) (tm : TM α) (stk : List (Frame α))
    (hcur : st.cur = some c) (hact : st.act = .match_)
    (hc : st.heap[c]? = some tm) (hu : Unparked steps st.rootPtr st.heap c tm stk) :
    R steps (matchAction view steps st c tm).1 (aAttempt view steps tm.node tm.vidx stk).1 ∧
    (matchAction view steps st c tm).2 = (aAttempt view steps tm.node tm.vidx stk).2 := by
  have hsame : R steps st (.attempt tm.node tm.vidx stk) := .attempt st c tm stk hcur hc hact hu hroot
  rw [matchAction_eq]
  cases hs : steps[tm.vidx]? with
  | none => simp only [aAttempt, hs]; exact ⟨hsame, by first | trivial | rfl⟩
  | some s =>
    simp only []
    by_cases hm : s.cls = .multi
    · -- wildcards, slice, comma list, generic wildcard
      rw [vmatch_multi view s hm, aAttempt_multi' view steps s hm _ _ _ hs]
      simp only [vmatchMulti, hu.1]
      cases hio : itemsOf s (view tm.node.data) with
      | wrongKind =>
        obtain ⟨h1, h2⟩ := fail_tail steps st hroot c tm stk [] hc hu
        exact ⟨h1, by rw [h2]; rfl⟩
      | valueError => exact ⟨hsame, rfl⟩
      | ok its =>
        obtain ⟨f1, f2, f3, f4⟩ := remember_facts steps st c tm its stk hc hu
        have hroot0 : RootOK (remember st c its) := by
          obtain ⟨r, h1, h2⟩ := hroot
          exact ⟨r, h1, by rw [f2]; exact h2⟩
        have hi : (parked tm c its).vidx = tm.vidx := rfl
        have := iter_tail steps (remember st c its) hroot0 c (parked tm c its) its stk f1 rfl rfl
          ⟨s, by rw [hi]; exact hs, by cases s <;> simp [Step.cls] at hm <;> rfl⟩ f4
        simpa [parked] using this
    cases s with
    | key k =>
      simp only [vmatch, vmatchSingle, aAttempt, hs]
      cases hso : singleOf view (.key k) tm.node with
      | none => exact fail_tail steps st hroot c tm stk [] hc hu
      | some n' => exact succ_tail steps st hroot c tm stk [] hc hu n'
    | idx i =>
      simp only [vmatch, vmatchSingle, aAttempt, hs]
      cases hso : singleOf view (.idx i) tm.node with
      | none => exact fail_tail steps st hroot c tm stk [] hc hu
      | some n' => exact succ_tail steps st hroot c tm stk [] hc hu n'
    | parent =>
      simp only [vmatch, vmatchSingle, aAttempt, hs]
      cases hso : singleOf view .parent tm.node with
      | none => exact fail_tail steps st hroot c tm stk [] hc hu
      | some n' => exact succ_tail steps st hroot c tm stk [] hc hu n'
    | filter f =>
      simp only [vmatch, vmatchFilter, aAttempt, hs]
      cases hres : (f tm.node).res with
      | val j =>
        simp only []
        by_cases ht : j.truthy = true
        · simp only [ht, if_true]
          exact succ_tail steps st hroot c tm stk _ hc hu (.imag tm.node)
        · simp only [ht]
          exact fail_tail steps st hroot c tm stk _ hc hu
      | raise e => exact ⟨hsame, rfl⟩
    | recur =>
      simp only [vmatch, vmatchRecur, hu.1, aAttempt, hs]
      cases hall : allItems (view tm.node.data) with
      | none => exact fail_tail steps st hroot c tm stk [] hc hu
      | some its =>
        obtain ⟨f1, f2, f3, f4⟩ := remember_facts steps st c tm its stk hc hu
        have hroot0 : RootOK (remember st c its) := by
          obtain ⟨r, h1, h2⟩ := hroot
          exact ⟨r, h1, by rw [f2]; exact h2⟩
        have hres0 : Resume steps (remember st c its).rootPtr (remember st c its).heap (some c) .match_
            (⟨tm.node, tm.vidx, its⟩ :: stk) :=
          Resume.mk steps st.rootPtr f1 rfl rfl rfl rfl rfl ⟨.recur, hs, rfl⟩ f4
        have key := derive_R steps (remember st c its) hroot0 c (parked tm c its) _ f1 rfl rfl hres0
          (.imag tm.node) (tm.vidx + 1) (tm.vidx + 1)
        rw [f2] at key
        have hnode : ((push (remember st c its) (derive (parked tm c its) c (.imag tm.node) (tm.vidx+1) (tm.vidx+1))).heap[st.heap.size]?).map (·.node)
            = some (.imag tm.node) := by
          show ((remember st c its).heap.push _)[st.heap.size]?.map _ = _
          rw [← f2, push_new]; rfl
        simp only [maTail, hnode]
        exact ⟨key, rfl⟩
    | slice a b c' => simp [Step.cls] at hm
    | tuple ns => simp [Step.cls] at hm
    | keyWc => simp [Step.cls] at hm
    | idxWc => simp [Step.cls] at hm
    | gwc => simp [Step.cls] at hm

theorem curTM_eq (st : St α) (c : Nat) (tm : TM α) (hcur : st.cur = some c) (hc : st.heap[c]? = some tm) :
    curTM st = some (c, tm) := by
  simp [curTM, hcur, hc]

/-- **Lock-step bisimulation**: related states take related steps, emitting the same events
and the same signal. -/
theorem bisim (view : α → View α) (src : Src α) (st : St α) (as : AS α) (hR : R steps st as) :
    R steps (action view steps src st).1 (astep view steps src as).1 ∧
    (action view steps src st).2 = (astep view steps src as).2 := by
  cases hR with
  | init hact =>
    simp only [action, hact, initAction, astep]
    refine ⟨?_, by first | trivial | rfl⟩
    have hnew := push_new st.heap (⟨src.rootNode, none, 0, 0, none, some st.heap.size, .done⟩ : TM α)
    have := R.report (steps := steps)
      ⟨st.heap.push ⟨src.rootNode, none, 0, 0, none, some st.heap.size, .done⟩, some st.heap.size, .report, some st.heap.size⟩
      st.heap.size _ [] rfl hnew rfl
      ⟨rfl, by intro x hx; simp only [Option.some.injEq] at hx; omega, .done _ _, rfl, rfl⟩
      ⟨st.heap.size, rfl, by simp⟩
    simpa using this
  | done hact =>
    simp only [action, hact, astep]
    exact ⟨.done _ hact, by first | trivial | rfl⟩
  | report c tm stk hcur hc hact hu hroot =>
    simp only [action, hact, curTM_eq st c tm hcur hc, reportAction, astep]
    by_cases hv : tm.vertex = steps.size
    · simp only [hv, if_true]
      exact ⟨.catch_ _ c tm stk hcur hc rfl hu.2.2.1 hroot, by first | trivial | rfl⟩
    · simp only [hv, if_false]
      exact ⟨.attempt _ c tm stk hcur hc rfl hu hroot, by first | trivial | rfl⟩
  | catch_ c tm stk hcur hc hact hres hroot =>
    simp only [action, hact, curTM_eq st c tm hcur hc, catchAction, astep]
    exact ⟨R_resume steps st _ _ _ hres hroot, by first | trivial | rfl⟩
  | attempt c tm stk hcur hc hact hu hroot =>
    simp only [action, hact, curTM_eq st c tm hcur hc, astep]
    exact attempt_bisim steps view st hroot c tm stk hcur hact hc hu
  | parked c stk hcur hact hres hroot =>
    obtain ⟨fr, stk', tm, hstk, hc, hcs, hocm, hoca, hnode, hvidx, ⟨s, hs, hit⟩, hbl⟩ := Resume.top steps _ hres
    subst hstk
    have hsf : steps[fr.vidx]? = some s := by rw [← hvidx]; exact hs
    simp only [action, hact, curTM_eq st c tm hcur hc]
    rw [matchAction_eq, hs]
    simp only []
    by_cases hm : s.cls = .multi
    · rw [astep_parked_multi view steps src s hm fr stk' hsf, vmatch_multi view s hm, ← hnode, ← hvidx]
      simp only [vmatchMulti, hcs]
      exact iter_tail steps st hroot c tm fr.items stk' hc hocm hoca ⟨s, hs, hit⟩ hbl
    · cases s with
      | recur =>
        rw [astep_parked_recur view steps src fr stk' hsf, ← hnode, ← hvidx]
        simp only [vmatch]
        exact rec_iter_tail steps view st hroot c tm fr.items stk' hc hcs hocm hoca hs hbl
      | key k => simp [Step.iterates] at hit
      | idx i => simp [Step.iterates] at hit
      | parent => simp [Step.iterates] at hit
      | filter f => simp [Step.iterates] at hit
      | slice a b c' => simp [Step.cls] at hm
      | tuple ns => simp [Step.cls] at hm
      | keyWc => simp [Step.cls] at hm
      | idxWc => simp [Step.cls] at hm
      | gwc => simp [Step.cls] at hm

end Treepath
