import Treepath.Proofs.Drive
import Treepath.Model.Api
/-
Two heap-machine states that are related to the *same* stack-machine state are
indistinguishable through `next()`: same events, same signal, and again related to a common
stack-machine state.  In particular `iter(it)` on any iterator — which only sets the next
action to `init_action` — behaves like a fresh iterator from then on, whatever is left in the
heap from the search before.
-/
namespace Treepath
variable {α : Type}

section
variable (view : α → View α) (steps : Array (Step α)) (src : Src α)

theorem reiter_R (st : St α) : R steps (reiter st) .init := .init _ rfl

/-- one `next()` from two states related to the same stack-machine state -/
theorem next_indistinguishable (limit : Nat) (s1 s2 : St α) (as : AS α)
    (h1 : R steps s1 as) (h2 : R steps s2 as) :
    (next view steps src limit s1).2 = (next view steps src limit s2).2 ∧
    ∃ as', R steps (next view steps src limit s1).1 as' ∧ R steps (next view steps src limit s2).1 as' := by
  induction limit generalizing s1 s2 as with
  | zero => exact ⟨rfl, as, h1, h2⟩
  | succ limit ih =>
    obtain ⟨r1, e1⟩ := bisim steps view src s1 as h1
    obtain ⟨r2, e2⟩ := bisim steps view src s2 as h2
    have he : (action view steps src s1).2 = (action view steps src s2).2 := e1.trans e2.symm
    rcases ha1 : action view steps src s1 with ⟨t1, ev1, sg1⟩
    rcases ha2 : action view steps src s2 with ⟨t2, ev2, sg2⟩
    rw [ha1, ha2] at he
    simp only [Prod.mk.injEq] at he
    obtain ⟨rfl, rfl⟩ := he
    rw [ha1] at r1
    rw [ha2] at r2
    unfold next
    rw [ha1, ha2]
    cases sg1 with
    | none =>
      simp only
      split
      · exact ⟨rfl, _, r1, r2⟩
      · obtain ⟨hq, as', q1, q2⟩ := ih t1 t2 _ r1 r2
        rcases hn1 : next view steps src limit t1 with ⟨u1, f1, g1⟩
        rcases hn2 : next view steps src limit t2 with ⟨u2, f2, g2⟩
        rw [hn1, hn2] at hq
        rw [hn1] at q1
        rw [hn2] at q2
        simp only [Prod.mk.injEq] at hq
        obtain ⟨rfl, rfl⟩ := hq
        exact ⟨rfl, as', q1, q2⟩
    | result n =>
      simp only
      split
      · exact ⟨rfl, _, r1, r2⟩
      · exact ⟨rfl, _, r1, r2⟩
    | raised e => exact ⟨rfl, _, r1, r2⟩
    | bug m => exact ⟨rfl, _, r1, r2⟩
    | stop => exact ⟨rfl, _, r1, r2⟩

/-- what a caller observes of `k` consecutive `next()` calls: events and signal of each -/
def observe (limit : Nat) : Nat → St α → List (List (Ev α) × Sig α)
  | 0, _ => []
  | k+1, st =>
    let r := next view steps src limit st
    r.2 :: observe limit k r.1

theorem observe_indistinguishable (limit k : Nat) (s1 s2 : St α) (as : AS α)
    (h1 : R steps s1 as) (h2 : R steps s2 as) :
    observe view steps src limit k s1 = observe view steps src limit k s2 := by
  induction k generalizing s1 s2 as with
  | zero => rfl
  | succ k ih =>
    obtain ⟨he, as', q1, q2⟩ := next_indistinguishable view steps src limit s1 s2 as h1 h2
    simp only [observe]
    rw [he, ih _ _ as' q1 q2]

/-- **`iter()` restarts the search**: after `iter(it)` on an iterator in *any* state (fresh,
part-way, exhausted, stuck at a raising predicate), every following sequence of `next()`
calls observes exactly what it observes on a fresh iterator -/
theorem reiter_is_fresh (limit k : Nat) (st : St α) :
    observe view steps src limit k (reiter st) = observe view steps src limit k freshIter :=
  observe_indistinguishable view steps src limit k _ _ .init (reiter_R steps st) (.init _ rfl)

end
end Treepath
