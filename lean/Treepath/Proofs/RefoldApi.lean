import Treepath.Proofs.RefoldInv
/-
`set_` / `set_match` (without cascade) and `pop` / `pop_match` as updates of the JSON tree the
document unfolds to — the refinement of the object-store model to the tree specification of
`Spec/TreeWrite.lean`, for documents that satisfy `DocInv` (loaded JSON, written with fresh
values).
-/
namespace Treepath

theorem gen_parent (view : Val → View Val) (r : Val) (m p : MNode Val) (h : Gen view r m) (hp : m.parent = some p) :
    Gen view r p := by
  induction m with
  | root d => simp [MNode.parent] at hp
  | child q nm d _ => simp only [MNode.parent, Option.some.injEq] at hp; subst hp; exact h.1
  | imag q ih => exact ih h hp
  | par rm f _ _ => simp only [MNode.parent, Option.some.injEq] at hp; subst hp; exact h.2

/-- **`set_` on the tree**: a successful non-cascading `set_match` of a value that shares no
object with the document turns the tree `j` the document unfolds to into `j` with `jv` assigned
under the last name inside the node at `pm.loc` — the location of the first match of the
parent path — and into nothing else; the invariant is kept. -/
theorem setMatch_refines (stepsOf : Heap → List (Step Val)) (root : Val) (j jv : J) (n : Nat) (h h' : Heap)
    (v : Val) (m : MNode Val) (hi : DocInv h root j)
    (hv : UnfJ h jv v) (hvn : (fpJ h jv v).Nodup) (hfresh : ∀ x ∈ fpJ h jv v, x ∉ fpJ h j root)
    (hset : setMatchN stepsOf (.doc root) false (n+1) h v = (h', .ok m)) :
    ∃ pm nm j', m = .child pm nm v ∧
      getMatch (wcx h) ((stepsOf h).take n).toArray (.doc root) true = .ok (some pm) ∧
      J.setAt j pm.loc nm jv = some j' ∧ DocInv h' root j' ∧
      ∀ x ∈ fpJ h' j' root, x ∈ fpJ h j root ∨ x ∈ fpJ h jv v := by
  simp only [setMatchN] at hset
  split at hset
  · simp at hset
  · rename_i last _
    split at hset
    · rename_i pm hg
      split at hset
      · rename_i h2 m2 hvs
        simp only [Prod.mk.injEq, Except.ok.injEq] at hset
        obtain ⟨rfl, rfl⟩ := hset
        have hgen := getMatch_gen (wcx h) (heapwf_keysUniq hi.wf) _ root true pm hg
        have hw := gen_walk (hview h) root pm hgen
        obtain ⟨nm, j', _, e1, e2, e3, e4, e5⟩ :=
          vertexSet_refold h h2 last pm m2 v root j jv hvs hi.unf hi.sep hv hvn hfresh hw
        exact ⟨pm, nm, j', e1, hg, e2, ⟨e3, e4, vertexSet_wf hi.wf last pm m2 v hvs⟩, e5⟩
      · simp at hset
    · simp at hset
    · split at hset <;> simp at hset

/-- the same when the data source is a `Match` of the document (`set_match(expr, v, match)`):
the target may lie below the match or — after parent steps — above it -/
theorem setMatch_from_match_refines (stepsOf : Heap → List (Step Val)) (root : Val) (sm : MNode Val) (j jv : J) (n : Nat)
    (h h' : Heap) (v : Val) (m : MNode Val) (hi : DocInv h root j) (hsm : Gen (hview h) root sm)
    (hv : UnfJ h jv v) (hvn : (fpJ h jv v).Nodup) (hfresh : ∀ x ∈ fpJ h jv v, x ∉ fpJ h j root)
    (hset : setMatchN stepsOf (.nested sm) false (n+1) h v = (h', .ok m)) :
    ∃ pm nm j', m = .child pm nm v ∧ J.setAt j pm.loc nm jv = some j' ∧ DocInv h' root j' := by
  simp only [setMatchN] at hset
  split at hset
  · simp at hset
  · rename_i last _
    split at hset
    · rename_i pm hg
      split at hset
      · rename_i h2 m2 hvs
        simp only [Prod.mk.injEq, Except.ok.injEq] at hset
        obtain ⟨rfl, rfl⟩ := hset
        have hgen := getMatch_gen_src (wcx h) (heapwf_keysUniq hi.wf) _ root (.nested sm) hsm true pm hg
        have hw := gen_walk (hview h) root pm hgen
        obtain ⟨nm, j', _, e1, e2, e3, e4, _⟩ :=
          vertexSet_refold h h2 last pm m2 v root j jv hvs hi.unf hi.sep hv hvn hfresh hw
        exact ⟨pm, nm, j', e1, e2, ⟨e3, e4, vertexSet_wf hi.wf last pm m2 v hvs⟩⟩
      · simp at hset
    · simp at hset
    · split at hset <;> simp at hset

/-- … with the value loaded into the store just before (what every caller passing a JSON
value does): nothing is assumed about it but unique keys -/
theorem set_fresh_refines (stepsOf : Heap → List (Step Val)) (root : Val) (j jv : J) (n : Nat) (h h' : Heap)
    (m : MNode Val) (hi : DocInv h root j) (hjv : jv.WFK)
    (hset : setMatchN stepsOf (.doc root) false (n+1) (allocJ h jv).1 (allocJ h jv).2 = (h', .ok m)) :
    ∃ pm nm j', m = .child pm nm (allocJ h jv).2 ∧ J.setAt j pm.loc nm jv = some j' ∧ DocInv h' root j' := by
  obtain ⟨i1, u1, n1, f1⟩ := alloc_inv h root j jv hi hjv
  obtain ⟨pm, nm, j', e1, _, e2, e3, _⟩ := setMatch_refines stepsOf root j jv n _ h' _ m i1 u1 n1 f1 hset
  exact ⟨pm, nm, j', e1, e2, e3⟩

/-- **`pop` on the tree**: a successful `pop_match` turns the tree into the tree without the
entry named by the last step inside the node at the location of the match's parent -/
theorem popMatch_refines (stepsOf : Heap → List (Step Val)) (root : Val) (j : J) (h h' : Heap) (mm : Bool)
    (m : MNode Val) (hi : DocInv h root j)
    (hpop : popMatch stepsOf (.doc root) mm h = (h', .ok (some m))) :
    ∃ p nm j', m.parent = some p ∧ (stepsOf h).getLast? = some (nameStepV nm) ∧ J.popAt j p.loc nm = some j' ∧
      DocInv h' root j' ∧ ∀ x ∈ fpJ h' j' root, x ∈ fpJ h j root := by
  simp only [popMatch] at hpop
  split at hpop
  · simp at hpop
  · rename_i m0 hg
    split at hpop
    · rename_i h2 hvp
      simp only [Prod.mk.injEq, Except.ok.injEq, Option.some.injEq] at hpop
      obtain ⟨rfl, rfl⟩ := hpop
      have hgen := getMatch_gen (wcx h) (heapwf_keysUniq hi.wf) _ root mm m0 hg
      obtain ⟨p, nm, j', e1, e0, e2, e3, e4, e5⟩ := vertexPop_refold h h2 _ m0 root j hvp hi.unf hi.sep
        (fun p hp => gen_walk (hview h) root p (gen_parent (hview h) root m0 p hgen hp))
      exact ⟨p, nm, j', e1, e0, e2, ⟨e3, e4, vertexPop_wf hi.wf _ m0 hvp⟩, e5⟩
    · simp at hpop
  · simp at hpop

/-- a `pop_match` that removes nothing leaves the store as it is -/
theorem popMatch_other (stepsOf : Heap → List (Step Val)) (src : Src Val) (h h' : Heap) (mm : Bool)
    (r : Except ApiErr (Option (MNode Val))) (hpop : popMatch stepsOf src mm h = (h', r))
    (hr : ∀ m, r ≠ .ok (some m)) : h' = h := by
  simp only [popMatch] at hpop
  split at hpop
  · simp only [Prod.mk.injEq] at hpop; exact hpop.1.symm
  · split at hpop
    · simp only [Prod.mk.injEq] at hpop; exact absurd hpop.2.symm (hr _)
    · simp only [Prod.mk.injEq] at hpop; exact hpop.1.symm
  · simp only [Prod.mk.injEq] at hpop; exact hpop.1.symm

/-! ### histories -/

/-- an operation of a writer history: assign a JSON value at a path / remove at a path -/
inductive WOp where
  | set (path : Heap → List (Step Val)) (jv : J)
  | pop (path : Heap → List (Step Val)) (mustMatch : Bool)

def WOp.valuesWF : WOp → Prop
  | .set _ jv => jv.WFK
  | .pop _ _ => True

/-- run one operation on the store (the value of a `set` is loaded first) -/
def WOp.run (root : Val) (h : Heap) : WOp → Heap
  | .set path jv => (setMatch path (.doc root) false (allocJ h jv).1 (allocJ h jv).2).1
  | .pop path mm => (popMatch path (.doc root) mm h).1

/-- **the document stays a tree**: whatever sequence of `set_` (of JSON values) and `pop`
operations is applied — successful or not — to a loaded document, the store keeps unfolding to
a JSON tree without aliasing; each successful step is the tree update of the two theorems
above. -/
theorem histories_keep_the_document_a_tree (root : Val) (ops : List WOp) (hops : ∀ op ∈ ops, op.valuesWF) :
    ∀ (h : Heap) (j : J), DocInv h root j → ∃ j', DocInv (ops.foldl (WOp.run root) h) root j' := by
  induction ops with
  | nil => intro h j hi; exact ⟨j, hi⟩
  | cons op ops ih =>
    intro h j hi
    have hrest : ∀ op' ∈ ops, op'.valuesWF := fun o ho => hops o (List.mem_cons_of_mem _ ho)
    simp only [List.foldl_cons]
    cases op with
    | set path jv =>
      have hjv : jv.WFK := hops (.set path jv) (by simp)
      obtain ⟨i1, _⟩ := alloc_inv h root j jv hi hjv
      simp only [WOp.run, setMatch]
      rcases hr : setMatchN path (.doc root) false (path (allocJ h jv).1).length (allocJ h jv).1 (allocJ h jv).2 with ⟨h', r⟩
      cases r with
      | error e =>
        have := (setMatchN_nocascade path (.doc root) _ _ h' _ _ hr).1 e rfl
        rw [this]; exact ih hrest _ j i1
      | ok m =>
        cases hn : (path (allocJ h jv).1).length with
        | zero => rw [hn] at hr; simp [setMatchN] at hr
        | succ n =>
          rw [hn] at hr
          obtain ⟨_, _, j1, _, _, i2⟩ := set_fresh_refines path root j jv n h h' m hi hjv hr
          exact ih hrest h' j1 i2
    | pop path mm =>
      simp only [WOp.run]
      rcases hr : popMatch path (.doc root) mm h with ⟨h', r⟩
      by_cases hs : ∃ m, r = .ok (some m)
      · obtain ⟨m, rfl⟩ := hs
        obtain ⟨_, _, j1, _, _, _, i2, _⟩ := popMatch_refines path root j h h' mm m hi hr
        exact ih hrest h' j1 i2
      · have := popMatch_other path (.doc root) h h' mm r hr (fun m e => hs ⟨m, e⟩)
        rw [this]; exact ih hrest h j hi

end Treepath
