import Treepath.Proofs.HasRefine
import Treepath.Proofs.Work
/-
The action budget of `__next__` is never the reason a search over a tree fails, as long as
it exceeds a small multiple of the work the definition itself requires:

* pacing: among any three consecutive actions one is a match attempt, so a `next()` call
  that performs `limit` actions has emitted at least `(limit - 3) / 3` attempts;
* all attempts of a run are attempts of the specification's stream (`full_run`), which are at
  most `2 · exams` (`work_bound`);
* no defensive (`bug`) branch of the model is reachable from a fresh iterator.

Hence `drain` (= `list(find_matches(...))`) *is* `eval` whenever `6 · exams + 3 < limit`.
-/
namespace Treepath
variable {α : Type}

/-- actions still to go before the next match attempt, at most -/
def AS.pot : AS α → Nat
  | .init => 3
  | .report _ _ _ _ => 2
  | .catch_ _ => 1
  | _ => 0

theorem AS.pot_le (as : AS α) : as.pot ≤ 3 := by cases as <;> simp [AS.pot]
@[simp] theorem resume_pot (stk : List (Frame α)) : (resume stk).pot = 0 := by cases stk <;> rfl
@[simp] theorem pot_init : (AS.init : AS α).pot = 3 := rfl
@[simp] theorem pot_report (n : MNode α) (a b : Nat) (stk : List (Frame α)) : (AS.report n a b stk).pot = 2 := rfl
@[simp] theorem pot_catch (stk : List (Frame α)) : (AS.catch_ stk).pot = 1 := rfl
@[simp] theorem pot_attempt (n : MNode α) (a : Nat) (stk : List (Frame α)) : (AS.attempt n a stk).pot = 0 := rfl
@[simp] theorem pot_parked (stk : List (Frame α)) : (AS.parked stk).pot = 0 := rfl
@[simp] theorem pot_done : (AS.done : AS α).pot = 0 := rfl

section
variable (view : α → View α) (steps : Array (Step α)) (src : Src α)

theorem aIter_pace (n : MNode α) (vi : Nat) (its : List (Name × α)) (stk : List (Frame α)) :
    1 + (aIter n vi its stk).1.pot ≤ 3 * attemptsTop (aIter n vi its stk).2.1 := by
  cases its with
  | nil => simp [aIter, attemptsTop]
  | cons it tl => obtain ⟨nm, x⟩ := it; simp [aIter, attemptsTop]

theorem aRecIter_pace (n : MNode α) (vi : Nat) (its : List (Name × α)) (stk : List (Frame α)) :
    1 + (aRecIter view n vi its stk).1.pot ≤ 3 * attemptsTop (aRecIter view n vi its stk).2.1 := by
  cases its with
  | nil => simp [aRecIter, attemptsTop]
  | cons it tl =>
    obtain ⟨nm, x⟩ := it
    simp only [aRecIter]
    split <;> simp [attemptsTop]

theorem aAttempt_pace (n : MNode α) (vidx : Nat) (stk : List (Frame α))
    (h : (aAttempt view steps n vidx stk).2.2 = .none ∨ ∃ m, (aAttempt view steps n vidx stk).2.2 = .result m) :
    1 + (aAttempt view steps n vidx stk).1.pot ≤ 3 * attemptsTop (aAttempt view steps n vidx stk).2.1 := by
  cases hs : steps[vidx]? with
  | none => simp [aAttempt, hs] at h
  | some s =>
    by_cases hm : s.cls = .multi
    · rw [aAttempt_multi' view steps s hm n vidx stk hs] at h ⊢
      cases hio : itemsOf s (view n.data) with
      | wrongKind => simp [attemptsTop]
      | valueError => simp [hio] at h
      | ok its => simpa using aIter_pace n vidx its stk
    · cases s with
      | filter f =>
        simp only [aAttempt, hs] at h ⊢
        cases hr : (f n).res with
        | val j =>
          by_cases ht : j.truthy = true
          · simp [ht, attemptsTop, List.countP_cons, List.countP_append]; omega
          · simp [ht, attemptsTop, List.countP_cons, List.countP_append]; omega
        | raise e => simp [hr] at h
      | recur =>
        simp only [aAttempt, hs]
        split <;> simp [attemptsTop]
      | key k => simp only [aAttempt, hs]; split <;> simp [attemptsTop]
      | idx i => simp only [aAttempt, hs]; split <;> simp [attemptsTop]
      | parent => simp only [aAttempt, hs]; split <;> simp [attemptsTop]
      | slice a b c => simp [Step.cls] at hm
      | tuple ns => simp [Step.cls] at hm
      | keyWc => simp [Step.cls] at hm
      | idxWc => simp [Step.cls] at hm
      | gwc => simp [Step.cls] at hm

/-- **pacing**: an action that neither stops, raises nor hits a defensive branch pays for
itself with the potential or with a match attempt -/
theorem astep_pace (as : AS α)
    (h : (astep view steps src as).2.2 = .none ∨ ∃ n, (astep view steps src as).2.2 = .result n) :
    1 + (astep view steps src as).1.pot ≤ as.pot + 3 * attemptsTop (astep view steps src as).2.1 := by
  cases as with
  | init => simp [astep]
  | done => simp [astep] at h
  | report n vertex vidx stk =>
    simp only [astep]
    split <;> simp [attemptsTop]
  | catch_ stk => simp [astep]
  | parked stk =>
    cases stk with
    | nil => simp [astep] at h
    | cons fr stk =>
      simp only [astep] at h ⊢
      split
      · have := aRecIter_pace view fr.owner fr.vidx fr.items stk; simp only [pot_parked]; omega
      · have := aIter_pace fr.owner fr.vidx fr.items stk; simp only [pot_parked]; omega
      · rename_i hnone; rw [hnone] at h; simp at h
  | attempt n vidx stk =>
    simp only [astep] at h ⊢
    have := aAttempt_pace view steps n vidx stk h
    simp only [pot_attempt]; omega

/-! ### no defensive branch is reachable -/

def GoodStk (stk : List (Frame α)) : Prop := ∀ fr ∈ stk, fr.vidx < steps.size

def Good : AS α → Prop
  | .init => True
  | .report _ vertex vidx stk => vertex ≤ steps.size ∧ (vertex < steps.size → vidx < steps.size) ∧ GoodStk steps stk
  | .catch_ stk => GoodStk steps stk
  | .attempt _ vidx stk => vidx < steps.size ∧ GoodStk steps stk
  | .parked stk => stk ≠ [] ∧ GoodStk steps stk
  | .done => True

theorem resume_good (stk : List (Frame α)) (h : GoodStk steps stk) : Good steps (resume stk) := by
  cases stk with
  | nil => trivial
  | cons fr stk => exact ⟨by simp, h⟩

theorem goodStk_cons (fr : Frame α) (stk : List (Frame α)) (h1 : fr.vidx < steps.size) (h : GoodStk steps stk) :
    GoodStk steps (fr :: stk) := by
  intro x hx
  simp only [List.mem_cons] at hx
  rcases hx with rfl | hx
  · exact h1
  · exact h x hx

theorem aIter_good (n : MNode α) (vi : Nat) (its : List (Name × α)) (stk : List (Frame α))
    (hv : vi < steps.size) (h : GoodStk steps stk) :
    Good steps (aIter n vi its stk).1 ∧ ∀ m, (aIter n vi its stk).2.2 ≠ .bug m := by
  cases its with
  | nil => exact ⟨resume_good steps stk h, by intro m; simp [aIter]⟩
  | cons it tl =>
    obtain ⟨nm, x⟩ := it
    refine ⟨?_, by intro m; simp [aIter]⟩
    simp only [aIter, Good]
    exact ⟨by omega, fun h' => h', goodStk_cons steps _ _ hv h⟩

theorem aRecIter_good (n : MNode α) (vi : Nat) (its : List (Name × α)) (stk : List (Frame α))
    (hv : vi < steps.size) (h : GoodStk steps stk) :
    Good steps (aRecIter view n vi its stk).1 ∧ ∀ m, (aRecIter view n vi its stk).2.2 ≠ .bug m := by
  cases its with
  | nil => exact ⟨resume_good steps stk h, by intro m; simp [aRecIter]⟩
  | cons it tl =>
    obtain ⟨nm, x⟩ := it
    simp only [aRecIter]
    split
    · refine ⟨?_, by intro m; simp⟩
      simp only [Good]
      exact ⟨by omega, fun _ => hv, goodStk_cons steps _ _ hv h⟩
    · refine ⟨?_, by intro m; simp⟩
      simp only [Good]
      exact ⟨by omega, fun h' => h', goodStk_cons steps _ _ hv (goodStk_cons steps _ _ hv h)⟩

/-- the invariant is kept, and a good state never takes a defensive branch -/
theorem astep_good (as : AS α) (hg : Good steps as) :
    Good steps (astep view steps src as).1 ∧ ∀ m, (astep view steps src as).2.2 ≠ .bug m := by
  cases as with
  | init =>
    refine ⟨?_, by intro m; simp [astep]⟩
    simp only [astep, Good]
    exact ⟨by omega, fun h => h, by intro x hx; simp at hx⟩
  | done => exact ⟨trivial, by intro m; simp [astep]⟩
  | report n vertex vidx stk =>
    obtain ⟨h1, h2, h3⟩ := hg
    simp only [astep]
    split
    · exact ⟨h3, by intro m; simp⟩
    · rename_i hne
      exact ⟨⟨h2 (by omega), h3⟩, by intro m; simp⟩
  | catch_ stk => exact ⟨resume_good steps stk hg, by intro m; simp [astep]⟩
  | parked stk =>
    obtain ⟨hne, hs⟩ := hg
    cases stk with
    | nil => exact absurd rfl hne
    | cons fr stk =>
      have hfr : fr.vidx < steps.size := hs fr (by simp)
      have hstk : GoodStk steps stk := fun x hx => hs x (List.mem_cons_of_mem _ hx)
      simp only [astep]
      split
      · exact aRecIter_good view steps fr.owner fr.vidx fr.items stk hfr hstk
      · exact aIter_good steps fr.owner fr.vidx fr.items stk hfr hstk
      · rename_i hnone
        have : steps[fr.vidx]? ≠ none := by simp [hfr]
        exact absurd hnone this
  | attempt n vidx stk =>
    obtain ⟨hv, hs⟩ := hg
    simp only [astep, aAttempt]
    split
    · rename_i hnone
      have : steps[vidx]? ≠ none := by simp [hv]
      exact absurd hnone this
    · split
      · split
        · split
          · refine ⟨?_, by intro m; simp⟩
            simp only [Good]; exact ⟨by omega, fun h' => h', hs⟩
          · exact ⟨resume_good steps stk hs, by intro m; simp⟩
        · exact ⟨⟨hv, hs⟩, by intro m; simp⟩
      · split
        · exact ⟨resume_good steps stk hs, by intro m; simp⟩
        · refine ⟨?_, by intro m; simp⟩
          simp only [Good]; exact ⟨by omega, fun h' => h', goodStk_cons steps _ _ hv hs⟩
      · split
        · exact ⟨resume_good steps stk hs, by intro m; simp⟩
        · refine ⟨?_, by intro m; simp⟩
          simp only [Good]; exact ⟨by omega, fun h' => h', hs⟩
      · split
        · exact ⟨resume_good steps stk hs, by intro m; simp⟩
        · refine ⟨?_, by intro m; simp⟩
          simp only [Good]; exact ⟨by omega, fun h' => h', hs⟩
      · split
        · exact ⟨resume_good steps stk hs, by intro m; simp⟩
        · refine ⟨?_, by intro m; simp⟩
          simp only [Good]; exact ⟨by omega, fun h' => h', hs⟩
      · split
        · exact ⟨resume_good steps stk hs, by intro m; simp⟩
        · exact ⟨⟨hv, hs⟩, by intro m; simp⟩
        · exact aIter_good steps n vidx _ stk hv hs

theorem arun_good (k : Nat) (as : AS α) (hg : Good steps as) : Good steps (arun view steps src k as).1 := by
  induction k generalizing as with
  | zero => exact hg
  | succ k ih => simp only [arun]; exact ih _ (astep_good view steps src as hg).1

/-! ### `next()` on the heap machine -/

theorem next_not_none (limit : Nat) (st st' : St α) (evs : List (Ev α)) :
    next view steps src limit st ≠ (st', evs, .none) := by
  induction limit generalizing st evs with
  | zero => simp [next]
  | succ limit ih =>
    intro h
    unfold next at h
    rcases ha : action view steps src st with ⟨s1, e1, sig⟩
    rw [ha] at h
    cases sig with
    | none =>
      simp only at h
      split at h
      · simp at h
      · rcases hn : next view steps src limit s1 with ⟨s2, e2, sig2⟩
        rw [hn] at h
        simp only [Prod.mk.injEq] at h
        obtain ⟨h1, _, h3⟩ := h
        subst h1; subst h3
        exact ih s1 e2 hn
    | result n => simp only at h; split at h <;> simp at h
    | raised x => simp at h
    | bug m => simp at h
    | stop => simp at h

/-- a `next()` from a reachable state never takes a defensive branch -/
theorem next_no_bug (limit : Nat) (st : St α) (as : AS α) (hR : R steps st as) (hg : Good steps as)
    (st' : St α) (evs : List (Ev α)) (m : String) :
    next view steps src limit st ≠ (st', evs, .bug m) := by
  induction limit generalizing st as evs with
  | zero => simp [next]
  | succ limit ih =>
    intro h
    unfold next at h
    obtain ⟨hR1, hev⟩ := bisim steps view src st as hR
    obtain ⟨hg1, hnb⟩ := astep_good view steps src as hg
    rcases ha : action view steps src st with ⟨s1, e1, sig⟩
    rw [ha] at h hR1 hev
    cases sig with
    | none =>
      simp only at h
      split at h
      · simp at h
      · rcases hn : next view steps src limit s1 with ⟨s2, e2, sig2⟩
        rw [hn] at h
        simp only [Prod.mk.injEq] at h
        obtain ⟨h1, _, h3⟩ := h
        subst h1; subst h3
        exact ih s1 _ hR1 hg1 e2 hn
    | result n => simp only at h; split at h <;> simp at h
    | raised x => simp at h
    | bug m' =>
      have : (astep view steps src as).2.2 = .bug m' := by rw [← hev]
      exact hnb m' this
    | stop => simp at h

/-- a `next()` that ends in `InfiniteLoopDetected` performed `limit` actions, and these
contain at least `(limit - 3) / 3` match attempts -/
theorem next_loop_pace (hq : ∀ st s1 e1 e, action view steps src st ≠ (s1, e1, .raised e))
    (limit : Nat) (st : St α) (as : AS α) (hR : R steps st as) (st' : St α) (evs : List (Ev α))
    (h : next view steps src limit st = (st', evs, .raised .loopDetected)) :
    ∃ E, evs = E ++ [.raised .loopDetected] ∧ hrun view steps src limit st = (st', E) ∧
      limit ≤ as.pot + 3 * attemptsTop E := by
  induction limit generalizing st as evs with
  | zero =>
    simp only [next, Prod.mk.injEq] at h
    exact ⟨[], by simp [← h.2.1], by simp [hrun, h.1], by omega⟩
  | succ limit ih =>
    unfold next at h
    obtain ⟨hR1, hev⟩ := bisim steps view src st as hR
    rcases ha : action view steps src st with ⟨s1, e1, sig⟩
    rw [ha] at h hR1 hev
    have hpace : ∀ (hs : sig = .none ∨ ∃ n, sig = .result n),
        1 + (astep view steps src as).1.pot ≤ as.pot + 3 * attemptsTop e1 := by
      intro hs
      have h2 : (astep view steps src as).2.2 = sig := by rw [← hev]
      have h1 : (astep view steps src as).2.1 = e1 := by rw [← hev]
      have := astep_pace view steps src as (by rw [h2]; exact hs)
      rw [h1] at this; exact this
    cases sig with
    | none =>
      have hp := hpace (.inl rfl)
      simp only at h
      split at h
      · rename_i hl
        subst hl
        simp only [Prod.mk.injEq] at h
        refine ⟨e1, h.2.1.symm, by simp [hrun, ha, h.1], by omega⟩
      · rcases hn : next view steps src limit s1 with ⟨s2, e2, sig2⟩
        rw [hn] at h
        simp only [Prod.mk.injEq] at h
        obtain ⟨h1, h2, h3⟩ := h
        subst h1; subst h3
        obtain ⟨E, hE, hrunE, hle⟩ := ih s1 _ hR1 e2 hn
        refine ⟨e1 ++ E, by rw [← h2, hE, List.append_assoc], by simp [hrun, ha, hrunE], ?_⟩
        rw [attemptsTop_append]
        omega
    | result n =>
      have hp := hpace (.inr ⟨n, rfl⟩)
      simp only at h
      split at h
      · rename_i hl
        subst hl
        simp only [Prod.mk.injEq] at h
        refine ⟨e1, h.2.1.symm, by simp [hrun, ha, h.1], by omega⟩
      · simp at h
    | raised x => exact absurd ha (hq st s1 e1 x)
    | bug m => simp at h
    | stop => simp at h

end

/-! ### on JSON trees: the budget suffices -/

section
variable (steps : Array (Step J)) (src : Src J)

theorem attemptsTop_replicate_stop (d : Nat) : attemptsTop (List.replicate d (Ev.stop : Ev J)) = 0 := by
  induction d with
  | zero => rfl
  | succ d ih => simp [List.replicate_succ, attemptsTop, List.countP_cons] at ih ⊢

/-- the state after any number of successful calls is related to a good stack-machine state -/
theorem yields_R (hp : PredsClean steps) (limit : Nat) (st' : St J) (rs : List (MNode J)) (E : List (Ev J))
    (hy : Yields J.view steps src limit freshIter rs E st') :
    ∃ j as, hrun J.view steps src j freshIter = (st', E) ∧ R steps st' as ∧ Good steps as := by
  obtain ⟨j, hj, _, _⟩ := yields_run J.view steps src hp limit _ _ _ _ hy
  have hinit : R steps (freshIter : St J) .init := .init _ rfl
  obtain ⟨hR, _⟩ := hrun_bisim J.view steps src j freshIter .init hinit
  rw [hj] at hR
  exact ⟨j, _, hj, hR, arun_good J.view steps src j .init trivial⟩

/-- **the budget is not hit**: after any number of successful calls on a fresh iterator over
a tree, the next call does not raise `InfiniteLoopDetected`, provided the per-call budget
exceeds three times the attempts of the specification's stream (plus three) -/
theorem no_loop_under_budget (hq : Quiet steps.toList) (hp : PredsClean steps) (limit : Nat)
    (hb : 3 * attemptsTop (stream steps.toList 0 src.rootNode) + 3 < limit)
    (st' st'' : St J) (rs : List (MNode J)) (E evs : List (Ev J))
    (hy : Yields J.view steps src limit freshIter rs E st') :
    next J.view steps src limit st' ≠ (st'', evs, .raised .loopDetected) := by
  intro hn
  obtain ⟨j, as, hj, hR, _⟩ := yields_R steps src hp limit st' rs E hy
  have hnr : ∀ st s1 e1 e, action J.view steps src st ≠ (s1, e1, .raised e) :=
    fun st s1 e1 e ha => action_no_raise_quiet J.view steps src hq st s1 e1 e ha
  obtain ⟨E', _, hrunE, hle⟩ := next_loop_pace J.view steps src hnr limit st' as hR st'' evs hn
  have hpot := as.pot_le
  obtain ⟨k, stD, hfull, hdone⟩ := full_run steps src hq
  have htot : hrun J.view steps src (j + limit) freshIter = (st'', E ++ E') := by
    rw [hrun_add, hj, hrunE]
  have hbound : attemptsTop E' ≤ attemptsTop (stream steps.toList 0 src.rootNode) := by
    by_cases hle' : j + limit ≤ 1 + k
    · have : 1 + k = (j + limit) + (1 + k - (j + limit)) := by omega
      rw [this, hrun_add, htot] at hfull
      simp only [Prod.mk.injEq] at hfull
      rw [← hfull.2, attemptsTop_append, attemptsTop_append]
      omega
    · have : j + limit = (1 + k) + (j + limit - (1 + k)) := by omega
      rw [this, hrun_add, hfull, hrun_done _ _ _ _ _ hdone] at htot
      simp only [Prod.mk.injEq] at htot
      have := congrArg attemptsTop htot.2
      rw [attemptsTop_append, attemptsTop_append, attemptsTop_replicate_stop] at this
      omega
  omega

/-- **`list(find_matches(path, tree))` is the definition's answer** — no budget premise left
but an explicit inequality: for every JSON tree and every quiet path whose predicates emit
clean, stamped events, if the per-call action budget exceeds `6 · exams + 3` (`exams` = the
(node, step) examinations the definition itself performs), draining the pointer machine
returns exactly `eval`, with no error. -/
theorem drain_is_eval (cx : Ctx J) (hv : cx.view = J.view) (hq : Quiet steps.toList) (hp : PredsClean steps)
    (hs : PredsStamped steps.toList)
    (hb : 6 * exams steps.toList src.rootNode + 3 < cx.limit) :
    ∀ (fuel : Nat) (st : St J) (rs : List (MNode J)) (E : List (Ev J)) (rest : List (MNode J)),
      Yields J.view steps src cx.limit freshIter rs E st →
      eval steps.toList src.rootNode = rs ++ rest → rest.length < fuel →
      drain cx steps src fuel st = (rest, none) := by
  have hwork := work_bound steps.toList hs 0 src.rootNode
  have hb' : 3 * attemptsTop (stream steps.toList 0 src.rootNode) + 3 < cx.limit := by omega
  intro fuel
  induction fuel with
  | zero => intro st rs E rest _ _ hlt; omega
  | succ fuel ih =>
    intro st rs E rest hy hev hlt
    unfold drain nextOut
    rw [hv]
    rcases hn : next J.view steps src cx.limit st with ⟨st', evs, sig⟩
    cases sig with
    | result n =>
      have hy' := Yields.snoc steps src hy hn
      obtain ⟨rest', hr'⟩ := yields_prefix steps src hq hp cx.limit st' _ _ hy'
      have hrest : rest = n :: rest' := by
        have h1 : rs ++ rest = rs ++ (n :: rest') := by
          rw [← hev]; simpa [List.append_assoc] using hr'
        exact List.append_cancel_left h1
      have := ih st' (rs ++ [n]) _ rest' hy' (by rw [hev, hrest]; simp) (by rw [hrest] at hlt; simp at hlt; omega)
      simp only [this, hrest]
    | stop =>
      have := exhausted_all steps src hq hp cx.limit st st' rs E evs hy hn
      have hrest : rest = [] := by
        have h1 : rs ++ rest = rs ++ [] := by rw [← hev]; simpa using this.symm
        exact List.append_cancel_left h1
      simp [hrest]
    | raised e =>
      have he := next_raised_quiet steps src hq cx.limit st st' evs e hn
      subst he
      exact absurd hn (no_loop_under_budget steps src hq hp cx.limit hb' st st' rs E evs hy)
    | none => exact absurd hn (next_not_none J.view steps src cx.limit st st' evs)
    | bug m =>
      obtain ⟨j, as, _, hR, hg⟩ := yields_R steps src hp cx.limit st rs E hy
      exact absurd hn (next_no_bug J.view steps src cx.limit st as hR hg st' evs m)

/-- the has-loop without the escape clause: when the nested search's budget exceeds
`6 · exams + 3` and the loop's own fuel exceeds the number of selected values, the loop
returns exactly what the first-success search over the definition's answer returns -/
theorem hasLoop_exact (cx : Ctx J) (hv : cx.view = J.view) (hj : cx.toJ = id) (c : MNode J)
    (hq : Quiet steps.toList) (hp : PredsClean steps) (hs : PredsStamped steps.toList)
    (hb : 6 * exams steps.toList (.imag c) + 3 < cx.limit)
    (test : J → List (Ev J) × Except Exc J) :
    ∀ (fuel : Nat) (st : St J) (rs : List (MNode J)) (E : List (Ev J)) (rest : List (MNode J)),
      Yields J.view steps (.nested c) cx.limit freshIter rs E st →
      eval steps.toList (.imag c) = rs ++ rest → rest.length < fuel →
      (hasLoop cx steps c test fuel st).2 = (firstSuccess test rest none).2 := by
  have hwork := work_bound steps.toList hs 0 (.imag c)
  have hb' : 3 * attemptsTop (stream steps.toList 0 (Src.nested c).rootNode) + 3 < cx.limit := by
    simp only [Src.rootNode]; omega
  intro fuel
  induction fuel with
  | zero => intro st rs E rest _ _ hlt; omega
  | succ fuel ih =>
    intro st rs E rest hy hev hlt
    unfold hasLoop
    rw [hv]
    rcases hn : next J.view steps (.nested c) cx.limit st with ⟨st', evs, sig⟩
    cases sig with
    | result n =>
      have hy' := Yields.snoc steps (.nested c) hy hn
      obtain ⟨rest', hr'⟩ := yields_prefix steps (.nested c) hq hp cx.limit st' _ _ hy'
      have hrest : rest = n :: rest' := by
        have h1 : rs ++ rest = rs ++ (n :: rest') := by
          rw [← hev]; simpa [List.append_assoc, Src.rootNode] using hr'
        exact List.append_cancel_left h1
      simp only [hj, id]
      rcases ht : test n.data with ⟨tevs, r⟩
      cases r with
      | ok v =>
        by_cases htr : v.truthy = true
        · simp only [htr, if_true]
          rw [hrest]; simp [firstSuccess, ht, htr]
        · simp only [htr]
          have hvf : v.truthy = false := by simpa using htr
          have := ih st' (rs ++ [n]) _ rest' hy' (by rw [hev, hrest]; simp)
            (by rw [hrest] at hlt; simp at hlt; omega)
          rw [hrest, firstSuccess_snd_cons_falsy test n rest' tevs v ht hvf]
          simpa using this
      | error e => rw [hrest]; simp [firstSuccess, ht]
    | stop =>
      have := exhausted_all steps (.nested c) hq hp cx.limit st st' rs E evs hy hn
      have hrest : rest = [] := by
        have h1 : rs ++ rest = rs ++ [] := by rw [← hev]; simpa [Src.rootNode] using this.symm
        exact List.append_cancel_left h1
      rw [hrest]; simp [firstSuccess]
    | raised e =>
      have he := next_raised_quiet steps (.nested c) hq cx.limit st st' evs e hn
      subst he
      exact absurd hn (no_loop_under_budget steps (.nested c) hq hp cx.limit hb' st st' rs E evs hy)
    | none => exact absurd hn (next_not_none J.view steps (.nested c) cx.limit st st' evs)
    | bug m =>
      obtain ⟨j, as, _, hR, hg⟩ := yields_R steps (.nested c) hp cx.limit st rs E hy
      exact absurd hn (next_no_bug J.view steps (.nested c) cx.limit st as hR hg st' evs m)

end

/-- **`has` = `hasS`, outright**, under an explicit budget inequality -/
theorem has_exact (cx : Ctx J) (hv : cx.view = J.view) (hj : cx.toJ = id) (ss : List (Step J))
    (hq : Quiet ss) (hp : PredsClean ss.toArray) (hs : PredsStamped ss) (op : Option Fn) (fns : List Fn) (c : MNode J)
    (hb : 6 * exams ss (.imag c) + 3 < cx.limit) (hf : (eval ss (.imag c)).length < cx.fuel) :
    (has cx ss op fns c).res = (hasS ss op fns c).res := by
  have hq' : Quiet ss.toArray.toList := by simpa using hq
  have hquiet := evalE_quiet ss hq (.imag c)
  have key := hasLoop_exact ss.toArray cx hv hj c hq' hp (by simpa using hs) (by simpa using hb) (hasTest op fns)
    cx.fuel freshIter [] [] (eval ss (.imag c)) (.nil _) (by simp) hf
  simp only [has, hasS]
  rcases hE : evalE ss (.imag c) with ⟨ns, e⟩
  rw [hE] at hquiet
  simp only at hquiet
  subst hquiet
  simp only [eval, hE] at key
  exact key

section
variable (steps : Array (Step J)) (src : Src J)
end
end Treepath
