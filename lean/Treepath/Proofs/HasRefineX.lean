import Treepath.Proofs.HasRefine
import Treepath.Proofs.DriveX
/- the machine-level has-predicate computes the specification-level one — also when the nested
path's own predicates raise (no `Quiet` premise): the exception the nested search raises is
exactly the one the definition meets while selecting, after exactly the values tried so far -/
namespace Treepath

section
variable (steps : Array (Step J))

theorem firstSuccess_snd_cons_falsy_any (test : J → List (Ev J) × Except Exc J) (n : MNode J) (ns : List (MNode J))
    (ex : Option Exc) (evs : List (Ev J)) (v : J) (h : test n.data = (evs, .ok v)) (hv : v.truthy = false) :
    (firstSuccess test (n :: ns) ex).2 = (firstSuccess test ns ex).2 := by
  simp [firstSuccess, h, hv]

theorem hasLoop_refines_x (cx : Ctx J) (hv : cx.view = J.view) (hj : cx.toJ = id) (c : MNode J)
    (hp : PredsClean steps) (test : J → List (Ev J) × Except Exc J) :
    ∀ (fuel : Nat) (st : St J) (rs : List (MNode J)) (E : List (Ev J)) (rest : List (MNode J)) (ex : Option Exc),
      Yields J.view steps (.nested c) cx.limit freshIter rs E st →
      evalE steps.toList (.imag c) = (rs ++ rest, ex) →
      IsInfra (hasLoop cx steps c test fuel st).2 ∨
        (hasLoop cx steps c test fuel st).2 = (firstSuccess test rest ex).2 := by
  intro fuel
  induction fuel with
  | zero => intro st rs E rest ex _ _; exact .inl (.inr (.inl rfl))
  | succ fuel ih =>
    intro st rs E rest ex hy hev
    unfold hasLoop
    rw [hv]
    rcases hn : next J.view steps (.nested c) cx.limit st with ⟨st', evs, sig⟩
    cases sig with
    | result n =>
      have hy' := Yields.snoc steps (.nested c) hy hn
      obtain ⟨rest', hr'⟩ := yields_prefix_x steps (.nested c) hp cx.limit st' _ _ hy'
      have hrest : rest = n :: rest' := by
        have h1 : rs ++ rest = rs ++ (n :: rest') := by
          have : (evalE steps.toList (.imag c)).1 = rs ++ rest := by rw [hev]
          rw [← this]; simpa [List.append_assoc, Src.rootNode] using hr'
        exact List.append_cancel_left h1
      simp only [hj, id]
      rcases ht : test n.data with ⟨tevs, r⟩
      cases r with
      | ok v =>
        by_cases htr : v.truthy = true
        · simp only [htr, if_true]
          exact .inr (by rw [hrest]; simp [firstSuccess, ht, htr])
        · simp only [htr]
          have hvf : v.truthy = false := by simpa using htr
          have := ih st' (rs ++ [n]) _ rest' ex hy' (by rw [hev, hrest]; simp)
          rw [hrest, firstSuccess_snd_cons_falsy_any test n rest' ex tevs v ht hvf]
          simpa using this
      | error e =>
        exact .inr (by rw [hrest]; simp [firstSuccess, ht])
    | stop =>
      have := exhausted_all_x steps (.nested c) hp cx.limit st st' rs E evs hy hn
      simp only [Src.rootNode] at this
      rw [hev] at this
      simp only [Prod.mk.injEq] at this
      obtain ⟨h1, h2⟩ := this
      have hrest : rest = [] := List.append_cancel_left (as := rs) (by simpa using h1)
      subst hrest; subst h2
      exact .inr (by simp [firstSuccess])
    | raised e =>
      by_cases hl : e = .loopDetected
      · subst hl; exact .inl (.inl rfl)
      · have := raises_x steps (.nested c) hp cx.limit st st' rs E evs e hy hn hl
        simp only [Src.rootNode] at this
        rw [hev] at this
        simp only [Prod.mk.injEq] at this
        obtain ⟨h1, h2⟩ := this
        have hrest : rest = [] := List.append_cancel_left (as := rs) (by simpa using h1)
        subst hrest; subst h2
        exact .inr (by simp [firstSuccess])
    | none => exact .inl (.inr (.inr (.inl rfl)))
    | bug m => exact .inl (.inr (.inr (.inr ⟨m, rfl⟩)))

end

/-- **the traverser's `has` is the specification's `has`, whatever the nested path's own
predicates do**: unless a budget was exhausted, `has(path [<op> v] [, f1, …])` over the nested
machine returns — value or exception — what the first-success search over the definition's
answer returns, the exception met while selecting included -/
theorem has_refines_x (cx : Ctx J) (hv : cx.view = J.view) (hj : cx.toJ = id) (ss : List (Step J))
    (hp : PredsClean ss.toArray) (op : Option Fn) (fns : List Fn) (c : MNode J) :
    IsInfra (has cx ss op fns c).res ∨ (has cx ss op fns c).res = (hasS ss op fns c).res := by
  rcases hE : evalE ss (.imag c) with ⟨ns, e⟩
  have key := hasLoop_refines_x ss.toArray cx hv hj c hp (hasTest op fns)
    cx.fuel freshIter [] [] ns e (.nil _) (by simpa using hE)
  simp only [has, hasS, hE]
  exact key

end Treepath
