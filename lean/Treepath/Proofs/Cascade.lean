import Treepath.Proofs.RefoldApi
import Treepath.Proofs.RoundTrip
/-
`set_(p, v, doc, cascade=True)` on a path of keys and indices, as a function on the JSON tree
(`J.cascadeAt`), and the refinement of the store model to it.
-/
namespace Treepath

/-! ### the tree side -/

theorem cascadeAt_cons_cons (j : J) (nm nm2 : Name) (rest : List Name) (v : J) :
    J.cascadeAt j (nm :: nm2 :: rest) v =
      match childAt (J.view j) nm with
      | none => (match J.cascadeAt (emptyFor nm2) (nm2 :: rest) v with | none => none | some c' => j.setName nm c')
      | some c => (match J.cascadeAt c (nm2 :: rest) v with | none => none | some c' => j.putChild nm c') := by
  rfl

/-- when every level exists, cascading is the plain assignment -/
theorem cascade_snoc_found : ∀ (ns : List Name) (j : J) (nm : Name) (v : J) (c : J),
    walk J.view j ns = some c → J.cascadeAt j (ns ++ [nm]) v = J.setAt j ns nm v
  | [], j, nm, v, c, _ => by simp [J.cascadeAt, J.setAt, J.updateAt]
  | n1 :: ns, j, nm, v, c, hw => by
    simp only [walk] at hw
    cases hc : childAt (J.view j) n1 with
    | none => simp [hc] at hw
    | some c1 =>
      simp only [hc] at hw
      have ih := cascade_snoc_found ns c1 nm v c hw
      cases ns with
      | nil =>
        simp only [List.nil_append] at ih ⊢
        simp only [List.cons_append, List.nil_append, cascadeAt_cons_cons, hc, ih, J.setAt, J.updateAt]
        cases c1.setName nm v <;> rfl
      | cons n2 ns' =>
        simp only [List.cons_append] at ih ⊢
        simp only [cascadeAt_cons_cons, hc, ih, J.setAt, J.updateAt]
        cases childAt c1.view n2 with
        | none => rfl
        | some c2 => simp only []; cases J.updateAt (fun c => c.setName nm v) c2 ns' with
          | none => rfl
          | some c3 => simp only []; cases c1.putChild n2 c3 <;> rfl

/-! ### assigning twice at one name -/

theorem kvsSet_lookup_self (es : List (String × J)) (k : String) (v : J) : (kvsSet es k v).lookup k = some v := by
  induction es with
  | nil => simp [kvsSet, List.lookup]
  | cons e es ih =>
    obtain ⟨k', v'⟩ := e
    by_cases h : k' = k
    · subst h; simp [kvsSet, List.lookup]
    · have hb : (k == k') = false := by simp [Ne.symm h]
      simp [kvsSet, h, List.lookup, hb, ih]

theorem kvsSet_kvsSet (es : List (String × J)) (k : String) (v w : J) : kvsSet (kvsSet es k v) k w = kvsSet es k w := by
  induction es with
  | nil => simp [kvsSet]
  | cons e es ih =>
    obtain ⟨k', v'⟩ := e
    by_cases h : k' = k
    · subst h; simp [kvsSet]
    · simp [kvsSet, h, ih]

theorem normIndex_self_len (n : Nat) : normIndex (n+1) (n : Int) = some n := by
  simp [normIndex]

theorem childAt_setName (j j1 : J) (nm : Name) (e : J) (h : j.setName nm e = some j1) :
    childAt (J.view j1) nm = some e := by
  cases j <;> cases nm <;> simp only [J.setName] at h <;> try (simp at h; done)
  case obj.key es k =>
    simp only [Option.some.injEq] at h; subst h
    simp [childAt, J.view, kvsSet_lookup_self]
  case arr.idx xs i =>
    split at h
    · rename_i p hp
      simp only [Option.some.injEq] at h; subst h
      have hlt := normIndex_lt _ _ _ hp
      simp [childAt, J.view, getPy?_eq_norm, hp, hlt]
    · split at h
      · rename_i hil
        simp only [Option.some.injEq] at h; subst h
        subst hil
        simp [childAt, J.view, getPy?_eq_norm, normIndex_self_len]
      · simp at h

theorem putChild_setName (j j1 : J) (nm : Name) (e c : J) (h : j.setName nm e = some j1) :
    j1.putChild nm c = j.setName nm c := by
  cases j <;> cases nm <;> simp only [J.setName] at h <;> try (simp at h; done)
  case obj.key es k =>
    simp only [Option.some.injEq] at h; subst h
    simp [J.putChild, J.setName, kvsSet_lookup_self, kvsSet_kvsSet]
  case arr.idx xs i =>
    split at h
    · rename_i p hp
      simp only [Option.some.injEq] at h; subst h
      simp [J.putChild, J.setName, hp]
    · rename_i hn
      split at h
      · rename_i hil
        simp only [Option.some.injEq] at h; subst h
        subst hil
        simp [J.putChild, J.setName, hn, normIndex_self_len]
      · simp at h

theorem childAt_putChild (j j1 : J) (nm : Name) (c : J) (h : j.putChild nm c = some j1) :
    childAt (J.view j1) nm = some c := by
  cases j <;> cases nm <;> simp only [J.putChild] at h <;> try (simp at h; done)
  case obj.key es k =>
    split at h
    · simp only [Option.some.injEq] at h; subst h
      simp [childAt, J.view, kvsSet_lookup_self]
    · simp at h
  case arr.idx xs i =>
    cases hp : normIndex xs.length i with
    | none => simp [hp] at h
    | some p =>
      simp only [hp, Option.map_some, Option.some.injEq] at h; subst h
      have hlt := normIndex_lt _ _ _ hp
      simp [childAt, J.view, getPy?_eq_norm, hp, hlt]

theorem putChild_putChild (j j1 : J) (nm : Name) (c c' : J) (h : j.putChild nm c = some j1) :
    j1.putChild nm c' = j.putChild nm c' := by
  cases j <;> cases nm <;> simp only [J.putChild] at h <;> try (simp at h; done)
  case obj.key es k =>
    split at h
    · rename_i hs
      simp only [Option.some.injEq] at h; subst h
      simp [J.putChild, kvsSet_lookup_self, kvsSet_kvsSet, hs]
    · simp at h
  case arr.idx xs i =>
    cases hp : normIndex xs.length i with
    | none => simp [hp] at h
    | some p =>
      simp only [hp, Option.map_some, Option.some.injEq] at h; subst h
      simp [J.putChild, hp]

theorem setName_none_indep (j : J) (nm : Name) (e c : J) (h : j.setName nm e = none) : j.setName nm c = none := by
  cases j <;> cases nm <;> simp only [J.setName] at h ⊢
  case obj.key es k => simp at h
  case arr.idx xs i =>
    cases hp : normIndex xs.length i with
    | some p => simp [hp] at h
    | none =>
      simp only [hp] at h ⊢
      by_cases hil : i = xs.length
      · simp [hil] at h
      · simp [hil]

theorem putChild_none_indep (j : J) (nm : Name) (e c : J) (h : j.putChild nm e = none) : j.putChild nm c = none := by
  cases j <;> cases nm <;> simp only [J.putChild] at h ⊢
  case obj.key es k =>
    by_cases hs : (es.lookup k).isSome = true
    · simp [hs] at h
    · simp [hs]
  case arr.idx xs i =>
    cases hp : normIndex xs.length i with
    | some p => simp [hp] at h
    | none => simp

theorem walk_emptyFor (nm n2 : Name) (l : List Name) : walk J.view (emptyFor nm) (n2 :: l) = none := by
  cases nm <;> cases n2 <;> simp [walk, emptyFor, childAt, J.view, getPy?]

/-- when a level is missing, cascading first creates the missing levels down to an empty
container for the last name, then assigns in it -/
theorem cascade_snoc_missing : ∀ (ns : List Name) (j : J) (nm : Name) (v : J), ns ≠ [] →
    walk J.view j ns = none →
    J.cascadeAt j (ns ++ [nm]) v = (J.cascadeAt j ns (emptyFor nm)).bind (fun j1 => J.setAt j1 ns nm v)
  | [], _, _, _, hne, _ => absurd rfl hne
  | [n1], j, nm, v, _, hw => by
    simp only [walk] at hw
    cases hc : childAt (J.view j) n1 with
    | some c1 => simp [hc] at hw
    | none =>
      simp only [List.cons_append, List.nil_append, cascadeAt_cons_cons, hc, J.cascadeAt]
      cases h1 : j.setName n1 (emptyFor nm) with
      | none =>
        -- the level cannot be created: the same failure for any value
        simp only [Option.bind_none]
        cases h2 : (emptyFor nm).setName nm v with
        | none => rfl
        | some c' =>
          simp only []; exact setName_none_indep j n1 _ c' h1
      | some j1 =>
        simp only [Option.bind_some, J.setAt, J.updateAt, childAt_setName j j1 n1 _ h1]
        cases h2 : (emptyFor nm).setName nm v with
        | none => rfl
        | some c' => simp only []; rw [putChild_setName j j1 n1 _ c' h1]
  | n1 :: n2 :: ns', j, nm, v, _, hw => by
    simp only [List.cons_append, cascadeAt_cons_cons]
    simp only [walk] at hw
    cases hc : childAt (J.view j) n1 with
    | none =>
      simp only []
      have ih := cascade_snoc_missing (n2 :: ns') (emptyFor n2) nm v (by simp) (walk_emptyFor n2 n2 ns')
      simp only [List.cons_append] at ih
      rw [ih]
      cases h1 : J.cascadeAt (emptyFor n2) (n2 :: ns') (emptyFor nm) with
      | none => simp
      | some e1 =>
        simp only [Option.bind_some]
        cases h2 : j.setName n1 e1 with
        | none =>
          simp only [Option.bind_none]
          cases h3 : J.setAt e1 (n2 :: ns') nm v with
          | none => rfl
          | some c' =>
            simp only []; exact setName_none_indep j n1 _ c' h2
        | some j1 =>
          simp only [Option.bind_some]
          rw [show J.setAt j1 (n1 :: n2 :: ns') nm v =
            (match J.setAt e1 (n2 :: ns') nm v with | none => none | some c' => j1.putChild n1 c') from by
              simp only [J.setAt, J.updateAt, childAt_setName j j1 n1 e1 h2]
              cases childAt e1.view n2 with
              | none => rfl
              | some c2 => simp only []; cases J.updateAt (fun c => c.setName nm v) c2 ns' with
                | none => rfl
                | some c3 => simp only []; cases e1.putChild n2 c3 <;> rfl]
          cases h3 : J.setAt e1 (n2 :: ns') nm v with
          | none => rfl
          | some c' => simp only []; rw [putChild_setName j j1 n1 e1 c' h2]
    | some c1 =>
      simp only [hc] at hw
      simp only []
      have ih := cascade_snoc_missing (n2 :: ns') c1 nm v (by simp) hw
      simp only [List.cons_append] at ih
      rw [ih]
      cases h1 : J.cascadeAt c1 (n2 :: ns') (emptyFor nm) with
      | none => simp
      | some e1 =>
        simp only [Option.bind_some]
        cases h2 : j.putChild n1 e1 with
        | none =>
          simp only [Option.bind_none]
          cases h3 : J.setAt e1 (n2 :: ns') nm v with
          | none => rfl
          | some c' =>
            simp only []; exact putChild_none_indep j n1 _ c' h2
        | some j1 =>
          simp only [Option.bind_some]
          rw [show J.setAt j1 (n1 :: n2 :: ns') nm v =
            (match J.setAt e1 (n2 :: ns') nm v with | none => none | some c' => j1.putChild n1 c') from by
              simp only [J.setAt, J.updateAt, childAt_putChild j j1 n1 e1 h2]
              cases childAt e1.view n2 with
              | none => rfl
              | some c2 => simp only []; cases J.updateAt (fun c => c.setName nm v) c2 ns' with
                | none => rfl
                | some c3 => simp only []; cases e1.putChild n2 c3 <;> rfl]
          cases h3 : J.setAt e1 (n2 :: ns') nm v with
          | none => rfl
          | some c' => simp only []; rw [putChild_putChild j j1 n1 e1 c' h2]

/-! ### a path of keys and indices, evaluated by the definition, is a walk -/

theorem evalE_names : ∀ (names : List Name) (n : MNode J),
    (∀ d, walk J.view n.data names = some d →
      ∃ m, evalE (names.map nameStep) n = ([m], none) ∧ m.loc = n.loc ++ names ∧ m.data = d) ∧
    (walk J.view n.data names = none → evalE (names.map nameStep) n = ([], none))
  | [], n => by simp [walk, evalE]
  | nm :: rest, n => by
    cases hc : childAt (J.view n.data) nm with
    | none =>
      refine ⟨fun d hw => by simp [walk, hc] at hw, fun _ => ?_⟩
      cases nm with
      | key k =>
        cases hd : n.data <;> simp only [childAt, J.view, hd] at hc <;>
          simp [nameStep, evalE, evalStep, Step.cls, singleOf, J.view, hd, hc, seqFlat]
      | idx i =>
        cases hd : n.data <;> simp only [childAt, J.view, hd] at hc <;>
          simp [nameStep, evalE, evalStep, Step.cls, singleOf, J.view, hd, hc, seqFlat]
    | some c =>
      have hstep : evalE (nameStep nm :: rest.map nameStep) n = evalE (rest.map nameStep) (.child n nm c) := by
        cases nm with
        | key k =>
          cases hd : n.data <;> simp only [childAt, J.view, hd] at hc <;> try (simp at hc; done)
          simp only [nameStep, evalE, evalStep, Step.cls, singleOf, J.view, hd, hc, seqFlat, Option.map_some, Option.toList_some, List.nil_append, List.append_nil]
          generalize evalE (List.map nameStep rest) _ = r
          rcases r with ⟨out, _ | e⟩ <;> simp
        | idx i =>
          cases hd : n.data <;> simp only [childAt, J.view, hd] at hc <;> try (simp at hc; done)
          simp only [nameStep, evalE, evalStep, Step.cls, singleOf, J.view, hd, hc, seqFlat, Option.map_some, Option.toList_some, List.nil_append, List.append_nil]
          generalize evalE (List.map nameStep rest) _ = r
          rcases r with ⟨out, _ | e⟩ <;> simp
      obtain ⟨ih1, ih2⟩ := evalE_names rest (.child n nm c)
      simp only [List.map_cons, hstep, walk, hc]
      refine ⟨fun d hw => ?_, fun hw => ih2 hw⟩
      obtain ⟨m, e1, e2, e3⟩ := ih1 d hw
      exact ⟨m, e1, by simp [e2, MNode.loc], e3⟩


/-- an entry's footprint is duplicate-free when the container's is -/
theorem nodup_of_get (h : Heap) : ∀ (ys : List J) (xs : List Val) (p : Nat) (c : Val) (jc : J),
    (fpList h ys xs).Nodup → UnfListJ h ys xs → xs[p]? = some c → UnfJ h jc c → ys[p]? = some jc → (fpJ h jc c).Nodup
  | j :: ys, v :: xs, 0, c, jc, hn, _, hp, _, hy => by
    simp only [List.getElem?_cons_zero, Option.some.injEq] at hp hy
    subst hp; subst hy
    simp only [fpList, List.nodup_append] at hn
    exact hn.1
  | j :: ys, v :: xs, p+1, c, jc, hn, hu, hp, hc, hy => by
    simp only [List.getElem?_cons_succ] at hp hy
    simp only [fpList, List.nodup_append] at hn
    simp only [UnfListJ] at hu
    exact nodup_of_get h ys xs p c jc hn.2.1 hu.2 hp hc hy
  | [], [], _, _, _, _, _, hp, _, _ => by simp at hp
  | [], _ :: _, _, _, _, _, hu, _, _, _ => by simp [UnfListJ] at hu
  | _ :: _, [], _, _, _, _, hu, _, _, _ => by simp [UnfListJ] at hu

/-! ### writes to one object, seen from the rest of the store -/

theorem hview_agree {h h' : Heap} {rid : Nat} (hag : h'[rid]? = h[rid]?) : hview h' (.ref rid) = hview h (.ref rid) := by
  simp [hview, hag]

/-- a walk that ends at object `id` only passes through other objects: it is the same walk in
any store that differs from `h` at `id` only -/
theorem walk_frame (h h' : Heap) (id : Nat) (hag : ∀ x, x ≠ id → h'[x]? = h[x]?) :
    ∀ (loc : List Name) (root : Val) (j : J), UnfJ h j root → (fpJ h j root).Nodup →
      walk (hview h) root loc = some (.ref id) → walk (hview h') root loc = some (.ref id)
  | [], root, j, _, _, hw => by simpa [walk] using hw
  | nm :: l, root, j, hu, hnd, hw => by
    simp only [walk] at hw ⊢
    cases hc : childAt (hview h root) nm with
    | none => simp [hc] at hw
    | some c =>
      simp only [hc] at hw
      cases root with
      | atom a => cases nm <;> simp [childAt, hview] at hc
      | ref rid =>
        cases j with
        | obj kvs =>
          simp only [UnfJ] at hu
          obtain ⟨es, ho, hkv⟩ := hu
          obtain ⟨hkeys, hul⟩ := (unfKvs_iff h kvs es).mp hkv
          have hc0 := hc
          rw [hview_ref_dict ho] at hc
          cases nm with
          | idx i => simp [childAt] at hc
          | key k =>
            simp only [childAt] at hc
            obtain ⟨p, _, p1, _⟩ := kvs_pos kvs es k c hkeys hc
            obtain ⟨jc, gy, g2, g3⟩ := unfList_get hul p1
            simp only [fpJ, ho, fpKvs_eq, List.nodup_cons] at hnd
            have hid := g3 id (walk_mem_fp h id l c jc g2 hw)
            have hne : rid ≠ id := fun e => hnd.1 (e ▸ hid)
            rw [hview_agree (hag rid hne), hc0]
            have hsub : (fpJ h jc c).Nodup := nodup_of_get h _ _ p c jc hnd.2 hul p1 g2 gy
            exact walk_frame h h' id hag l c jc g2 hsub hw
        | arr ys =>
          simp only [UnfJ] at hu
          obtain ⟨xs, ho, hul⟩ := hu
          have hc0 := hc
          rw [hview_ref_list ho] at hc
          cases nm with
          | key k => simp [childAt] at hc
          | idx i =>
            simp only [childAt, getPy?_eq_norm] at hc
            cases hni : normIndex xs.length i with
            | none => simp [hni] at hc
            | some p =>
              simp only [hni, Option.bind_some] at hc
              obtain ⟨jc, gy, g2, g3⟩ := unfList_get hul hc
              simp only [fpJ, ho, List.nodup_cons] at hnd
              have hid := g3 id (walk_mem_fp h id l c jc g2 hw)
              have hne : rid ≠ id := fun e => hnd.1 (e ▸ hid)
              rw [hview_agree (hag rid hne), hc0]
              exact walk_frame h h' id hag l c jc g2 (nodup_of_get h ys xs p c jc hnd.2 hul hc g2 gy) hw
        | null => simp [UnfJ] at hu
        | bool b => simp [UnfJ] at hu
        | int n => simp [UnfJ] at hu
        | half n => simp [UnfJ] at hu
        | str s => simp [UnfJ] at hu

end Treepath
