import Treepath.Proofs.RefoldApi
import Treepath.Proofs.RoundTrip
/-
`set_(p, v, doc, cascade=True)` on a path of keys and indices, as a function on the JSON tree
(`J.cascadeAt`), and the refinement of the store model to it.
-/
namespace Treepath

/-! ### the tree side -/

theorem cascadeAt_cons_cons (j : J) (nm nm2 : Name) (rest : List Name) (v : J) :
    J.cascadeAt j (nm :: nm2 :: rest) v =
      match childAt (J.view j) nm with
      | none => (match J.cascadeAt (emptyFor nm2) (nm2 :: rest) v with | none => none | some c' => j.setName nm c')
      | some c => (match J.cascadeAt c (nm2 :: rest) v with | none => none | some c' => j.putChild nm c') := by
  rfl

/-- when every level exists, cascading is the plain assignment -/
theorem cascade_snoc_found : ∀ (ns : List Name) (j : J) (nm : Name) (v : J) (c : J),
    walk J.view j ns = some c → J.cascadeAt j (ns ++ [nm]) v = J.setAt j ns nm v
  | [], j, nm, v, c, _ => by simp [J.cascadeAt, J.setAt, J.updateAt]
  | n1 :: ns, j, nm, v, c, hw => by
    simp only [walk] at hw
    cases hc : childAt (J.view j) n1 with
    | none => simp [hc] at hw
    | some c1 =>
      simp only [hc] at hw
      have ih := cascade_snoc_found ns c1 nm v c hw
      cases ns with
      | nil =>
        simp only [List.nil_append] at ih ⊢
        simp only [List.cons_append, List.nil_append, cascadeAt_cons_cons, hc, ih, J.setAt, J.updateAt]
        cases c1.setName nm v <;> rfl
      | cons n2 ns' =>
        simp only [List.cons_append] at ih ⊢
        simp only [cascadeAt_cons_cons, hc, ih, J.setAt, J.updateAt]
        cases childAt c1.view n2 with
        | none => rfl
        | some c2 => simp only []; cases J.updateAt (fun c => c.setName nm v) c2 ns' with
          | none => rfl
          | some c3 => simp only []; cases c1.putChild n2 c3 <;> rfl

/-! ### assigning twice at one name -/

theorem kvsSet_lookup_self (es : List (String × J)) (k : String) (v : J) : (kvsSet es k v).lookup k = some v := by
  induction es with
  | nil => simp [kvsSet, List.lookup]
  | cons e es ih =>
    obtain ⟨k', v'⟩ := e
    by_cases h : k' = k
    · subst h; simp [kvsSet, List.lookup]
    · have hb : (k == k') = false := by simp [Ne.symm h]
      simp [kvsSet, h, List.lookup, hb, ih]

theorem kvsSet_kvsSet (es : List (String × J)) (k : String) (v w : J) : kvsSet (kvsSet es k v) k w = kvsSet es k w := by
  induction es with
  | nil => simp [kvsSet]
  | cons e es ih =>
    obtain ⟨k', v'⟩ := e
    by_cases h : k' = k
    · subst h; simp [kvsSet]
    · simp [kvsSet, h, ih]

theorem normIndex_self_len (n : Nat) : normIndex (n+1) (n : Int) = some n := by
  simp [normIndex]

theorem childAt_setName (j j1 : J) (nm : Name) (e : J) (h : j.setName nm e = some j1) :
    childAt (J.view j1) nm = some e := by
  cases j <;> cases nm <;> simp only [J.setName] at h <;> try (simp at h; done)
  case obj.key es k =>
    simp only [Option.some.injEq] at h; subst h
    simp [childAt, J.view, kvsSet_lookup_self]
  case arr.idx xs i =>
    split at h
    · rename_i p hp
      simp only [Option.some.injEq] at h; subst h
      have hlt := normIndex_lt _ _ _ hp
      simp [childAt, J.view, getPy?_eq_norm, hp, hlt]
    · split at h
      · rename_i hil
        simp only [Option.some.injEq] at h; subst h
        subst hil
        simp [childAt, J.view, getPy?_eq_norm, normIndex_self_len]
      · simp at h

theorem putChild_setName (j j1 : J) (nm : Name) (e c : J) (h : j.setName nm e = some j1) :
    j1.putChild nm c = j.setName nm c := by
  cases j <;> cases nm <;> simp only [J.setName] at h <;> try (simp at h; done)
  case obj.key es k =>
    simp only [Option.some.injEq] at h; subst h
    simp [J.putChild, J.setName, kvsSet_lookup_self, kvsSet_kvsSet]
  case arr.idx xs i =>
    split at h
    · rename_i p hp
      simp only [Option.some.injEq] at h; subst h
      simp [J.putChild, J.setName, hp]
    · rename_i hn
      split at h
      · rename_i hil
        simp only [Option.some.injEq] at h; subst h
        subst hil
        simp [J.putChild, J.setName, hn, normIndex_self_len]
      · simp at h

theorem childAt_putChild (j j1 : J) (nm : Name) (c : J) (h : j.putChild nm c = some j1) :
    childAt (J.view j1) nm = some c := by
  cases j <;> cases nm <;> simp only [J.putChild] at h <;> try (simp at h; done)
  case obj.key es k =>
    split at h
    · simp only [Option.some.injEq] at h; subst h
      simp [childAt, J.view, kvsSet_lookup_self]
    · simp at h
  case arr.idx xs i =>
    cases hp : normIndex xs.length i with
    | none => simp [hp] at h
    | some p =>
      simp only [hp, Option.map_some, Option.some.injEq] at h; subst h
      have hlt := normIndex_lt _ _ _ hp
      simp [childAt, J.view, getPy?_eq_norm, hp, hlt]

theorem putChild_putChild (j j1 : J) (nm : Name) (c c' : J) (h : j.putChild nm c = some j1) :
    j1.putChild nm c' = j.putChild nm c' := by
  cases j <;> cases nm <;> simp only [J.putChild] at h <;> try (simp at h; done)
  case obj.key es k =>
    split at h
    · rename_i hs
      simp only [Option.some.injEq] at h; subst h
      simp [J.putChild, kvsSet_lookup_self, kvsSet_kvsSet, hs]
    · simp at h
  case arr.idx xs i =>
    cases hp : normIndex xs.length i with
    | none => simp [hp] at h
    | some p =>
      simp only [hp, Option.map_some, Option.some.injEq] at h; subst h
      simp [J.putChild, hp]

theorem setName_none_indep (j : J) (nm : Name) (e c : J) (h : j.setName nm e = none) : j.setName nm c = none := by
  cases j <;> cases nm <;> simp only [J.setName] at h ⊢
  case obj.key es k => simp at h
  case arr.idx xs i =>
    cases hp : normIndex xs.length i with
    | some p => simp [hp] at h
    | none =>
      simp only [hp] at h ⊢
      by_cases hil : i = xs.length
      · simp [hil] at h
      · simp [hil]

theorem putChild_none_indep (j : J) (nm : Name) (e c : J) (h : j.putChild nm e = none) : j.putChild nm c = none := by
  cases j <;> cases nm <;> simp only [J.putChild] at h ⊢
  case obj.key es k =>
    by_cases hs : (es.lookup k).isSome = true
    · simp [hs] at h
    · simp [hs]
  case arr.idx xs i =>
    cases hp : normIndex xs.length i with
    | some p => simp [hp] at h
    | none => simp

theorem walk_emptyFor (nm n2 : Name) (l : List Name) : walk J.view (emptyFor nm) (n2 :: l) = none := by
  cases nm <;> cases n2 <;> simp [walk, emptyFor, childAt, J.view, getPy?]

/-- when a level is missing, cascading first creates the missing levels down to an empty
container for the last name, then assigns in it -/
theorem cascade_snoc_missing : ∀ (ns : List Name) (j : J) (nm : Name) (v : J), ns ≠ [] →
    walk J.view j ns = none →
    J.cascadeAt j (ns ++ [nm]) v = (J.cascadeAt j ns (emptyFor nm)).bind (fun j1 => J.setAt j1 ns nm v)
  | [], _, _, _, hne, _ => absurd rfl hne
  | [n1], j, nm, v, _, hw => by
    simp only [walk] at hw
    cases hc : childAt (J.view j) n1 with
    | some c1 => simp [hc] at hw
    | none =>
      simp only [List.cons_append, List.nil_append, cascadeAt_cons_cons, hc, J.cascadeAt]
      cases h1 : j.setName n1 (emptyFor nm) with
      | none =>
        -- the level cannot be created: the same failure for any value
        simp only [Option.bind_none]
        cases h2 : (emptyFor nm).setName nm v with
        | none => rfl
        | some c' =>
          simp only []; exact setName_none_indep j n1 _ c' h1
      | some j1 =>
        simp only [Option.bind_some, J.setAt, J.updateAt, childAt_setName j j1 n1 _ h1]
        cases h2 : (emptyFor nm).setName nm v with
        | none => rfl
        | some c' => simp only []; rw [putChild_setName j j1 n1 _ c' h1]
  | n1 :: n2 :: ns', j, nm, v, _, hw => by
    simp only [List.cons_append, cascadeAt_cons_cons]
    simp only [walk] at hw
    cases hc : childAt (J.view j) n1 with
    | none =>
      simp only []
      have ih := cascade_snoc_missing (n2 :: ns') (emptyFor n2) nm v (by simp) (walk_emptyFor n2 n2 ns')
      simp only [List.cons_append] at ih
      rw [ih]
      cases h1 : J.cascadeAt (emptyFor n2) (n2 :: ns') (emptyFor nm) with
      | none => simp
      | some e1 =>
        simp only [Option.bind_some]
        cases h2 : j.setName n1 e1 with
        | none =>
          simp only [Option.bind_none]
          cases h3 : J.setAt e1 (n2 :: ns') nm v with
          | none => rfl
          | some c' =>
            simp only []; exact setName_none_indep j n1 _ c' h2
        | some j1 =>
          simp only [Option.bind_some]
          rw [show J.setAt j1 (n1 :: n2 :: ns') nm v =
            (match J.setAt e1 (n2 :: ns') nm v with | none => none | some c' => j1.putChild n1 c') from by
              simp only [J.setAt, J.updateAt, childAt_setName j j1 n1 e1 h2]
              cases childAt e1.view n2 with
              | none => rfl
              | some c2 => simp only []; cases J.updateAt (fun c => c.setName nm v) c2 ns' with
                | none => rfl
                | some c3 => simp only []; cases e1.putChild n2 c3 <;> rfl]
          cases h3 : J.setAt e1 (n2 :: ns') nm v with
          | none => rfl
          | some c' => simp only []; rw [putChild_setName j j1 n1 e1 c' h2]
    | some c1 =>
      simp only [hc] at hw
      simp only []
      have ih := cascade_snoc_missing (n2 :: ns') c1 nm v (by simp) hw
      simp only [List.cons_append] at ih
      rw [ih]
      cases h1 : J.cascadeAt c1 (n2 :: ns') (emptyFor nm) with
      | none => simp
      | some e1 =>
        simp only [Option.bind_some]
        cases h2 : j.putChild n1 e1 with
        | none =>
          simp only [Option.bind_none]
          cases h3 : J.setAt e1 (n2 :: ns') nm v with
          | none => rfl
          | some c' =>
            simp only []; exact putChild_none_indep j n1 _ c' h2
        | some j1 =>
          simp only [Option.bind_some]
          rw [show J.setAt j1 (n1 :: n2 :: ns') nm v =
            (match J.setAt e1 (n2 :: ns') nm v with | none => none | some c' => j1.putChild n1 c') from by
              simp only [J.setAt, J.updateAt, childAt_putChild j j1 n1 e1 h2]
              cases childAt e1.view n2 with
              | none => rfl
              | some c2 => simp only []; cases J.updateAt (fun c => c.setName nm v) c2 ns' with
                | none => rfl
                | some c3 => simp only []; cases e1.putChild n2 c3 <;> rfl]
          cases h3 : J.setAt e1 (n2 :: ns') nm v with
          | none => rfl
          | some c' => simp only []; rw [putChild_putChild j j1 n1 e1 c' h2]

/-! ### a path of keys and indices, evaluated by the definition, is a walk -/

theorem evalE_names : ∀ (names : List Name) (n : MNode J),
    (∀ d, walk J.view n.data names = some d →
      ∃ m, evalE (names.map nameStep) n = ([m], none) ∧ m.loc = n.loc ++ names ∧ m.data = d) ∧
    (walk J.view n.data names = none → evalE (names.map nameStep) n = ([], none))
  | [], n => by simp [walk, evalE]
  | nm :: rest, n => by
    cases hc : childAt (J.view n.data) nm with
    | none =>
      refine ⟨fun d hw => by simp [walk, hc] at hw, fun _ => ?_⟩
      cases nm with
      | key k =>
        cases hd : n.data <;> simp only [childAt, J.view, hd] at hc <;>
          simp [nameStep, evalE, evalStep, Step.cls, singleOf, J.view, hd, hc, seqFlat]
      | idx i =>
        cases hd : n.data <;> simp only [childAt, J.view, hd] at hc <;>
          simp [nameStep, evalE, evalStep, Step.cls, singleOf, J.view, hd, hc, seqFlat]
    | some c =>
      have hstep : evalE (nameStep nm :: rest.map nameStep) n = evalE (rest.map nameStep) (.child n nm c) := by
        cases nm with
        | key k =>
          cases hd : n.data <;> simp only [childAt, J.view, hd] at hc <;> try (simp at hc; done)
          simp only [nameStep, evalE, evalStep, Step.cls, singleOf, J.view, hd, hc, seqFlat, Option.map_some, Option.toList_some, List.nil_append, List.append_nil]
          generalize evalE (List.map nameStep rest) _ = r
          rcases r with ⟨out, _ | e⟩ <;> simp
        | idx i =>
          cases hd : n.data <;> simp only [childAt, J.view, hd] at hc <;> try (simp at hc; done)
          simp only [nameStep, evalE, evalStep, Step.cls, singleOf, J.view, hd, hc, seqFlat, Option.map_some, Option.toList_some, List.nil_append, List.append_nil]
          generalize evalE (List.map nameStep rest) _ = r
          rcases r with ⟨out, _ | e⟩ <;> simp
      obtain ⟨ih1, ih2⟩ := evalE_names rest (.child n nm c)
      simp only [List.map_cons, hstep, walk, hc]
      refine ⟨fun d hw => ?_, fun hw => ih2 hw⟩
      obtain ⟨m, e1, e2, e3⟩ := ih1 d hw
      exact ⟨m, e1, by simp [e2, MNode.loc], e3⟩


/-- an entry's footprint is duplicate-free when the container's is -/
theorem nodup_of_get (h : Heap) : ∀ (ys : List J) (xs : List Val) (p : Nat) (c : Val) (jc : J),
    (fpList h ys xs).Nodup → UnfListJ h ys xs → xs[p]? = some c → UnfJ h jc c → ys[p]? = some jc → (fpJ h jc c).Nodup
  | j :: ys, v :: xs, 0, c, jc, hn, _, hp, _, hy => by
    simp only [List.getElem?_cons_zero, Option.some.injEq] at hp hy
    subst hp; subst hy
    simp only [fpList, List.nodup_append] at hn
    exact hn.1
  | j :: ys, v :: xs, p+1, c, jc, hn, hu, hp, hc, hy => by
    simp only [List.getElem?_cons_succ] at hp hy
    simp only [fpList, List.nodup_append] at hn
    simp only [UnfListJ] at hu
    exact nodup_of_get h ys xs p c jc hn.2.1 hu.2 hp hc hy
  | [], [], _, _, _, _, _, hp, _, _ => by simp at hp
  | [], _ :: _, _, _, _, _, hu, _, _, _ => by simp [UnfListJ] at hu
  | _ :: _, [], _, _, _, _, hu, _, _, _ => by simp [UnfListJ] at hu

/-! ### writes to one object, seen from the rest of the store -/

theorem hview_agree {h h' : Heap} {rid : Nat} (hag : h'[rid]? = h[rid]?) : hview h' (.ref rid) = hview h (.ref rid) := by
  simp [hview, hag]

/-- a walk that ends at object `id` only passes through other objects: it is the same walk in
any store that differs from `h` at `id` only -/
theorem walk_frame (h h' : Heap) (id : Nat) (hag : ∀ x, x ≠ id → h'[x]? = h[x]?) :
    ∀ (loc : List Name) (root : Val) (j : J), UnfJ h j root → (fpJ h j root).Nodup →
      walk (hview h) root loc = some (.ref id) → walk (hview h') root loc = some (.ref id)
  | [], root, j, _, _, hw => by simpa [walk] using hw
  | nm :: l, root, j, hu, hnd, hw => by
    simp only [walk] at hw ⊢
    cases hc : childAt (hview h root) nm with
    | none => simp [hc] at hw
    | some c =>
      simp only [hc] at hw
      cases root with
      | atom a => cases nm <;> simp [childAt, hview] at hc
      | ref rid =>
        cases j with
        | obj kvs =>
          simp only [UnfJ] at hu
          obtain ⟨es, ho, hkv⟩ := hu
          obtain ⟨hkeys, hul⟩ := (unfKvs_iff h kvs es).mp hkv
          have hc0 := hc
          rw [hview_ref_dict ho] at hc
          cases nm with
          | idx i => simp [childAt] at hc
          | key k =>
            simp only [childAt] at hc
            obtain ⟨p, _, p1, _⟩ := kvs_pos kvs es k c hkeys hc
            obtain ⟨jc, gy, g2, g3⟩ := unfList_get hul p1
            simp only [fpJ, ho, fpKvs_eq, List.nodup_cons] at hnd
            have hid := g3 id (walk_mem_fp h id l c jc g2 hw)
            have hne : rid ≠ id := fun e => hnd.1 (e ▸ hid)
            rw [hview_agree (hag rid hne), hc0]
            have hsub : (fpJ h jc c).Nodup := nodup_of_get h _ _ p c jc hnd.2 hul p1 g2 gy
            exact walk_frame h h' id hag l c jc g2 hsub hw
        | arr ys =>
          simp only [UnfJ] at hu
          obtain ⟨xs, ho, hul⟩ := hu
          have hc0 := hc
          rw [hview_ref_list ho] at hc
          cases nm with
          | key k => simp [childAt] at hc
          | idx i =>
            simp only [childAt, getPy?_eq_norm] at hc
            cases hni : normIndex xs.length i with
            | none => simp [hni] at hc
            | some p =>
              simp only [hni, Option.bind_some] at hc
              obtain ⟨jc, gy, g2, g3⟩ := unfList_get hul hc
              simp only [fpJ, ho, List.nodup_cons] at hnd
              have hid := g3 id (walk_mem_fp h id l c jc g2 hw)
              have hne : rid ≠ id := fun e => hnd.1 (e ▸ hid)
              rw [hview_agree (hag rid hne), hc0]
              exact walk_frame h h' id hag l c jc g2 (nodup_of_get h ys xs p c jc hnd.2 hul hc g2 gy) hw
        | null => simp [UnfJ] at hu
        | bool b => simp [UnfJ] at hu
        | int n => simp [UnfJ] at hu
        | half n => simp [UnfJ] at hu
        | str s => simp [UnfJ] at hu

mutual
theorem unf_frame_gen (h h' : Heap) (id : Nat) (hag : ∀ x, x ≠ id → h'[x]? = h[x]?) : ∀ (j : J) (v : Val),
    UnfJ h j v → id ∉ fpJ h j v → UnfJ h' j v ∧ fpJ h' j v = fpJ h j v
  | .obj kvs, .ref rid, hu, hn => by
    simp only [UnfJ] at hu
    obtain ⟨es, h1, h2⟩ := hu
    simp only [fpJ, h1, List.mem_cons, not_or] at hn
    have hne : rid ≠ id := fun e => hn.1 e.symm
    obtain ⟨q1, q2⟩ := unfKvs_frame_gen h h' id hag kvs es h2 hn.2
    have hg : h'[rid]? = some (.dict es) := by rw [hag rid hne]; exact h1
    exact ⟨by simp only [UnfJ]; exact ⟨es, hg, q1⟩, by simp only [fpJ, hg, h1, q2]⟩
  | .arr ys, .ref rid, hu, hn => by
    simp only [UnfJ] at hu
    obtain ⟨xs, h1, h2⟩ := hu
    simp only [fpJ, h1, List.mem_cons, not_or] at hn
    have hne : rid ≠ id := fun e => hn.1 e.symm
    obtain ⟨q1, q2⟩ := unfList_frame_gen h h' id hag ys xs h2 hn.2
    have hg : h'[rid]? = some (.list xs) := by rw [hag rid hne]; exact h1
    exact ⟨by simp only [UnfJ]; exact ⟨xs, hg, q1⟩, by simp only [fpJ, hg, h1, q2]⟩
  | .obj _, .atom _, hu, _ => by simp [UnfJ] at hu
  | .arr _, .atom _, hu, _ => by simp [UnfJ] at hu
  | .null, v, hu, _ => ⟨by simpa [UnfJ] using hu, by simp [fpJ]⟩
  | .bool _, v, hu, _ => ⟨by simpa [UnfJ] using hu, by simp [fpJ]⟩
  | .int _, v, hu, _ => ⟨by simpa [UnfJ] using hu, by simp [fpJ]⟩
  | .half _, v, hu, _ => ⟨by simpa [UnfJ] using hu, by simp [fpJ]⟩
  | .str _, v, hu, _ => ⟨by simpa [UnfJ] using hu, by simp [fpJ]⟩
theorem unfKvs_frame_gen (h h' : Heap) (id : Nat) (hag : ∀ x, x ≠ id → h'[x]? = h[x]?) :
    ∀ (kvs : List (String × J)) (es : List (String × Val)), UnfKvsJ h kvs es → id ∉ fpKvs h kvs es →
    UnfKvsJ h' kvs es ∧ fpKvs h' kvs es = fpKvs h kvs es
  | [], [], _, _ => by simp [UnfKvsJ, fpKvs]
  | (k, j) :: kvs, (k', v) :: es, hu, hn => by
    simp only [UnfKvsJ] at hu
    simp only [fpKvs, List.mem_append, not_or] at hn
    obtain ⟨q1, q2⟩ := unf_frame_gen h h' id hag j v hu.2.1 hn.1
    obtain ⟨q3, q4⟩ := unfKvs_frame_gen h h' id hag kvs es hu.2.2 hn.2
    exact ⟨by simp only [UnfKvsJ]; exact ⟨hu.1, q1, q3⟩, by simp only [fpKvs, q2, q4]⟩
  | [], _ :: _, hu, _ => by simp [UnfKvsJ] at hu
  | _ :: _, [], hu, _ => by simp [UnfKvsJ] at hu
theorem unfList_frame_gen (h h' : Heap) (id : Nat) (hag : ∀ x, x ≠ id → h'[x]? = h[x]?) :
    ∀ (ys : List J) (xs : List Val), UnfListJ h ys xs → id ∉ fpList h ys xs →
    UnfListJ h' ys xs ∧ fpList h' ys xs = fpList h ys xs
  | [], [], _, _ => by simp [UnfListJ, fpList]
  | j :: ys, v :: xs, hu, hn => by
    simp only [UnfListJ] at hu
    simp only [fpList, List.mem_append, not_or] at hn
    obtain ⟨q1, q2⟩ := unf_frame_gen h h' id hag j v hu.1 hn.1
    obtain ⟨q3, q4⟩ := unfList_frame_gen h h' id hag ys xs hu.2 hn.2
    exact ⟨by simp only [UnfListJ]; exact ⟨q1, q3⟩, by simp only [fpList, q2, q4]⟩
  | [], _ :: _, hu, _ => by simp [UnfListJ] at hu
  | _ :: _, [], hu, _ => by simp [UnfListJ] at hu
end

/-! ### searching a path of keys and indices in the store -/

theorem nameSteps_rel (h : Heap) : ∀ (names : List Name),
    LRel (StepRel (Unf h)) (names.map nameStepV) (names.map nameStep)
  | [] => .nil
  | nm :: rest => by
    cases nm with
    | key k => exact .cons (.key k) (nameSteps_rel h rest)
    | idx i => exact .cons (.idx i) (nameSteps_rel h rest)

theorem nameSteps_clean (names : List Name) : PredsClean (names.map nameStep).toArray := by
  intro s hs f hf
  simp only [List.toList_toArray, List.mem_map] at hs
  obtain ⟨nm, _, rfl⟩ := hs
  cases nm <;> simp [nameStep] at hf

/-- found: the match sits at exactly those names, and the tree has that location -/
theorem getMatch_names_found (h : Heap) (root : Val) (j : J) (names : List Name) (pm : MNode Val) (hu : UnfJ h j root)
    (hg : getMatch (wcx h) (names.map nameStepV).toArray (.doc root) true = .ok (some pm)) :
    pm.loc = names ∧ ∃ d, walk J.view j names = some d := by
  obtain ⟨pm', hrel, hhead⟩ := getMatch_heap_found h root j hu (names.map nameStepV).toArray (names.map nameStep).toArray
    (by simpa using nameSteps_rel h names) (nameSteps_clean names) true pm hg
  obtain ⟨e1, e2⟩ := evalE_names names (.root j)
  simp only [List.toList_toArray] at hhead
  cases hw : walk J.view j names with
  | none =>
    have := e2 (by simpa [MNode.data] using hw)
    rw [this] at hhead; simp at hhead
  | some d =>
    obtain ⟨m, q1, q2, _⟩ := e1 d (by simpa [MNode.data] using hw)
    rw [q1] at hhead
    simp only [List.head?_cons, Option.some.injEq] at hhead
    subst hhead
    exact ⟨by rw [hrel.loc, q2]; simp [MNode.loc], d, rfl⟩

/-- not found: the tree has no such location -/
theorem getMatch_names_notfound (h : Heap) (root : Val) (j : J) (names : List Name) (hu : UnfJ h j root)
    (hg : getMatch (wcx h) (names.map nameStepV).toArray (.doc root) true = .error .matchNotFound) :
    walk J.view j names = none := by
  have hev := getMatch_heap_notfound h root j hu (names.map nameStepV).toArray (names.map nameStep).toArray
    (by simpa using nameSteps_rel h names) (nameSteps_clean names) true (.inr hg)
  obtain ⟨e1, _⟩ := evalE_names names (.root j)
  simp only [List.toList_toArray] at hev
  cases hw : walk J.view j names with
  | none => rfl
  | some d =>
    obtain ⟨m, q1, _⟩ := e1 d (by simpa [MNode.data] using hw)
    rw [q1] at hev; simp at hev

/-! ### the refinement -/

theorem singleOf_name (view : Val → View Val) (nm : Name) (n : MNode Val) (d : Val)
    (h : singleOf view (nameStepV nm) n = some (.child n nm d)) : childAt (view n.data) nm = some d := by
  cases nm with
  | key k =>
    simp only [nameStepV, singleOf] at h
    split at h
    · rename_i es hv
      cases hl : es.lookup k with
      | none => simp [hl] at h
      | some x => simp only [hl, Option.map_some, Option.some.injEq, MNode.child.injEq, true_and] at h; simp [childAt, hv, hl, h]
    · simp at h
  | idx i =>
    simp only [nameStepV, singleOf] at h
    split at h
    · rename_i xs hv
      cases hl : getPy? xs i with
      | none => simp [hl] at h
      | some x => simp only [hl, Option.map_some, Option.some.injEq, MNode.child.injEq, true_and] at h; simp [childAt, hv, hl, h]
    · simp at h

/-- what a (cascading) assignment leaves behind -/
structure CascadeOut (root : Val) (h h' : Heap) (j j' jv : J) (v : Val) (m : MNode Val) (loc : List Name) : Prop where
  inv : DocInv h' root j'
  walk : walk (hview h') root m.loc = some m.data
  loc : m.loc = loc
  data : m.data = v
  bound : ∀ x ∈ fpJ h' j' root, x ∈ fpJ h j root ∨ x ∈ fpJ h jv v ∨ h.size ≤ x
  size : h.size ≤ h'.size
  frame : ∀ jw w, UnfJ h jw w → (∀ x ∈ fpJ h jw w, x ∉ fpJ h j root ∧ x ∉ fpJ h jv v) →
    UnfJ h' jw w ∧ fpJ h' jw w = fpJ h jw w

/-- one `vertex.set` at a located parent match -/
theorem vertexSet_out (root : Val) (h h' : Heap) (s : Step Val) (pm m : MNode Val) (v : Val) (j jv : J)
    (hi : DocInv h root j) (hv : UnfJ h jv v) (hvn : (fpJ h jv v).Nodup) (hfresh : ∀ x ∈ fpJ h jv v, x ∉ fpJ h j root)
    (hloc : walk (hview h) root pm.loc = some pm.data)
    (hs : vertexSet h s pm v = .ok (h', m)) :
    ∃ nm j', s = nameStepV nm ∧ J.setAt j pm.loc nm jv = some j' ∧ CascadeOut root h h' j j' jv v m (pm.loc ++ [nm]) := by
  obtain ⟨nm, j', e0, e1, e2, e3, e4, e5⟩ := vertexSet_refold h h' s pm m v root j jv hs hi.unf hi.sep hv hvn hfresh hloc
  obtain ⟨id, _, hpd, _, hsz, hag⟩ := vertexSet_frame h h' s pm m v hs
  have hrb := vertexSet_reads_back h h' s pm m v hs
  rw [e0, e1] at hrb
  have hchild := singleOf_name (hview h') nm pm v hrb
  rw [hpd] at hloc
  have hidroot := walk_mem_fp h id pm.loc root j hi.unf hloc
  have hw' := walk_frame h h' id hag pm.loc root j hi.unf hi.sep hloc
  refine ⟨nm, j', e0, e2, ⟨⟨e3, e4, vertexSet_wf hi.wf s pm m v hs⟩, ?_, by rw [e1]; rfl, by rw [e1]; rfl, ?_, by omega, ?_⟩⟩
  · rw [e1]
    simp only [MNode.loc, MNode.data, walk_append, hw', Option.bind_some, walk]
    rw [← hpd, hchild]
  · intro x hx
    rcases e5 x hx with h1 | h1
    · exact .inl h1
    · exact .inr (.inl h1)
  · intro jw w huw hdis
    exact unf_frame_gen h h' id hag jw w huw (fun hm => (hdis id hm).1 hidroot)

theorem take_succ_of_get {β} (l : List β) (n : Nat) (x : β) (h : l[n]? = some x) : l.take (n+1) = l.take n ++ [x] := by
  rw [List.take_succ, h]; rfl

/-- the container object `default_value_for_set` allocates in front of a name -/
def defObj : Name → Obj
  | .key _ => .dict []
  | .idx _ => .list []

theorem defaultValueFor_name (h : Heap) (nm : Name) :
    defaultValueFor h (nameStepV nm) = (h.push (defObj nm), .ref h.size) := by
  cases nm <;> rfl

theorem getMatch_doc_notfound {α : Type} (cx : Ctx α) (steps : Array (Step α)) (d : α) (mm : Bool) (e : ApiErr)
    (hg : getMatch cx steps (.doc d) mm = .error e) (hnf : isNotFound e = true) : e = .matchNotFound := by
  cases e <;> simp [isNotFound] at hnf
  · rfl
  · exfalso
    simp only [getMatch] at hg
    split at hg
    · simp at hg
    · split at hg
      · simp [Src.isNested] at hg
      · simp at hg
    · simp at hg
    · simp at hg

/-- **cascade on the tree**: a successful `set_match(p, v, doc, cascade=True)` along a path of
keys and indices makes the document — a tree `j` (`DocInv`) — unfold to `J.cascadeAt j p jv`:
existing levels reused, each missing level an empty dict (before a key) or list (before an
index), the value at the end; the result is again such a tree. -/
theorem cascade_refines (root : Val) (names : List Name) : ∀ (n : Nat) (h h' : Heap) (v : Val) (m : MNode Val) (j jv : J),
    n ≤ names.length → DocInv h root j → UnfJ h jv v → (fpJ h jv v).Nodup → (∀ x ∈ fpJ h jv v, x ∉ fpJ h j root) →
    setMatchN (fun _ => names.map nameStepV) (.doc root) true n h v = (h', .ok m) →
    ∃ j', J.cascadeAt j (names.take n) jv = some j' ∧ CascadeOut root h h' j j' jv v m (names.take n) := by
  intro n
  induction n with
  | zero => intro h h' v m j jv _ _ _ _ _ hset; simp [setMatchN] at hset
  | succ n ih =>
    intro h h' v m j jv hn hi hv hvn hfresh hset
    simp only [setMatchN] at hset
    have hlast : ∃ nmL, names[n]? = some nmL := by
      cases hx : names[n]? with
      | none => have := List.getElem?_eq_none_iff.mp hx; omega
      | some x => exact ⟨x, rfl⟩
    obtain ⟨nmL, hnm⟩ := hlast
    have hstep : (names.map nameStepV)[n]? = some (nameStepV nmL) := by simp [hnm]
    have htake : (names.map nameStepV).take n = (names.take n).map nameStepV := by simp [List.map_take]
    have htk := take_succ_of_get names n nmL hnm
    simp only [hstep, htake] at hset
    split at hset
    · -- the parent path has a match: plain assignment
      rename_i pm hg
      split at hset
      · rename_i h2 m2 hvs
        simp only [Prod.mk.injEq, Except.ok.injEq] at hset
        obtain ⟨rfl, rfl⟩ := hset
        obtain ⟨hploc, d, hwj⟩ := getMatch_names_found h root j (names.take n) pm hi.unf hg
        have hgen := getMatch_gen (wcx h) (heapwf_keysUniq hi.wf) _ root true pm hg
        have hw := gen_walk (hview h) root pm hgen
        obtain ⟨nm, j', e0, e1, out⟩ := vertexSet_out root h h2 _ pm m2 v j jv hi hv hvn hfresh hw hvs
        have hnmeq : nm = nmL := by cases nm <;> cases nmL <;> simp_all [nameStepV]
        subst hnmeq
        refine ⟨j', ?_, ?_⟩
        · rw [htk, cascade_snoc_found (names.take n) j nm jv d hwj, ← hploc]; exact e1
        · rw [htk, ← hploc]; exact out
      · simp at hset
    · simp at hset
    · -- no match
      rename_i e hg
      split at hset
      · rename_i hnf
        simp only [if_true] at hset
        -- the error is MatchNotFoundError: the tree has no such location, and the path is not empty
        have hnf' : getMatch (wcx h) ((names.take n).map nameStepV).toArray (.doc root) true = .error .matchNotFound := by
          rw [hg, getMatch_doc_notfound _ _ _ _ e hg hnf]
        have hwj := getMatch_names_notfound h root j (names.take n) hi.unf hnf'
        have hne : names.take n ≠ [] := by
          intro he
          rw [he] at hwj
          simp [walk] at hwj
        -- allocate the default container
        rw [defaultValueFor_name] at hset
        simp only at hset
        have hext : Ext h (h.push (defObj nmL)) := ext_push _ _
        have hi1 : DocInv (h.push (defObj nmL)) root j :=
          ⟨unf_mono _ _ hext j root hi.unf, by rw [fp_ext _ _ hext j root hi.unf]; exact hi.sep,
           heapwf_push hi.wf _ (fun es he => by cases nmL <;> simp [defObj] at he; subst he; simp)⟩
        have hfpr := fp_ext _ _ hext j root hi.unf
        have hdvu : UnfJ (h.push (defObj nmL)) (emptyFor nmL) (.ref h.size) := by
          cases nmL <;> simp [emptyFor, defObj, UnfJ, UnfKvsJ, UnfListJ]
        have hdvf : fpJ (h.push (defObj nmL)) (emptyFor nmL) (.ref h.size) = [h.size] := by
          cases nmL <;> simp [emptyFor, defObj, fpJ, fpKvs, fpList]
        rcases hrec : setMatchN (fun _ => names.map nameStepV) (.doc root) true n
            (h.push (defObj nmL)) (.ref h.size) with ⟨h2, r2⟩
        rw [hrec] at hset
        cases r2 with
        | error e2 => simp at hset
        | ok pm =>
          simp only at hset
          split at hset
          · rename_i h3 m3 hvs
            simp only [Prod.mk.injEq, Except.ok.injEq] at hset
            obtain ⟨rfl, rfl⟩ := hset
            obtain ⟨j1, c1, out1⟩ := ih _ h2 (.ref h.size) pm j (emptyFor nmL) (by omega) hi1 hdvu (by rw [hdvf]; simp)
              (by
                intro x hx hm
                rw [hdvf] at hx
                simp only [List.mem_singleton] at hx
                subst hx
                rw [hfpr] at hm
                exact Nat.lt_irrefl _ (fp_lt h j root hi.unf _ hm)) hrec
            -- the value, seen from the store after the recursive call
            have hv1 := unf_mono _ _ hext jv v hv
            have hfv1 := fp_ext _ _ hext jv v hv
            have hvlt : ∀ x ∈ fpJ h jv v, x < h.size := fp_lt h jv v hv
            obtain ⟨hv2, hfv2⟩ := out1.frame jv v hv1 (by
              intro x hx
              rw [hfv1] at hx
              refine ⟨by rw [hfpr]; exact hfresh x hx, ?_⟩
              rw [hdvf]; simp only [List.mem_singleton]
              exact Nat.ne_of_lt (hvlt x hx))
            have hfresh2 : ∀ x ∈ fpJ h2 jv v, x ∉ fpJ h2 j1 root := by
              intro x hx hm
              rw [hfv2, hfv1] at hx
              rcases out1.bound x hm with b | b | b
              · rw [hfpr] at b; exact hfresh x hx b
              · rw [hdvf] at b; simp only [List.mem_singleton] at b; exact Nat.ne_of_lt (hvlt x hx) b
              · simp only [Array.size_push] at b; have := hvlt x hx; omega
            obtain ⟨nm, j', e0, e1, out⟩ := vertexSet_out root h2 h3 _ pm m3 v j1 jv out1.inv hv2
              (by rw [hfv2, hfv1]; exact hvn) hfresh2 out1.walk hvs
            have hnmeq : nm = nmL := by cases nm <;> cases nmL <;> simp_all [nameStepV]
            subst hnmeq
            refine ⟨j', ?_, ⟨out.inv, out.walk, by rw [htk, out.loc, out1.loc], out.data, ?_, ?_, ?_⟩⟩
            · rw [htk, cascade_snoc_missing (names.take n) j nm jv hne hwj, c1]
              simp only [Option.bind_some]
              rw [← out1.loc]; exact e1
            · intro x hx
              rcases out.bound x hx with b | b | b
              · rcases out1.bound x b with b1 | b1 | b1
                · left; rw [hfpr] at b1; exact b1
                · right; right; rw [hdvf] at b1; simp only [List.mem_singleton] at b1; omega
                · right; right; simp only [Array.size_push] at b1; omega
              · right; left; rw [hfv2, hfv1] at b; exact b
              · right; right; have := out1.size; simp only [Array.size_push] at this; omega
            · have := out1.size; have := out.size; simp only [Array.size_push] at *; omega
            · intro jw w huw hdis
              have hw1 := unf_mono _ _ hext jw w huw
              have hfw1 := fp_ext _ _ hext jw w huw
              have hwlt : ∀ x ∈ fpJ h jw w, x < h.size := fp_lt h jw w huw
              obtain ⟨hw2, hfw2⟩ := out1.frame jw w hw1 (by
                intro x hx
                rw [hfw1] at hx
                refine ⟨by rw [hfpr]; exact (hdis x hx).1, ?_⟩
                rw [hdvf]; simp only [List.mem_singleton]
                exact Nat.ne_of_lt (hwlt x hx))
              obtain ⟨hw3, hfw3⟩ := out.frame jw w hw2 (by
                intro x hx
                rw [hfw2, hfw1] at hx
                refine ⟨fun hm => ?_, by rw [hfv2, hfv1]; exact (hdis x hx).2⟩
                rcases out1.bound x hm with b | b | b
                · rw [hfpr] at b; exact (hdis x hx).1 b
                · rw [hdvf] at b; simp only [List.mem_singleton] at b; exact Nat.ne_of_lt (hwlt x hx) b
                · simp only [Array.size_push] at b; have := hwlt x hx; omega)
              exact ⟨hw3, by rw [hfw3, hfw2, hfw1]⟩
          · simp at hset
      · simp at hset

/-- **`get(p, doc)` is `v` afterwards**: after a successful cascade the value sits at the path -/
theorem cascadeAt_reads_back : ∀ (ns : List Name) (j j' v : J), J.cascadeAt j ns v = some j' → walk J.view j' ns = some v
  | [], _, _, _, h => by simp [J.cascadeAt] at h
  | [nm], j, j', v, h => by
    simp only [J.cascadeAt] at h
    simp [walk, childAt_setName j j' nm v h]
  | nm :: nm2 :: rest, j, j', v, h => by
    rw [cascadeAt_cons_cons] at h
    cases hc : childAt (J.view j) nm with
    | none =>
      simp only [hc] at h
      cases h1 : J.cascadeAt (emptyFor nm2) (nm2 :: rest) v with
      | none => simp [h1] at h
      | some c' =>
        simp only [h1] at h
        simp only [walk, childAt_setName j j' nm c' h]
        exact cascadeAt_reads_back (nm2 :: rest) (emptyFor nm2) c' v h1
    | some c =>
      simp only [hc] at h
      cases h1 : J.cascadeAt c (nm2 :: rest) v with
      | none => simp [h1] at h
      | some c' =>
        simp only [h1] at h
        simp only [walk, childAt_putChild j j' nm c' h]
        exact cascadeAt_reads_back (nm2 :: rest) c c' v h1

/-- a newly created dict holds exactly the one entry the path names; a newly created list can
only be appended to (index 0), and then holds exactly that item -/
theorem cascade_into_new_container (nm : Name) (v : J) :
    J.cascadeAt (emptyFor nm) [nm] v =
      match nm with
      | .key k => some (.obj [(k, v)])
      | .idx i => if i = 0 then some (.arr [v]) else none := by
  cases nm with
  | key k => simp [J.cascadeAt, emptyFor, J.setName, kvsSet]
  | idx i =>
    simp only [J.cascadeAt, emptyFor, J.setName, List.length_nil]
    have : normIndex 0 i = none := by simp [normIndex]
    simp only [this]
    by_cases hi : i = 0
    · simp [hi]
    · simp [hi]

end Treepath
