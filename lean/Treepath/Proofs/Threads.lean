/-
The only state that concurrent evaluations sharing a path object share is the pair of lazy
caches of each vertex (`Vertex._path_as_list`, `Vertex._path`): "read the slot; if it holds
the sentinel, compute the value from the immutable parent chain into a *local* variable, then
store it".  The store publishes a completed value with one attribute assignment.

Micro-model: one shared cell, any number of threads each performing any number of such
accesses, interleaved in any order at the granularity of (read slot) and (store slot).
Every access returns the pure value, whatever the schedule: the race is benign.

Assumed of the runtime (not modelled): one attribute read / one attribute store is atomic
(the GIL, or per-object locking of free-threaded builds), and the value computed is a pure
function of immutable data (the parent chain of a vertex never changes: C15).
-/
namespace Treepath.Threads

/-- where one thread is inside its current access -/
inductive PC (V : Type) where
  | idle                      -- between accesses
  | computed (v : V)          -- saw the sentinel, computed `v` locally, about to store it
  | returned (v : V)          -- the access returned `v`
  deriving Repr

structure World (V : Type) where
  cell : Option V             -- `none` = the sentinel
  pcs : List (PC V)           -- one entry per thread
  log : List V                -- every value any access has returned, most recent first

variable {V : Type}

/-- thread `i` takes one atomic step -/
def step (f : V) (w : World V) (i : Nat) : World V :=
  match w.pcs[i]? with
  | some .idle =>
    match w.cell with
    | some v => { w with pcs := w.pcs.set i (.returned v), log := v :: w.log }   -- cache hit
    | none => { w with pcs := w.pcs.set i (.computed f) }                         -- miss: compute locally
  | some (.computed v) => { cell := some v, pcs := w.pcs.set i (.returned v), log := v :: w.log }
  | some (.returned _) => { w with pcs := w.pcs.set i .idle }                     -- next access
  | none => w

def run (f : V) (w : World V) (sched : List Nat) : World V := sched.foldl (step f) w

/-- the cell holds the sentinel or the pure value; every thread-local value and every value
ever returned is the pure value -/
def Inv (f : V) (w : World V) : Prop :=
  (w.cell = none ∨ w.cell = some f) ∧
  (∀ pc ∈ w.pcs, pc = .idle ∨ pc = .computed f ∨ pc = .returned f) ∧
  (∀ v ∈ w.log, v = f)

theorem mem_set {β} (l : List β) (i : Nat) (x y : β) (h : y ∈ l.set i x) : y = x ∨ y ∈ l := by
  induction l generalizing i with
  | nil => simp at h
  | cons a as ih =>
    cases i with
    | zero => simp only [List.set_cons_zero, List.mem_cons] at h; rcases h with h | h <;> simp [h]
    | succ i =>
      simp only [List.set_cons_succ, List.mem_cons] at h
      rcases h with h | h
      · simp [h]
      · rcases ih i h with h' | h' <;> simp [h']

theorem step_inv (f : V) (w : World V) (i : Nat) (h : Inv f w) : Inv f (step f w i) := by
  obtain ⟨hc, hp, hl⟩ := h
  unfold step
  cases hi : w.pcs[i]? with
  | none => exact ⟨hc, hp, hl⟩
  | some pc =>
    have hpc := hp pc (List.mem_of_getElem? hi)
    cases pc with
    | idle =>
      cases hcell : w.cell with
      | none =>
        refine ⟨by simp [hcell], ?_, hl⟩
        intro pc' hm
        rcases mem_set _ _ _ _ hm with rfl | hm
        · exact .inr (.inl rfl)
        · exact hp pc' hm
      | some v =>
        have hv : v = f := by rw [hcell] at hc; simpa using hc
        subst hv
        refine ⟨by simp [hcell], ?_, ?_⟩
        · intro pc' hm
          rcases mem_set _ _ _ _ hm with rfl | hm
          · exact .inr (.inr rfl)
          · exact hp pc' hm
        · intro x hx
          simp only [List.mem_cons] at hx
          rcases hx with rfl | hx
          · rfl
          · exact hl x hx
    | computed v =>
      have hv : v = f := by rcases hpc with h | h | h <;> simp at h <;> exact h
      subst hv
      refine ⟨.inr rfl, ?_, ?_⟩
      · intro pc' hm
        rcases mem_set _ _ _ _ hm with rfl | hm
        · exact .inr (.inr rfl)
        · exact hp pc' hm
      · intro x hx
        simp only [List.mem_cons] at hx
        rcases hx with rfl | hx
        · rfl
        · exact hl x hx
    | returned v =>
      refine ⟨hc, ?_, hl⟩
      intro pc' hm
      rcases mem_set _ _ _ _ hm with rfl | hm
      · exact .inl rfl
      · exact hp pc' hm

/-- **the cache race is benign**: for any number of threads, any number of accesses each and
any interleaving, every access returns the pure value -/
theorem every_access_returns_the_pure_value (f : V) (threads : Nat) (sched : List Nat) :
    ∀ v ∈ (run f { cell := none, pcs := List.replicate threads .idle, log := [] } sched).log, v = f := by
  have h0 : Inv f ({ cell := none, pcs := List.replicate threads .idle, log := [] } : World V) :=
    ⟨.inl rfl, by intro pc hm; exact .inl (List.eq_of_mem_replicate hm), by simp⟩
  suffices h : ∀ (sched : List Nat) (w : World V), Inv f w → Inv f (run f w sched) from (h sched _ h0).2.2
  intro sched
  induction sched with
  | nil => intro w hw; exact hw
  | cons i is ih => intro w hw; exact ih _ (step_inv f w i hw)

/-- non-vacuity: two threads racing — both miss, both compute, both store, both return -/
example : (run (7 : Nat) { cell := none, pcs := [.idle, .idle], log := [] } [0, 1, 0, 1]).log = [7, 7] := by decide

end Treepath.Threads
