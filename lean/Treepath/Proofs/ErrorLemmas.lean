import Treepath.Proofs.MachineLemmas
import Treepath.Model.Api
/- which exceptions the traverser can raise -/
namespace Treepath
variable {α : Type}

/-- the documented traversal errors: `TraversingError` (wrapping a predicate's exception) and
its subclass `InfiniteLoopDetected` -/
def Exc.documented : Exc → Bool
  | .traversing _ => true
  | .loopDetected => true
  | _ => false

/-- supported steps: every step except a slice whose step is `0` (Python's own lists reject
it with a bare `ValueError`) -/
def Step.supported : Step α → Bool
  | .slice _ _ (some 0) => false
  | _ => true

theorem sliceItems_none {β} (a b c : Option Int) (xs : List β) (h : sliceItems a b c xs = none) : c = some 0 := by
  unfold sliceItems at h
  cases hs : sliceIndices a b c xs.length with
  | some r => simp [hs] at h
  | none =>
    unfold sliceIndices at hs
    simp only at hs
    split at hs
    · rename_i h0
      cases c with
      | none => simp at h0
      | some v => simp at h0; rw [h0]
    · simp at hs

theorem itemsOf_valueError (s : Step α) (v : View α) (h : (match itemsOf s v with | .valueError => true | _ => false) = true) :
    s.supported = false := by
  cases s <;> cases v <;> simp [itemsOf] at h
  rename_i a b c xs
  cases hs : sliceItems a b c xs with
  | some r => simp [hs] at h
  | none => have := sliceItems_none a b c xs hs; subst this; rfl

theorem vmatch_abort_documented (view : α → View α) (st : St α) (p : Nat) (tm : TM α) (vi : Nat) (s : Step α)
    (hs : s.supported = true) (st' : St α) (sig : Sig α) (evs : List (Ev α))
    (h : vmatch view st p tm vi s = .abort st' sig evs) : ∃ e, sig = .raised e ∧ e.documented = true := by
  have hm : ∀ s' : Step α, s'.supported = true → vmatchMulti view st p tm vi s' = .abort st' sig evs →
      ∃ e, sig = .raised e ∧ e.documented = true := by
    intro s' hs' h
    unfold vmatchMulti at h
    split at h
    · obtain ⟨a, b, c, hk⟩ := iterStep_ok st p tm vi ‹_›
      rw [hk] at h; simp at h
    · split at h
      · simp at h
      · rename_i hio
        have := itemsOf_valueError s' (view tm.node.data) (by rw [hio])
        rw [this] at hs'; simp at hs'
      · obtain ⟨a, b, c, hk⟩ := iterStep_ok (remember st p ‹_›) p (parked tm p ‹_›) vi ‹_›
        rw [hk] at h; simp at h
  have hsg : ∀ s', vmatchSingle view st p tm vi s' = .abort st' sig evs → ∃ e, sig = .raised e ∧ e.documented = true := by
    intro s' h
    unfold vmatchSingle at h
    split at h <;> simp at h
  cases s with
  | filter f =>
    simp only [vmatch, vmatchFilter] at h
    split at h
    · split at h <;> simp at h
    · simp only [MR.abort.injEq] at h; exact ⟨_, h.2.1.symm, rfl⟩
  | recur =>
    simp only [vmatch, vmatchRecur] at h
    split at h
    · split at h <;> simp at h
    · simp at h
    · split at h <;> simp at h
  | key k => exact hsg _ h
  | idx i => exact hsg _ h
  | parent => exact hsg _ h
  | slice a b c => exact hm _ hs h
  | tuple ns => exact hm _ hs h
  | keyWc => exact hm _ hs h
  | idxWc => exact hm _ hs h
  | gwc => exact hm _ hs h

theorem action_raised_documented (view : α → View α) (steps : Array (Step α)) (src : Src α)
    (hsup : ∀ s ∈ steps.toList, s.supported = true) (st s1 : St α) (e1 : List (Ev α)) (e : Exc)
    (h : action view steps src st = (s1, e1, .raised e)) : e.documented = true := by
  unfold action at h
  split at h
  · simp [initAction] at h
  · simp at h
  · split at h
    · simp only [reportAction] at h; split at h <;> simp at h
    · simp at h
  · split at h
    · simp [catchAction] at h
    · simp at h
  · split at h
    · simp only [matchAction] at h
      split at h
      · simp at h
      · rename_i s hget
        have hmem : s ∈ steps.toList := by
          have := Array.getElem?_eq_some_iff.mp hget
          obtain ⟨hi, hv⟩ := this
          rw [← hv]; simp
        split at h
        · rename_i hv
          simp only [Prod.mk.injEq] at h
          obtain ⟨x, hx, hd⟩ := vmatch_abort_documented _ _ _ _ _ _ (hsup s hmem) _ _ _ hv
          rw [hx] at h
          simp only [Sig.raised.injEq] at h
          rw [← h.2.2]; exact hd
        · simp at h
        · split at h <;> simp at h
    · simp at h

/-- **only documented errors leave `next()`**: for a path of supported steps, an exception
raised by `next()` is a `TraversingError` (wrapping the predicate's exception) or
`InfiniteLoopDetected` — never a bare `KeyError`, `IndexError`, `TypeError`, `AttributeError`
or `ValueError` -/
theorem next_raised_documented (view : α → View α) (steps : Array (Step α)) (src : Src α)
    (hsup : ∀ s ∈ steps.toList, s.supported = true) (limit : Nat) (st st' : St α) (evs : List (Ev α)) (e : Exc)
    (h : next view steps src limit st = (st', evs, .raised e)) : e.documented = true := by
  induction limit generalizing st evs with
  | zero => simp only [next, Prod.mk.injEq, Sig.raised.injEq] at h; rw [← h.2.2]; rfl
  | succ limit ih =>
    unfold next at h
    rcases ha : action view steps src st with ⟨s1, e1, sig⟩
    rw [ha] at h
    cases sig with
    | none =>
      simp only at h
      split at h
      · simp only [Prod.mk.injEq, Sig.raised.injEq] at h; rw [← h.2.2]; rfl
      · rcases hn : next view steps src limit s1 with ⟨s2, e2, sig2⟩
        rw [hn] at h
        simp only [Prod.mk.injEq] at h
        obtain ⟨h1, _, h3⟩ := h
        subst h1
        subst h3
        exact ih s1 e2 hn
    | result n =>
      simp only at h
      split at h
      · simp only [Prod.mk.injEq, Sig.raised.injEq] at h; rw [← h.2.2]; rfl
      · simp at h
    | raised x =>
      simp only [Prod.mk.injEq, Sig.raised.injEq] at h
      rw [← h.2.2]
      exact action_raised_documented view steps src hsup st s1 e1 x ha
    | bug m => simp at h
    | stop => simp at h

/-- a supported step whose predicate (if it is a filter) returns a value never aborts -/
theorem vmatch_no_abort {α : Type} (view : α → View α) (st : St α) (p : Nat) (tm : TM α) (vi : Nat) (s : Step α)
    (hs : s.supported = true) (hval : ∀ f, s = .filter f → ∃ j, (f tm.node).res = .val j)
    (st' : St α) (sig : Sig α) (evs : List (Ev α)) (h : vmatch view st p tm vi s = .abort st' sig evs) : False := by
  cases s with
  | filter f =>
    obtain ⟨j, hj⟩ := hval f rfl
    simp only [vmatch, vmatchFilter, hj] at h
    split at h <;> simp at h
  | recur =>
    obtain ⟨e, he, hd⟩ := vmatch_abort_documented view st p tm vi _ hs st' sig evs h
    simp only [vmatch, vmatchRecur] at h
    split at h
    · split at h <;> simp at h
    · simp at h
    · split at h <;> simp at h
  | key k => simp only [vmatch, vmatchSingle] at h; split at h <;> simp at h
  | idx i => simp only [vmatch, vmatchSingle] at h; split at h <;> simp at h
  | parent => simp only [vmatch, vmatchSingle] at h; split at h <;> simp at h
  | slice a b c =>
    obtain ⟨e, he, hd⟩ := vmatch_abort_documented view st p tm vi _ hs st' sig evs h
    obtain ⟨_, x, hx⟩ := vmatch_abort view st p tm vi _ st' sig evs h
    simp only [vmatch, vmatchMulti] at h
    split at h
    · obtain ⟨a1, b1, c1, hk⟩ := iterStep_ok st p tm vi ‹_›
      rw [hk] at h; simp at h
    · split at h
      · simp at h
      · rename_i hio
        have := itemsOf_valueError _ _ (by rw [hio]); rw [hs] at this; simp at this
      · obtain ⟨a1, b1, c1, hk⟩ := iterStep_ok (remember st p ‹_›) p (parked tm p ‹_›) vi ‹_›
        rw [hk] at h; simp at h
  | tuple ns =>
    simp only [vmatch, vmatchMulti] at h
    split at h
    · obtain ⟨a1, b1, c1, hk⟩ := iterStep_ok st p tm vi ‹_›
      rw [hk] at h; simp at h
    · split at h
      · simp at h
      · rename_i hio
        have := itemsOf_valueError _ _ (by rw [hio]); rw [hs] at this; simp at this
      · obtain ⟨a1, b1, c1, hk⟩ := iterStep_ok (remember st p ‹_›) p (parked tm p ‹_›) vi ‹_›
        rw [hk] at h; simp at h
  | keyWc =>
    simp only [vmatch, vmatchMulti] at h
    split at h
    · obtain ⟨a1, b1, c1, hk⟩ := iterStep_ok st p tm vi ‹_›
      rw [hk] at h; simp at h
    · split at h
      · simp at h
      · rename_i hio
        have := itemsOf_valueError _ _ (by rw [hio]); rw [hs] at this; simp at this
      · obtain ⟨a1, b1, c1, hk⟩ := iterStep_ok (remember st p ‹_›) p (parked tm p ‹_›) vi ‹_›
        rw [hk] at h; simp at h
  | idxWc =>
    simp only [vmatch, vmatchMulti] at h
    split at h
    · obtain ⟨a1, b1, c1, hk⟩ := iterStep_ok st p tm vi ‹_›
      rw [hk] at h; simp at h
    · split at h
      · simp at h
      · rename_i hio
        have := itemsOf_valueError _ _ (by rw [hio]); rw [hs] at this; simp at this
      · obtain ⟨a1, b1, c1, hk⟩ := iterStep_ok (remember st p ‹_›) p (parked tm p ‹_›) vi ‹_›
        rw [hk] at h; simp at h
  | gwc =>
    simp only [vmatch, vmatchMulti] at h
    split at h
    · obtain ⟨a1, b1, c1, hk⟩ := iterStep_ok st p tm vi ‹_›
      rw [hk] at h; simp at h
    · split at h
      · simp at h
      · rename_i hio
        have := itemsOf_valueError _ _ (by rw [hio]); rw [hs] at this; simp at this
      · obtain ⟨a1, b1, c1, hk⟩ := iterStep_ok (remember st p ‹_›) p (parked tm p ‹_›) vi ‹_›
        rw [hk] at h; simp at h

/-- hence an action over a quiet path never raises -/
theorem action_no_raise_quiet {α : Type} (view : α → View α) (steps : Array (Step α)) (src : Src α)
    (hq : ∀ s ∈ steps.toList, s.supported = true ∧ ∀ f, s = .filter f → ∀ n, ∃ j, (f n).res = .val j)
    (st s1 : St α) (e1 : List (Ev α)) (e : Exc) (h : action view steps src st = (s1, e1, .raised e)) : False := by
  unfold action at h
  split at h
  · simp [initAction] at h
  · simp at h
  · split at h
    · simp only [reportAction] at h; split at h <;> simp at h
    · simp at h
  · split at h
    · simp [catchAction] at h
    · simp at h
  · split at h
    · rename_i c tm _
      simp only [matchAction] at h
      split at h
      · simp at h
      · rename_i s hget
        have hmem : s ∈ steps.toList := by
          obtain ⟨hi, hv⟩ := Array.getElem?_eq_some_iff.mp hget
          rw [← hv]; simp
        obtain ⟨hsup, hval⟩ := hq s hmem
        split at h
        · rename_i hv
          exact vmatch_no_abort view st c tm _ s hsup (fun f hf => hval f hf tm.node) _ _ _ hv
        · simp at h
        · split at h <;> simp at h
    · simp at h

end Treepath
