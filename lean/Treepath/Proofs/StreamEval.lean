import Treepath.Proofs.Sim
/- the results carried by the specification stream are the L3 evaluation -/
namespace Treepath

@[simp] theorem resultsOf_nil {α} : resultsOf ([] : List (Ev α)) = [] := rfl
@[simp] theorem resultsOf_append {α} (a b : List (Ev α)) : resultsOf (a ++ b) = resultsOf a ++ resultsOf b := by
  simp [resultsOf, List.filterMap_append]
@[simp] theorem resultsOf_attempt {α} (l : MNode α) (vi : Nat) (nx st : Option (MNode α)) (t : List (Ev α)) :
    resultsOf (.attempt l vi nx st :: t) = resultsOf t := by simp [resultsOf, List.filterMap_cons]
@[simp] theorem resultsOf_predCall {α} (c : MNode α) (t : List (Ev α)) :
    resultsOf (.predCall c :: t) = resultsOf t := by simp [resultsOf, List.filterMap_cons]
@[simp] theorem resultsOf_result {α} (n : MNode α) (t : List (Ev α)) :
    resultsOf (.result n :: t) = n :: resultsOf t := by simp [resultsOf, List.filterMap_cons]

/-- the nodes below `n` for the children `its`, pre-order -/
def preItems (n : MNode J) (its : List (Name × J)) : List (MNode J) :=
  its.flatMap fun it => preNodes (.child n it.1 it.2) it.2

theorem preKvs_eq (n : MNode J) (kvs : List (String × J)) : preKvs n kvs = preItems n (dictItems kvs) := by
  induction kvs with
  | nil => simp [preKvs, preItems, dictItems]
  | cons kv kvs ih =>
    obtain ⟨k, v⟩ := kv
    simp only [preKvs, ih, preItems, dictItems, List.map_cons, List.flatMap_cons]

theorem preXs_eq (n : MNode J) (i : Nat) (xs : List J) :
    preXs n i xs = preItems n ((enumFrom i xs).map fun p => (Name.idx p.1, p.2)) := by
  induction xs generalizing i with
  | nil => simp [preXs, preItems, enumFrom]
  | cons x xs ih => simp only [preXs, ih, preItems, enumFrom, List.map_cons, List.flatMap_cons]

theorem preNodes_container (n : MNode J) (j : J) (its : List (Name × J)) (h : allItems j.view = some its) :
    preNodes n j = n :: preItems n its := by
  cases j <;> simp [J.view, allItems] at h
  · subst h; simp [preNodes, preXs_eq, listItems]
  · subst h; simp [preNodes, preKvs_eq]

theorem preNodes_scalar (n : MNode J) (j : J) (h : allItems j.view = none) : preNodes n j = [n] := by
  cases j <;> simp [J.view, allItems] at h <;> simp [preNodes]

/-- events emitted by predicates carry no results of the outer search -/
def PredsSilent (ss : List (Step J)) : Prop :=
  ∀ s ∈ ss, ∀ f, s = .filter f → ∀ n, resultsOf (f n).evs = []

/-- a quiet path raises nothing -/
theorem evalE_quiet (p : List (Step J)) (hq : Quiet p) (n : MNode J) : (evalE p n).2 = none := by
  induction p generalizing n with
  | nil => rfl
  | cons s rest ih =>
    have hq' : Quiet rest := fun t ht => hq t (List.mem_cons_of_mem _ ht)
    have hqs := hq s (by simp)
    have hsf : ∀ (g : MNode J → Res) (ns : List (MNode J)), (∀ m, (g m).2 = none) → (seqFlat g ns).2 = none := by
      intro g ns hg
      rw [seqFlat_noraise g ns (fun m _ => hg m)]
    by_cases hr : s.isRecur = true
    · cases s <;> simp [Step.isRecur] at hr
      simp only [evalE]
      apply hsf
      intro m
      by_cases hc : m.data.isContainer = true
      · simp [hc, ih hq']
      · simp only [hc]
        by_cases hl : rest.isEmpty = true <;> simp [hl]
    · simp only [Bool.not_eq_true] at hr
      rw [evalE_cons_bind _ _ _ hr]
      have hstep : (evalStep s n).2 = none := by
        cases s <;> simp [Step.isRecur] at hr <;> simp only [evalStep, Step.cls]
        case filter f =>
          obtain ⟨j, hj⟩ := hqs.2 f rfl n
          simp [hj]
        all_goals first
          | rfl
          | (split <;> first | rfl | (rename_i hio; have := itemsOf_valueError _ _ (by rw [hio]); rw [hqs.1] at this; simp at this))
      simp only [bindRes, hstep]
      have := hsf (evalE rest) (evalStep s n).1 (fun m => ih hq' m)
      rcases hx : seqFlat (evalE rest) (evalStep s n).1 with ⟨o, e⟩
      rw [hx] at this
      simp at this
      subst this
      simp [Res.append]

theorem bindRes_fst_quiet (r : Res) (k : MNode J → Res) (hr : r.2 = none) (hk : ∀ m, (k m).2 = none) :
    (bindRes r k).1 = r.1.flatMap (fun m => (k m).1) := by
  simp only [bindRes]
  rw [seqFlat_noraise k r.1 (fun m _ => hk m)]
  simp [Res.append, hr]

theorem flatMap_congr' {β γ} {f g : β → List γ} {l : List β} (h : ∀ x ∈ l, f x = g x) :
    l.flatMap f = l.flatMap g := by
  induction l with
  | nil => rfl
  | cons x xs ih =>
    simp only [List.flatMap_cons]
    rw [h x (by simp), ih (fun y hy => h y (List.mem_cons_of_mem _ hy))]

theorem resultsOf_flatMap {α β} (f : β → List (Ev α)) (l : List β) :
    resultsOf (l.flatMap f) = l.flatMap (fun x => resultsOf (f x)) := by
  induction l with
  | nil => rfl
  | cons x xs ih => simp [List.flatMap_cons, ih]

/-- what a recursive step yields at one pre-order node -/
def recPick (rest : List (Step J)) (m : MNode J) : List (MNode J) :=
  if m.data.isContainer then (evalE rest (.imag m)).1 else if rest.isEmpty then [m] else []

/-- results of the recursive step's events for one child = the L3 picks over the child's
pre-order listing (strong induction on the size of the child's value) -/
theorem results_recChild (rest : List (Step J)) (vi : Nat)
    (ih : ∀ m : MNode J, resultsOf (stream rest (vi+1) m) = (evalE rest m).1) :
    ∀ (N : Nat) (x : J), J.sz x ≤ N → ∀ (n : MNode J) (nm : Name),
      resultsOf (recChild (fun m => stream rest (vi+1) m) rest.isEmpty vi n nm x) =
        (preNodes (.child n nm x) x).flatMap (recPick rest) := by
  intro N
  induction N with
  | zero => intro x hx; cases x <;> simp [J.sz] at hx
  | succ N ihN =>
    intro x hx n nm
    cases hc : allItems x.view with
    | none =>
      have hnc : x.isContainer = false := by
        have := allItems_isContainer x; rw [hc] at this; simpa using this.symm
      rw [recChild_scalar _ _ _ _ _ _ hc, preNodes_scalar _ _ hc]
      by_cases hl : rest.isEmpty = true <;> simp [recPick, MNode.data, hnc, hl]
    | some its =>
      have hnc : x.isContainer = true := by
        have := allItems_isContainer x; rw [hc] at this; simpa using this.symm
      rw [recChild_container _ _ _ _ _ _ its hc, preNodes_container _ _ its hc]
      have hsmall : ∀ nm' x', (nm', x') ∈ its → J.sz x' ≤ N := by
        intro nm' x' hm
        cases x <;> simp [J.view, allItems] at hc
        · subst hc; have := sz_mem_listItems _ nm' x' hm; omega
        · subst hc; have := sz_mem_dictItems _ nm' x' hm; omega
      have hitems : resultsOf (recItems (fun m => stream rest (vi+1) m) rest.isEmpty vi (.child n nm x) its) =
          (preItems (.child n nm x) its).flatMap (recPick rest) := by
        simp only [recItems, preItems, resultsOf_flatMap, List.flatMap_assoc]
        apply flatMap_congr'
        intro it hit
        exact ihN it.2 (hsmall it.1 it.2 hit) (.child n nm x) it.1
      simp [hitems, ih, recPick, MNode.data, hnc]

/-- **the results in the specification stream are the step-by-step definition** (for paths
whose predicates neither raise nor emit results of their own) -/
theorem results_stream (p : List (Step J)) (hq : Quiet p) (hp : PredsSilent p) :
    ∀ (vi : Nat) (n : MNode J), resultsOf (stream p vi n) = (evalE p n).1 := by
  induction p with
  | nil => intro vi n; simp [stream, evalE]
  | cons s rest ih =>
    intro vi n
    have hq' : Quiet rest := fun t ht => hq t (List.mem_cons_of_mem _ ht)
    have hp' : PredsSilent rest := fun t ht => hp t (List.mem_cons_of_mem _ ht)
    have ih' := ih hq' hp'
    have hqs := hq s (by simp)
    have hrest : ∀ m, (evalE rest m).2 = none := evalE_quiet rest hq'
    by_cases hr : s.isRecur = true
    · cases s <;> simp [Step.isRecur] at hr
      -- recursive step
      have hev : (evalE (.recur :: rest) n).1 = (recNodes n).flatMap (recPick rest) := by
        simp only [evalE]
        rw [seqFlat_noraise]
        · apply flatMap_congr'
          intro m _
          simp only [recPick]
          by_cases hc : m.data.isContainer = true
          · simp [hc]
          · simp only [hc]
            by_cases hl : rest.isEmpty = true <;> simp [hl]
        · intro m _
          by_cases hc : m.data.isContainer = true
          · simp [hc, hrest]
          · simp only [hc]
            by_cases hl : rest.isEmpty = true <;> simp [hl]
      rw [hev]
      cases hc : allItems n.data.view with
      | none =>
        have hnc : n.data.isContainer = false := by
          have := allItems_isContainer n.data; rw [hc] at this; simpa using this.symm
        simp [stream, Step.cls, hnc, recNodes]
      | some its =>
        have hnc : n.data.isContainer = true := by
          have := allItems_isContainer n.data; rw [hc] at this; simpa using this.symm
        have hitems : resultsOf (recItems (fun m => stream rest (vi+1) m) rest.isEmpty vi n its) =
            (preItems n its).flatMap (recPick rest) := by
          simp only [recItems, preItems, resultsOf_flatMap, List.flatMap_assoc]
          apply flatMap_congr'
          intro it _
          exact results_recChild rest vi (ih' (vi+1)) (J.sz it.2) it.2 (Nat.le_refl _) n it.1
        simp [stream, Step.cls, hnc, recNodes, recBody_items _ _ _ _ _ its hc, preNodes_container _ _ its hc,
          hitems, ih', recPick]
    · simp only [Bool.not_eq_true] at hr
      rw [evalE_cons_bind _ _ _ hr]
      have hstep : (evalStep s n).2 = none := by
        have := evalE_quiet [s] (fun t ht => by simp at ht; subst ht; exact hqs) n
        rw [evalE_cons_bind _ _ _ hr] at this
        simp only [bindRes, evalE] at this
        rcases hx : evalStep s n with ⟨o, e⟩
        rw [hx] at this
        cases e with
        | none => rfl
        | some e =>
          rcases hy : seqFlat (fun n => (([n], none) : Res)) o with ⟨o2, e2⟩
          rw [hy] at this
          cases e2 <;> simp [Res.append] at this
      rw [bindRes_fst_quiet _ _ hstep hrest]
      by_cases hm : s.cls = .multi
      · cases hio : itemsOf s n.data.view with
        | wrongKind => simp [stream, evalStep, hm, hio]
        | valueError =>
          have := itemsOf_valueError _ _ (by rw [hio]); rw [hqs.1] at this; simp at this
        | ok its => simp [stream, evalStep, hm, hio, resultsOf_flatMap, List.flatMap_map, ih']
      cases s <;> simp [Step.isRecur] at hr <;> simp [Step.cls] at hm
      case filter f =>
        obtain ⟨j, hj⟩ := hqs.2 f rfl n
        have hsil := hp (.filter f) (by simp) f rfl n
        by_cases ht : j.truthy = true <;> simp [stream, evalStep, Step.cls, hj, ht, hsil, ih']
      case key k =>
        cases hso : singleOf J.view (.key k) n <;> simp [stream, evalStep, Step.cls, hso, ih']
      case idx i =>
        cases hso : singleOf J.view (.idx i) n <;> simp [stream, evalStep, Step.cls, hso, ih']
      case parent =>
        cases hso : singleOf J.view .parent n <;> simp [stream, evalStep, Step.cls, hso, ih']

end Treepath
