import Treepath.Proofs.StreamEval
import Treepath.Proofs.Drive
/-
The specification stream and the step-by-step definition agree *including exceptions*: the
results before the stream's first `raised` event are `(evalE p n).1`, and that first raise is
`(evalE p n).2` — for every path, with predicates that may raise.  (`results_stream` is the
special case of quiet paths.)
-/
namespace Treepath

/-- the first exception in a stream -/
def firstRaise {α} : List (Ev α) → Option Exc
  | [] => none
  | .raised e :: _ => some e
  | _ :: t => firstRaise t

/-- what a consumer sees of a stream: the results before the first exception, and it -/
def cut (evs : List (Ev J)) : Res := (resultsOf (takeThroughRaise evs), firstRaise evs)

@[simp] theorem cut_nil : cut [] = ([], none) := rfl

theorem cut_raised (e : Exc) (t : List (Ev J)) : cut (.raised e :: t) = ([], some e) := by
  simp [cut, takeThroughRaise, firstRaise, resultsOf]

theorem cut_result (n : MNode J) (t : List (Ev J)) : cut (.result n :: t) = Res.append ([n], none) (cut t) := by
  simp [cut, takeThroughRaise, firstRaise, Res.append]

theorem cut_attempt (l : MNode J) (vi : Nat) (nx st : Option (MNode J)) (t : List (Ev J)) :
    cut (.attempt l vi nx st :: t) = cut t := by
  simp [cut, takeThroughRaise, firstRaise]

theorem cut_predCall (c : MNode J) (t : List (Ev J)) : cut (.predCall c :: t) = cut t := by
  simp [cut, takeThroughRaise, firstRaise]

/-- `cut` turns concatenation of streams into sequencing of partial answers -/
theorem cut_append (a b : List (Ev J)) : cut (a ++ b) = (cut a).append (cut b) := by
  induction a with
  | nil => simp [Res.append]
  | cons e t ih =>
    cases e with
    | raised x => simp [cut_raised, Res.append]
    | result n => rw [List.cons_append, cut_result, cut_result, ih, Res.append_assoc]
    | attempt l vi nx st => rw [List.cons_append, cut_attempt, cut_attempt, ih]
    | predCall c => rw [List.cons_append, cut_predCall, cut_predCall, ih]
    | fnCall nm v =>
      have h : ∀ t : List (Ev J), cut (.fnCall nm v :: t) = cut t := by
        intro t; simp [cut, takeThroughRaise, firstRaise, resultsOf, List.filterMap_cons]
      rw [List.cons_append, h, h, ih]
    | stop =>
      have h : ∀ t : List (Ev J), cut (.stop :: t) = cut t := by
        intro t; simp [cut, takeThroughRaise, firstRaise, resultsOf, List.filterMap_cons]
      rw [List.cons_append, h, h, ih]

theorem cut_clean (l : List (Ev J)) (h : ∀ e ∈ l, e.isClean = true) : cut l = ([], none) := by
  induction l with
  | nil => rfl
  | cons e t ih =>
    have he := h e (by simp)
    have := ih (fun x hx => h x (List.mem_cons_of_mem _ hx))
    cases e <;> simp [Ev.isClean] at he
    · rw [cut_attempt, this]
    · rw [cut_predCall, this]
    · simpa [cut, takeThroughRaise, firstRaise, resultsOf, List.filterMap_cons] using this

theorem nil_none_append (r : Res) : Res.append ([], none) r = r := by
  rcases r with ⟨a, b⟩; simp [Res.append]

theorem cut_flatMap {β} (g : β → List (Ev J)) (k : β → MNode J) (f : MNode J → Res) (l : List β)
    (h : ∀ x ∈ l, cut (g x) = f (k x)) : cut (l.flatMap g) = seqFlat f (l.map k) := by
  induction l with
  | nil => rfl
  | cons x xs ih =>
    rw [List.flatMap_cons, cut_append, List.map_cons, seqFlat_cons', h x (by simp),
      ih (fun y hy => h y (List.mem_cons_of_mem _ hy))]

/-- what the recursive step contributes at one pre-order node, exceptions included -/
def recPickE (rest : List (Step J)) (m : MNode J) : Res :=
  if m.data.isContainer then evalE rest (.imag m) else if rest.isEmpty then ([m], none) else ([], none)

theorem seqFlat_flatMap {β} (f : MNode J → Res) (g : β → List (MNode J)) (l : List β) :
    seqFlat f (l.flatMap g) = l.foldr (fun x acc => (seqFlat f (g x)).append acc) ([], none) := by
  induction l with
  | nil => rfl
  | cons x xs ih => rw [List.flatMap_cons, seqFlat_append, ih]; rfl

theorem cut_flatMap_fold {β} (g : β → List (Ev J)) (l : List β) :
    cut (l.flatMap g) = l.foldr (fun x acc => (cut (g x)).append acc) ([], none) := by
  induction l with
  | nil => rfl
  | cons x xs ih => rw [List.flatMap_cons, cut_append, ih]; rfl

theorem foldr_congr' {β} (f g : β → Res → Res) (l : List β) (h : ∀ x ∈ l, ∀ acc, f x acc = g x acc) (z : Res) :
    l.foldr f z = l.foldr g z := by
  induction l with
  | nil => rfl
  | cons x xs ih =>
    simp only [List.foldr_cons]
    rw [ih (fun y hy => h y (List.mem_cons_of_mem _ hy)), h x (by simp)]

/-- one child of a recursive step, exceptions included -/
theorem cut_recChild (rest : List (Step J)) (vi : Nat)
    (ih : ∀ m : MNode J, cut (stream rest (vi+1) m) = evalE rest m) :
    ∀ (N : Nat) (x : J), J.sz x ≤ N → ∀ (n : MNode J) (nm : Name),
      cut (recChild (fun m => stream rest (vi+1) m) rest.isEmpty vi n nm x) =
        seqFlat (recPickE rest) (preNodes (.child n nm x) x) := by
  intro N
  induction N with
  | zero => intro x hx; cases x <;> simp [J.sz] at hx
  | succ N ihN =>
    intro x hx n nm
    cases hc : allItems x.view with
    | none =>
      have hnc : x.isContainer = false := by
        have := allItems_isContainer x; rw [hc] at this; simpa using this.symm
      rw [recChild_scalar _ _ _ _ _ _ hc, preNodes_scalar _ _ hc, seqFlat_single, cut_attempt]
      by_cases hl : rest.isEmpty = true
      · simp [recPickE, MNode.data, hnc, hl, cut_result, Res.append]
      · simp [recPickE, MNode.data, hnc, hl, cut_attempt]
    | some its =>
      have hnc : x.isContainer = true := by
        have := allItems_isContainer x; rw [hc] at this; simpa using this.symm
      rw [recChild_container _ _ _ _ _ _ its hc, preNodes_container _ _ its hc]
      have hsmall : ∀ nm' x', (nm', x') ∈ its → J.sz x' ≤ N := by
        intro nm' x' hm
        cases x <;> simp [J.view, allItems] at hc
        · subst hc; have := sz_mem_listItems _ nm' x' hm; omega
        · subst hc; have := sz_mem_dictItems _ nm' x' hm; omega
      have hitems : cut (recItems (fun m => stream rest (vi+1) m) rest.isEmpty vi (.child n nm x) its) =
          seqFlat (recPickE rest) (preItems (.child n nm x) its) := by
        simp only [recItems, preItems]
        rw [cut_flatMap_fold, seqFlat_flatMap]
        apply foldr_congr'
        intro it hit acc
        rw [ihN it.2 (hsmall it.1 it.2 hit) (.child n nm x) it.1]
      rw [cut_attempt, cut_append, cut_append, hitems, ih, seqFlat_cons']
      have : cut ([Ev.attempt (MNode.child n nm x) (vi + 1) none none] : List (Ev J)) = ([], none) := by
        rw [cut_attempt]; rfl
      rw [this, Res.append_nil_none]
      simp [recPickE, MNode.data, hnc]

/-- **the stream and the definition agree, exceptions included** -/
theorem cut_stream (p : List (Step J)) (hp : PredsClean p.toArray) :
    ∀ (vi : Nat) (n : MNode J), cut (stream p vi n) = evalE p n := by
  induction p with
  | nil => intro vi n; simp [stream, evalE, cut_result, Res.append]
  | cons s rest ih =>
    intro vi n
    have hp' : PredsClean rest.toArray := by
      intro t ht f hf m
      exact hp t (by simp at ht ⊢; exact .inr ht) f hf m
    have ih' := ih hp'
    by_cases hr : s.isRecur = true
    · cases s <;> simp [Step.isRecur] at hr
      have hev : evalE (.recur :: rest) n = seqFlat (recPickE rest) (recNodes n) := by
        simp only [evalE]; rfl
      rw [hev]
      cases hc : allItems n.data.view with
      | none =>
        have hnc : n.data.isContainer = false := by
          have := allItems_isContainer n.data; rw [hc] at this; simpa using this.symm
        simp [stream, Step.cls, hnc, recNodes, cut_attempt]
      | some its =>
        have hnc : n.data.isContainer = true := by
          have := allItems_isContainer n.data; rw [hc] at this; simpa using this.symm
        have hitems : cut (recItems (fun m => stream rest (vi+1) m) rest.isEmpty vi n its) =
            seqFlat (recPickE rest) (preItems n its) := by
          simp only [recItems, preItems]
          rw [cut_flatMap_fold, seqFlat_flatMap]
          apply foldr_congr'
          intro it _ acc
          rw [cut_recChild rest vi (ih' (vi+1)) (J.sz it.2) it.2 (Nat.le_refl _) n it.1]
        simp only [stream, Step.cls, hnc, if_true, recNodes, recBody_items _ _ _ _ _ its hc,
          preNodes_container _ _ its hc]
        rw [cut_attempt, cut_append, cut_append, hitems, ih', seqFlat_cons']
        have : cut ([Ev.attempt n (vi + 1) none none] : List (Ev J)) = ([], none) := by
          rw [cut_attempt]; rfl
        rw [this, Res.append_nil_none]
        simp [recPickE, hnc]
    · simp only [Bool.not_eq_true] at hr
      rw [evalE_cons_bind _ _ _ hr]
      by_cases hm : s.cls = .multi
      · cases hio : itemsOf s n.data.view with
        | wrongKind => simp [stream, evalStep, hm, hio, cut_attempt, bindRes, Res.append]
        | valueError => simp [stream, evalStep, hm, hio, cut_raised, bindRes, Res.append]
        | ok its =>
          simp only [stream, evalStep, hm, hio, bindRes]
          rw [cut_append]
          have h1 : cut ([Ev.attempt n (vi + 1) none none] : List (Ev J)) = ([], none) := by
            rw [cut_attempt]; rfl
          rw [h1]
          congr 1
          exact cut_flatMap _ (fun it : Name × J => MNode.child n it.1 it.2) (evalE rest) its
            (fun it _ => by rw [cut_attempt]; exact ih' (vi+1) _)
      cases s <;> simp [Step.isRecur] at hr <;> simp [Step.cls] at hm
      case filter f =>
        have hcl : cut (f n).evs = ([], none) := cut_clean _ (hp (.filter f) (by simp) f rfl n)
        simp only [stream, Step.cls, evalStep]
        rw [cut_append, cut_predCall, hcl, nil_none_append]
        cases hres : (f n).res with
        | val j =>
          by_cases ht : j.truthy = true
          · simp [ht, cut_attempt, ih', bindRes, seqFlat_single, Res.append_nil_none]
          · simp [ht, cut_attempt, bindRes, Res.append]
        | raise e => simp [cut_raised, bindRes, Res.append]
      case key k =>
        cases hso : singleOf J.view (.key k) n <;>
          simp [stream, evalStep, Step.cls, hso, ih', cut_attempt, bindRes_pure, bindRes_nil]
      case idx i =>
        cases hso : singleOf J.view (.idx i) n <;>
          simp [stream, evalStep, Step.cls, hso, ih', cut_attempt, bindRes_pure, bindRes_nil]
      case parent =>
        cases hso : singleOf J.view .parent n <;>
          simp [stream, evalStep, Step.cls, hso, ih', cut_attempt, bindRes_pure, bindRes_nil]

end Treepath
