import Treepath.Proofs.StreamEval
/-
"A query with at most one recursive step and no comma-delimited step never reports the same
location twice" (C11), for documents whose dicts have unique keys (as Python dicts do).

Before the recursive step all results have locations none of which is a prefix of another
(`Inc`); the recursive step turns that into distinct locations; the steps after it keep
locations distinct.
-/
namespace Treepath

/-! ### documents with unique keys, hereditarily -/
mutual
def J.WFK : J → Prop
  | .obj kvs => (kvs.map Prod.fst).Nodup ∧ J.WFKvs kvs
  | .arr xs => J.WFList xs
  | _ => True
def J.WFKvs : List (String × J) → Prop
  | [] => True
  | (_, x) :: kvs => J.WFK x ∧ J.WFKvs kvs
def J.WFList : List J → Prop
  | [] => True
  | x :: xs => J.WFK x ∧ J.WFList xs
end

theorem wfKvs_mem (kvs : List (String × J)) (h : J.WFKvs kvs) (k : String) (x : J) (hm : (k, x) ∈ kvs) : x.WFK := by
  induction kvs with
  | nil => simp at hm
  | cons kv kvs ih =>
    obtain ⟨k', v⟩ := kv
    simp only [J.WFKvs] at h
    rcases List.mem_cons.mp hm with he | hm
    · simp only [Prod.mk.injEq] at he; rw [he.2]; exact h.1
    · exact ih h.2 hm

theorem wfList_mem (xs : List J) (h : J.WFList xs) (x : J) (hm : x ∈ xs) : x.WFK := by
  induction xs with
  | nil => simp at hm
  | cons y ys ih =>
    simp only [J.WFList] at h
    rcases List.mem_cons.mp hm with rfl | hm
    · exact h.1
    · exact ih h.2 hm

/-! ### names of the items of a container are distinct -/

theorem dictItems_names (kvs : List (String × J)) (h : (kvs.map Prod.fst).Nodup) :
    ((dictItems kvs).map Prod.fst).Nodup := by
  have : (dictItems kvs).map Prod.fst = (kvs.map Prod.fst).map Name.key := by
    simp [dictItems, List.map_map, Function.comp_def]
  rw [this]
  exact List.pairwise_map.mpr (h.imp (fun hne he => hne (by simpa using he)))

theorem enumFrom_fst_ge {β} (i : Nat) (xs : List β) : ∀ p ∈ enumFrom i xs, i ≤ p.1 := by
  induction xs generalizing i with
  | nil => simp [enumFrom]
  | cons x xs ih =>
    intro p hp
    simp only [enumFrom, List.mem_cons] at hp
    rcases hp with rfl | hp
    · exact Nat.le_refl _
    · have := ih (i+1) p hp; omega

theorem enumFrom_names {β} (i : Nat) (xs : List β) :
    ((enumFrom i xs).map fun p => (Name.idx p.1)).Nodup := by
  induction xs generalizing i with
  | nil => simp [enumFrom]
  | cons x xs ih =>
    simp only [enumFrom, List.map_cons, List.nodup_cons]
    refine ⟨?_, ih (i+1)⟩
    intro hm
    simp only [List.mem_map] at hm
    obtain ⟨p, hp, he⟩ := hm
    have := enumFrom_fst_ge (i+1) xs p hp
    simp only [Name.idx.injEq] at he
    omega

theorem listItems_names (xs : List J) : ((listItems xs).map Prod.fst).Nodup := by
  have : (listItems xs).map Prod.fst = (enumFrom 0 xs).map fun p => (Name.idx p.1) := by
    simp [listItems, List.map_map, Function.comp_def]
  rw [this]; exact enumFrom_names 0 xs

theorem mem_enumFrom_snd {β} (i : Nat) (xs : List β) (p : Nat × β) (h : p ∈ enumFrom i xs) : p.2 ∈ xs := by
  induction xs generalizing i with
  | nil => simp [enumFrom] at h
  | cons y ys ih =>
    simp only [enumFrom, List.mem_cons] at h
    rcases h with rfl | h
    · simp
    · exact List.mem_cons_of_mem _ (ih (i+1) h)

theorem lookup_mem (es : List (String × J)) (k : String) (x : J) (h : es.lookup k = some x) : (k, x) ∈ es := by
  induction es with
  | nil => simp at h
  | cons e es ih =>
    obtain ⟨k', v⟩ := e
    simp only [List.lookup] at h
    split at h
    · rename_i heq
      simp only [Option.some.injEq] at h
      have : k = k' := by simpa using heq
      subst this; subst h; simp
    · exact List.mem_cons_of_mem _ (ih h)

theorem getPy?_mem {β} (xs : List β) (i : Int) (x : β) (h : getPy? xs i = some x) : x ∈ xs := by
  simp only [getPy?] at h
  split at h
  · exact List.mem_of_getElem? h
  · split at h
    · exact List.mem_of_getElem? h
    · simp at h

theorem rangeList_nodup (s e st : Int) (h : st ≠ 0) : (rangeList s e st).Nodup := by
  simp only [rangeList]
  apply List.pairwise_map.mpr
  apply List.nodup_range.imp
  intro a b hne he
  apply hne
  have h1 : st * (Int.ofNat a) = st * (Int.ofNat b) := by omega
  have := Int.eq_of_mul_eq_mul_left h h1
  exact Int.ofNat.inj this

theorem sliceIndices_step (a b c : Option Int) (len : Nat) (s e st : Int)
    (h : sliceIndices a b c len = some (s, e, st)) : st ≠ 0 := by
  simp only [sliceIndices] at h
  split at h
  · simp at h
  · rename_i hne
    simp only [Option.some.injEq, Prod.mk.injEq] at h
    rw [← h.2.2]; exact hne

theorem sliceItems_names (a b c : Option Int) (xs : List J) (its : List (Int × J))
    (h : sliceItems a b c xs = some its) : (its.map fun p => Name.idx p.1).Nodup ∧ ∀ p ∈ its, p.2 ∈ xs := by
  simp only [sliceItems] at h
  split at h
  · simp at h
  · rename_i s e st hsi
    simp only [Option.some.injEq] at h
    subst h
    have hst := sliceIndices_step a b c xs.length s e st hsi
    constructor
    · apply List.pairwise_map.mpr
      apply List.pairwise_filterMap.mpr
      apply (rangeList_nodup s e st hst).imp
      intro i j hne p hp q hq he
      simp only [Option.map_eq_some_iff] at hp hq
      obtain ⟨x, _, rfl⟩ := hp
      obtain ⟨y, _, rfl⟩ := hq
      simp only [Name.idx.injEq] at he
      exact hne he
    · intro p hp
      simp only [List.mem_filterMap, Option.map_eq_some_iff] at hp
      obtain ⟨i, _, x, hx, rfl⟩ := hp
      exact List.mem_of_getElem? hx

/-! ### what a plain step does to one node -/

/-- key, index, slice, the three wildcards, a filter: no recursion, no comma list, no parent -/
def Step.plain : Step J → Bool
  | .key _ | .idx _ | .slice _ _ _ | .keyWc | .idxWc | .gwc | .filter _ => true
  | _ => false

def Step.isFilter : Step J → Bool
  | .filter _ => true
  | _ => false

/-- a plain non-filter step selects children of the node, under distinct names, holding
well-formed values -/
theorem evalStep_children (s : Step J) (hp : s.plain = true) (hf : s.isFilter = false) (n : MNode J) (hw : n.data.WFK) :
    ∃ its : List (Name × J), (evalStep s n).1 = its.map (fun it => MNode.child n it.1 it.2) ∧
      (its.map Prod.fst).Nodup ∧ ∀ it ∈ its, it.2.WFK := by
  cases s with
  | key k =>
    cases hd : n.data with
    | obj es =>
      cases hl : es.lookup k with
      | none => exact ⟨[], by simp [evalStep, Step.cls, singleOf, J.view, hd, hl], by simp, by simp⟩
      | some x =>
        refine ⟨[(.key k, x)], by simp [evalStep, Step.cls, singleOf, J.view, hd, hl], by simp, ?_⟩
        intro it hit
        simp only [List.mem_singleton] at hit
        subst hit
        rw [hd] at hw
        exact wfKvs_mem es hw.2 k x (lookup_mem es k x hl)
    | _ => exact ⟨[], by simp [evalStep, Step.cls, singleOf, J.view, hd], by simp, by simp⟩
  | idx i =>
    cases hd : n.data with
    | arr xs =>
      cases hl : getPy? xs i with
      | none => exact ⟨[], by simp [evalStep, Step.cls, singleOf, J.view, hd, hl], by simp, by simp⟩
      | some x =>
        refine ⟨[(.idx i, x)], by simp [evalStep, Step.cls, singleOf, J.view, hd, hl], by simp, ?_⟩
        intro it hit
        simp only [List.mem_singleton] at hit
        subst hit
        rw [hd] at hw
        exact wfList_mem xs hw x (getPy?_mem xs i x hl)
    | _ => exact ⟨[], by simp [evalStep, Step.cls, singleOf, J.view, hd], by simp, by simp⟩
  | slice a b c =>
    cases hd : n.data with
    | arr xs =>
      cases hs : sliceItems a b c xs with
      | none => exact ⟨[], by simp [evalStep, Step.cls, itemsOf, J.view, hd, hs], by simp, by simp⟩
      | some its =>
        obtain ⟨h1, h2⟩ := sliceItems_names a b c xs its hs
        refine ⟨its.map fun p => (Name.idx p.1, p.2), by simp [evalStep, Step.cls, itemsOf, J.view, hd, hs, List.map_map, Function.comp_def], ?_, ?_⟩
        · simpa [List.map_map, Function.comp_def] using h1
        · intro it hit
          simp only [List.mem_map] at hit
          obtain ⟨p, hp, rfl⟩ := hit
          rw [hd] at hw
          exact wfList_mem xs hw _ (h2 p hp)
    | _ => exact ⟨[], by simp [evalStep, Step.cls, itemsOf, J.view, hd], by simp, by simp⟩
  | keyWc =>
    cases hd : n.data with
    | obj es =>
      rw [hd] at hw
      refine ⟨dictItems es, by simp [evalStep, Step.cls, itemsOf, J.view, hd], dictItems_names es hw.1, ?_⟩
      intro it hit
      simp only [dictItems, List.mem_map] at hit
      obtain ⟨⟨k, x⟩, hkx, rfl⟩ := hit
      exact wfKvs_mem es hw.2 k x hkx
    | _ => exact ⟨[], by simp [evalStep, Step.cls, itemsOf, J.view, hd], by simp, by simp⟩
  | idxWc =>
    cases hd : n.data with
    | arr xs =>
      rw [hd] at hw
      refine ⟨listItems xs, by simp [evalStep, Step.cls, itemsOf, J.view, hd], listItems_names xs, ?_⟩
      intro it hit
      simp only [listItems, List.mem_map] at hit
      obtain ⟨p, hp, rfl⟩ := hit
      exact wfList_mem xs hw _ (mem_enumFrom_snd 0 xs p hp)
    | _ => exact ⟨[], by simp [evalStep, Step.cls, itemsOf, J.view, hd], by simp, by simp⟩
  | gwc =>
    cases hd : n.data with
    | obj es =>
      rw [hd] at hw
      refine ⟨dictItems es, by simp [evalStep, Step.cls, itemsOf, J.view, hd], dictItems_names es hw.1, ?_⟩
      intro it hit
      simp only [dictItems, List.mem_map] at hit
      obtain ⟨⟨k, x⟩, hkx, rfl⟩ := hit
      exact wfKvs_mem es hw.2 k x hkx
    | arr xs =>
      rw [hd] at hw
      refine ⟨listItems xs, by simp [evalStep, Step.cls, itemsOf, J.view, hd], listItems_names xs, ?_⟩
      intro it hit
      simp only [listItems, List.mem_map] at hit
      obtain ⟨p, hp, rfl⟩ := hit
      exact wfList_mem xs hw _ (mem_enumFrom_snd 0 xs p hp)
    | _ => exact ⟨[], by simp [evalStep, Step.cls, itemsOf, J.view, hd], by simp, by simp⟩
  | filter f => simp [Step.isFilter] at hf
  | recur => simp [Step.plain] at hp
  | parent => simp [Step.plain] at hp
  | tuple ns => simp [Step.plain] at hp

/-- a filter keeps the node (as its bookkeeping twin) or drops it -/
theorem evalStep_filter (f : Pred J) (n : MNode J) :
    (evalStep (.filter f) n).1 = [] ∨ (evalStep (.filter f) n).1 = [.imag n] := by
  simp only [evalStep, Step.cls]
  split
  · split <;> simp
  · simp

/-! ### relations on locations kept by plain steps -/

/-- a relation between nodes that only looks at locations and survives (a) extending both
by one name, (b) extending one location by two different names, (c) keeping both -/
structure LocRel (R : MNode J → MNode J → Prop) : Prop where
  ext : ∀ a1 a2 x y n1 n2, R a1 a2 → x.loc = a1.loc ++ [n1] → y.loc = a2.loc ++ [n2] → R x y
  sib : ∀ (a x y : MNode J) n1 n2, n1 ≠ n2 → x.loc = a.loc ++ [n1] → y.loc = a.loc ++ [n2] → R x y
  keep : ∀ a1 a2 x y, R a1 a2 → x.loc = a1.loc → y.loc = a2.loc → R x y

def LocNe (a b : MNode J) : Prop := a.loc ≠ b.loc
def Inc (a b : MNode J) : Prop := ¬ a.loc <+: b.loc ∧ ¬ b.loc <+: a.loc

theorem locNe_rel : LocRel LocNe where
  ext := by
    intro a1 a2 x y n1 n2 h hx hy he
    rw [hx, hy] at he
    exact h (List.append_inj_left' he rfl)
  sib := by
    intro a x y n1 n2 h hx hy he
    rw [hx, hy] at he
    exact h (by simpa using he)
  keep := by
    intro a1 a2 x y h hx hy he
    rw [hx, hy] at he; exact h he

theorem prefix_snoc_of {β} (l1 l2 : List β) (a b : β) (h : l1 ++ [a] <+: l2 ++ [b]) : l1 <+: l2 ∨ l2 <+: l1 := by
  have h1 : l1 <+: l2 ++ [b] := (List.prefix_append l1 [a]).trans h
  rcases List.prefix_concat_iff.mp (by simpa using h1) with he | hp
  · right; rw [he]; simp
  · left; exact hp

theorem inc_rel : LocRel Inc where
  ext := by
    intro a1 a2 x y n1 n2 h hx hy
    rw [Inc, hx, hy]
    constructor
    · intro hp
      rcases prefix_snoc_of _ _ _ _ hp with h' | h'
      · exact h.1 h'
      · exact h.2 h'
    · intro hp
      rcases prefix_snoc_of _ _ _ _ hp with h' | h'
      · exact h.2 h'
      · exact h.1 h'
  sib := by
    intro a x y n1 n2 h hx hy
    rw [Inc, hx, hy]
    constructor
    · intro hp
      have := hp.eq_of_length (by simp)
      exact h (by simpa using this)
    · intro hp
      have := hp.eq_of_length (by simp)
      exact h (by simpa using this.symm)
  keep := by
    intro a1 a2 x y h hx hy
    rw [Inc, hx, hy]; exact h

theorem pairwise_children (R : MNode J → MNode J → Prop) (hR : LocRel R) (n : MNode J) (its : List (Name × J))
    (hn : (its.map Prod.fst).Nodup) : (its.map (fun it => MNode.child n it.1 it.2)).Pairwise R := by
  apply List.pairwise_map.mpr
  have := List.pairwise_map.mp hn
  exact this.imp (fun hne => hR.sib n _ _ _ _ hne rfl rfl)

/-- one plain step keeps a location relation on the whole frontier -/
theorem step_keeps (R : MNode J → MNode J → Prop) (hR : LocRel R) (s : Step J) (hp : s.plain = true)
    (L : List (MNode J)) (hw : ∀ n ∈ L, n.data.WFK) (hL : L.Pairwise R) :
    (L.flatMap fun n => (evalStep s n).1).Pairwise R ∧ ∀ r ∈ L.flatMap (fun n => (evalStep s n).1), r.data.WFK := by
  by_cases hf : s.isFilter = true
  · cases s <;> simp [Step.isFilter] at hf
    rename_i f
    constructor
    · apply List.pairwise_flatMap.mpr
      constructor
      · intro a _
        rcases evalStep_filter f a with h | h <;> rw [h] <;> simp
      · apply hL.imp
        intro a1 a2 h x hx y hy
        rcases evalStep_filter f a1 with h1 | h1 <;> rw [h1] at hx <;> simp at hx
        rcases evalStep_filter f a2 with h2 | h2 <;> rw [h2] at hy <;> simp at hy
        subst hx; subst hy
        exact hR.keep a1 a2 _ _ h rfl rfl
    · intro r hr
      simp only [List.mem_flatMap] at hr
      obtain ⟨a, ha, hra⟩ := hr
      rcases evalStep_filter f a with h1 | h1 <;> rw [h1] at hra <;> simp at hra
      subst hra
      exact hw a ha
  · simp only [Bool.not_eq_true] at hf
    constructor
    · apply List.pairwise_flatMap.mpr
      constructor
      · intro a ha
        obtain ⟨its, he, hn, _⟩ := evalStep_children s hp hf a (hw a ha)
        rw [he]; exact pairwise_children R hR a its hn
      · have hL' := List.Pairwise.and_mem.mp hL
        apply hL'.imp
        intro a1 a2 ⟨h1, h2, h⟩ x hx y hy
        obtain ⟨its1, he1, _, _⟩ := evalStep_children s hp hf a1 (hw a1 h1)
        obtain ⟨its2, he2, _, _⟩ := evalStep_children s hp hf a2 (hw a2 h2)
        rw [he1] at hx; rw [he2] at hy
        simp only [List.mem_map] at hx hy
        obtain ⟨i1, _, rfl⟩ := hx
        obtain ⟨i2, _, rfl⟩ := hy
        exact hR.ext a1 a2 _ _ i1.1 i2.1 h rfl rfl
    · intro r hr
      simp only [List.mem_flatMap] at hr
      obtain ⟨a, ha, hra⟩ := hr
      obtain ⟨its, he, _, hwf⟩ := evalStep_children s hp hf a (hw a ha)
      rw [he] at hra
      simp only [List.mem_map] at hra
      obtain ⟨it, hit, rfl⟩ := hra
      exact hwf it hit

/-! ### plain paths -/

theorem plain_not_recur (s : Step J) (h : s.plain = true) : s.isRecur = false := by
  cases s <;> simp [Step.plain] at h <;> rfl

theorem eval_cons_quiet (s : Step J) (rest : List (Step J)) (hq : Quiet (s :: rest)) (hs : s.isRecur = false) (n : MNode J) :
    eval (s :: rest) n = ((evalStep s n).1).flatMap (eval rest) := by
  have hq' : Quiet rest := fun t ht => hq t (List.mem_cons_of_mem _ ht)
  have h1 : (evalE [s] n).2 = none := evalE_quiet [s] (fun t ht => hq t (by simp at ht; simp [ht])) n
  have hstep : (evalStep s n).2 = none := by
    rw [evalE_cons_bind s [] n hs] at h1
    rcases he : evalStep s n with ⟨ns, e⟩
    rw [he] at h1
    cases e with
    | none => rfl
    | some x =>
      simp only [bindRes, Res.append] at h1
      rcases hsf : seqFlat (evalE []) ns with ⟨o, e'⟩
      rw [hsf] at h1
      cases e' <;> simp at h1
  simp only [eval]
  rw [evalE_cons_bind s rest n hs, bindRes_fst_quiet _ _ hstep (fun m => evalE_quiet rest hq' m)]
  rfl

/-- a plain quiet path keeps a location relation on the frontier -/
theorem plain_path_keeps (R : MNode J → MNode J → Prop) (hR : LocRel R) (q : List (Step J))
    (hp : ∀ s ∈ q, s.plain = true) (hq : Quiet q) :
    ∀ (L : List (MNode J)), (∀ n ∈ L, n.data.WFK) → L.Pairwise R →
      (L.flatMap (eval q)).Pairwise R ∧ ∀ r ∈ L.flatMap (eval q), r.data.WFK := by
  induction q with
  | nil =>
    intro L hw hL
    have : L.flatMap (eval []) = L := by
      induction L with
      | nil => rfl
      | cons a as ih =>
        simp only [List.flatMap_cons, eval_nil]
        rw [ih (fun n hn => hw n (List.mem_cons_of_mem _ hn)) (List.pairwise_cons.mp hL).2]
        rfl
    rw [this]; exact ⟨hL, hw⟩
  | cons s rest ih =>
    intro L hw hL
    have hq' : Quiet rest := fun t ht => hq t (List.mem_cons_of_mem _ ht)
    have hs := hp s (by simp)
    have hflat : L.flatMap (eval (s :: rest)) = (L.flatMap fun n => (evalStep s n).1).flatMap (eval rest) := by
      rw [List.flatMap_assoc]
      exact flatMap_congr' (fun n _ => eval_cons_quiet s rest hq (plain_not_recur s hs) n)
    rw [hflat]
    obtain ⟨h1, h2⟩ := step_keeps R hR s hs L hw hL
    exact ih (fun t ht => hp t (List.mem_cons_of_mem _ ht)) hq' _ h2 h1

/-! ### the recursive step -/

theorem allItems_wf (x : J) (hw : x.WFK) (its : List (Name × J)) (h : allItems x.view = some its) :
    (its.map Prod.fst).Nodup ∧ ∀ it ∈ its, it.2.WFK ∧ J.sz it.2 < J.sz x := by
  cases x <;> simp [J.view, allItems] at h
  · rename_i xs
    subst h
    refine ⟨listItems_names xs, ?_⟩
    intro it hit
    refine ⟨?_, sz_mem_listItems xs it.1 it.2 hit⟩
    simp only [listItems, List.mem_map] at hit
    obtain ⟨p, hp, rfl⟩ := hit
    exact wfList_mem xs hw _ (mem_enumFrom_snd 0 xs p hp)
  · rename_i es
    subst h
    refine ⟨dictItems_names es hw.1, ?_⟩
    intro it hit
    refine ⟨?_, sz_mem_dictItems es it.1 it.2 hit⟩
    simp only [dictItems, List.mem_map] at hit
    obtain ⟨⟨k, x⟩, hkx, rfl⟩ := hit
    exact wfKvs_mem es hw.2 k x hkx

theorem loc_ne_of_prefixes (l : List Name) (n1 n2 : Name) (x y : List Name) (hne : n1 ≠ n2)
    (hx : l ++ [n1] <+: x) (hy : l ++ [n2] <+: y) : x ≠ y := by
  intro he
  subst he
  have := List.prefix_of_prefix_length_le hx hy (by simp)
  have := this.eq_of_length (by simp)
  exact hne (by simpa using this)

/-- every node of the pre-order listing below `n` has `n`'s location as a prefix, and the
listing's locations are distinct -/
theorem preNodes_locs : ∀ (N : Nat) (x : J), J.sz x ≤ N → x.WFK → ∀ (n : MNode J), n.data.WFK →
    (∀ m ∈ preNodes n x, n.loc <+: m.loc ∧ m.data.WFK) ∧ (preNodes n x).Pairwise LocNe := by
  intro N
  induction N with
  | zero => intro x hx; cases x <;> simp [J.sz] at hx
  | succ N ih =>
    intro x hx hw n hn
    cases hc : allItems x.view with
    | none =>
      rw [preNodes_scalar _ _ hc]
      exact ⟨by intro m hm; simp at hm; subst hm; exact ⟨List.prefix_refl _, hn⟩, by simp⟩
    | some its =>
      rw [preNodes_container _ _ its hc]
      obtain ⟨hnames, hits⟩ := allItems_wf x hw its hc
      have hblock : ∀ it ∈ its, (∀ m ∈ preNodes (.child n it.1 it.2) it.2, (n.loc ++ [it.1]) <+: m.loc ∧ m.data.WFK) ∧
          (preNodes (.child n it.1 it.2) it.2).Pairwise LocNe := by
        intro it hit
        obtain ⟨h1, h2⟩ := hits it hit
        exact ih it.2 (by omega) h1 (.child n it.1 it.2) h1
      have hmem : ∀ m ∈ preItems n its, ∃ it ∈ its, (n.loc ++ [it.1]) <+: m.loc ∧ m.data.WFK := by
        intro m hm
        simp only [preItems, List.mem_flatMap] at hm
        obtain ⟨it, hit, hmit⟩ := hm
        exact ⟨it, hit, (hblock it hit).1 m hmit⟩
      constructor
      · intro m hm
        simp only [List.mem_cons] at hm
        rcases hm with rfl | hm
        · exact ⟨List.prefix_refl _, hn⟩
        · obtain ⟨it, _, hp, hwf⟩ := hmem m hm
          exact ⟨(List.prefix_append _ _).trans hp, hwf⟩
      · apply List.pairwise_cons.mpr
        constructor
        · intro m hm he
          obtain ⟨it, _, hp, _⟩ := hmem m hm
          have := hp.length_le
          rw [← he] at this
          simp at this
          omega
        · simp only [preItems]
          apply List.pairwise_flatMap.mpr
          constructor
          · intro it hit; exact (hblock it hit).2
          · have hn' := List.Pairwise.and_mem.mp (List.pairwise_map.mp hnames)
            apply hn'.imp
            intro i1 i2 ⟨h1, h2, hne⟩ x hx y hy
            exact loc_ne_of_prefixes n.loc i1.1 i2.1 x.loc y.loc hne ((hblock i1 h1).1 x hx).1 ((hblock i2 h2).1 y hy).1

/-- what the recursive step hands to the rest of the path at one pre-order node: containers
as bookkeeping nodes, scalars only when the recursive step is the last one -/
def recPiece (last : Bool) (m : MNode J) : List (MNode J) :=
  if m.data.isContainer then [.imag m] else if last then [m] else []

def recCands (last : Bool) (n : MNode J) : List (MNode J) := (recNodes n).flatMap (recPiece last)

theorem recPiece_loc (last : Bool) (m x : MNode J) (h : x ∈ recPiece last m) : x.loc = m.loc ∧ x.data = m.data := by
  simp only [recPiece] at h
  split at h
  · simp at h; subst h; exact ⟨rfl, rfl⟩
  · split at h
    · simp at h; subst h; exact ⟨rfl, rfl⟩
    · simp at h

theorem eval_recur_quiet (rest : List (Step J)) (hq : Quiet rest) (n : MNode J) :
    eval (.recur :: rest) n = (recCands rest.isEmpty n).flatMap (eval rest) := by
  simp only [eval, evalE]
  rw [seqFlat_noraise]
  · simp only [recCands, List.flatMap_assoc]
    apply flatMap_congr'
    intro m _
    simp only [recPiece]
    by_cases hc : m.data.isContainer = true
    · simp [hc, eval]
    · simp only [hc]
      by_cases hl : rest.isEmpty = true
      · have : rest = [] := by simpa using hl
        subst this
        simp [eval, evalE]
      · simp [hl]
  · intro m _
    by_cases hc : m.data.isContainer = true
    · simp [hc, evalE_quiet rest hq]
    · simp only [hc]
      by_cases hl : rest.isEmpty = true <;> simp [hl]

/-- from a frontier of pairwise incomparable locations, the recursive step produces distinct
locations -/
theorem recur_distinct (last : Bool) (L : List (MNode J)) (hw : ∀ n ∈ L, n.data.WFK) (hL : L.Pairwise Inc) :
    (L.flatMap (recCands last)).Pairwise LocNe ∧ ∀ r ∈ L.flatMap (recCands last), r.data.WFK := by
  have hnodes : ∀ n ∈ L, (∀ m ∈ recNodes n, n.loc <+: m.loc ∧ m.data.WFK) ∧ (recNodes n).Pairwise LocNe := by
    intro n hn
    simp only [recNodes]
    split
    · exact preNodes_locs _ n.data (Nat.le_refl _) (hw n hn) n (hw n hn)
    · exact ⟨by simp, by simp⟩
  have hcand : ∀ n ∈ L, ∀ x ∈ recCands last n, n.loc <+: x.loc ∧ x.data.WFK := by
    intro n hn x hx
    simp only [recCands, List.mem_flatMap] at hx
    obtain ⟨m, hm, hxm⟩ := hx
    obtain ⟨h1, h2⟩ := recPiece_loc last m x hxm
    rw [h1, h2]
    exact (hnodes n hn).1 m hm
  constructor
  · apply List.pairwise_flatMap.mpr
    constructor
    · intro n hn
      simp only [recCands]
      apply List.pairwise_flatMap.mpr
      constructor
      · intro m _
        simp only [recPiece]
        split
        · simp
        · split <;> simp
      · apply (hnodes n hn).2.imp
        intro m1 m2 hne x hx y hy
        rw [LocNe, (recPiece_loc last m1 x hx).1, (recPiece_loc last m2 y hy).1]
        exact hne
    · have hL' := List.Pairwise.and_mem.mp hL
      apply hL'.imp
      intro n1 n2 ⟨h1, h2, hinc⟩ x hx y hy he
      have p1 := (hcand n1 h1 x hx).1
      have p2 := (hcand n2 h2 y hy).1
      rw [he] at p1
      rcases List.prefix_or_prefix_of_prefix p1 p2 with h | h
      · exact hinc.1 h
      · exact hinc.2 h
  · intro r hr
    simp only [List.mem_flatMap] at hr
    obtain ⟨n, hn, hrn⟩ := hr
    exact (hcand n hn r hrn).2

/-! ### the theorem -/

theorem notEndsInRecur_plain (p : List (Step J)) (hp : ∀ s ∈ p, s.plain = true) : notEndsInRecur p = true := by
  induction p with
  | nil => rfl
  | cons s rest ih =>
    cases rest with
    | nil =>
      have := hp s (by simp)
      cases s <;> simp [Step.plain] at this <;> rfl
    | cons t ts => simpa [notEndsInRecur] using ih (fun x hx => hp x (List.mem_cons_of_mem _ hx))

theorem eval_append_quiet (p q : List (Step J)) (hp : notEndsInRecur p = true) (hq : Quiet (p ++ q)) (n : MNode J) :
    eval (p ++ q) n = (eval p n).flatMap (eval q) := by
  have hqp : Quiet p := fun t ht => hq t (List.mem_append_left _ ht)
  have hqq : Quiet q := fun t ht => hq t (List.mem_append_right _ ht)
  simp only [eval]
  rw [evalE_append p q hp n, bindRes_fst_quiet _ _ (evalE_quiet p hqp n) (fun m => evalE_quiet q hqq m)]
  rfl

/-- **no location is reported twice**: on a document whose dicts have unique keys, a quiet
path made of plain steps (keys, indices, slices, wildcards, filters) with at most one
recursive step — no comma-delimited step, no parent step — yields results with pairwise
distinct locations -/
theorem locations_distinct (p : List (Step J)) (d : J) (hd : d.WFK) (hq : Quiet p)
    (hshape : (∀ s ∈ p, s.plain = true) ∨
      ∃ pre post, p = pre ++ Step.recur :: post ∧ (∀ s ∈ pre, s.plain = true) ∧ (∀ s ∈ post, s.plain = true)) :
    ((eval p (.root d)).map MNode.loc).Nodup := by
  apply List.pairwise_map.mpr
  show (eval p (.root d)).Pairwise LocNe
  have h0w : ∀ n ∈ [MNode.root d], n.data.WFK := by
    intro n hn; simp at hn; subst hn; exact hd
  rcases hshape with hp | ⟨pre, post, rfl, hpre, hpost⟩
  · have := (plain_path_keeps LocNe locNe_rel p hp hq [.root d] h0w (by simp)).1
    simpa using this
  · have hqpre : Quiet pre := fun t ht => hq t (List.mem_append_left _ ht)
    have hqpost : Quiet post := fun t ht => hq t (List.mem_append_right _ (List.mem_cons_of_mem _ ht))
    obtain ⟨hA, hAw⟩ := plain_path_keeps Inc inc_rel pre hpre hqpre [.root d] h0w (by simp)
    simp only [List.flatMap_cons, List.flatMap_nil, List.append_nil] at hA hAw
    obtain ⟨hB, hBw⟩ := recur_distinct post.isEmpty (eval pre (.root d)) hAw hA
    obtain ⟨hC, _⟩ := plain_path_keeps LocNe locNe_rel post hpost hqpost _ hBw hB
    rw [eval_append_quiet pre (.recur :: post) (notEndsInRecur_plain pre hpre) hq]
    have : (eval pre (.root d)).flatMap (eval (.recur :: post)) =
        ((eval pre (.root d)).flatMap (recCands post.isEmpty)).flatMap (eval post) := by
      rw [List.flatMap_assoc]
      exact flatMap_congr' (fun n _ => eval_recur_quiet post hqpost n)
    rw [this]
    exact hC

end Treepath
