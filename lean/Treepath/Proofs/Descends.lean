import Treepath.Proofs.Genuine
/-
Every match a search yields *descends from the root match of that search* through the
derivation links (`child` / bookkeeping / parent-step nodes).  For a search started from a
`Match` this is what makes its results hang below that Match's own `TraverserMatch` objects:
the chain `m, m.parent, m.parent.parent, …` of a result ends in the chain of the start match.
-/
namespace Treepath
variable {α : Type}

inductive Desc (r : MNode α) : MNode α → Prop where
  | refl : Desc r r
  | child {p nm d} : Desc r p → Desc r (.child p nm d)
  | imag {p} : Desc r p → Desc r (.imag p)
  | par {rm f} : Desc r f → Desc r (.par rm f)

section machine
variable (view : α → View α) (steps : Array (Step α)) (src : Src α)

def DescStk (stk : List (Frame α)) : Prop := ∀ fr ∈ stk, Desc src.rootNode fr.owner

def DescAS : AS α → Prop
  | .init => True
  | .report n _ _ stk => Desc src.rootNode n ∧ DescStk src stk
  | .catch_ stk => DescStk src stk
  | .attempt n _ stk => Desc src.rootNode n ∧ DescStk src stk
  | .parked stk => DescStk src stk
  | .done => True

def DescSig : Sig α → Prop
  | .result n => Desc src.rootNode n
  | _ => True

theorem resume_desc (stk : List (Frame α)) (h : DescStk src stk) : DescAS src (resume stk) := by
  cases stk with
  | nil => trivial
  | cons fr stk => exact h

theorem descStk_cons (fr : Frame α) (stk : List (Frame α)) (h1 : Desc src.rootNode fr.owner) (h : DescStk src stk) :
    DescStk src (fr :: stk) := by
  intro x hx
  rcases List.mem_cons.mp hx with rfl | hx
  · exact h1
  · exact h x hx

theorem aIter_desc (n : MNode α) (vi : Nat) (its : List (Name × α)) (stk : List (Frame α))
    (hn : Desc src.rootNode n) (h : DescStk src stk) :
    DescAS src (aIter n vi its stk).1 ∧ DescSig src (aIter n vi its stk).2.2 := by
  cases its with
  | nil => exact ⟨resume_desc src stk h, trivial⟩
  | cons it tl =>
    obtain ⟨nm, x⟩ := it
    exact ⟨⟨.child hn, descStk_cons src _ _ hn h⟩, trivial⟩

theorem aRecIter_desc (n : MNode α) (vi : Nat) (its : List (Name × α)) (stk : List (Frame α))
    (hn : Desc src.rootNode n) (h : DescStk src stk) :
    DescAS src (aRecIter view n vi its stk).1 ∧ DescSig src (aRecIter view n vi its stk).2.2 := by
  cases its with
  | nil => exact ⟨resume_desc src stk h, trivial⟩
  | cons it tl =>
    obtain ⟨nm, x⟩ := it
    simp only [aRecIter]
    split
    · exact ⟨⟨.child hn, descStk_cons src _ _ hn h⟩, trivial⟩
    · exact ⟨⟨.imag (.child hn), descStk_cons src _ _ (.child hn) (descStk_cons src _ _ hn h)⟩, trivial⟩

theorem singleOf_desc (s : Step α) (n n' : MNode α) (hn : Desc src.rootNode n) (hs : singleOf view s n = some n') :
    Desc src.rootNode n' := by
  cases s <;> simp only [singleOf] at hs
  case key k =>
    split at hs
    · simp only [Option.map_eq_some_iff] at hs
      obtain ⟨x, _, rfl⟩ := hs
      exact .child hn
    · simp at hs
  case idx i =>
    split at hs
    · simp only [Option.map_eq_some_iff] at hs
      obtain ⟨x, _, rfl⟩ := hs
      exact .child hn
    · simp at hs
  case parent =>
    cases ht : n.remParent with
    | none => simp [ht] at hs
    | some t => simp only [ht, Option.map_some, Option.some.injEq] at hs; subst hs; exact .par hn
  all_goals simp at hs

theorem astep_desc (as : AS α) (hg : DescAS src as) :
    DescAS src (astep view steps src as).1 ∧ DescSig src (astep view steps src as).2.2 := by
  cases as with
  | init => exact ⟨⟨.refl, by intro x hx; simp at hx⟩, trivial⟩
  | done => exact ⟨trivial, trivial⟩
  | report n vertex vidx stk =>
    obtain ⟨h1, h2⟩ := hg
    simp only [astep]
    split
    · exact ⟨h2, h1⟩
    · exact ⟨⟨h1, h2⟩, trivial⟩
  | catch_ stk => exact ⟨resume_desc src stk hg, trivial⟩
  | parked stk =>
    cases stk with
    | nil => exact ⟨trivial, trivial⟩
    | cons fr stk =>
      have hfr := hg fr (by simp)
      have hstk : DescStk src stk := fun x hx => hg x (List.mem_cons_of_mem _ hx)
      simp only [astep]
      split
      · exact aRecIter_desc view src fr.owner fr.vidx fr.items stk hfr hstk
      · exact aIter_desc src fr.owner fr.vidx fr.items stk hfr hstk
      · exact ⟨hg, trivial⟩
  | attempt n vidx stk =>
    obtain ⟨hn, hs⟩ := hg
    simp only [astep, aAttempt]
    split
    · exact ⟨⟨hn, hs⟩, trivial⟩
    · split
      · split
        · split
          · exact ⟨⟨.imag hn, hs⟩, trivial⟩
          · exact ⟨resume_desc src stk hs, trivial⟩
        · exact ⟨⟨hn, hs⟩, trivial⟩
      · split
        · exact ⟨resume_desc src stk hs, trivial⟩
        · exact ⟨⟨.imag hn, descStk_cons src _ _ hn hs⟩, trivial⟩
      · split
        · exact ⟨resume_desc src stk hs, trivial⟩
        · rename_i n' hs'
          exact ⟨⟨singleOf_desc view src _ n n' hn hs', hs⟩, trivial⟩
      · split
        · exact ⟨resume_desc src stk hs, trivial⟩
        · rename_i n' hs'
          exact ⟨⟨singleOf_desc view src _ n n' hn hs', hs⟩, trivial⟩
      · split
        · exact ⟨resume_desc src stk hs, trivial⟩
        · rename_i n' hs'
          exact ⟨⟨singleOf_desc view src _ n n' hn hs', hs⟩, trivial⟩
      · split
        · exact ⟨resume_desc src stk hs, trivial⟩
        · exact ⟨⟨hn, hs⟩, trivial⟩
        · exact aIter_desc src n vidx _ stk hn hs

theorem anext_desc (limit : Nat) (as : AS α) (hg : DescAS src as) :
    DescAS src (anext view steps src limit as).1 ∧ DescSig src (anext view steps src limit as).2.2 := by
  induction limit generalizing as with
  | zero => exact ⟨hg, trivial⟩
  | succ limit ih =>
    obtain ⟨h1, h2⟩ := astep_desc view steps src as hg
    unfold anext
    rcases hb : astep view steps src as with ⟨t, ev, sg⟩
    rw [hb] at h1 h2
    cases sg with
    | none => simp only; split; exact ⟨h1, trivial⟩; exact ih t h1
    | result n => simp only; split; exact ⟨h1, trivial⟩; exact ⟨h1, h2⟩
    | stop => exact ⟨h1, trivial⟩
    | raised e => exact ⟨h1, trivial⟩
    | bug m => exact ⟨h1, trivial⟩

end machine

/-- every match of an iteration descends from the root match of the search -/
theorem drain_desc (cx : Ctx α) (steps : Array (Step α)) (src : Src α) (fuel : Nat) (st : St α) (as : AS α)
    (h1 : R steps st as) (hg : DescAS src as) : ∀ n ∈ (drain cx steps src fuel st).1, Desc src.rootNode n := by
  induction fuel generalizing st as with
  | zero => intro n hn; simp [drain] at hn
  | succ fuel ih =>
    obtain ⟨ea, ra⟩ := next_anext cx.view steps src cx.limit st as h1
    obtain ⟨g1, g2⟩ := anext_desc cx.view steps src cx.limit as hg
    simp only [drain, nextOut]
    rcases hna : next cx.view steps src cx.limit st with ⟨ta, eva, sga⟩
    rw [hna] at ea ra
    rcases haa : anext cx.view steps src cx.limit as with ⟨ua, fa, ga⟩
    rw [haa] at ea ra g1 g2
    simp only [Prod.mk.injEq] at ea
    obtain ⟨_, rfl⟩ := ea
    simp only at ra g1 g2
    cases sga with
    | result m =>
      intro n hn
      simp only [List.mem_cons] at hn
      rcases hn with rfl | hn
      · exact g2
      · exact ih ta ua ra g1 n hn
    | none => intro n hn; simp at hn
    | stop => intro n hn; simp at hn
    | raised e => intro n hn; simp at hn
    | bug m => intro n hn; simp at hn

theorem drain_fresh_desc (cx : Ctx α) (steps : Array (Step α)) (src : Src α) (fuel : Nat) :
    ∀ n ∈ (drain cx steps src fuel freshIter).1, Desc src.rootNode n :=
  drain_desc cx steps src fuel freshIter .init (.init _ rfl) trivial

end Treepath
