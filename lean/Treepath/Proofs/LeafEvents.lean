import Treepath.Proofs.StreamEval
import Treepath.Proofs.Work
/- "The events delivered outside filter evaluation that attempted the path's last step and
succeeded correspond one-to-one, in order, to the results yielded" — for the specification
stream (and hence, through `full_run`, for the trace of the machine). -/
namespace Treepath

/-- a successful attempt of the search itself (no `predicate_match`) at step index `L` -/
def leafHit (L : Nat) : Ev J → Option (MNode J)
  | .attempt _ i (some m) none => if i = L then some m else none
  | _ => none

def leafHits (L : Nat) (evs : List (Ev J)) : List (MNode J) := evs.filterMap (leafHit L)

@[simp] theorem leafHits_nil (L : Nat) : leafHits L [] = [] := rfl
@[simp] theorem leafHits_append (L : Nat) (a b : List (Ev J)) : leafHits L (a ++ b) = leafHits L a ++ leafHits L b := by
  simp [leafHits, List.filterMap_append]
@[simp] theorem leafHits_hit (L : Nat) (l m : MNode J) (i : Nat) (t : List (Ev J)) :
    leafHits L (.attempt l i (some m) none :: t) = (if i = L then [m] else []) ++ leafHits L t := by
  by_cases h : i = L <;> simp [leafHits, List.filterMap_cons, leafHit, h]
@[simp] theorem leafHits_miss (L : Nat) (l : MNode J) (i : Nat) (t : List (Ev J)) :
    leafHits L (.attempt l i none none :: t) = leafHits L t := by
  simp [leafHits, List.filterMap_cons, leafHit]
@[simp] theorem leafHits_predCall (L : Nat) (c : MNode J) (t : List (Ev J)) : leafHits L (.predCall c :: t) = leafHits L t := by
  simp [leafHits, List.filterMap_cons, leafHit]
@[simp] theorem leafHits_result (L : Nat) (c : MNode J) (t : List (Ev J)) : leafHits L (.result c :: t) = leafHits L t := by
  simp [leafHits, List.filterMap_cons, leafHit]
@[simp] theorem leafHits_raised (L : Nat) (e : Exc) (t : List (Ev J)) : leafHits L (.raised e :: t) = leafHits L t := by
  simp [leafHits, List.filterMap_cons, leafHit]

theorem leafHits_flatMap {β} (L : Nat) (f : β → List (Ev J)) (l : List β) :
    leafHits L (l.flatMap f) = l.flatMap (fun x => leafHits L (f x)) := by
  induction l with
  | nil => rfl
  | cons x xs ih => simp [List.flatMap_cons, ih]

/-- stamped events are not events of the search itself -/
theorem leafHits_of_stamped (L : Nat) (evs : List (Ev J)) (h : attemptsTop evs = 0) : leafHits L evs = [] := by
  induction evs with
  | nil => rfl
  | cons e t ih =>
    cases e with
    | attempt l vi nx st =>
      cases st with
      | none => rw [attemptsTop_attempt] at h; omega
      | some s =>
        have : attemptsTop t = 0 := by simpa [attemptsTop, List.countP_cons] using h
        simpa [leafHits, List.filterMap_cons, leafHit] using ih this
    | predCall c => rw [attemptsTop_predCall] at h; simpa using ih h
    | result c => rw [attemptsTop_result] at h; simpa using ih h
    | raised x => rw [attemptsTop_raised] at h; simpa using ih h
    | fnCall nm a =>
      have : attemptsTop t = 0 := by simpa [attemptsTop, List.countP_cons] using h
      simpa [leafHits, List.filterMap_cons, leafHit] using ih this
    | stop =>
      have : attemptsTop t = 0 := by simpa [attemptsTop, List.countP_cons] using h
      simpa [leafHits, List.filterMap_cons, leafHit] using ih this

/-- one child of a recursive step: hits and results stay aligned, provided they are aligned for the
rest of the path started at any node the step reaches (`hk`: the attempt that reaches `m`
counts as a hit exactly when the recursive step is the last step) -/
theorem leaf_recChild (k : MNode J → List (Ev J)) (last : Bool) (vi L : Nat)
    (hB : last = true ↔ vi + 1 = L)
    (hk : ∀ m : MNode J, (if vi + 1 = L then [m] else []) ++ leafHits L (k m) = resultsOf (k m)) :
    ∀ (N : Nat) (x : J), J.sz x ≤ N → ∀ (n : MNode J) (nm : Name),
      leafHits L (recChild k last vi n nm x) = resultsOf (recChild k last vi n nm x) := by
  intro N
  induction N with
  | zero => intro x hx; cases x <;> simp [J.sz] at hx
  | succ N ihN =>
    intro x hx n nm
    cases hc : allItems x.view with
    | none =>
      rw [recChild_scalar _ _ _ _ _ _ hc]
      by_cases hl : last = true
      · have := hB.mp hl
        simp [hl, this]
      · have hne : ¬ vi + 1 = L := fun e => hl (hB.mpr e)
        simp [hl, hne]
    | some its =>
      rw [recChild_container _ _ _ _ _ _ its hc]
      have hsmall : ∀ nm' x', (nm', x') ∈ its → J.sz x' ≤ N := by
        intro nm' x' hm
        cases x <;> simp [J.view, allItems] at hc
        · subst hc; have := sz_mem_listItems _ nm' x' hm; omega
        · subst hc; have := sz_mem_dictItems _ nm' x' hm; omega
      have hitems : leafHits L (recItems k last vi (.child n nm x) its) = resultsOf (recItems k last vi (.child n nm x) its) := by
        simp only [recItems, leafHits_flatMap, resultsOf_flatMap]
        apply flatMap_congr'
        intro it hit
        exact ihN it.2 (hsmall it.1 it.2 hit) (.child n nm x) it.1
      have := hk (.imag (.child n nm x))
      simp only [leafHits_hit, leafHits_append, leafHits_miss, leafHits_nil, resultsOf_attempt, resultsOf_append,
        resultsOf_nil, hitems, List.append_nil]
      rw [← List.append_assoc, this]

/-- **leaf events = results**: in the stream of a non-empty path whose predicates keep to
themselves (their attempts stamped, no results of their own), the successful attempts of the
search itself at the last step are exactly the results, in order -/
theorem leaf_hits_are_results (p : List (Step J)) (hne : p ≠ []) (hs : PredsStamped p) (hsil : PredsSilent p) :
    ∀ (vi : Nat) (n : MNode J), leafHits (vi + p.length) (stream p vi n) = resultsOf (stream p vi n) := by
  induction p with
  | nil => exact absurd rfl hne
  | cons s rest ih =>
    intro vi n
    have hs' : PredsStamped rest := fun t ht => hs t (List.mem_cons_of_mem _ ht)
    have hsil' : PredsSilent rest := fun t ht => hsil t (List.mem_cons_of_mem _ ht)
    -- the rest of the path from a node `m` reached by this step
    have hk : ∀ m : MNode J, (if vi + 1 = vi + (s :: rest).length then [m] else []) ++
        leafHits (vi + (s :: rest).length) (stream rest (vi+1) m) = resultsOf (stream rest (vi+1) m) := by
      intro m
      cases rest with
      | nil => simp [stream]
      | cons r rs =>
        have := ih (by simp) hs' hsil' (vi+1) m
        have hL : vi + 1 + (r :: rs).length = vi + (s :: r :: rs).length := by simp [List.length_cons]; omega
        rw [hL] at this
        have hne' : ¬ vi + 1 = vi + (s :: r :: rs).length := by simp [List.length_cons]
        simp only [hne', if_false, List.nil_append]
        exact this
    have hit : ∀ m : MNode J,
        leafHits (vi + (s :: rest).length) (.attempt n (vi+1) (some m) none :: stream rest (vi+1) m) =
          resultsOf (.attempt n (vi+1) (some m) none :: stream rest (vi+1) m) := by
      intro m
      rw [leafHits_hit, resultsOf_attempt]
      exact hk m
    cases hcls : s.cls with
    | single =>
      simp only [stream, hcls]
      cases hso : singleOf J.view s n with
      | none => simp
      | some n' => exact hit n'
    | filter =>
      cases s <;> simp [Step.cls] at hcls
      rename_i f
      have h1 := leafHits_of_stamped (vi + (Step.filter f :: rest).length) _ (hs (.filter f) (by simp) f rfl n)
      have h2 := hsil (.filter f) (by simp) f rfl n
      simp only [stream, Step.cls, leafHits_predCall, leafHits_append, h1, List.nil_append, resultsOf_predCall,
        resultsOf_append, h2]
      cases hr : (f n).res with
      | val j =>
        by_cases ht : j.truthy
        · simp only [ht, if_true]; exact hit (.imag n)
        · simp [ht]
      | raise e => simp [resultsOf]
    | multi =>
      simp only [stream, hcls]
      cases hio : itemsOf s n.data.view with
      | wrongKind => simp
      | valueError => simp [resultsOf]
      | ok its =>
        simp only [leafHits_append, leafHits_flatMap, resultsOf_append, resultsOf_flatMap, leafHits_miss, leafHits_nil,
          resultsOf_attempt, resultsOf_nil]
        congr 1
        apply flatMap_congr'
        intro it _
        exact hit (.child n it.1 it.2)
    | recur =>
      cases s <;> simp [Step.cls] at hcls
      simp only [stream, Step.cls]
      cases hc : allItems n.data.view with
      | none =>
        have hnc : n.data.isContainer = false := by
          have := allItems_isContainer n.data; rw [hc] at this; simpa using this.symm
        simp [hnc]
      | some its =>
        have hnc : n.data.isContainer = true := by
          have := allItems_isContainer n.data; rw [hc] at this; simpa using this.symm
        have hB : rest.isEmpty = true ↔ vi + 1 = vi + (Step.recur :: rest).length := by
          cases rest <;> simp [List.length_cons]
        have hitems : leafHits (vi + (Step.recur :: rest).length) (recItems (fun m => stream rest (vi+1) m) rest.isEmpty vi n its) =
            resultsOf (recItems (fun m => stream rest (vi+1) m) rest.isEmpty vi n its) := by
          simp only [recItems, leafHits_flatMap, resultsOf_flatMap]
          apply flatMap_congr'
          intro it _
          exact leaf_recChild (fun m => stream rest (vi+1) m) rest.isEmpty vi _ hB hk (J.sz it.2) it.2 (Nat.le_refl _) n it.1
        have := hk (.imag n)
        simp only [hnc, if_true, recBody_items _ _ _ _ _ its hc, leafHits_hit, leafHits_append, leafHits_miss, leafHits_nil,
          resultsOf_attempt, resultsOf_append, resultsOf_nil, hitems, List.append_nil]
        rw [← List.append_assoc, this]

/-! ### the same through the first exception

The machine's trace, when a predicate raises, is the stream *through its first `raised` event*.
Hits and results stay aligned on that prefix because every hit is directly followed by its
result: -/

/-- every hit is directly followed by its result, and there is no other result -/
inductive Paired (L : Nat) : List (Ev J) → Prop
  | nil : Paired L []
  | hit (l m : MNode J) (t : List (Ev J)) : Paired L t → Paired L (.attempt l L (some m) none :: .result m :: t)
  | other (e : Ev J) (t : List (Ev J)) : leafHit L e = none → (∀ m, e ≠ .result m) → Paired L t → Paired L (e :: t)

theorem Paired.append {L : Nat} {a b : List (Ev J)} (ha : Paired L a) (hb : Paired L b) : Paired L (a ++ b) := by
  induction ha with
  | nil => simpa using hb
  | hit l m t _ ih => exact .hit l m _ ih
  | other e t h1 h2 _ ih => exact .other e _ h1 h2 ih

theorem Paired.flatMap {L : Nat} {β} (f : β → List (Ev J)) (l : List β) (h : ∀ x ∈ l, Paired L (f x)) :
    Paired L (l.flatMap f) := by
  induction l with
  | nil => exact .nil
  | cons x xs ih =>
    simp only [List.flatMap_cons]
    exact (h x (by simp)).append (ih (fun y hy => h y (List.mem_cons_of_mem _ hy)))

/-- aligned: the hits are the results -/
theorem Paired.hits_eq {L : Nat} {evs : List (Ev J)} (h : Paired L evs) : leafHits L evs = resultsOf evs := by
  induction h with
  | nil => rfl
  | hit l m t _ ih => simp [ih]
  | other e t h1 h2 _ ih =>
    have a : leafHits L (e :: t) = leafHits L t := by simp [leafHits, List.filterMap_cons, h1]
    have b : resultsOf (e :: t) = resultsOf t := by
      cases e <;> simp [resultsOf, List.filterMap_cons]
      exact absurd rfl (h2 _)
    rw [a, b, ih]

/-- … and stay so on the prefix through the first exception -/
theorem Paired.ttr {L : Nat} {evs : List (Ev J)} (h : Paired L evs) : Paired L (takeThroughRaise evs) := by
  induction h with
  | nil => exact .nil
  | hit l m t _ ih => simpa [takeThroughRaise] using Paired.hit l m _ ih
  | other e t h1 h2 _ ih =>
    cases e with
    | raised x => simpa [takeThroughRaise] using Paired.other (.raised x) [] h1 h2 .nil
    | attempt l i nx st => simpa [takeThroughRaise] using Paired.other _ _ h1 h2 ih
    | predCall c => simpa [takeThroughRaise] using Paired.other _ _ h1 h2 ih
    | fnCall nm a => simpa [takeThroughRaise] using Paired.other _ _ h1 h2 ih
    | result c => exact absurd rfl (h2 c)
    | stop => simpa [takeThroughRaise] using Paired.other _ _ h1 h2 ih

/-- events of a predicate that keeps to itself -/
theorem paired_of_own (L : Nat) (evs : List (Ev J)) (h1 : attemptsTop evs = 0) (h2 : resultsOf evs = []) : Paired L evs := by
  induction evs with
  | nil => exact .nil
  | cons e t ih =>
    cases e with
    | attempt l vi nx st =>
      cases st with
      | none => rw [attemptsTop_attempt] at h1; omega
      | some s =>
        have a : attemptsTop t = 0 := by simpa [attemptsTop, List.countP_cons] using h1
        have b : resultsOf t = [] := by simpa [resultsOf, List.filterMap_cons] using h2
        exact .other _ _ (by cases nx <;> rfl) (by intro m hm; cases hm) (ih a b)
    | predCall c =>
      rw [attemptsTop_predCall] at h1
      exact .other _ _ rfl (by intro m hm; cases hm) (ih h1 (by simpa using h2))
    | result c => simp at h2
    | raised x =>
      rw [attemptsTop_raised] at h1
      exact .other _ _ rfl (by intro m hm; cases hm) (ih h1 (by simpa [resultsOf, List.filterMap_cons] using h2))
    | fnCall nm a =>
      have a' : attemptsTop t = 0 := by simpa [attemptsTop, List.countP_cons] using h1
      exact .other _ _ rfl (by intro m hm; cases hm) (ih a' (by simpa [resultsOf, List.filterMap_cons] using h2))
    | stop =>
      have a' : attemptsTop t = 0 := by simpa [attemptsTop, List.countP_cons] using h1
      exact .other _ _ rfl (by intro m hm; cases hm) (ih a' (by simpa [resultsOf, List.filterMap_cons] using h2))

theorem paired_miss (L : Nat) (l : MNode J) (i : Nat) : Paired L [.attempt l i none none] :=
  .other _ _ rfl (by intro m hm; cases hm) .nil

theorem paired_recChild (k : MNode J → List (Ev J)) (last : Bool) (vi L : Nat)
    (hB : last = true ↔ vi + 1 = L)
    (hk : ∀ n' m : MNode J, Paired L (.attempt n' (vi+1) (some m) none :: k m)) :
    ∀ (N : Nat) (x : J), J.sz x ≤ N → ∀ (n : MNode J) (nm : Name), Paired L (recChild k last vi n nm x) := by
  intro N
  induction N with
  | zero => intro x hx; cases x <;> simp [J.sz] at hx
  | succ N ihN =>
    intro x hx n nm
    cases hc : allItems x.view with
    | none =>
      rw [recChild_scalar _ _ _ _ _ _ hc]
      by_cases hl : last = true
      · have e := hB.mp hl
        simp only [hl, if_true, e]
        exact .hit _ _ _ .nil
      · have hne : ¬ vi + 1 = L := fun e => hl (hB.mpr e)
        simp only [hl]
        exact .other _ _ (by simp [leafHit, hne]) (by intro m hm; cases hm) (paired_miss L _ _)
    | some its =>
      rw [recChild_container _ _ _ _ _ _ its hc]
      have hsmall : ∀ nm' x', (nm', x') ∈ its → J.sz x' ≤ N := by
        intro nm' x' hm
        cases x <;> simp [J.view, allItems] at hc
        · subst hc; have := sz_mem_listItems _ nm' x' hm; omega
        · subst hc; have := sz_mem_dictItems _ nm' x' hm; omega
      have hitems : Paired L (recItems k last vi (.child n nm x) its) :=
        Paired.flatMap _ its (fun it hit => ihN it.2 (hsmall it.1 it.2 hit) (.child n nm x) it.1)
      have h0 := hk n (.imag (.child n nm x))
      have := (h0.append hitems).append (paired_miss L (.child n nm x) (vi+1))
      simpa [List.append_assoc] using this

/-- every hit of the stream is directly followed by its result -/
theorem stream_paired (p : List (Step J)) (hne : p ≠ []) (hs : PredsStamped p) (hsil : PredsSilent p) :
    ∀ (vi : Nat) (n : MNode J), Paired (vi + p.length) (stream p vi n) := by
  induction p with
  | nil => exact absurd rfl hne
  | cons s rest ih =>
    intro vi n
    have hs' : PredsStamped rest := fun t ht => hs t (List.mem_cons_of_mem _ ht)
    have hsil' : PredsSilent rest := fun t ht => hsil t (List.mem_cons_of_mem _ ht)
    have hk : ∀ n' m : MNode J, Paired (vi + (s :: rest).length) (.attempt n' (vi+1) (some m) none :: stream rest (vi+1) m) := by
      intro n' m
      cases rest with
      | nil =>
        have : vi + [s].length = vi + 1 := rfl
        rw [this]
        simpa [stream] using Paired.hit n' m [] .nil
      | cons r rs =>
        have := ih (by simp) hs' hsil' (vi+1) m
        have hL : vi + 1 + (r :: rs).length = vi + (s :: r :: rs).length := by simp [List.length_cons]; omega
        rw [hL] at this
        have hne' : ¬ vi + 1 = vi + (s :: r :: rs).length := by simp [List.length_cons]
        exact .other _ _ (by simp [leafHit, hne']) (by intro m' hm; cases hm) this
    have miss := paired_miss (vi + (s :: rest).length) n (vi+1)
    cases hcls : s.cls with
    | single =>
      simp only [stream, hcls]
      cases hso : singleOf J.view s n with
      | none => exact miss
      | some n' => exact hk n n'
    | filter =>
      cases s <;> simp [Step.cls] at hcls
      rename_i f
      have h1 := paired_of_own (vi + (Step.filter f :: rest).length) _ (hs (.filter f) (by simp) f rfl n)
        (hsil (.filter f) (by simp) f rfl n)
      simp only [stream, Step.cls]
      refine .other _ _ rfl (by intro m hm; cases hm) (h1.append ?_)
      cases hr : (f n).res with
      | val j =>
        by_cases ht : j.truthy
        · simp only [ht, if_true]; exact hk n (.imag n)
        · simp only [ht]; exact miss
      | raise e => exact .other _ _ rfl (by intro m hm; cases hm) .nil
    | multi =>
      simp only [stream, hcls]
      cases hio : itemsOf s n.data.view with
      | wrongKind => exact miss
      | valueError => exact .other _ _ rfl (by intro m hm; cases hm) .nil
      | ok its => exact (Paired.flatMap _ its (fun it _ => hk n (.child n it.1 it.2))).append miss
    | recur =>
      cases s <;> simp [Step.cls] at hcls
      simp only [stream, Step.cls]
      cases hc : allItems n.data.view with
      | none =>
        have hnc : n.data.isContainer = false := by
          have := allItems_isContainer n.data; rw [hc] at this; simpa using this.symm
        simp only [hnc]
        exact miss
      | some its =>
        have hnc : n.data.isContainer = true := by
          have := allItems_isContainer n.data; rw [hc] at this; simpa using this.symm
        have hB : rest.isEmpty = true ↔ vi + 1 = vi + (Step.recur :: rest).length := by
          cases rest <;> simp [List.length_cons]
        have hitems : Paired (vi + (Step.recur :: rest).length) (recItems (fun m => stream rest (vi+1) m) rest.isEmpty vi n its) :=
          Paired.flatMap _ its (fun it _ =>
            paired_recChild (fun m => stream rest (vi+1) m) rest.isEmpty vi _ hB hk (J.sz it.2) it.2 (Nat.le_refl _) n it.1)
        have := ((hk n (.imag n)).append hitems).append miss
        simpa [hnc, recBody_items _ _ _ _ _ its hc, List.append_assoc] using this

/-- **leaf events = results, through the first exception** -/
theorem leaf_hits_are_results_x (p : List (Step J)) (hne : p ≠ []) (hs : PredsStamped p) (hsil : PredsSilent p)
    (vi : Nat) (n : MNode J) :
    leafHits (vi + p.length) (takeThroughRaise (stream p vi n)) = resultsOf (takeThroughRaise (stream p vi n)) :=
  (stream_paired p hne hs hsil vi n).ttr.hits_eq

end Treepath
