import Treepath.Proofs.Sim
import Treepath.Proofs.StreamExc
/-
Simulation without the `Quiet` premise: predicates may raise, slices may have a zero step.
The stack machine *plays* the specification stream — to its end, or through its first
`raised` event, where it is stuck in the attempt that raises (and raises again when asked).
-/
namespace Treepath

theorem firstRaise_append {α} (a b : List (Ev α)) :
    firstRaise (a ++ b) = match firstRaise a with | some e => some e | none => firstRaise b := by
  induction a with
  | nil => simp [firstRaise]
  | cons e t ih => cases e <;> simp [firstRaise, ih]

theorem ttr_append_none {α} (a b : List (Ev α)) (h : firstRaise a = none) :
    takeThroughRaise (a ++ b) = a ++ takeThroughRaise b := by
  induction a with
  | nil => rfl
  | cons e t ih => cases e <;> simp [firstRaise] at h <;> simp [takeThroughRaise, ih h]

theorem ttr_append_some {α} (a b : List (Ev α)) (e : Exc) (h : firstRaise a = some e) :
    takeThroughRaise (a ++ b) = takeThroughRaise a := by
  induction a with
  | nil => simp [firstRaise] at h
  | cons x t ih =>
    cases x with
    | raised y => simp [takeThroughRaise]
    | _ => simp only [firstRaise] at h; simp [takeThroughRaise, ih h]

theorem ttr_noraise {α} (a : List (Ev α)) (h : firstRaise a = none) : takeThroughRaise a = a := by
  have := ttr_append_none a [] h
  simpa [takeThroughRaise] using this

theorem firstRaise_clean (l : List (Ev J)) (h : ∀ e ∈ l, e.isClean = true) : firstRaise l = none := by
  induction l with
  | nil => rfl
  | cons e t ih =>
    have he := h e (by simp)
    have := ih (fun x hx => h x (List.mem_cons_of_mem _ hx))
    cases e <;> simp [Ev.isClean] at he <;> simpa [firstRaise] using this

section
variable (steps : Array (Step J)) (src : Src J)

local notation "run" => arun J.view steps src

/-- an attempt state that raises `e` and stays where it is -/
def StuckAt (U : AS J) (e : Exc) : Prop :=
  ∃ evs, astep J.view steps src U = (U, evs, .raised e) ∧ firstRaise evs = some e

/-- started at `S` the machine plays `evs`: to the end, arriving at `T`; or through the
first raise, stuck there -/
def Plays (S T : AS J) (evs : List (Ev J)) : Prop :=
  (firstRaise evs = none ∧ ∃ k, run k S = (T, evs)) ∨
  (∃ e, firstRaise evs = some e ∧ ∃ k U, run k S = (U, takeThroughRaise evs) ∧ StuckAt steps src U e)

theorem Plays.refl (S : AS J) : Plays steps src S S [] := .inl ⟨rfl, 0, rfl⟩

theorem Plays.step {S T : AS J} {evs : List (Ev J)} {sig : Sig J}
    (h : astep J.view steps src S = (T, evs, sig)) (hn : firstRaise evs = none) : Plays steps src S T evs :=
  .inl ⟨hn, 1, by rw [arun_one, h]⟩

theorem Plays.raise {S : AS J} (T : AS J) {evs : List (Ev J)} {e : Exc}
    (h : astep J.view steps src S = (S, evs, .raised e)) (hf : firstRaise evs = some e)
    (ht : takeThroughRaise evs = evs) : Plays steps src S T evs :=
  .inr ⟨e, hf, 1, S, by rw [arun_one, h, ht], evs, h, hf⟩

theorem Plays.trans {S T V : AS J} {a b : List (Ev J)}
    (h1 : Plays steps src S T a) (h2 : Plays steps src T V b) : Plays steps src S V (a ++ b) := by
  rcases h1 with ⟨ha, k1, hk1⟩ | ⟨e, ha, k1, U, hk1, hU⟩
  · rcases h2 with ⟨hb, k2, hk2⟩ | ⟨e, hb, k2, U, hk2, hU⟩
    · exact .inl ⟨by rw [firstRaise_append, ha, hb], k1 + k2, by rw [arun_add, hk1, hk2]⟩
    · refine .inr ⟨e, by rw [firstRaise_append, ha, hb], k1 + k2, U, ?_, hU⟩
      rw [arun_add, hk1, hk2, ttr_append_none a b ha]
  · exact .inr ⟨e, by rw [firstRaise_append, ha], k1, U, by rw [ttr_append_some a b e ha]; exact hk1, hU⟩

/-- the remaining items of a suspended (non-recursive) multi-valued step -/
theorem parked_plays (s : Step J) (rest : List (Step J)) (vi : Nat) (n : MNode J)
    (hs : steps[vi]? = some s) (hnr : s.isRecur = false)
    (ih : ∀ (c : MNode J) (stk : List (Frame J)),
        Plays steps src (.report c (vi+1) (vi+1) stk) (resume stk) (stream rest (vi+1) c))
    (its : List (Name × J)) (stk : List (Frame J)) :
    Plays steps src (.parked (⟨n, vi, its⟩ :: stk)) (resume stk)
      ((its.flatMap fun (nm, x) =>
          Ev.attempt n (vi+1) (some (MNode.child n nm x)) none :: stream rest (vi+1) (MNode.child n nm x))
        ++ [Ev.attempt n (vi+1) none none]) := by
  have hstep : ∀ its, astep J.view steps src (.parked (⟨n, vi, its⟩ :: stk)) = aIter n vi its stk := by
    intro its
    simp only [astep, hs]
    cases s <;> simp [Step.isRecur] at hnr <;> rfl
  induction its with
  | nil =>
    have : astep J.view steps src (.parked (⟨n, vi, []⟩ :: stk)) = (resume stk, [Ev.attempt n (vi+1) none none], .none) := by
      rw [hstep]; rfl
    simpa using Plays.step steps src this rfl
  | cons it tl ihl =>
    obtain ⟨nm, x⟩ := it
    have a1 : astep J.view steps src (.parked (⟨n, vi, (nm, x) :: tl⟩ :: stk)) =
        (.report (.child n nm x) (vi+1) (vi+1) (⟨n, vi, tl⟩ :: stk), [Ev.attempt n (vi+1) (some (.child n nm x)) none], .none) := by
      rw [hstep]; rfl
    have p1 := Plays.step steps src a1 rfl
    have p2 := ih (.child n nm x) (⟨n, vi, tl⟩ :: stk)
    have hr : resume (⟨n, vi, tl⟩ :: stk) = AS.parked (⟨n, vi, tl⟩ :: stk) := rfl
    rw [hr] at p2
    have := (p1.trans steps src p2).trans steps src ihl
    simpa [List.append_assoc] using this

/-- the recursive step over the remaining children -/
theorem rec_items_plays (kk : MNode J → List (Ev J)) (last : Bool) (vi : Nat) (n : MNode J)
    (hs : steps[vi]? = some .recur) (its : List (Name × J)) (stk : List (Frame J))
    (hchild : ∀ nm x tl, (nm, x) ∈ its →
      Plays steps src (.parked (⟨n, vi, (nm, x) :: tl⟩ :: stk)) (AS.parked (⟨n, vi, tl⟩ :: stk)) (recChild kk last vi n nm x)) :
    Plays steps src (.parked (⟨n, vi, its⟩ :: stk)) (resume stk)
      (recItems kk last vi n its ++ [Ev.attempt n (vi+1) none none]) := by
  induction its with
  | nil =>
    have : astep J.view steps src (.parked (⟨n, vi, []⟩ :: stk)) = (resume stk, [Ev.attempt n (vi+1) none none], .none) := by
      simp [astep, hs, aRecIter]
    simpa [recItems] using Plays.step steps src this rfl
  | cons it tl ihl =>
    obtain ⟨nm, x⟩ := it
    have p1 := hchild nm x tl (by simp)
    have p2 := ihl (fun nm' x' tl' hm => hchild nm' x' tl' (List.mem_cons_of_mem _ hm))
    have := p1.trans steps src p2
    simpa [recItems, List.flatMap_cons, List.append_assoc] using this

/-- one child of a recursive step (strong induction on the size of its value) -/
theorem rec_child_plays (rest : List (Step J)) (vi : Nat)
    (hs : steps[vi]? = some .recur) (hlast : (vi + 1 = steps.size) ↔ rest = [])
    (ih : ∀ (c : MNode J) (stk : List (Frame J)),
        Plays steps src (.report c (vi+1) (vi+1) stk) (resume stk) (stream rest (vi+1) c)) :
    ∀ (N : Nat) (x : J), J.sz x ≤ N → ∀ (n : MNode J) (nm : Name) (tl : List (Name × J)) (stk : List (Frame J)),
      Plays steps src (.parked (⟨n, vi, (nm, x) :: tl⟩ :: stk)) (AS.parked (⟨n, vi, tl⟩ :: stk))
        (recChild (fun m => stream rest (vi+1) m) rest.isEmpty vi n nm x) := by
  intro N
  induction N with
  | zero => intro x hx; cases x <;> simp [J.sz] at hx
  | succ N ihN =>
    intro x hx n nm tl stk
    have hstep : astep J.view steps src (.parked (⟨n, vi, (nm, x) :: tl⟩ :: stk)) = aRecIter J.view n vi ((nm, x) :: tl) stk := by
      simp [astep, hs]
    cases hc : allItems x.view with
    | none =>
      rw [recChild_scalar _ _ _ _ _ _ hc]
      have a1 : astep J.view steps src (.parked (⟨n, vi, (nm, x) :: tl⟩ :: stk)) =
          (.report (.child n nm x) (vi+1) vi (⟨n, vi, tl⟩ :: stk), [.attempt n (vi+1) (some (.child n nm x)) none], .none) := by
        rw [hstep]; simp [aRecIter, hc]
      have p1 := Plays.step steps src a1 rfl
      by_cases hl : vi + 1 = steps.size
      · have hre : rest.isEmpty = true := by simp [hlast.mp hl]
        have a2 : astep J.view steps src (.report (.child n nm x) (vi+1) vi (⟨n, vi, tl⟩ :: stk)) =
            (.catch_ (⟨n, vi, tl⟩ :: stk), [.result (.child n nm x)], .result (.child n nm x)) := by
          simp [astep, hl]
        have a3 : astep J.view steps src (.catch_ (⟨n, vi, tl⟩ :: stk)) = (.parked (⟨n, vi, tl⟩ :: stk), [], .none) := rfl
        have := (p1.trans steps src (Plays.step steps src a2 rfl)).trans steps src (Plays.step steps src a3 rfl)
        simpa [hre] using this
      · have hre : rest.isEmpty = false := by
          cases hr : rest with
          | nil => exact absurd (hlast.mpr hr) hl
          | cons _ _ => rfl
        have a2 : astep J.view steps src (.report (.child n nm x) (vi+1) vi (⟨n, vi, tl⟩ :: stk)) =
            (.attempt (.child n nm x) vi (⟨n, vi, tl⟩ :: stk), [], .none) := by
          simp [astep, hl]
        have a3 : astep J.view steps src (.attempt (.child n nm x) vi (⟨n, vi, tl⟩ :: stk)) =
            (.parked (⟨n, vi, tl⟩ :: stk), [.attempt (.child n nm x) (vi+1) none none], .none) := by
          simp [astep, aAttempt, hs, MNode.data, hc, resume]
        have := (p1.trans steps src (Plays.step steps src a2 rfl)).trans steps src (Plays.step steps src a3 rfl)
        simpa [hre] using this
    | some cits =>
      rw [recChild_container _ _ _ _ _ _ cits hc]
      let m := MNode.child n nm x
      have a1 : astep J.view steps src (.parked (⟨n, vi, (nm, x) :: tl⟩ :: stk)) =
          (.report (.imag m) (vi+1) (vi+1) (⟨m, vi, cits⟩ :: ⟨n, vi, tl⟩ :: stk),
           [.attempt n (vi+1) (some (.imag m)) none], .none) := by
        rw [hstep]; simp [aRecIter, hc, m]
      have p1 := Plays.step steps src a1 rfl
      have p2 := ih (.imag m) (⟨m, vi, cits⟩ :: ⟨n, vi, tl⟩ :: stk)
      have hr : resume (⟨m, vi, cits⟩ :: ⟨n, vi, tl⟩ :: stk) = AS.parked (⟨m, vi, cits⟩ :: ⟨n, vi, tl⟩ :: stk) := rfl
      rw [hr] at p2
      have hsmall : ∀ nm' x', (nm', x') ∈ cits → J.sz x' ≤ N := by
        intro nm' x' hm
        cases x <;> simp [J.view, allItems] at hc
        · subst hc; have := sz_mem_listItems _ nm' x' hm; omega
        · subst hc; have := sz_mem_dictItems _ nm' x' hm; omega
      have p3 := rec_items_plays steps src (fun m => stream rest (vi+1) m) rest.isEmpty vi m hs cits (⟨n, vi, tl⟩ :: stk)
        (fun nm' x' tl' hm => ihN x' (hsmall nm' x' hm) m nm' tl' (⟨n, vi, tl⟩ :: stk))
      have hr2 : resume (⟨n, vi, tl⟩ :: stk) = AS.parked (⟨n, vi, tl⟩ :: stk) := rfl
      rw [hr2] at p3
      have := (p1.trans steps src p2).trans steps src p3
      simpa [m, List.append_assoc] using this

/-- **Simulation, exceptions included**: with `steps = pre ++ rest` — any steps, predicates
that may raise (their own events clean) — the stack machine at `report n` plays
`stream rest pre.length n` and, unless stuck at a raise, arrives at `resume stack`. -/
theorem simx (rest : List (Step J)) :
    ∀ (pre : List (Step J)) (n : MNode J) (stk : List (Frame J)),
      steps.toList = pre ++ rest → PredsClean steps →
      Plays steps src (.report n pre.length pre.length stk) (resume stk) (stream rest pre.length n) := by
  induction rest with
  | nil =>
    intro pre n stk hd _
    have hsz : pre.length = steps.size := by
      have := congrArg List.length hd; simp at this; omega
    have a1 : astep J.view steps src (.report n pre.length pre.length stk) = (.catch_ stk, [.result n], .result n) := by
      simp [astep, hsz]
    have a2 : astep J.view steps src (.catch_ stk) = (resume stk, [], .none) := rfl
    have := (Plays.step steps src a1 rfl).trans steps src (Plays.step steps src a2 rfl)
    simpa [stream] using this
  | cons s rest ih =>
    intro pre n stk hd hp
    have hsz : steps.size = pre.length + (rest.length + 1) := by
      have := congrArg List.length hd; simp at this; omega
    have hget : steps[pre.length]? = some s := by
      rw [← Array.getElem?_toList, hd]; simp
    have hne : ¬ pre.length = steps.size := by omega
    have hd' : steps.toList = (pre ++ [s]) ++ rest := by simp [hd]
    have ih' := fun c stk => ih (pre ++ [s]) c stk hd' hp
    simp only [List.length_append, List.length_cons, List.length_nil, Nat.zero_add] at ih'
    have a0 : astep J.view steps src (.report n pre.length pre.length stk) = (.attempt n pre.length stk, [], .none) := by
      simp [astep, hne]
    have p0 := Plays.step steps src a0 rfl
    -- it suffices to play the stream from the attempt state
    suffices h : Plays steps src (.attempt n pre.length stk) (resume stk) (stream (s :: rest) pre.length n) by
      simpa using p0.trans steps src h
    have hA : astep J.view steps src (.attempt n pre.length stk) = aAttempt J.view steps n pre.length stk := rfl
    by_cases hm : s.cls = .multi
    · have hAm := aAttempt_multi steps s hm n pre.length stk hget
      have hnr : s.isRecur = false := by cases s <;> simp [Step.cls] at hm <;> rfl
      cases hio : itemsOf s n.data.view with
      | wrongKind =>
        rw [hio] at hAm
        have := Plays.step steps src (hA.trans hAm) rfl
        simpa [stream, hm, hio] using this
      | valueError =>
        rw [hio] at hAm
        have := Plays.raise steps src (resume stk) (hA.trans hAm) rfl rfl
        simpa [stream, hm, hio] using this
      | ok its =>
        rw [hio] at hAm
        have hpark : astep J.view steps src (.parked (⟨n, pre.length, its⟩ :: stk)) = aIter n pre.length its stk := by
          simp only [astep, hget]
          cases s <;> simp [Step.isRecur] at hnr <;> rfl
        have := parked_plays steps src s rest pre.length n hget hnr ih' its stk
        -- the attempt state and the parked state take the same first action
        have hsame : astep J.view steps src (.attempt n pre.length stk) = astep J.view steps src (.parked (⟨n, pre.length, its⟩ :: stk)) := by
          rw [hA, hAm, hpark]
        have key : Plays steps src (.attempt n pre.length stk) (resume stk)
            ((its.flatMap fun (nm, x) =>
              Ev.attempt n (pre.length+1) (some (MNode.child n nm x)) none :: stream rest (pre.length+1) (MNode.child n nm x))
            ++ [Ev.attempt n (pre.length+1) none none]) := by
          cases its with
          | nil =>
            have a : astep J.view steps src (.attempt n pre.length stk) = (resume stk, [Ev.attempt n (pre.length+1) none none], .none) := by
              rw [hA, hAm]; rfl
            simpa using Plays.step steps src a rfl
          | cons it tl =>
            obtain ⟨nm, x⟩ := it
            have a1 : astep J.view steps src (.attempt n pre.length stk) =
                (.report (.child n nm x) (pre.length+1) (pre.length+1) (⟨n, pre.length, tl⟩ :: stk),
                 [Ev.attempt n (pre.length+1) (some (.child n nm x)) none], .none) := by
              rw [hA, hAm]; rfl
            have p1 := Plays.step steps src a1 rfl
            have p2 := ih' (.child n nm x) (⟨n, pre.length, tl⟩ :: stk)
            have hr : resume (⟨n, pre.length, tl⟩ :: stk) = AS.parked (⟨n, pre.length, tl⟩ :: stk) := rfl
            rw [hr] at p2
            have p3 := parked_plays steps src s rest pre.length n hget hnr ih' tl stk
            have := (p1.trans steps src p2).trans steps src p3
            simpa [List.append_assoc] using this
        simpa [stream, hm, hio] using key
    cases s with
    | key k =>
      cases hso : singleOf J.view (.key k) n with
      | none =>
        have a : astep J.view steps src (.attempt n pre.length stk) = (resume stk, [Ev.attempt n (pre.length+1) none none], .none) := by
          simp [astep, aAttempt, hget, hso]
        simpa [stream, Step.cls, hso] using Plays.step steps src a rfl
      | some n' =>
        have a : astep J.view steps src (.attempt n pre.length stk) =
            (.report n' (pre.length+1) (pre.length+1) stk, [Ev.attempt n (pre.length+1) (some n') none], .none) := by
          simp [astep, aAttempt, hget, hso]
        simpa [stream, Step.cls, hso] using (Plays.step steps src a rfl).trans steps src (ih' n' stk)
    | idx i =>
      cases hso : singleOf J.view (.idx i) n with
      | none =>
        have a : astep J.view steps src (.attempt n pre.length stk) = (resume stk, [Ev.attempt n (pre.length+1) none none], .none) := by
          simp [astep, aAttempt, hget, hso]
        simpa [stream, Step.cls, hso] using Plays.step steps src a rfl
      | some n' =>
        have a : astep J.view steps src (.attempt n pre.length stk) =
            (.report n' (pre.length+1) (pre.length+1) stk, [Ev.attempt n (pre.length+1) (some n') none], .none) := by
          simp [astep, aAttempt, hget, hso]
        simpa [stream, Step.cls, hso] using (Plays.step steps src a rfl).trans steps src (ih' n' stk)
    | parent =>
      cases hso : singleOf J.view .parent n with
      | none =>
        have a : astep J.view steps src (.attempt n pre.length stk) = (resume stk, [Ev.attempt n (pre.length+1) none none], .none) := by
          simp [astep, aAttempt, hget, hso]
        simpa [stream, Step.cls, hso] using Plays.step steps src a rfl
      | some n' =>
        have a : astep J.view steps src (.attempt n pre.length stk) =
            (.report n' (pre.length+1) (pre.length+1) stk, [Ev.attempt n (pre.length+1) (some n') none], .none) := by
          simp [astep, aAttempt, hget, hso]
        simpa [stream, Step.cls, hso] using (Plays.step steps src a rfl).trans steps src (ih' n' stk)
    | filter f =>
      have hcl : firstRaise (f n).evs = none :=
        firstRaise_clean _ (hp (.filter f) (by rw [hd]; simp) f rfl n)
      cases hres : (f n).res with
      | val j =>
        by_cases ht : j.truthy = true
        · have a : astep J.view steps src (.attempt n pre.length stk) =
              (.report (.imag n) (pre.length+1) (pre.length+1) stk,
               (Ev.predCall n :: (f n).evs) ++ [Ev.attempt n (pre.length+1) (some (.imag n)) none], .none) := by
            simp [astep, aAttempt, hget, hres, ht]
          have hn : firstRaise ((Ev.predCall n :: (f n).evs) ++ [Ev.attempt n (pre.length+1) (some (.imag n)) none]) = none := by
            rw [firstRaise_append]; simp [firstRaise, hcl]
          have := (Plays.step steps src a hn).trans steps src (ih' (.imag n) stk)
          simpa [stream, Step.cls, hres, ht, List.append_assoc] using this
        · have a : astep J.view steps src (.attempt n pre.length stk) =
              (resume stk, (Ev.predCall n :: (f n).evs) ++ [Ev.attempt n (pre.length+1) none none], .none) := by
            simp [astep, aAttempt, hget, hres, ht]
          have hn : firstRaise ((Ev.predCall n :: (f n).evs) ++ [Ev.attempt n (pre.length+1) none none]) = none := by
            rw [firstRaise_append]; simp [firstRaise, hcl]
          simpa [stream, Step.cls, hres, ht] using Plays.step steps src a hn
      | raise e =>
        have a : astep J.view steps src (.attempt n pre.length stk) =
            (.attempt n pre.length stk, Ev.predCall n :: (f n).evs ++ [Ev.raised (.traversing e)], .raised (.traversing e)) := by
          simp [astep, aAttempt, hget, hres]
        have hf : firstRaise (Ev.predCall n :: (f n).evs ++ [Ev.raised (.traversing e)]) = some (.traversing e) := by
          have := firstRaise_append (Ev.predCall n :: (f n).evs) [Ev.raised (.traversing e)]
          simp only [List.cons_append] at this ⊢
          rw [this]; simp [firstRaise, hcl]
        have ht : takeThroughRaise (Ev.predCall n :: (f n).evs ++ [Ev.raised (.traversing e)]) =
            Ev.predCall n :: (f n).evs ++ [Ev.raised (.traversing e)] := by
          have := ttr_append_none (Ev.predCall n :: (f n).evs) [Ev.raised (.traversing e)] (by simp [firstRaise, hcl])
          simpa [takeThroughRaise] using this
        have := Plays.raise steps src (resume stk) a hf ht
        simpa [stream, Step.cls, hres] using this
    | recur =>
      have hlast : (pre.length + 1 = steps.size) ↔ rest = [] := by
        constructor
        · intro h; have : rest.length = 0 := by omega
          exact List.length_eq_zero_iff.mp this
        · intro h; subst h; simp at hsz; omega
      cases hc : allItems n.data.view with
      | none =>
        have hnc : n.data.isContainer = false := by
          have := allItems_isContainer n.data; rw [hc] at this; simpa using this.symm
        have a : astep J.view steps src (.attempt n pre.length stk) = (resume stk, [Ev.attempt n (pre.length+1) none none], .none) := by
          simp [astep, aAttempt, hget, hc]
        simpa [stream, Step.cls, hnc] using Plays.step steps src a rfl
      | some its =>
        have hnc : n.data.isContainer = true := by
          have := allItems_isContainer n.data; rw [hc] at this; simpa using this.symm
        have a : astep J.view steps src (.attempt n pre.length stk) =
            (.report (.imag n) (pre.length+1) (pre.length+1) (⟨n, pre.length, its⟩ :: stk),
             [Ev.attempt n (pre.length+1) (some (.imag n)) none], .none) := by
          simp [astep, aAttempt, hget, hc]
        have p1 := Plays.step steps src a rfl
        have p2 := ih' (.imag n) (⟨n, pre.length, its⟩ :: stk)
        have hr : resume (⟨n, pre.length, its⟩ :: stk) = AS.parked (⟨n, pre.length, its⟩ :: stk) := rfl
        rw [hr] at p2
        have p3 := rec_items_plays steps src (fun m => stream rest (pre.length+1) m) rest.isEmpty pre.length n hget its stk
          (fun nm x tl _ => rec_child_plays steps src rest pre.length hget hlast ih' (J.sz x) x (Nat.le_refl _) n nm tl stk)
        have := (p1.trans steps src p2).trans steps src p3
        simpa [stream, Step.cls, hnc, recBody_items _ _ _ _ _ its hc, List.append_assoc] using this
    | slice a b c => simp [Step.cls] at hm
    | tuple ns => simp [Step.cls] at hm
    | keyWc => simp [Step.cls] at hm
    | idxWc => simp [Step.cls] at hm
    | gwc => simp [Step.cls] at hm

/-- the whole search of a fresh stack machine -/
theorem simx_init (hp : PredsClean steps) :
    Plays steps src .init .done (stream steps.toList 0 src.rootNode) := by
  have a : astep J.view steps src .init = (.report src.rootNode 0 0 [], [], .none) := rfl
  have := (Plays.step steps src a rfl).trans steps src (simx steps src steps.toList [] src.rootNode [] (by simp) hp)
  simpa [resume] using this

end
end Treepath
